import Vgi.Proofs.HttpStream
/-!
# C16 — HTTP continuations advance the stream exactly one turn

Property theorems about `Vgi.HttpStream` (model of `vgirpc/http_stream.go`:
`handleStreamExchange`, `handleExchangeCall`, `handleStreamCancel`, `handleProducerContinuation`,
`runProduceLoop`, `stripFrameworkTickMetadata`; `vgirpc/stream.go`: `OutputCollector`).

Every statement is for all configurations, all worlds (= every history that led to the current set
of minted cursors), all requests (arbitrary metadata lists, including duplicates and keys equal to
the framework keys), all scripted states (arbitrary per-turn programs) and all environment sizes.
-/
namespace Vgi.Props.C16
open Vgi Vgi.HttpStream Vgi.Generated.C16

/-- the metadata a handler invocation saw -/
def seenOf : Event → Meta
  | .exchange _ s _ => s
  | .produce _ s => s
  | .cancel => []

/-- no batch of the response carries a token-valued metadata entry -/
def TokenFree (r : Resp) : Prop := ∀ b ∈ r.batches, LitOnly (rbMeta b)

/-- the response carries an exception batch -/
def HasExc (r : Resp) : Prop := ∃ e, RBatch.exc e ∈ r.batches

/-! ## Facts regenerated from the source (tools/factgen/c16) -/

/-- The key table `frameworkTickMetadataKeys` is exactly the token, call-token and cancel keys. -/
theorem framework_keys_are_token_call_cancel (k : Bytes) :
    k ∈ frameworkKeys ↔ k = keyState ∨ k = keyCall ∨ k = keyCancel :=
  framework_keys_exact k

/-! ## The handler sees the request's own metadata minus the framework keys -/

/-- **strip_exact**: stripping removes exactly the entries under the three framework keys — every
other entry is kept, in order, with its value (duplicates included). -/
theorem strip_exact (m : Meta) :
    stripFramework m = m.filter fun kv => decide (kv.1 ≠ keyState ∧ kv.1 ≠ keyCall ∧ kv.1 ≠ keyCancel) :=
  strip_eq m

theorem strip_no_framework_key (m : Meta) :
    ∀ kv ∈ stripFramework m, kv.1 ≠ keyState ∧ kv.1 ≠ keyCall ∧ kv.1 ≠ keyCancel := by
  intro kv h
  rw [strip_eq] at h
  simpa using (List.mem_filter.mp h).2

theorem strip_sublist (m : Meta) : List.Sublist (stripFramework m) m := by
  unfold stripFramework
  exact List.filter_sublist

/-- **events_shape**: one continuation request makes at most one kind of handler call: nothing, one
`OnCancel`, one `Exchange` (on the stripped request metadata and the request's input), or a run of
`Produce` calls of which the first sees the stripped request metadata and the others none. -/
theorem events_shape (cfg : Cfg) (w : World) (req : Req) :
    (handleExchange cfg w req).2.2 = [] ∨
    (handleExchange cfg w req).2.2 = [Event.cancel] ∨
    (∃ pos, (handleExchange cfg w req).2.2 = [Event.exchange pos (stripFramework req.md) req.vals]) ∨
    (∃ pos tail, (handleExchange cfg w req).2.2 = Event.produce pos (stripFramework req.md) :: tail ∧
        ∀ ev ∈ tail, ∃ p, ev = Event.produce p []) := by
  rcases handleExchange_cases cfg w req with ⟨e, w0, h, hm0, hc0⟩ | ⟨tv, cur, w1, _, _, _, _, _, _, h⟩
  · rw [h]; exact Or.inl rfl
  · rcases h with ⟨_, h⟩ | ⟨_, _, h⟩ | ⟨_, _, _, h⟩
    · rw [h]
      unfold cancelTurn
      cases cur.st.cancel <;> simp
    · rw [h]
      refine Or.inr (Or.inr (Or.inr ?_))
      obtain ⟨_, _, _, tail, h4, h5⟩ := produceLoop_spec cfg (cur.st.prog.drop cur.st.pos) cur.st.pos
        (some (stripFramework req.md)) 0 0 req.env.ticks req.env.body0 req.env.sizes
      refine ⟨cur.st.pos, tail, ?_, h5⟩
      unfold producerContinuation
      simp only []
      split <;> simpa using h4
    · rw [h]
      exact Or.inr (Or.inr (Or.inl ⟨cur.st.pos, (exchangeCall_spec cfg w1 cur req).1⟩))

/-- **handler_meta**: whatever a handler call sees is the request's metadata with the framework
keys filtered out (or nothing); in particular no framework key ever reaches a handler, also when
the client's own metadata uses those keys. -/
theorem handler_meta (cfg : Cfg) (w : World) (req : Req) :
    ∀ ev ∈ (handleExchange cfg w req).2.2,
      (seenOf ev = stripFramework req.md ∨ seenOf ev = []) ∧
      (∀ pos seen input, ev = Event.exchange pos seen input → seen = stripFramework req.md ∧ input = req.vals) ∧
      (∀ kv ∈ seenOf ev, kv.1 ≠ keyState ∧ kv.1 ≠ keyCall ∧ kv.1 ≠ keyCancel) := by
  intro ev hev
  have key : (seenOf ev = stripFramework req.md ∨ seenOf ev = []) ∧
      (∀ pos seen input, ev = Event.exchange pos seen input → seen = stripFramework req.md ∧ input = req.vals) := by
    rcases events_shape cfg w req with h | h | ⟨pos, h⟩ | ⟨pos, tail, h, ht⟩
    · rw [h] at hev; cases hev
    · rw [h] at hev; simp at hev; subst hev
      exact ⟨Or.inr rfl, by intro _ _ _ h; cases h⟩
    · rw [h] at hev; simp at hev; subst hev
      exact ⟨Or.inl rfl, by intro _ _ _ h; cases h; exact ⟨rfl, rfl⟩⟩
    · rw [h] at hev; simp at hev
      rcases hev with rfl | hev
      · exact ⟨Or.inl rfl, by intro _ _ _ h; cases h⟩
      · obtain ⟨p, rfl⟩ := ht ev hev
        exact ⟨Or.inr rfl, by intro _ _ _ h; cases h⟩
  refine ⟨key.1, key.2, ?_⟩
  intro kv hkv
  rcases key.1 with h | h
  · rw [h] at hkv; exact strip_no_framework_key req.md kv hkv
  · rw [h] at hkv; cases hkv

/-- **token_never_visible**: every entry a handler sees is an entry of the request under a
non-framework key; so when the client keeps its tokens where the protocol puts them (under the
framework keys), no token value ever reaches a handler. -/
theorem token_never_visible (cfg : Cfg) (w : World) (req : Req) :
    (∀ ev ∈ (handleExchange cfg w req).2.2, ∀ kv ∈ seenOf ev, kv ∈ req.md ∧ isFramework kv.1 = false) ∧
    ((∀ kv ∈ req.md, isFramework kv.1 = true ∨ ∃ b, kv.2 = Val.lit b) →
      ∀ ev ∈ (handleExchange cfg w req).2.2, LitOnly (seenOf ev)) := by
  have h1 : ∀ ev ∈ (handleExchange cfg w req).2.2, ∀ kv ∈ seenOf ev, kv ∈ req.md ∧ isFramework kv.1 = false := by
    intro ev hev kv hkv
    rcases (handler_meta cfg w req ev hev).1 with h | h
    · rw [h] at hkv
      unfold stripFramework at hkv
      have := List.mem_filter.mp hkv
      exact ⟨this.1, by simpa using this.2⟩
    · rw [h] at hkv; cases hkv
  refine ⟨h1, ?_⟩
  intro hwf ev hev kv hkv
  obtain ⟨hin, hnf⟩ := h1 ev hev kv hkv
  rcases hwf kv hin with h | h
  · rw [hnf] at h; cases h
  · exact h

/-! ## An accepted exchange continuation is exactly one turn -/

theorem mergeToken_tokens (tok : Val) (md : List (Bytes × Bytes)) :
    ∀ kv ∈ mergeToken tok md, (∃ b, kv.2 = Val.lit b) ∨ kv = (keyState, tok) := by
  intro kv hkv
  unfold mergeToken at hkv
  rcases List.mem_append.mp hkv with h | h
  · exact Or.inl (litMeta_litOnly _ kv h)
  · simp at h; exact Or.inr h

/-- **one_turn**: an accepted exchange continuation (exchange route, no cancel key, answered 200
without the error header) presented a cursor that opens; the state's `Exchange` ran exactly once,
at that cursor's position, on the request's input; the response is log batches around EXACTLY ONE
data batch; a metadata lookup of the stream-state key on that batch yields a cursor that did not
exist before (fresh), no other entry of the response is a token, and that cursor opens to the
presented state advanced by exactly one position. -/
theorem one_turn (cfg : Cfg) (w : World) (req : Req)
    (hroute : req.routeProducer = false) (hnc : (getFirst keyCancel req.md).isSome = false)
    (hst : (handleExchange cfg w req).1.status = 200) (hok : (handleExchange cfg w req).1.rpcErr = false) :
    ∃ tv cur pre vs md post,
      getFirst keyState req.md = some tv ∧ openCursor w tv = some cur ∧ cur.st.producer = false ∧
      (handleExchange cfg w req).2.2 = [Event.exchange cur.st.pos (stripFramework req.md) req.vals] ∧
      (handleExchange cfg w req).1.batches
        = pre.map toR ++ RBatch.data vs (mergeToken (.cursor w.minted.length) md) :: post.map toR ∧
      AllLog pre ∧ AllLog post ∧
      (handleExchange cfg w req).1.batches.filter isData
        = [RBatch.data vs (mergeToken (.cursor w.minted.length) md)] ∧
      getFirst keyState (mergeToken (.cursor w.minted.length) md) = some (.cursor w.minted.length) ∧
      openCursor w (.cursor w.minted.length) = none ∧
      (handleExchange cfg w req).2.1.minted = w.minted ++ [advance cur (cur.st.pos + 1)] ∧
      openCursor (handleExchange cfg w req).2.1 (.cursor w.minted.length) = some (advance cur (cur.st.pos + 1)) ∧
      ¬ HasExc (handleExchange cfg w req).1 := by
  rcases handleExchange_cases cfg w req with ⟨e, w0, h, hm0, hc0⟩ | ⟨tv, cur, w1, htv, hcur, hp, _, hm, _, h⟩
  · rw [h] at hst; simp [errResp] at hst
  · rw [hroute] at hp
    rcases h with ⟨hc, _⟩ | ⟨_, hr, _⟩ | ⟨_, _, _, h⟩
    · rw [hnc] at hc; cases hc
    · rw [hroute] at hr; cases hr
    · obtain ⟨hev, hsp⟩ := exchangeCall_spec cfg w1 cur req
      rw [← h] at hev hsp
      rcases hsp with ⟨e, he, _⟩ | ⟨pre, vs, md, post, hb, hpre, hpost, hw⟩
      · rw [he] at hok; simp [errResp] at hok
      · rw [hm] at hb hw
        have hfilter : (pre.map toR ++ RBatch.data vs (mergeToken (.cursor w.minted.length) md) :: post.map toR).filter isData
            = [RBatch.data vs (mergeToken (.cursor w.minted.length) md)] := by
          rw [List.filter_append, filter_isData_logs pre hpre, List.filter_cons]
          simp [isData, filter_isData_logs post hpost]
        refine ⟨tv, cur, pre, vs, md, post, htv, hcur, hp, hev, by rw [hb], hpre, hpost, by rw [hb]; exact hfilter,
          getFirst_mergeToken _ _, by simp [openCursor], by rw [hw], by rw [hw]; simp [openCursor], ?_⟩
        rintro ⟨e, he⟩
        rw [hb] at he
        simp only [List.mem_append, List.mem_cons, List.mem_map] at he
        rcases he with ⟨o, _, ho⟩ | he | ⟨o, _, ho⟩
        · cases o <;> simp [toR] at ho
        · cases he
        · cases o <;> simp [toR] at ho

/-- **cursor_only_on_data**: in an accepted exchange response the only token-valued metadata entry
is the fresh cursor under the stream-state key of the data batch — never on a log batch, never a
call token, never an older cursor. -/
theorem cursor_only_on_data (cfg : Cfg) (w : World) (req : Req)
    (hroute : req.routeProducer = false) (hnc : (getFirst keyCancel req.md).isSome = false)
    (hst : (handleExchange cfg w req).1.status = 200) (hok : (handleExchange cfg w req).1.rpcErr = false) :
    ∀ b ∈ (handleExchange cfg w req).1.batches, ∀ kv ∈ rbMeta b,
      (∃ x, kv.2 = Val.lit x) ∨ (isData b = true ∧ kv = (keyState, Val.cursor w.minted.length)) := by
  obtain ⟨tv, cur, pre, vs, md, post, _, _, _, _, hb, _, _, _, _, _, _, _, _⟩ := one_turn cfg w req hroute hnc hst hok
  intro b hbm kv hkv
  rw [hb] at hbm
  simp only [List.mem_append, List.mem_cons, List.mem_map] at hbm
  rcases hbm with ⟨o, _, rfl⟩ | rfl | ⟨o, _, rfl⟩
  · exact Or.inl (toR_litOnly o kv hkv)
  · rcases mergeToken_tokens _ md kv (by simpa [rbMeta] using hkv) with h | h
    · exact Or.inl h
    · exact Or.inr ⟨rfl, h⟩
  · exact Or.inl (toR_litOnly o kv hkv)

/-! ## A failed turn returns an error and no cursor -/

/-- **failed_turn_no_cursor** (exchange route): a continuation that is not accepted — refused
before dispatch, or the turn failed (handler error, panic, no data batch, a propagated second-emit /
finish error, a response-cap refusal) — is answered with exactly one exception batch and nothing
else; no cursor is minted, so no metadata of the response is a token and the stream has ended. -/
theorem failed_turn_no_cursor (cfg : Cfg) (w : World) (req : Req)
    (hroute : req.routeProducer = false) (hnc : (getFirst keyCancel req.md).isSome = false)
    (hfail : ¬ ((handleExchange cfg w req).1.status = 200 ∧ (handleExchange cfg w req).1.rpcErr = false)) :
    (∃ e, (handleExchange cfg w req).1.batches = [RBatch.exc e]) ∧
    (handleExchange cfg w req).2.1.minted = w.minted ∧
    (handleExchange cfg w req).2.1.calls = w.calls ∧
    TokenFree (handleExchange cfg w req).1 := by
  have fin : ∀ (r : Resp), (∃ e, r.batches = [RBatch.exc e]) → TokenFree r := by
    rintro r ⟨e, he⟩ b hb
    rw [he] at hb
    exact exc_litOnly e b hb
  rcases handleExchange_cases cfg w req with ⟨e, w0, h, hm0, hc0⟩ | ⟨tv, cur, w1, htv, hcur, _, _, hm, hcl, h⟩
  · rw [h]; exact ⟨⟨e, rfl⟩, hm0, hc0, fin _ ⟨e, rfl⟩⟩
  · rcases h with ⟨hc, _⟩ | ⟨_, hr, _⟩ | ⟨_, _, _, h⟩
    · rw [hnc] at hc; cases hc
    · rw [hroute] at hr; cases hr
    · obtain ⟨_, hsp⟩ := exchangeCall_spec cfg w1 cur req
      rw [← h] at hsp
      rcases hsp with ⟨e, he, hw⟩ | ⟨pre, vs, md, post, hb, _, _, _⟩
      · rw [hw, he]
        exact ⟨⟨e, rfl⟩, hm, hcl, fin _ ⟨e, rfl⟩⟩
      · exact absurd (by rw [hb]; exact ⟨rfl, rfl⟩) hfail

/-- **failed_no_cursor** (any route: exchange turn, producer continuation, cancel): a response that
signals failure in any way — non-200 status, the error header, or an exception batch in the body —
carries no token anywhere and minted no cursor. -/
theorem failed_no_cursor (cfg : Cfg) (w : World) (req : Req)
    (hfail : (handleExchange cfg w req).1.status ≠ 200 ∨ (handleExchange cfg w req).1.rpcErr = true ∨
      HasExc (handleExchange cfg w req).1) :
    TokenFree (handleExchange cfg w req).1 ∧ (handleExchange cfg w req).2.1.minted = w.minted := by
  rcases handleExchange_cases cfg w req with ⟨e, w0, h, hm0, hc0⟩ | ⟨tv, cur, w1, htv, hcur, _, _, hm, hcl, h⟩
  · rw [h]; exact ⟨fun b hb => exc_litOnly e b hb, hm0⟩
  · rcases h with ⟨_, h⟩ | ⟨_, _, h⟩ | ⟨_, _, _, h⟩
    · rw [h]; exact ⟨(by intro b hb; cases hb), hm⟩
    · obtain ⟨l1, l2, l3, _⟩ := produceLoop_spec cfg (cur.st.prog.drop cur.st.pos) cur.st.pos
        (some (stripFramework req.md)) 0 0 req.env.ticks req.env.body0 req.env.sizes
      rw [h] at hfail ⊢
      unfold producerContinuation at hfail ⊢
      simp only [] at hfail ⊢
      split
      · rename_i hcond
        rw [if_pos hcond] at hfail
        simp only [Bool.and_eq_true, Bool.not_eq_true'] at hcond
        rcases hfail with hf | hf | ⟨e, he⟩
        · simp at hf
        · simp at hf
        · simp only [List.mem_append, List.mem_cons, List.not_mem_nil, or_false] at he
          rcases he with he | he
          · have := l2 ⟨e, he⟩
            rw [Option.isNone_iff_eq_none] at hcond
            rw [hcond.1] at this; cases this
          · cases he
      · exact ⟨l1, hm⟩
    · obtain ⟨_, hsp⟩ := exchangeCall_spec cfg w1 cur req
      rw [h] at hfail ⊢
      rcases hsp with ⟨e, he, hw⟩ | ⟨pre, vs, md, post, hb, hpre, hpost, _⟩
      · rw [hw, he]; exact ⟨fun b hb => exc_litOnly e b hb, hm⟩
      · rw [hb] at hfail
        rcases hfail with hf | hf | ⟨e, he⟩
        · simp at hf
        · simp at hf
        · simp only [List.mem_append, List.mem_cons, List.mem_map] at he
          rcases he with ⟨o, _, ho⟩ | he | ⟨o, _, ho⟩
          · cases o <;> simp [toR] at ho
          · cases he
          · cases o <;> simp [toR] at ho

/-! ## A cancel continuation -/

/-- **cancel_once_empty**: a request whose metadata has the cancel key (with any value, at any
position, whatever else it carries) never runs `Exchange`/`Produce`, mints no cursor and answers
without any token. If it is accepted (200) the answer is the empty stream without the error header
and `OnCancel` ran exactly once when the state has such a hook (never otherwise), whatever the hook
returned or panicked with; if it is refused (400) nothing ran at all. -/
theorem cancel_once_empty (cfg : Cfg) (w : World) (req : Req)
    (hc : (getFirst keyCancel req.md).isSome = true) :
    (handleExchange cfg w req).2.1.minted = w.minted ∧
    TokenFree (handleExchange cfg w req).1 ∧
    (∀ ev ∈ (handleExchange cfg w req).2.2, ev = Event.cancel) ∧
    (handleExchange cfg w req).2.2.length ≤ 1 ∧
    ((handleExchange cfg w req).1.status = 200 →
      (handleExchange cfg w req).1.batches = [] ∧ (handleExchange cfg w req).1.rpcErr = false ∧
      ∃ tv cur, getFirst keyState req.md = some tv ∧ openCursor w tv = some cur ∧
        (handleExchange cfg w req).2.2 = (if cur.st.cancel = CancelAct.absent then [] else [Event.cancel])) ∧
    ((handleExchange cfg w req).1.status ≠ 200 →
      (handleExchange cfg w req).2.2 = [] ∧ ∃ e, (handleExchange cfg w req).1 = errResp 400 false e) := by
  rcases handleExchange_cases cfg w req with ⟨e, w0, h, hm0, hc0⟩ | ⟨tv, cur, w1, htv, hcur, _, _, hm, _, h⟩
  · rw [h]
    refine ⟨hm0, fun b hb => exc_litOnly e b hb, (by intro ev hev; cases hev), (by simp), ?_, fun _ => ⟨rfl, e, rfl⟩⟩
    intro hs; simp [errResp] at hs
  · rcases h with ⟨_, h⟩ | ⟨hc2, _⟩ | ⟨hc2, _⟩
    · rw [h]
      unfold cancelTurn
      refine ⟨hm, (by intro b hb; cases hb), ?_, ?_, ?_, (by intro hs; simp at hs)⟩
      · intro ev hev; cases hca : cur.st.cancel <;> simp [hca] at hev <;> exact hev
      · cases cur.st.cancel <;> simp
      · intro _
        refine ⟨rfl, rfl, tv, cur, htv, hcur, ?_⟩
        cases cur.st.cancel <;> simp
    · rw [hc] at hc2; cases hc2
    · rw [hc] at hc2; cases hc2

/-! ## One request, at most one new cursor; a refused request runs nothing -/

/-- **at_most_one_cursor**: a continuation request never changes the set of earlier cursors and
adds at most one; when it adds one, that cursor belongs to the same call as the presented one. -/
theorem at_most_one_cursor (cfg : Cfg) (w : World) (req : Req) :
    (handleExchange cfg w req).2.1.minted = w.minted ∨
    ∃ tv cur pos, getFirst keyState req.md = some tv ∧ openCursor w tv = some cur ∧
      (handleExchange cfg w req).2.1.minted = w.minted ++ [advance cur pos] := by
  rcases handleExchange_cases cfg w req with ⟨e, w0, h, hm0, hc0⟩ | ⟨tv, cur, w1, htv, hcur, _, _, hm, _, h⟩
  · rw [h]; exact Or.inl hm0
  · rcases h with ⟨_, h⟩ | ⟨_, _, h⟩ | ⟨_, _, _, h⟩
    · rw [h]; exact Or.inl hm
    · rw [h]
      unfold producerContinuation
      simp only []
      split
      · exact Or.inr ⟨tv, cur, _, htv, hcur, by rw [hm]⟩
      · exact Or.inl hm
    · obtain ⟨_, hsp⟩ := exchangeCall_spec cfg w1 cur req
      rw [h]
      rcases hsp with ⟨e, _, hw⟩ | ⟨_, _, _, _, _, _, _, hw⟩
      · rw [hw]; exact Or.inl hm
      · rw [hw]; exact Or.inr ⟨tv, cur, _, htv, hcur, by rw [hm]⟩

/-- **rejected_runs_nothing**: a continuation answered with a non-200 status invoked no handler,
minted no cursor and no call id (at most a call-cache entry was refreshed). -/
theorem rejected_runs_nothing (cfg : Cfg) (w : World) (req : Req)
    (hst : (handleExchange cfg w req).1.status ≠ 200) :
    (handleExchange cfg w req).2.2 = [] ∧ (handleExchange cfg w req).2.1.minted = w.minted ∧
    (handleExchange cfg w req).2.1.calls = w.calls := by
  rcases handleExchange_cases cfg w req with ⟨e, w0, h, hm0, hc0⟩ | ⟨tv, cur, w1, htv, hcur, _, _, hm, _, h⟩
  · rw [h]; exact ⟨rfl, hm0, hc0⟩
  · exfalso
    rcases h with ⟨_, h⟩ | ⟨_, _, h⟩ | ⟨_, _, _, h⟩
    · rw [h] at hst; simp [cancelTurn] at hst
    · rw [h] at hst
      unfold producerContinuation at hst
      simp only [] at hst
      split at hst <;> simp at hst
    · obtain ⟨_, hsp⟩ := exchangeCall_spec cfg w1 cur req
      rw [h] at hst
      rcases hsp with ⟨e, he, _⟩ | ⟨_, _, _, _, hb, _⟩
      · rw [he] at hst; simp [errResp] at hst
      · rw [hb] at hst; simp at hst

/-! ## External-location inputs -/

theorem isFramework_keys : isFramework keyState = true ∧ isFramework keyCall = true ∧ isFramework keyCancel = true := by
  refine ⟨(isFramework_iff _).mpr (Or.inl rfl), (isFramework_iff _).mpr (Or.inr (Or.inl rfl)),
    (isFramework_iff _).mpr (Or.inr (Or.inr rfl))⟩

/-- **resolved_strip**: what a handler can see of a resolved external-location input is the FETCHED
batch's metadata minus the framework keys — wherever the client put its tokens (pointer batch,
fetched batch or both), whatever else either batch carries. -/
theorem resolved_strip (pmd : Meta) (f : Fetched) :
    stripFramework (resolvedMeta pmd f) = stripFramework f.md := by
  obtain ⟨hs, hc, hx⟩ := isFramework_keys
  have hcore : List.filter (fun kv => !isFramework kv.1) (List.filter (fun kv => kv.1 != keyCancel) f.md)
      = List.filter (fun kv => !isFramework kv.1) f.md := by
    rw [List.filter_filter]
    apply List.filter_congr
    intro kv _
    by_cases hk : kv.1 = keyCancel
    · simp [hk, hx]
    · simp [hk]
  unfold resolvedMeta stripFramework
  cases getFirst keyState pmd <;> cases getFirst keyCall pmd <;>
    simp only [List.filter_append, List.append_nil, hcore, List.filter_cons, List.filter_nil, hs, hc,
      Bool.not_true, Bool.false_eq_true, if_false]

/-- **handler_meta_external**: with external-location inputs in play, whatever a handler call sees
is the stripped metadata of the batch the request resolves to — the request batch itself, or the
fetched batch of a resolved pointer — or nothing; never a framework key. An unresolvable pointer
runs no handler. -/
theorem handler_meta_external (cfg : Cfg) (w : World) (req : Req) :
    ∀ ev ∈ (handleExchangeX cfg w req).2.2,
      (seenOf ev = [] ∨ seenOf ev = stripFramework req.md ∨
        ∃ f, req.fetch = some (some f) ∧ seenOf ev = stripFramework f.md) ∧
      (∀ kv ∈ seenOf ev, kv.1 ≠ keyState ∧ kv.1 ≠ keyCall ∧ kv.1 ≠ keyCancel) := by
  intro ev hev
  unfold handleExchangeX at hev
  cases hr : resolveInput cfg req with
  | error e => rw [hr] at hev; cases hev
  | ok r =>
    rw [hr] at hev
    simp only [] at hev
    have hm := handler_meta cfg w r ev hev
    refine ⟨?_, hm.2.2⟩
    unfold resolveInput at hr
    cases hf : req.fetch with
    | none =>
      rw [hf] at hr; cases hr
      rcases hm.1 with h | h
      · exact Or.inr (Or.inl h)
      · exact Or.inl h
    | some p =>
      rw [hf] at hr
      simp only [] at hr
      split at hr
      · cases hr
        rcases hm.1 with h | h
        · exact Or.inr (Or.inl h)
        · exact Or.inl h
      · cases p with
        | none => cases hr
        | some f =>
          cases hr
          rcases hm.1 with h | h
          · exact Or.inr (Or.inr ⟨f, rfl, by rw [h]; exact resolved_strip req.md f⟩)
          · exact Or.inl h

/-- **token_never_visible_external**: if neither the request batch nor the batch it points to
carries a token outside the framework keys, no handler ever sees a token. -/
theorem token_never_visible_external (cfg : Cfg) (w : World) (req : Req)
    (hreq : ∀ kv ∈ req.md, isFramework kv.1 = true ∨ ∃ b, kv.2 = Val.lit b)
    (hfet : ∀ f, req.fetch = some (some f) → ∀ kv ∈ f.md, isFramework kv.1 = true ∨ ∃ b, kv.2 = Val.lit b) :
    ∀ ev ∈ (handleExchangeX cfg w req).2.2, LitOnly (seenOf ev) := by
  intro ev hev kv hkv
  have lit_of_strip : ∀ (m : Meta), (∀ x ∈ m, isFramework x.1 = true ∨ ∃ b, x.2 = Val.lit b) →
      kv ∈ stripFramework m → ∃ b, kv.2 = Val.lit b := by
    intro m hm hin
    unfold stripFramework at hin
    obtain ⟨h1, h2⟩ := List.mem_filter.mp hin
    rcases hm kv h1 with h | h
    · simp [h] at h2
    · exact h
  rcases (handler_meta_external cfg w req ev hev).1 with h | h | ⟨f, hf, h⟩
  · rw [h] at hkv; cases hkv
  · rw [h] at hkv; exact lit_of_strip _ hreq hkv
  · rw [h] at hkv; exact lit_of_strip _ (hfet f hf) hkv

/-! ## Non-vacuity: concrete requests meeting the hypotheses -/

section Examples

def kUser : Bytes := [107]                       -- "k"
def vUser : Val := .lit [118]                    -- "v"

/-- a one-tick exchange script whose emit carries its own `MetaStreamState` entry and a user key -/
def exProg : List Tick :=
  [[.log 3, .emit (.input 1) [(kUser, [49]), (keyState, [109, 105, 110, 101])] true, .log 4]]

def exState : SState := { prog := exProg, pos := 0, producer := false, cancel := .panic }
def exCfg : Cfg := { cacheOn := false, maxResp := 1000, maxExt := 0, extOn := false, batchLimit := 0 }
def exWorld : World := (handleInit exCfg World.empty { st := exState }).2.1

/-- a client request with a duplicate cursor key, a user key, a key that only resembles a framework
key, and the call token -/
def exReq : Req :=
  { md := [(kUser, vUser), (keyState, .cursor 0), (keyState, .lit [1]), (keyCall, .call 0),
           (keyCancel ++ [50], .lit [])],
    vals := [5, -7], env := { wire := 900 } }

example : exWorld.minted.length = 1 ∧ exWorld.calls = 1 := by decide

-- the accepted turn: hypotheses of `one_turn` hold, and the merged cursor beats the emit's own key
example : (handleExchange exCfg exWorld exReq).1.status = 200 ∧
    (handleExchange exCfg exWorld exReq).1.rpcErr = false ∧
    (handleExchange exCfg exWorld exReq).1.batches =
      [.log 3, .data [6, -6] [(kUser, .lit [49]), (keyState, .cursor 1)], .log 4] ∧
    (handleExchange exCfg exWorld exReq).2.2 =
      [.exchange 0 [(kUser, vUser), (keyCancel ++ [50], .lit [])] [5, -7]] := by decide

-- the same request over the response cap fails: hypotheses of `failed_turn_no_cursor`
example : (handleExchange exCfg exWorld { exReq with env := { wire := 1001 } }).1 = errResp 200 true .capWire := by
  decide

-- a second turn on the exhausted script, then a cancel on the first cursor with a panicking hook
example : (handleExchange exCfg exWorld
      { md := [(keyCancel, .lit []), (keyState, .cursor 0), (keyCall, .call 0)] }) =
    ({ status := 200, rpcErr := false, batches := [] }, exWorld, [.cancel]) := by decide

-- a token smuggled under a user key does reach the handler: the premise of `token_never_visible`
-- is necessary
example : (handleExchange exCfg exWorld
      { md := [(keyState, .cursor 0), (keyCall, .call 0), (kUser, .cursor 0)] }).2.2 =
    [.exchange 0 [(kUser, .cursor 0)] []] := by decide

-- a cursor presented on the other kind's route is refused before anything runs
example : (handleExchange exCfg exWorld { exReq with routeProducer := true }) =
    (errResp 400 false .wrongMethod, exWorld, []) := by decide

-- an external-location input: cursor on the fetched batch (a garbage one on the pointer), cancel key
-- and a user key on the fetched batch; the handler sees the user key only
example : (handleExchangeX { exCfg with extIn := true } exWorld
      { md := [(keyLocation, .lit [104]), (keyState, .lit [1]), (keyCall, .call 0), (kUser, .lit [112])],
        fetch := some (some { md := [(keyCancel, .lit []), (kUser, vUser), (keyState, .cursor 0)], vals := [5] }),
        env := { wire := 10 } }).2.2 = [.exchange 0 [(kUser, vUser)] [5]] := by decide

-- the same request on a server without the external-location config: the pointer batch is the input
example : (handleExchangeX exCfg exWorld
      { md := [(keyLocation, .lit [104]), (keyState, .cursor 0), (keyCall, .call 0)],
        fetch := some (some { md := [(kUser, vUser)], vals := [5] }), env := { wire := 10 } }).2.2
    = [.exchange 0 [(keyLocation, .lit [104])] []] := by decide

end Examples

end Vgi.Props.C16
