import Vgi.Model.Proof
/-!
# C25 — proxy proofs verify only for their worker and can never be replayed

Theorems about `Vgi.Proof` (the model the driver `Vgi.Drive.C25` executes), which mirrors
`vgirpc/proof.go` after the repair of F25 (nonce TTL `2*skew+1` s, one clock reading per request).

* `verifyPre_ok_iff`, `gate_pass_iff` — first sentence of the property: in require mode a request
  passes iff it carries exactly one, non-empty, comma-free header value that splits into the five
  fields of the grammar, names a configured key id, has a timestamp within the skew window of the
  clock reading, carries the HMAC of `canonical kid ts nonce <this worker's origin>` under that
  key, and (cache on) a nonce not among the unexpired remembered ones.
* `uniform_refusal` — every other request gets the one fixed `proxy_required` answer and the inner
  authenticator is not called; `unverified_leaves_gate` — and it cannot touch the replay cache.
* `canonical_injective`, `pass_binds_origin` — the MAC input is unambiguous, so the MAC that passes
  is a MAC for this worker's origin and no other.
* `no_replay_general`, `no_replay`, `no_replay_reachable` — second sentence: no accepted proof is
  accepted again while its timestamp is acceptable, unless `capacity` proofs were admitted since.
  `ttl_covers_window` is the arithmetic of the repair.

HMAC-SHA256 and base64 are uninterpreted in every proof (no unfolding); the concrete examples
evaluate them in the kernel.
-/
namespace Vgi.Props.C25
open Vgi Vgi.Proof

/-! ## Cache level -/

def Has (l : List Entry) (n : Bytes) (e k : Nat) : Prop :=
  ∃ pre post, l = pre ++ (⟨n, e⟩ : Entry) :: post ∧ post.length = k

theorem sweep_has {l : List Entry} {n : Bytes} {e k now : Nat} (h : Has l n e k) (he : e > now) :
    Has (sweep now l) n e k := by
  obtain ⟨pre, post, rfl, hk⟩ := h
  induction pre with
  | nil => exact ⟨[], post, by simp [sweep, he], hk⟩
  | cons x pre ih =>
    simp only [List.cons_append, sweep]
    split
    · exact ⟨x :: pre, post, by simp, hk⟩
    · exact ih

theorem evict_has {l : List Entry} {n : Bytes} {e k cap : Nat} (h : Has l n e k) (hc : k + 1 < cap) :
    Has (evict cap l) n e k := by
  obtain ⟨pre, post, rfl, hk⟩ := h
  induction pre with
  | nil =>
    refine ⟨[], post, ?_, hk⟩
    simp only [List.nil_append, evict]
    split
    · rename_i hlen; simp at hlen; omega
    · rfl
  | cons x pre ih =>
    simp only [List.cons_append, evict]
    split
    · exact ih
    · exact ⟨x :: pre, post, by simp, hk⟩

theorem has_seen {l : List Entry} {n : Bytes} {e k : Nat} (h : Has l n e k) : seen n l = true := by
  obtain ⟨pre, post, rfl, _⟩ := h
  simp [seen]

theorem has_append {l : List Entry} {n : Bytes} {e k : Nat} (h : Has l n e k) (x : Entry) :
    Has (l ++ [x]) n e (k + 1) := by
  obtain ⟨pre, post, rfl, hk⟩ := h
  exact ⟨pre, post ++ [x], by simp, by simp [hk]⟩

theorem checkAndAdd_has (c : Cache) (n : Bytes) (e k : Nat) (m : Bytes) (now : Nat)
    (h : Has c.order n e k) (he : e > now) :
    (m = n → (checkAndAdd c m now).1 = false) ∧
    ((checkAndAdd c m now).1 = false → Has (checkAndAdd c m now).2.order n e k) ∧
    ((checkAndAdd c m now).1 = true → k + 1 < c.cap → Has (checkAndAdd c m now).2.order n e (k + 1)) ∧
    (checkAndAdd c m now).2.cap = c.cap ∧ (checkAndAdd c m now).2.ttl = c.ttl := by
  have hs := sweep_has h he
  simp only [checkAndAdd]
  split
  · exact ⟨fun _ => rfl, fun _ => hs, fun hc => by simp at hc, rfl, rfl⟩
  · rename_i hany
    refine ⟨?_, fun hc => by simp at hc, ?_, rfl, rfl⟩
    · intro hm; subst hm; exact absurd (has_seen hs) hany
    · intro _ hc; exact has_append (evict_has hs hc) _

theorem checkAndAdd_fresh_has (c : Cache) (n : Bytes) (now : Nat) (h : (checkAndAdd c n now).1 = true) :
    Has (checkAndAdd c n now).2.order n (now + c.ttl) 0 := by
  simp only [checkAndAdd] at h ⊢
  by_cases hs : seen n (sweep now c.order) = true
  · simp [hs] at h
  · rw [if_neg hs]
    exact ⟨evict c.cap (sweep now c.order), [], rfl, rfl⟩

theorem checkAndAdd_params (c : Cache) (n : Bytes) (now : Nat) :
    (checkAndAdd c n now).2.cap = c.cap ∧ (checkAndAdd c n now).2.ttl = c.ttl := by
  simp only [checkAndAdd]; split <;> exact ⟨rfl, rfl⟩

/-- accepted exactly when not remembered among the unexpired entries -/
theorem checkAndAdd_iff (c : Cache) (n : Bytes) (now : Nat) :
    (checkAndAdd c n now).1 = true ↔ seen n (sweep now c.order) = false := by
  simp only [checkAndAdd]; split <;> simp_all

/-- the arithmetic of the repair -/
theorem ttl_covers_window (skew ts a t : Nat) (ha : ts ≤ a / nsPerSec + skew) (ht : t / nsPerSec ≤ ts + skew) :
    t < a + ttlNs skew := by
  simp only [ttlNs, nsPerSec] at *
  omega


/-! ## VerifyProof -/

theorem inWindow_iff (skew ts now : Nat) :
    inWindow skew ts now = true ↔ (ts ≤ now / nsPerSec + skew ∧ now / nsPerSec ≤ ts + skew) := by
  simp only [inWindow]
  generalize now / nsPerSec = q
  simp only [Bool.and_eq_true, Bool.not_eq_true', decide_eq_false_iff_not]
  omega

/-- The property's acceptance condition for one proof string at clock reading `now`, spelled out. -/
def Authentic (cfg : Cfg) (now : Nat) (token nonce : Bytes) : Prop :=
  token.length ≤ maxHeaderLen ∧
  ∃ kid ts mac secret,
    splitOn dot token = [versionV1, kid, ts, nonce, mac] ∧
    kidOK kid = true ∧ tsOK ts = true ∧ nonceOK nonce = true ∧ macOK mac = true ∧
    lookup kid cfg.secrets = some secret ∧
    decVal ts ≤ maxInt64 ∧
    (decVal ts ≤ now / nsPerSec + cfg.skew ∧ now / nsPerSec ≤ decVal ts + cfg.skew) ∧
    b64Decode mac = some (hmacSha256 secret (canonical kid ts nonce cfg.origin))

theorem verifyPre_ok_iff (cfg : Cfg) (now : Nat) (token nonce : Bytes) :
    verifyPre cfg now token = .ok nonce ↔ Authentic cfg now token nonce := by
  constructor
  · intro h
    unfold verifyPre at h
    split at h
    · cases h
    · rename_i hlen
      split at h
      · rename_i version kid ts nonce' mac hsplit
        split at h; · cases h
        rename_i hv
        split at h; · cases h
        rename_i hk
        split at h; · cases h
        rename_i ht
        split at h; · cases h
        rename_i hn
        split at h; · cases h
        rename_i hm
        split at h
        · cases h
        · rename_i secret hl
          split at h; · cases h
          rename_i hmax
          simp only at h
          split at h; · cases h
          rename_i hup
          split at h; · cases h
          rename_i hlo
          split at h
          · cases h
          · rename_i received hdec
            split at h
            · rename_i hmac
              cases h
              refine ⟨by omega, kid, ts, mac, secret, ?_, by simpa using hk, by simpa using ht,
                by simpa using hn, by simpa using hm, hl, by omega, ?_, by rw [hdec, hmac]⟩
              · simp only [ne_eq, Decidable.not_not] at hv
                rw [hsplit, hv]
              · generalize now / nsPerSec = q at hup hlo ⊢
                omega
            · cases h
      · cases h
  · rintro ⟨hlen, kid, ts, mac, secret, hsplit, hk, ht, hn, hm, hl, hmax, ⟨hw1, hw2⟩, hdec⟩
    unfold verifyPre
    rw [if_neg (by omega), hsplit]
    simp only [ne_eq, not_true_eq_false, if_false, hk, ht, hn, hm, Bool.not_true, Bool.false_eq_true, hl, hdec]
    rw [if_neg (by omega)]
    generalize now / nsPerSec = q at hw1 hw2 ⊢
    rw [if_neg (by omega), if_neg (by omega)]
    simp


/-! ## Gate level -/


/-- the outcome of `verifyRequest`, reduced to the one interesting shape -/
theorem verifyRequest_ok_iff (cfg : Cfg) (cache : Option Cache) (now : Nat) (hdrs : List Bytes) :
    (verifyRequest cfg cache now hdrs).1 = .ok () ↔
      ∃ tok nonce, hdrs = [tok] ∧ tok ≠ [] ∧ comma ∉ tok ∧ verifyPre cfg now tok = .ok nonce ∧
        (∀ c, cache = some c → seen nonce (sweep now c.order) = false) := by
  unfold verifyRequest
  cases hdrs with
  | nil => simp
  | cons v rest =>
    simp only
    by_cases hv : v = []
    · simp [hv]
    · rw [if_neg hv]
      by_cases hr : rest ≠ [] ∨ v.contains comma = true
      · rw [if_pos hr]
        simp only [reduceCtorEq, false_iff, not_exists, not_and]
        intro tok nonce heq hne hcomma
        injection heq with h1 h2
        subst h1 h2
        rcases hr with hr | hr
        · exact absurd rfl hr
        · simp at hr; exact absurd hr hcomma
      · rw [if_neg hr]
        simp only [not_or, ne_eq, Decidable.not_not, Bool.not_eq_true] at hr
        obtain ⟨hr1, hr2⟩ := hr
        subst hr1
        have hcomma : comma ∉ v := by
          intro hmem; simp [hmem] at hr2
        unfold verify
        cases hpre : verifyPre cfg now v with
        | error r =>
          simp only [reduceCtorEq, false_iff, not_exists, not_and]
          intro tok nonce heq
          injection heq with h1 _
          subst h1
          intro _ _ h
          rw [hpre] at h; cases h
        | ok nonce =>
          cases cache with
          | none =>
            exact ⟨fun _ => ⟨v, nonce, rfl, hv, hcomma, hpre, by intro c hc; cases hc⟩, fun _ => rfl⟩
          | some c =>
            simp only
            by_cases hfresh : (checkAndAdd c nonce now).1 = true
            · rw [if_pos hfresh]
              refine ⟨fun _ => ⟨v, nonce, rfl, hv, hcomma, hpre, ?_⟩, fun _ => rfl⟩
              intro c' hc'; cases hc'
              exact (checkAndAdd_iff c nonce now).1 hfresh
            · rw [if_neg hfresh]
              simp only [reduceCtorEq, false_iff, not_exists, not_and]
              intro tok n' heq
              injection heq with h1 _
              subst h1
              intro _ _ hp hall
              rw [hpre] at hp
              injection hp with hp; subst hp
              exact hfresh ((checkAndAdd_iff c nonce now).2 (hall c rfl))

theorem gate_pass_iff_verifyRequest (g : Gate) (hreq : g.mode = .require) (now : Nat) (hdrs : List Bytes) :
    (gateStep g now hdrs).1.pass = true ↔ (verifyRequest g.cfg g.cache now hdrs).1 = .ok () := by
  unfold gateStep
  cases h : (verifyRequest g.cfg g.cache now hdrs).1 with
  | ok u => simp [h, passed]
  | error r => simp [h, hreq, refusal]

/-- **gate_pass_iff** (require mode). -/
theorem gate_pass_iff (g : Gate) (hreq : g.mode = .require) (now : Nat) (hdrs : List Bytes) :
    (gateStep g now hdrs).1.pass = true ↔
      ∃ tok nonce, hdrs = [tok] ∧ tok ≠ [] ∧ comma ∉ tok ∧ Authentic g.cfg now tok nonce ∧
        (∀ c, g.cache = some c → seen nonce (sweep now c.order) = false) := by
  rw [gate_pass_iff_verifyRequest g hreq, verifyRequest_ok_iff]
  constructor
  · rintro ⟨tok, nonce, h1, h2, h3, h4, h5⟩
    exact ⟨tok, nonce, h1, h2, h3, (verifyPre_ok_iff _ _ _ _).1 h4, h5⟩
  · rintro ⟨tok, nonce, h1, h2, h3, h4, h5⟩
    exact ⟨tok, nonce, h1, h2, h3, (verifyPre_ok_iff _ _ _ _).2 h4, h5⟩

/-- **uniform_refusal**: in require mode every request that does not pass gets the one fixed
`proxy_required` answer and the inner authenticator is not called; a request that passes calls the
inner authenticator exactly once (when there is one). -/
theorem uniform_refusal (g : Gate) (hreq : g.mode = .require) (now : Nat) (hdrs : List Bytes) :
    ((gateStep g now hdrs).1.pass = false →
        (gateStep g now hdrs).1 = ⟨false, proxyRequiredReason, proxyRequiredDetail, 0⟩) ∧
    ((gateStep g now hdrs).1.pass = true →
        (gateStep g now hdrs).1.innerCalls = if g.hasInner then 1 else 0) := by
  unfold gateStep
  cases h : (verifyRequest g.cfg g.cache now hdrs).1 with
  | ok u => simp [h, passed]
  | error r => simp [h, hreq, refusal]

/-- A request without an authentic proof leaves the gate (its replay cache included) untouched:
only proofs whose MAC verified can occupy or evict cache slots. -/
theorem unverified_leaves_gate (g : Gate) (now : Nat) (hdrs : List Bytes)
    (h : ∀ tok nonce, hdrs = [tok] → ¬ Authentic g.cfg now tok nonce) :
    (gateStep g now hdrs).2 = g := by
  have hcache : (verifyRequest g.cfg g.cache now hdrs).2 = g.cache := by
    unfold verifyRequest
    cases hdrs with
    | nil => rfl
    | cons v rest =>
      simp only
      split; · rfl
      split; · rfl
      rename_i hv hr
      simp only [not_or, ne_eq, Decidable.not_not] at hr
      obtain ⟨hr1, _⟩ := hr
      subst hr1
      unfold verify
      cases hpre : verifyPre g.cfg now v with
      | error r => rfl
      | ok nonce => exact absurd ((verifyPre_ok_iff _ _ _ _).1 hpre) (h v nonce rfl)
  unfold gateStep
  simp only [hcache]
  cases (verifyRequest g.cfg g.cache now hdrs).1 <;> simp only <;> (try split) <;> rfl


/-! ## Replay -/

/-- fourth dot-separated field -/
def nonceField (tok : Bytes) : Bytes := (splitOn dot tok).getD 3 []
/-- numeric value of the third dot-separated field -/
def tsField (tok : Bytes) : Nat := decVal ((splitOn dot tok).getD 2 [])

theorem authentic_fields {cfg : Cfg} {now : Nat} {tok n : Bytes} (h : Authentic cfg now tok n) :
    n = nonceField tok ∧ tsField tok ≤ now / nsPerSec + cfg.skew ∧ now / nsPerSec ≤ tsField tok + cfg.skew := by
  obtain ⟨_, kid, ts, mac, secret, hs, _, _, _, _, _, _, hw, _⟩ := h
  simp only [nonceField, tsField, hs]
  exact ⟨rfl, hw⟩

theorem gateStep_frame (g : Gate) (now : Nat) (hdrs : List Bytes) :
    (gateStep g now hdrs).2.mode = g.mode ∧ (gateStep g now hdrs).2.cfg = g.cfg ∧
    (gateStep g now hdrs).2.hasInner = g.hasInner ∧
    (gateStep g now hdrs).2.cache = (verifyRequest g.cfg g.cache now hdrs).2 := by
  unfold gateStep
  cases h : (verifyRequest g.cfg g.cache now hdrs).1 with
  | ok u => simp [h]
  | error r => simp only [h]; split <;> simp

theorem admitted_iff (g : Gate) (now : Nat) (hdrs : List Bytes) :
    admitted g now hdrs = true ↔ (verifyRequest g.cfg g.cache now hdrs).1 = .ok () := by
  unfold admitted
  cases (verifyRequest g.cfg g.cache now hdrs).1 <;> simp

theorem not_admitted_refused (g : Gate) (hreq : g.mode = .require) (now : Nat) (hdrs : List Bytes)
    (h : admitted g now hdrs = false) : (gateStep g now hdrs).1 = refusal := by
  have h' : ¬ (verifyRequest g.cfg g.cache now hdrs).1 = .ok () := by
    intro hh; rw [(admitted_iff g now hdrs).2 hh] at h; cases h
  unfold gateStep
  cases hv : (verifyRequest g.cfg g.cache now hdrs).1 with
  | ok u => exact absurd hv h'
  | error r => simp [hv, hreq]

/-- How one request moves a cache that is switched on. -/
theorem verifyRequest_some (cfg : Cfg) (c : Cache) (now : Nat) (hdrs : List Bytes) :
    ((verifyRequest cfg (some c) now hdrs).2 = some c ∧ (verifyRequest cfg (some c) now hdrs).1 ≠ .ok ()) ∨
    (∃ tok m, hdrs = [tok] ∧ verifyPre cfg now tok = .ok m ∧
        (verifyRequest cfg (some c) now hdrs).2 = some (checkAndAdd c m now).2 ∧
        ((verifyRequest cfg (some c) now hdrs).1 = .ok () ↔ (checkAndAdd c m now).1 = true)) := by
  unfold verifyRequest
  cases hdrs with
  | nil => exact .inl ⟨rfl, by simp⟩
  | cons v rest =>
    simp only
    by_cases hv : v = []
    · rw [if_pos hv]
      exact .inl ⟨rfl, by simp⟩
    · rw [if_neg hv]
      by_cases hr : rest ≠ [] ∨ v.contains comma = true
      · rw [if_pos hr]
        exact .inl ⟨rfl, by simp⟩
      · rw [if_neg hr]
        simp only [not_or, ne_eq, Decidable.not_not] at hr
        obtain ⟨hr1, _⟩ := hr
        subst hr1
        unfold verify
        cases hpre : verifyPre cfg now v with
        | error r => exact .inl ⟨rfl, by simp⟩
        | ok m =>
          refine .inr ⟨v, m, rfl, hpre, ?_, ?_⟩
          · simp only; split <;> rfl
          · simp only; split <;> simp_all

/-- One request against a gate whose cache holds `(n, e)` with `k` newer entries behind it,
at a clock reading before `e`. -/
theorem gate_has_step (g : Gate) (c : Cache) (hc : g.cache = some c) (n : Bytes) (e k now : Nat)
    (hdrs : List Bytes) (h : Has c.order n e k) (he : e > now) :
    ∃ c', (gateStep g now hdrs).2.cache = some c' ∧ c'.cap = c.cap ∧
      (admitted g now hdrs = false → Has c'.order n e k) ∧
      (admitted g now hdrs = true → k + 1 < c.cap → Has c'.order n e (k + 1)) ∧
      (∀ tok, hdrs = [tok] → verifyPre g.cfg now tok = .ok n → admitted g now hdrs = false) := by
  obtain ⟨_, _, _, hcache⟩ := gateStep_frame g now hdrs
  rw [hcache]
  have hadm := admitted_iff g now hdrs
  rw [hc] at hadm ⊢
  rcases verifyRequest_some g.cfg c now hdrs with ⟨h2, h1⟩ | ⟨tok, m, rfl, hpre, h2, h1⟩
  · have hna : admitted g now hdrs = false := by
      cases hx : admitted g now hdrs
      · rfl
      · exact absurd (hadm.1 hx) h1
    refine ⟨c, h2, rfl, fun _ => h, ?_, fun _ _ _ => hna⟩
    intro hx; rw [hna] at hx; cases hx
  · obtain ⟨s1, s2, s3, s4, _⟩ := checkAndAdd_has c n e k m now h he
    refine ⟨(checkAndAdd c m now).2, h2, s4, ?_, ?_, ?_⟩
    · intro hx
      apply s2
      cases hy : (checkAndAdd c m now).1
      · rfl
      · rw [hadm.2 (h1.2 hy)] at hx; cases hx
    · intro hx hk
      exact s3 (h1.1 (hadm.1 hx)) hk
    · intro tok' heq hp
      injection heq with h3 _
      subst h3
      rw [hpre] at hp
      injection hp with hp
      cases hx : admitted g now [tok]
      · rfl
      · have := h1.1 (hadm.1 hx)
        rw [s1 hp] at this; cases this

theorem run_has (ops : List (Nat × List Bytes)) :
    ∀ (g : Gate) (c : Cache) (n : Bytes) (e k : Nat), g.cache = some c → Has c.order n e k →
      (∀ op ∈ ops, op.1 < e) → k + (runGate g ops).2 + 1 ≤ c.cap →
      ∃ c' k', (runGate g ops).1.cache = some c' ∧ c'.cap = c.cap ∧ Has c'.order n e k' ∧
        (runGate g ops).1.cfg = g.cfg ∧ (runGate g ops).1.mode = g.mode := by
  induction ops with
  | nil => intro g c n e k hc h _ _; exact ⟨c, k, hc, rfl, h, rfl, rfl⟩
  | cons op ops ih =>
    intro g c n e k hc h ht hcap
    obtain ⟨now, hdrs⟩ := op
    have hlt : now < e := ht (now, hdrs) (by simp)
    obtain ⟨c1, hc1, hcap1, hf, htr, _⟩ := gate_has_step g c hc n e k now hdrs h hlt
    obtain ⟨fm, fc, _, _⟩ := gateStep_frame g now hdrs
    simp only [runGate] at hcap ⊢
    cases hb : admitted g now hdrs
    · simp only [hb] at hcap
      obtain ⟨c', k', h1, h2, h3, h4, h5⟩ := ih (gateStep g now hdrs).2 c1 n e k hc1 (hf hb)
        (fun op hop => ht op (by simp [hop])) (by simp at hcap; omega)
      exact ⟨c', k', h1, by omega, h3, by rw [h4, fc], by rw [h5, fm]⟩
    · simp only [hb] at hcap
      simp at hcap
      obtain ⟨c', k', h1, h2, h3, h4, h5⟩ := ih (gateStep g now hdrs).2 c1 n e (k + 1) hc1 (htr hb (by omega))
        (fun op hop => ht op (by simp [hop])) (by omega)
      exact ⟨c', k', h1, by omega, h3, by rw [h4, fc], by rw [h5, fm]⟩

/-- **no_replay_general.** Require mode, replay cache on with the TTL `ProofAuthenticate` gives it.
A proof `tok` passes at clock reading `a`. Then, after ANY intermediate requests `mid` (arbitrary
header values, arbitrary clock readings — no monotonicity needed) and at ANY reading `b`, as long
as `tok`'s timestamp would still be accepted at all those readings (upper edge of the window) and
fewer than `capacity` proofs were admitted in between, every header value carrying the same nonce —
in particular `tok` itself — is refused with the uniform answer. -/
theorem no_replay_general (g : Gate) (c : Cache) (hc : g.cache = some c)
    (httl : c.ttl = ttlNs g.cfg.skew) (hreq : g.mode = .require)
    (a : Nat) (tok : Bytes) (hacc : (gateStep g a [tok]).1.pass = true)
    (mid : List (Nat × List Bytes)) (b : Nat) (tok' : Bytes)
    (hsame : nonceField tok' = nonceField tok)
    (hmid : ∀ op ∈ mid, op.1 / nsPerSec ≤ tsField tok + g.cfg.skew)
    (hb : b / nsPerSec ≤ tsField tok + g.cfg.skew)
    (hfew : (runGate (gateStep g a [tok]).2 mid).2 < c.cap) :
    (gateStep (runGate (gateStep g a [tok]).2 mid).1 b [tok']).1 = refusal := by
  -- what acceptance at `a` means
  obtain ⟨t0, n, heq, _, _, hauth, hfresh⟩ := (gate_pass_iff g hreq a [tok]).1 hacc
  injection heq with heq _
  subst heq
  obtain ⟨hn, hlo, _⟩ := authentic_fields hauth
  have hpre : verifyPre g.cfg a tok = .ok n := (verifyPre_ok_iff _ _ _ _).2 hauth
  -- the entry is at the back of the cache afterwards, expiring at a + ttl
  obtain ⟨fm, fc, _, fcache⟩ := gateStep_frame g a [tok]
  have hadd : (checkAndAdd c n a).1 = true := (checkAndAdd_iff c n a).2 (hfresh c hc)
  have hcache1 : (gateStep g a [tok]).2.cache = some (checkAndAdd c n a).2 := by
    rw [fcache, hc]
    have hok := (gate_pass_iff_verifyRequest g hreq a [tok]).1 hacc
    rw [hc] at hok
    rcases verifyRequest_some g.cfg c a [tok] with ⟨_, h1⟩ | ⟨tok2, m, heq, hp, h2, _⟩
    · exact absurd hok h1
    · injection heq with heq _
      subst heq
      rw [hpre] at hp
      injection hp with hp
      subst hp
      exact h2
  have hhas := checkAndAdd_fresh_has c n a hadd
  obtain ⟨hcap1, _⟩ := checkAndAdd_params c n a
  have hexp : ∀ t, t / nsPerSec ≤ tsField tok + g.cfg.skew → t < a + c.ttl := by
    intro t ht; rw [httl]; exact ttl_covers_window _ _ _ _ hlo ht
  obtain ⟨c', k', hc', hcap', hhas', hcfg', hmode'⟩ :=
    run_has mid (gateStep g a [tok]).2 _ n (a + c.ttl) 0 hcache1 hhas
      (fun op hop => hexp _ (hmid op hop)) (by rw [hcap1]; omega)
  -- the replay
  apply not_admitted_refused _ (by rw [hmode', fm, hreq])
  cases hx : admitted (runGate (gateStep g a [tok]).2 mid).1 b [tok']
  · rfl
  · exfalso
    obtain ⟨_, _, _, _, _, hrefuse⟩ := gate_has_step _ c' hc' n (a + c.ttl) k' b [tok'] hhas' (hexp b hb)
    -- admitted ⇒ verifyPre ok with some nonce n', which is the nonce field = n
    have hok := (admitted_iff _ b [tok']).1 hx
    obtain ⟨t1, n', heq1, _, _, hp1, _⟩ := (verifyRequest_ok_iff _ _ b [tok']).1 hok
    injection heq1 with heq1 _
    subst heq1
    have hn' : n' = n := by
      obtain ⟨h1, _⟩ := authentic_fields ((verifyPre_ok_iff _ _ _ _).1 hp1)
      rw [h1, hsame, ← hn]
    subst hn'
    rw [hrefuse tok' rfl hp1] at hx
    cases hx


/-- **no_replay** (the property's second sentence, same proof string). With a clock that does not
run backwards past the replay (every intermediate request was judged at a reading `≤ b`), a proof
that passed once is refused at every later presentation — whether because its timestamp has left
the window or because its nonce is still remembered — unless `capacity` or more proofs were
admitted in between. -/
theorem no_replay (g : Gate) (c : Cache) (hc : g.cache = some c)
    (httl : c.ttl = ttlNs g.cfg.skew) (hreq : g.mode = .require)
    (a : Nat) (tok : Bytes) (hacc : (gateStep g a [tok]).1.pass = true)
    (mid : List (Nat × List Bytes)) (b : Nat)
    (hmono : ∀ op ∈ mid, op.1 ≤ b)
    (hfew : (runGate (gateStep g a [tok]).2 mid).2 < c.cap) :
    (gateStep (runGate (gateStep g a [tok]).2 mid).1 b [tok]).1 = refusal := by
  by_cases hb : b / nsPerSec ≤ tsField tok + g.cfg.skew
  · refine no_replay_general g c hc httl hreq a tok hacc mid b tok rfl ?_ hb hfew
    intro op hop
    exact Nat.le_trans (Nat.div_le_div_right (hmono op hop)) hb
  · -- the timestamp is no longer acceptable at `b`: refused by the window
    have hfr : ∀ (ops : List (Nat × List Bytes)) (g' : Gate),
        (runGate g' ops).1.cfg = g'.cfg ∧ (runGate g' ops).1.mode = g'.mode := by
      intro ops
      induction ops with
      | nil => intro g'; exact ⟨rfl, rfl⟩
      | cons op ops ih =>
        intro g'
        obtain ⟨now, hdrs⟩ := op
        obtain ⟨fm, fc, _, _⟩ := gateStep_frame g' now hdrs
        obtain ⟨h1, h2⟩ := ih (gateStep g' now hdrs).2
        simp only [runGate]
        exact ⟨by rw [h1, fc], by rw [h2, fm]⟩
    obtain ⟨fm, fc, _, _⟩ := gateStep_frame g a [tok]
    obtain ⟨h1, h2⟩ := hfr mid (gateStep g a [tok]).2
    apply not_admitted_refused _ (by rw [h2, fm, hreq])
    cases hx : admitted (runGate (gateStep g a [tok]).2 mid).1 b [tok]
    · rfl
    · exfalso
      have hok := (admitted_iff _ b [tok]).1 hx
      obtain ⟨t1, n', heq1, _, _, hp1, _⟩ := (verifyRequest_ok_iff _ _ b [tok]).1 hok
      injection heq1 with heq1 _
      subst heq1
      obtain ⟨_, _, hw⟩ := authentic_fields ((verifyPre_ok_iff _ _ _ _).1 hp1)
      rw [h1, fc] at hw
      exact hb hw

/-! ### The same, for every gate `ProofAuthenticate` can build and every state it can reach -/

def effectiveCapacity (capacity : Int) : Nat :=
  if capacity ≤ 0 then defaultReplayCapacity else capacity.toNat

/-- what `mkGate` establishes and `gateStep` preserves -/
def WF (capacity : Int) (g : Gate) : Prop :=
  g.mode = .require ∧ ∃ c, g.cache = some c ∧ c.ttl = ttlNs g.cfg.skew ∧ c.cap = effectiveCapacity capacity

theorem mkGate_wf {origin : Bytes} {secrets : List (Bytes × Bytes)} {skew capacity : Int} {hasInner : Bool}
    {g : Gate} (h : mkGate modeRequireStr origin secrets skew capacity false hasInner = some g) :
    WF capacity g := by
  unfold mkGate at h
  have hne : modeRequireStr ≠ modeAllowStr := by decide
  simp only [hne, if_false, if_true] at h
  split at h; · cases h
  split at h; · cases h
  split at h; · cases h
  split at h; · cases h
  injection h with h
  subst h
  exact ⟨rfl, _, rfl, rfl, rfl⟩

theorem gateStep_wf {capacity : Int} {g : Gate} (h : WF capacity g) (now : Nat) (hdrs : List Bytes) :
    WF capacity (gateStep g now hdrs).2 := by
  obtain ⟨hm, c, hc, httl, hcap⟩ := h
  obtain ⟨fm, fc, _, fcache⟩ := gateStep_frame g now hdrs
  refine ⟨by rw [fm, hm], ?_⟩
  rw [fcache, hc, fc]
  rcases verifyRequest_some g.cfg c now hdrs with ⟨h2, _⟩ | ⟨tok, m, _, _, h2, _⟩
  · exact ⟨c, h2, httl, hcap⟩
  · obtain ⟨p1, p2⟩ := checkAndAdd_params c m now
    exact ⟨_, h2, by rw [p2, httl], by rw [p1, hcap]⟩

theorem runGate_wf {capacity : Int} (ops : List (Nat × List Bytes)) :
    ∀ {g : Gate}, WF capacity g → WF capacity (runGate g ops).1 := by
  induction ops with
  | nil => intro g h; exact h
  | cons op ops ih =>
    intro g h
    obtain ⟨now, hdrs⟩ := op
    simp only [runGate]
    exact ih (gateStep_wf h now hdrs)

/-- **no_replay_reachable**: the headline, about exactly what the driver runs. Build a
require-mode gate with the replay cache enabled from ANY configuration `ProofAuthenticate`
accepts, let ANY history `pre` of requests go through it, and then: a proof that passes at reading
`a` is refused at every later reading `b`, whatever requests `mid` arrive in between (all judged
at readings `≤ b`), unless those admitted at least `capacity` (effective) proofs. -/
theorem no_replay_reachable (origin : Bytes) (secrets : List (Bytes × Bytes)) (skew capacity : Int)
    (hasInner : Bool) (g0 : Gate)
    (hmk : mkGate modeRequireStr origin secrets skew capacity false hasInner = some g0)
    (pre : List (Nat × List Bytes))
    (a : Nat) (tok : Bytes) (hacc : (gateStep (runGate g0 pre).1 a [tok]).1.pass = true)
    (mid : List (Nat × List Bytes)) (b : Nat)
    (hmono : ∀ op ∈ mid, op.1 ≤ b)
    (hfew : (runGate (gateStep (runGate g0 pre).1 a [tok]).2 mid).2 < effectiveCapacity capacity) :
    (gateStep (runGate (gateStep (runGate g0 pre).1 a [tok]).2 mid).1 b [tok]).1 = refusal := by
  obtain ⟨hm, c, hc, httl, hcap⟩ := runGate_wf pre (mkGate_wf hmk)
  exact no_replay _ c hc httl hm a tok hacc mid b hmono (by rw [hcap]; exact hfew)

/-! ## The MAC input binds the worker: framing is unambiguous -/

theorem append_nul_inj : ∀ (a a' b b' : Bytes), (0 : UInt8) ∉ a → (0 : UInt8) ∉ a' →
    a ++ 0 :: b = a' ++ 0 :: b' → a = a' ∧ b = b' := by
  intro a
  induction a with
  | nil =>
    intro a' b b' _ h0' h
    cases a' with
    | nil => simp at h; exact ⟨rfl, h⟩
    | cons x xs =>
      simp at h
      exact absurd (by rw [← h.1]; simp) h0'
  | cons x xs ih =>
    intro a' b b' h0 h0' h
    cases a' with
    | nil =>
      simp at h
      exact absurd (by rw [h.1]; simp) h0
    | cons y ys =>
      simp only [List.cons_append, List.cons.injEq] at h
      obtain ⟨hxy, hrest⟩ := h
      have := ih ys b b' (fun hm => h0 (List.mem_cons_of_mem _ hm)) (fun hm => h0' (List.mem_cons_of_mem _ hm)) hrest
      exact ⟨by rw [hxy, this.1], this.2⟩

theorem tokChar_ne_nul {s : Bytes} (h : s.all isTokChar = true) : (0 : UInt8) ∉ s := by
  intro hm
  have := List.all_eq_true.1 h 0 hm
  revert this; decide

theorem digit_ne_nul {s : Bytes} (h : s.all isDigit = true) : (0 : UInt8) ∉ s := by
  intro hm
  have := List.all_eq_true.1 h 0 hm
  revert this; decide

/-- **canonical_injective**: on fields of the grammar (none can contain NUL) the MAC input
determines all four fields, so a MAC for `(kid, ts, nonce, origin)` is a MAC for nothing else —
in particular not for another worker's origin. -/
theorem canonical_injective {k t n o k' t' n' o' : Bytes}
    (hk : kidOK k = true) (ht : tsOK t = true) (hn : nonceOK n = true)
    (hk' : kidOK k' = true) (ht' : tsOK t' = true) (hn' : nonceOK n' = true)
    (h : canonical k t n o = canonical k' t' n' o') : k = k' ∧ t = t' ∧ n = n' ∧ o = o' := by
  simp only [kidOK, tsOK, nonceOK, Bool.and_eq_true] at hk ht hn hk' ht' hn'
  unfold canonical at h
  have h1 := List.append_cancel_left h
  simp only [List.cons.injEq, true_and] at h1
  obtain ⟨e1, h2⟩ := append_nul_inj _ _ _ _ (tokChar_ne_nul hk.2) (tokChar_ne_nul hk'.2) h1
  obtain ⟨e2, h3⟩ := append_nul_inj _ _ _ _ (digit_ne_nul ht.2) (digit_ne_nul ht'.2) h2
  obtain ⟨e3, e4⟩ := append_nul_inj _ _ _ _ (tokChar_ne_nul hn.2) (tokChar_ne_nul hn'.2) h3
  exact ⟨e1, e2, e3, e4⟩

/-- A proof passes only with the MAC of *this* worker's origin: whatever passes carries
`HMAC(secret[kid], canonical kid ts nonce cfg.origin)`, and that MAC input differs from the one
for any other origin. -/
theorem pass_binds_origin (g : Gate) (hreq : g.mode = .require) (now : Nat) (hdrs : List Bytes)
    (h : (gateStep g now hdrs).1.pass = true) :
    ∃ tok kid ts nonce mac secret, hdrs = [tok] ∧ splitOn dot tok = [versionV1, kid, ts, nonce, mac] ∧
      lookup kid g.cfg.secrets = some secret ∧
      b64Decode mac = some (hmacSha256 secret (canonical kid ts nonce g.cfg.origin)) ∧
      ∀ o', o' ≠ g.cfg.origin → canonical kid ts nonce o' ≠ canonical kid ts nonce g.cfg.origin := by
  obtain ⟨tok, nonce, heq, _, _, ⟨_, kid, ts, mac, secret, hs, hk, ht, hn, _, hl, _, _, hmac⟩, _⟩ :=
    (gate_pass_iff g hreq now hdrs).1 h
  refine ⟨tok, kid, ts, nonce, mac, secret, heq, hs, hl, hmac, ?_⟩
  intro o' hne heq'
  exact hne (canonical_injective hk ht hn hk ht hn heq').2.2.2


/-! ## Non-vacuity: concrete instances (real HMAC-SHA256, evaluated by the kernel) -/

def exTok : Bytes := [118, 49, 46, 107, 49, 46, 49, 55, 48, 48, 48, 48, 48, 48, 48, 48, 46, 81, 48, 90, 80, 85, 107, 49, 66, 84, 107, 78, 70, 84, 107, 57, 79, 81, 48, 85, 120, 77, 81, 46, 55, 80, 80, 52, 95, 102, 97, 75, 49, 119, 103, 113, 100, 112, 80, 83, 100, 122, 108, 115, 88, 120, 90, 52, 90, 85, 109, 104, 99, 68, 48, 65, 55, 115, 110, 67, 102, 90, 106, 115, 101, 68, 65]
def exOrigin : Bytes := [119, 111, 114, 107, 101, 114, 45, 97]
def exKid : Bytes := [107, 49]
def exTok2 : Bytes := [118, 49, 46, 107, 49, 46, 49, 55, 48, 48, 48, 48, 48, 48, 48, 48, 46, 65, 65, 65, 65, 65, 65, 65, 65, 65, 65, 65, 65, 65, 65, 65, 65, 65, 65, 65, 65, 65, 65, 46, 110, 101, 118, 107, 75, 81, 117, 104, 78, 118, 95, 67, 99, 75, 72, 53, 106, 82, 52, 108, 82, 106, 116, 66, 86, 119, 45, 57, 116, 87, 98, 83, 70, 99, 88, 114, 80, 110, 78, 75, 52, 109, 103]
def exTokOtherOrigin : Bytes := [118, 49, 46, 107, 49, 46, 49, 55, 48, 48, 48, 48, 48, 48, 48, 48, 46, 81, 48, 90, 80, 85, 107, 49, 66, 84, 107, 78, 70, 84, 107, 57, 79, 81, 48, 85, 120, 77, 81, 46, 98, 98, 90, 119, 103, 70, 54, 121, 110, 66, 95, 82, 45, 113, 97, 122, 107, 84, 107, 114, 65, 82, 106, 101, 99, 109, 108, 67, 78, 115, 73, 102, 87, 88, 108, 101, 84, 107, 98, 84, 86, 69, 69]
def exSecret : Bytes := List.replicate 32 17
/-- `ProofAuthenticate{require, origin "worker-a", {"k1": 0x11…}, skew 30, capacity 2}` -/
def exGate : Gate := ⟨.require, ⟨exOrigin, [(exKid, exSecret)], 30⟩, true, some ⟨ttlNs 30, 2, []⟩⟩
def tA : Nat := 1700000000 * nsPerSec                    -- ts itself
def tB : Nat := 1700000030 * nsPerSec + 999999999        -- the last instant at which ts is accepted
/-- in between: a second valid proof (admitted), a junk header, and no header at all -/
def exMid : List (Nat × List Bytes) := [(tA + 5, [exTok2]), (tA + 7, [[120]]), (tA + 9, [])]

set_option maxRecDepth 100000 in
theorem ex_mk : mkGate modeRequireStr exOrigin [(exKid, exSecret)] 30 2 false true = some exGate := by
  decide +kernel

set_option maxRecDepth 100000 in
theorem ex_pass : (gateStep (runGate exGate []).1 tA [exTok]).1.pass = true := by decide +kernel

set_option maxRecDepth 100000 in
theorem ex_mid : (runGate (gateStep (runGate exGate []).1 tA [exTok]).2 exMid).2 = 1 := by decide +kernel

set_option maxRecDepth 100000 in
theorem ex_mono : ∀ op ∈ exMid, op.1 ≤ tB := by decide +kernel

/-- hypotheses of `no_replay_reachable` are satisfiable, with one proof admitted in between and the
replay at the very last acceptable instant (61 s after a TTL of `skew` would have expired) -/
example : (gateStep (runGate (gateStep (runGate exGate []).1 tA [exTok]).2 exMid).1 tB [exTok]).1 = refusal :=
  no_replay_reachable exOrigin [(exKid, exSecret)] 30 2 true exGate ex_mk [] tA exTok ex_pass exMid tB
    ex_mono (by rw [ex_mid]; decide)

set_option maxRecDepth 100000 in
theorem ex_pass0 : (gateStep exGate tA [exTok]).1.pass = true := by decide +kernel

/-- `gate_pass_iff` / `Authentic` is inhabited: the minted proof is authentic for this worker -/
example : ∃ n, Authentic exGate.cfg tA exTok n := by
  obtain ⟨tok, n, heq, _, _, h, _⟩ := (gate_pass_iff exGate rfl tA [exTok]).1 ex_pass0
  injection heq with heq _
  subst heq
  exact ⟨n, h⟩

set_option maxRecDepth 100000 in
/-- the same proof minted for another worker ("worker-b") does not pass here, nor do a missing
header, an empty one, two headers or a comma-joined pair; all get the identical answer -/
example : (gateStep exGate tA [exTokOtherOrigin]).1 = refusal ∧ (gateStep exGate tA []).1 = refusal ∧
    (gateStep exGate tA [[]]).1 = refusal ∧ (gateStep exGate tA [exTok, exTok]).1 = refusal ∧
    (gateStep exGate tA [exTok ++ [comma] ++ exTok]).1 = refusal := by decide +kernel

set_option maxRecDepth 100000 in
/-- the capacity exception is real: with capacity 1, one other admitted proof evicts the nonce and
the replay passes again (so `hfew` cannot be dropped) -/
example :
    let g1 : Gate := { exGate with cache := some ⟨ttlNs 30, 1, []⟩ }
    (gateStep (runGate (gateStep g1 tA [exTok]).2 [(tA + 5, [exTok2])]).1 tB [exTok]).1.pass = true := by
  decide +kernel


/-- Regression witness for the repaired defect (F25): with the old TTL (`skew` seconds) a nonce
admitted at the early edge of its window (`ts = now + skew`) has expired `skew` seconds later,
while its timestamp stays acceptable for another `skew + 1` seconds: accepted twice. -/
example : let c : Cache := ⟨30 * nsPerSec, 8, []⟩
    (checkAndAdd (checkAndAdd c [7] (100 * nsPerSec)).2 [7] (130 * nsPerSec)).1 = true ∧
    inWindow 30 130 (100 * nsPerSec) = true ∧ inWindow 30 130 (130 * nsPerSec) = true := by decide

/-- … and with the repaired TTL the same replay is refused up to the last acceptable instant -/
example : let c : Cache := ⟨ttlNs 30, 8, []⟩
    (checkAndAdd (checkAndAdd c [7] (100 * nsPerSec)).2 [7] (160 * nsPerSec + 999999999)).1 = false ∧
    inWindow 30 130 (160 * nsPerSec + 999999999) = true ∧ inWindow 30 130 (161 * nsPerSec) = false := by decide

end Vgi.Props.C25
