import Vgi.Model.RespHeaders
import Vgi.Proofs.RespHeaders
import Vgi.Generated.C20
/-!
# C20 — Every HTTP response carries consistent correlation and capability headers

Theorems about `Vgi.RespHeaders` (the model the driver executes).

* `request_id_echo`, `request_id_minted`, `trimmed_is_trim`, `minted_shape`, `request_id_shape` — the
  X-Request-ID rule for every header value and every 8 random bytes.
* `request_id_on_every_exit`, `capabilities_after_hook`, `expose_on_cors_responses` — for every
  configuration, every request (every exit of `ServeHTTP`: hook failure, preflight, token-proxy
  preflight, 413, dispatched) and every sequence of later header writes taken from the package's own
  (regenerated) write sites outside `ServeHTTP`'s helpers.
* `expose_covers` — for every configuration (all flags, caps, proxy header lists, echo-name lists):
  every capability, rejection and per-outcome header the configuration can emit is in the expose
  list.
* `expose_covers_history`, `response_headers_history` — the same after any history of reconfigurations
  between requests (the model is memoryless: the configuration in force decides).
* `generated_facts_ok` — decided on the facts regenerated from the source: nobody else writes the
  protected headers; ServeHTTP sets the request id before anything can answer, the capability
  headers right after the hook, CORS before the 413 exit and the mux; every audited header name the
  package can set (constant, or the `VGI-Echo-` family) is in the all-on expose list.
-/
namespace Vgi.Props.C20
open Vgi.RespHeaders
open Vgi.Generated.C20 (facts)

/-! ## facts decided on the regenerated source facts -/

theorem generated_facts_ok : FactsOK facts := by decide

/-- non-vacuity: the facts contain protected writes by ServeHTTP's helpers, a dynamic family, and
audited names -/
example : (facts.writes.filter fun w => match w.name with
    | .const s => protectedNames.contains s | _ => false).length ≥ 4 := by decide
example : (facts.writes.filter fun w => match w.name with | .prefixed _ => true | _ => false).length ≥ 1 := by
  decide
example : (facts.writes.filter fun w => match w.name with | .const s => audited s | _ => false).length ≥ 20 := by
  decide
/-- a package that sets an unexposed VGI header, or rewrites X-Request-ID in a handler, is refused -/
example : ¬ FactsOK { facts with writes :=
    { fn := "handleUnary", op := "Set", name := .const "vgi-new-capability" } :: facts.writes } := by decide
example : ¬ FactsOK { facts with writes :=
    { fn := "handleUnary", op := "Set", name := .const "x-request-id" } :: facts.writes } := by decide

/-! ## X-Request-ID -/

theorem byteLen_pos : ∀ s : List Char, s ≠ [] → 1 ≤ byteLen s
  | [], h => absurd rfl h
  | c :: r, _ => by
    have := Char.utf8Size_pos c
    simp only [byteLen]; omega

/-- A usable caller id (1..128 bytes after trimming) is echoed, trimmed. -/
theorem request_id_echo (hdr : List Char) (rnd : List UInt8)
    (h1 : 1 ≤ byteLen (trimSpace hdr)) (h2 : byteLen (trimSpace hdr) ≤ 128) :
    resolveRequestID hdr rnd = trimSpace hdr := by
  have hne : trimSpace hdr ≠ [] := by
    intro h; rw [h] at h1; simp [byteLen] at h1
  simp only [resolveRequestID, maxRequestIDLength]
  have : ¬ (128 < byteLen (trimSpace hdr)) := by omega
  simp [hne, this]

/-- Anything else (absent, blank, over 128 bytes) is replaced by a minted id. -/
theorem request_id_minted (hdr : List Char) (rnd : List UInt8)
    (h : trimSpace hdr = [] ∨ 128 < byteLen (trimSpace hdr)) :
    resolveRequestID hdr rnd = newRequestID rnd := by
  simp only [resolveRequestID, maxRequestIDLength]
  rcases h with h | h
  · simp [h]
  · simp [h]

/-- `trimSpace` is trimming: the value with a whitespace-only prefix and suffix removed, and nothing
more could be removed. -/
theorem trimmed_is_trim (hdr : List Char) :
    ∃ pre post, hdr = pre ++ trimSpace hdr ++ post ∧ pre.all isSpace = true ∧ post.all isSpace = true ∧
      (∀ c, (trimSpace hdr).head? = some c → isSpace c = false) ∧
      (∀ c, (trimSpace hdr).getLast? = some c → isSpace c = false) := by
  obtain ⟨post, hp1, hp2⟩ := trimRight_decomp hdr
  obtain ⟨pre, hq1, hq2⟩ := trimLeft_decomp (trimRight hdr)
  refine ⟨pre, post, ?_, hq2, hp2, ?_, ?_⟩
  · unfold trimSpace
    rw [← hq1]; exact hp1
  · intro c hc; exact trimLeft_head _ _ hc
  · intro c hc
    apply trimRight_last hdr c
    unfold trimSpace at hc
    by_cases hne : trimLeft (trimRight hdr) = []
    · rw [hne] at hc; simp at hc
    · rw [hq1, List.getLast?_append, hc]
      rfl

/-- The minted id is 16 lowercase hex characters, for every 8 random bytes (the all-zero fallback
included). -/
theorem minted_shape (rnd : List UInt8) (h : rnd.length = 8) : isMintShape (newRequestID rnd) = true := by
  simp [isMintShape, newRequestID, hexEncode_length, hexEncode_all, h]

/-- Every response id is either the caller's trimmed id of 1..128 bytes or a 16-hex minted one. -/
theorem request_id_shape (hdr : List Char) (rnd : List UInt8) (h : rnd.length = 8) :
    (resolveRequestID hdr rnd = trimSpace hdr ∧ 1 ≤ byteLen (trimSpace hdr) ∧ byteLen (trimSpace hdr) ≤ 128) ∨
    (resolveRequestID hdr rnd = newRequestID rnd ∧ isMintShape (resolveRequestID hdr rnd) = true) := by
  by_cases he : trimSpace hdr = []
  · right
    have := request_id_minted hdr rnd (Or.inl he)
    exact ⟨this, by rw [this]; exact minted_shape rnd h⟩
  · by_cases hl : 128 < byteLen (trimSpace hdr)
    · right
      have := request_id_minted hdr rnd (Or.inr hl)
      exact ⟨this, by rw [this]; exact minted_shape rnd h⟩
    · left
      have h1 := byteLen_pos _ he
      exact ⟨request_id_echo hdr rnd h1 (by omega), h1, by omega⟩

-- non-vacuity / boundaries: padded id, 128 and 129 bytes, multi-byte characters, unicode spaces
example : resolveRequestID "  abc-123\t ".toList [1, 2, 3, 4, 5, 6, 7, 8] = "abc-123".toList := by decide
example : resolveRequestID "  　 ".toList [1, 2, 3, 4, 5, 6, 7, 255] = "01020304050607ff".toList := by
  decide
set_option maxRecDepth 20000 in
example : resolveRequestID (List.replicate 128 'x') [0, 0, 0, 0, 0, 0, 0, 0] = List.replicate 128 'x' := by
  decide
set_option maxRecDepth 20000 in
example : resolveRequestID (List.replicate 129 'x') [0, 0, 0, 0, 0, 0, 0, 0] = "0000000000000000".toList := by
  decide
set_option maxRecDepth 20000 in
example : resolveRequestID (List.replicate 43 '€') [0, 0, 0, 0, 0, 0, 0, 0] = "0000000000000000".toList := by
  decide
set_option maxRecDepth 20000 in
example : resolveRequestID (List.replicate 42 '€') [0, 0, 0, 0, 0, 0, 0, 0] = List.replicate 42 '€' := by
  decide

/-! ## the headers survive every exit and every later write -/

/-- a later write: one of the package's write sites outside ServeHTTP's own helpers -/
def LaterWrites (F : Facts) (ops : List HdrOp) : Prop :=
  ∀ op ∈ ops, ∃ w ∈ F.writes, ownWriters.contains w.fn = false ∧ nameMatches w.name op.name = true

theorem later_writes_spare_protected {F : Facts} (hF : FactsOK F) {ops : List HdrOp} (h : LaterWrites F ops)
    (n : String) (hn : n ∈ protectedNames) : ∀ op ∈ ops, n ≠ op.name := by
  intro op hop heq
  obtain ⟨w, hw, hfn, hm⟩ := h op hop
  have hok := (hF.2.2.2 w hw).1
  unfold writeOK at hok
  cases hname : w.name with
  | const s =>
    simp only [hname, nameMatches, beq_iff_eq] at hm hok
    subst hm
    rw [← heq] at hok
    have hfn' : w.fn ∉ ownWriters := by simpa using hfn
    have hok' : ¬ n ∈ protectedNames ∨ w.fn ∈ ownWriters := by simpa using hok
    rcases hok' with h1 | h1
    · exact h1 hn
    · exact hfn' h1
  | prefixed p =>
    simp only [hname, nameMatches] at hm hok
    rw [← heq] at hm
    have := List.all_eq_true.mp hok n hn
    simp [hm] at this
  | unknown src => simp [hname, nameMatches] at hm

/-! ### the capability table -/

theorem mem_enabledRows {α : Type} {rows : List (Bool × α)} {x : α} :
    x ∈ enabledRows rows ↔ (true, x) ∈ rows := by
  simp only [enabledRows, List.mem_filterMap]
  constructor
  · rintro ⟨r, hr, h⟩
    obtain ⟨c, y⟩ := r
    cases c <;> simp at h
    subst h; exact hr
  · intro h
    exact ⟨(true, x), h, by simp⟩

/-- the names `addCapabilityHeaders` can set -/
def capNames : List String :=
  [hSupportedEncodings, hMaxRequestBytes, hMaxResponseBytes, hMaxExternalized, hExternalization, hUploadURL,
   hMaxUploadBytes, hProofRequired, hIntrospect, hStickyEnabled, hStickyTTL, hStickyEchoHeaders]

theorem cap_rows (cfg : Cfg) (p : String × String) (hp : p ∈ capabilityHeaders cfg) :
    ∃ c, (c, p) ∈ capabilityTable cfg ∧ c = true := by
  exact ⟨true, mem_enabledRows.mp hp, rfl⟩

theorem cap_name_mem (cfg : Cfg) (p : String × String) (hp : p ∈ capabilityHeaders cfg) : p.1 ∈ capNames := by
  have h := mem_enabledRows.mp hp
  simp only [capabilityTable, List.mem_cons, List.mem_nil_iff, or_false, Prod.mk.injEq] at h
  rcases h with h | h | h | h | h | h | h | h | h | h | h | h <;> obtain ⟨_, rfl⟩ := h <;> simp [capNames]

theorem hget_setAll_notin (kvs : List (String × String)) (h : Headers) (n : String)
    (hn : ∀ p ∈ kvs, p.1 ≠ n) : hget (setAll h kvs) n = hget h n := by
  rw [hget_setAll]
  have : kvs.reverse.find? (fun p => p.1 == n) = none := by
    rw [List.find?_eq_none]
    intro p hp
    have := hn p (by simpa using hp)
    simpa using this
  rw [this]

theorem hget_setAll_unique (kvs : List (String × String)) (h : Headers) (n v : String)
    (hmem : (n, v) ∈ kvs) (huniq : ∀ p ∈ kvs, p.1 = n → p.2 = v) : hget (setAll h kvs) n = some v := by
  rw [hget_setAll]
  cases hf : kvs.reverse.find? (fun p => p.1 == n) with
  | none =>
    have := List.find?_eq_none.mp hf (n, v) (by simpa using hmem)
    simp at this
  | some p =>
    have hm : p ∈ kvs := by simpa using List.mem_of_find?_eq_some hf
    have hp : p.1 = n := by simpa using List.find?_some hf
    simp [huniq p hm hp]

theorem caps_spare (cfg : Cfg) (h : Headers) (n : String) (hn : n ∉ capNames) :
    hget (setAll h (capabilityHeaders cfg)) n = hget h n :=
  hget_setAll_notin _ _ _ (fun p hp heq => hn (heq ▸ cap_name_mem cfg p hp))

theorem caps_encodings (cfg : Cfg) (h : Headers) :
    hget (setAll h (capabilityHeaders cfg)) hSupportedEncodings = some (supportedEncodingsValue cfg) := by
  apply hget_setAll_unique
  · exact mem_enabledRows.mpr (by simp [capabilityTable])
  · intro p hp heq
    have h := mem_enabledRows.mp hp
    simp only [capabilityTable, List.mem_cons, List.mem_nil_iff, or_false, Prod.mk.injEq] at h
    rcases h with h | h | h | h | h | h | h | h | h | h | h | h <;> obtain ⟨_, rfl⟩ := h <;>
      first | rfl | (exfalso; simp [hSupportedEncodings, hMaxRequestBytes, hMaxResponseBytes, hMaxExternalized, hExternalization, hUploadURL, hMaxUploadBytes, hProofRequired, hIntrospect, hStickyEnabled, hStickyTTL, hStickyEchoHeaders] at heq)

theorem caps_externalization (cfg : Cfg) (h : Headers) :
    hget (setAll h (capabilityHeaders cfg)) hExternalization
      = some (if cfg.externalStorage then "true" else "false") := by
  apply hget_setAll_unique
  · exact mem_enabledRows.mpr (by simp [capabilityTable])
  · intro p hp heq
    have h := mem_enabledRows.mp hp
    simp only [capabilityTable, List.mem_cons, List.mem_nil_iff, or_false, Prod.mk.injEq] at h
    rcases h with h | h | h | h | h | h | h | h | h | h | h | h <;> obtain ⟨_, rfl⟩ := h <;>
      first | rfl | (exfalso; simp [hSupportedEncodings, hMaxRequestBytes, hMaxResponseBytes, hMaxExternalized, hExternalization, hUploadURL, hMaxUploadBytes, hProofRequired, hIntrospect, hStickyEnabled, hStickyTTL, hStickyEchoHeaders] at heq)

/-- **X-Request-ID on every response**: whichever exit `ServeHTTP` takes (hook failure, preflight,
token-proxy preflight, 413, dispatch to any handler / page / mux error) and whatever the package
writes afterwards, the response carries the resolved request id. -/
theorem request_id_on_every_exit (F : Facts) (hF : FactsOK F) (cfg : Cfg) (req : Req) (rnd : List UInt8)
    (ops : List HdrOp) (hops : LaterWrites F ops) :
    hget (serveHeaders cfg req rnd ops) hRequestID
      = some (String.ofList (resolveRequestID req.requestID rnd)) := by
  unfold serveHeaders
  simp only []
  rw [hget_foldl_ops _ _ _ (later_writes_spare_protected hF hops hRequestID (by simp [protectedNames]))]
  have hcap : ∀ h : Headers, hget (setAll h (capabilityHeaders cfg)) hRequestID = hget h hRequestID :=
    fun h => caps_spare cfg h hRequestID (by decide)
  have hne : hRequestID ≠ hExpose := by decide
  cases exitOf cfg req <;> simp only [] <;> by_cases hc : cfg.cors = true <;>
    simp [hc, hcap, hget_hset_self, hget_hset_other _ _ _ _ hne]

/-- **Capability headers after the hook**: once the serve-start hook has succeeded, every response —
every exit, every later write of the package — carries VGI-Supported-Encodings (possibly empty, never
absent) and VGI-Externalization-Enabled ("true"/"false"). -/
theorem capabilities_after_hook (F : Facts) (hF : FactsOK F) (cfg : Cfg) (hhook : cfg.hookFails = false)
    (req : Req) (rnd : List UInt8) (ops : List HdrOp) (hops : LaterWrites F ops) :
    hget (serveHeaders cfg req rnd ops) hSupportedEncodings = some (supportedEncodingsValue cfg) ∧
    hget (serveHeaders cfg req rnd ops) hExternalization
      = some (if cfg.externalStorage then "true" else "false") := by
  unfold serveHeaders
  simp only []
  rw [hget_foldl_ops _ _ _ (later_writes_spare_protected hF hops hSupportedEncodings (by simp [protectedNames])),
      hget_foldl_ops _ _ _ (later_writes_spare_protected hF hops hExternalization (by simp [protectedNames]))]
  have hne1 : hSupportedEncodings ≠ hExpose := by decide
  have hne2 : hExternalization ≠ hExpose := by decide
  have hex : exitOf cfg req ≠ .hookFailed := by
    unfold exitOf; rw [hhook]; simp only [Bool.false_eq_true, if_false]
    split <;> (try split) <;> intro h <;> cases h
  cases he : exitOf cfg req <;> simp only [] <;> (try exact absurd he hex) <;>
    by_cases hc : cfg.cors = true <;>
    simp [hc, caps_encodings, caps_externalization, hget_hset_other _ _ _ _ hne1, hget_hset_other _ _ _ _ hne2]

/-- With CORS enabled, every response past the hook except the PKCE token-proxy preflight (which
applies its own origin-allowlist CORS) carries the configuration's expose list. -/
theorem expose_on_cors_responses (F : Facts) (hF : FactsOK F) (cfg : Cfg) (hcors : cfg.cors = true)
    (req : Req) (rnd : List UInt8) (ops : List HdrOp) (hops : LaterWrites F ops)
    (hex : exitOf cfg req ≠ .hookFailed) (hex2 : exitOf cfg req ≠ .tokenPreflight) :
    hget (serveHeaders cfg req rnd ops) hExpose = some (", ".intercalate (exposeList cfg)) := by
  unfold serveHeaders
  simp only []
  rw [hget_foldl_ops _ _ _ (later_writes_spare_protected hF hops hExpose (by simp [protectedNames]))]
  cases he : exitOf cfg req <;> simp only [] <;> (try exact absurd he hex) <;> (try exact absurd he hex2) <;>
    simp [hcors, hget_hset_self]

/-! ## the expose list covers everything the configuration can emit -/

theorem mem_exposeList_of_row (cfg : Cfg) (n : String) (h : (true, n) ∈ exposeTable cfg) : n ∈ exposeList cfg := by
  unfold exposeList
  exact List.mem_append_left _ (mem_enabledRows.mpr h)

/-- **Expose covers.** For every configuration: each capability header it advertises, each header
a rejection can carry (VGI-Auth-Reason, WWW-Authenticate, VGI-Auth-Proxy-Required when auth depends
on a proxy), each per-outcome header (X-VGI-RPC-Error, X-VGI-Content-Encoding, VGI-Session,
VGI-Session-Close, every configured VGI-Echo-<name>) and X-Request-ID is listed in
Access-Control-Expose-Headers. -/
theorem expose_covers (cfg : Cfg) (n : String)
    (hn : n ∈ (capabilityHeaders cfg).map (·.1) ∨ n ∈ rejectionHeaders cfg ∨ n ∈ outcomeHeaders cfg ∨
      n = hRequestID) : n ∈ exposeList cfg := by
  rcases hn with hn | hn | hn | hn
  · obtain ⟨p, hp, rfl⟩ := List.mem_map.mp hn
    have h := mem_enabledRows.mp hp
    simp only [capabilityTable, List.mem_cons, List.mem_nil_iff, or_false, Prod.mk.injEq] at h
    rcases h with h | h | h | h | h | h | h | h | h | h | h | h <;> obtain ⟨hc, rfl⟩ := h <;>
      apply mem_exposeList_of_row <;> simp_all [exposeTable]
  · simp only [rejectionHeaders, List.mem_append, List.mem_cons, List.mem_nil_iff, or_false] at hn
    rcases hn with (rfl | rfl) | hn
    · apply mem_exposeList_of_row; simp [exposeTable]
    · apply mem_exposeList_of_row; simp [exposeTable]
    · split at hn
      · simp at hn
      · rename_i hne
        simp only [List.mem_cons, List.mem_nil_iff, or_false] at hn
        subst hn
        apply mem_exposeList_of_row
        simp [exposeTable, hne]
  · simp only [outcomeHeaders, List.mem_append, List.mem_cons, List.mem_nil_iff, or_false] at hn
    rcases hn with (rfl | rfl | rfl | rfl) | hn
    · apply mem_exposeList_of_row; simp [exposeTable]
    · apply mem_exposeList_of_row; simp [exposeTable]
    · apply mem_exposeList_of_row; simp [exposeTable]
    · apply mem_exposeList_of_row; simp [exposeTable]
    · unfold exposeList; exact List.mem_append_right _ hn
  · subst hn; apply mem_exposeList_of_row; simp [exposeTable]

/-- non-vacuity: a configuration with everything on and two echo names advertises 12 capability
headers, and its expose list has 22 entries -/
example : (capabilityHeaders { cfgMax with echoNames := ["fly-force-instance-id", "x-region"] }).length = 12 := by
  decide
example : (exposeList { cfgMax with echoNames := ["fly-force-instance-id", "x-region"] }).length = 22 := by
  decide
example : (exposeList { cfgMax with proofRequired := false, extraProxyHeaders := ["x-proxy-user"] }).contains
    hAuthProxyRequired = true := by decide
def cfgMin : Cfg :=
  { cors := false, maxRequestBytes := 0, maxResponseBytes := 0, maxExternalizedResponseBytes := 0,
    maxUploadBytes := 0, externalStorage := false, upload := false, proofRequired := false,
    introspect := false, extraProxyHeaders := [], sticky := none, echoNames := [],
    compression := false, hookFails := false, pkce := false }

example : (capabilityHeaders cfgMin) = [(hSupportedEncodings, ""), (hExternalization, "false")] := by decide

/-! ## configuration histories

Setters may be called between requests. The model has no memory: a response is a function of the
configuration in force when it is produced (`serveHeaders cfg …`), so the statements above hold at
every point of every history of reconfigurations — in particular nothing rendered for an earlier
configuration (a memoised expose list, say) may be served later. The harness checks exactly that
against the code with `recfg` lines. -/

/-- the configuration after a history of setter calls (each an arbitrary `Cfg → Cfg`) -/
def cfgAfter (c0 : Cfg) (hist : List (Cfg → Cfg)) : Cfg := hist.foldl (fun c f => f c) c0

/-- **Expose covers, over histories**: after any sequence of reconfigurations, every header the
configuration then in force can emit is in the expose list computed for that configuration. -/
theorem expose_covers_history (c0 : Cfg) (hist : List (Cfg → Cfg)) (n : String)
    (hn : n ∈ (capabilityHeaders (cfgAfter c0 hist)).map (·.1) ∨ n ∈ rejectionHeaders (cfgAfter c0 hist) ∨
      n ∈ outcomeHeaders (cfgAfter c0 hist) ∨ n = hRequestID) :
    n ∈ exposeList (cfgAfter c0 hist) :=
  expose_covers (cfgAfter c0 hist) n hn

/-- … and the response produced then carries that list, the request id and the two mandatory
capability headers (every exit, any later package writes). -/
theorem response_headers_history (F : Facts) (hF : FactsOK F) (c0 : Cfg) (hist : List (Cfg → Cfg))
    (hhook : (cfgAfter c0 hist).hookFails = false) (req : Req) (rnd : List UInt8) (ops : List HdrOp)
    (hops : LaterWrites F ops) :
    let cfg := cfgAfter c0 hist
    hget (serveHeaders cfg req rnd ops) hRequestID = some (String.ofList (resolveRequestID req.requestID rnd)) ∧
    hget (serveHeaders cfg req rnd ops) hSupportedEncodings = some (supportedEncodingsValue cfg) ∧
    hget (serveHeaders cfg req rnd ops) hExternalization = some (if cfg.externalStorage then "true" else "false") ∧
    (cfg.cors = true → exitOf cfg req ≠ .tokenPreflight →
      hget (serveHeaders cfg req rnd ops) hExpose = some (", ".intercalate (exposeList cfg))) := by
  intro cfg
  have h1 := request_id_on_every_exit F hF cfg req rnd ops hops
  have h2 := capabilities_after_hook F hF cfg hhook req rnd ops hops
  refine ⟨h1, h2.1, h2.2, ?_⟩
  intro hc ht
  have hex : exitOf cfg req ≠ .hookFailed := by
    unfold exitOf; rw [hhook]; simp only [Bool.false_eq_true, if_false]
    split <;> (try split) <;> intro h <;> cases h
  exact expose_on_cors_responses F hF cfg hc req rnd ops hops hex ht

/-- non-vacuity: switching the proof advertisement on after a first configuration changes the list -/
example : (exposeList (cfgAfter cfgMin [fun c => { c with cors := true }, fun c => { c with proofRequired := true }])).contains
    hProofRequired = true ∧ (exposeList (cfgAfter cfgMin [fun c => { c with cors := true }])).contains hProofRequired = false := by
  decide

end Vgi.Props.C20
