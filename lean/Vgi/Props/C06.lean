import Vgi.Model.ScriptStream
/-!
# C06 — Pipe streams obey the lockstep contract

Theorems about `Vgi.Script.serveStream` / `loop` / `Collector` (models of `Server.serveStream`,
its lockstep loop and `OutputCollector`), the definitions the driver `Vgi.Drive.C06` executes.
Quantifiers: every stream script (any init logs / outcome / state kind / cancel hook / header,
any list of turns built from log / emit / emit-with-metadata / echo / finish statements with
propagate-or-ignore, any turn end), every client input stream (any schema, any number of data
batches with any library cast outcome, cancel batches anywhere), every turn index. No bounds.
-/
namespace Vgi.Props.C06
open Vgi Vgi.Script

/-! ### Vocabulary -/

def dataCount (bs : List Batch) : Nat := (bs.filter Batch.isData).length
def excCount (bs : List Batch) : Nat := (bs.filter Batch.isExc).length

@[simp] theorem dataCount_nil : dataCount [] = 0 := rfl
@[simp] theorem excCount_nil : excCount [] = 0 := rfl
@[simp] theorem dataCount_append (a b : List Batch) : dataCount (a ++ b) = dataCount a + dataCount b := by
  simp [dataCount, List.filter_append]
@[simp] theorem excCount_append (a b : List Batch) : excCount (a ++ b) = excCount a + excCount b := by
  simp [excCount, List.filter_append]
@[simp] theorem dataCount_data (v : String) (md : KVs) : dataCount [.data v md] = 1 := rfl
@[simp] theorem dataCount_log (l m : Bytes) (e : KVs) (r : Option Bytes) : dataCount [.log l m e r] = 0 := rfl
@[simp] theorem excCount_data (v : String) (md : KVs) : excCount [.data v md] = 0 := rfl
@[simp] theorem excCount_log (l m : Bytes) (e : KVs) (r : Option Bytes) : excCount [.log l m e r] = 0 := rfl
@[simp] theorem dataCount_err (e : SrvErr) (rid : Bytes) : dataCount [writeErrorBatch e rid] = 0 := rfl
@[simp] theorem excCount_err (e : SrvErr) (rid : Bytes) : excCount [writeErrorBatch e rid] = 1 := rfl

/-! ### OutputCollector: the one-data-batch rule and `Finish` -/

/-- What a collector may hold: no exception batch, one data batch iff `hasData`, and `finished`
only in producer mode. -/
structure CollOK (c : Collector) : Prop where
  noExc : excCount c.batches = 0
  data : dataCount c.batches = if c.hasData then 1 else 0
  fin : c.finished = true → c.producerMode = true

theorem newCollector_ok (pm : Bool) : CollOK (newCollector pm) :=
  ⟨rfl, rfl, by simp [newCollector]⟩

theorem emit_ok {c : Collector} (h : CollOK c) (v : String) (md : KVs) :
    CollOK (c.emit v md).1 ∧ (c.emit v md).1.producerMode = c.producerMode := by
  unfold Collector.emit
  by_cases hd : c.hasData = true
  · simp [hd, h]
  · simp only [hd, Bool.false_eq_true, if_false]
    refine ⟨⟨?_, ?_, h.fin⟩, ?_⟩
    · simp [h.noExc]
    · have := h.data; simp [hd] at this; simp [this]
    · simp

/-- **one_data_batch_rule.** A second `Emit` in the same call is refused and changes nothing. -/
theorem second_emit_refused (c : Collector) (h : c.hasData = true) (v : String) (md : KVs) :
    c.emit v md = (c, some fwEmitTwice) := by
  simp [Collector.emit, h]

/-- **finish_refused_on_exchange (collector).** `Finish()` on an exchange collector returns an
error and leaves the collector unchanged — in particular not finished. -/
theorem finish_refused (c : Collector) (h : c.producerMode = false) :
    c.finish = (c, some fwFinishExchange) := by
  simp [Collector.finish, h]

theorem finish_ok {c : Collector} (h : CollOK c) :
    CollOK c.finish.1 ∧ c.finish.1.producerMode = c.producerMode := by
  unfold Collector.finish
  by_cases hp : c.producerMode = true
  · simp only [hp, Bool.not_true, Bool.false_eq_true, if_false]
    exact ⟨⟨h.noExc, h.data, fun _ => by simp⟩, by simp⟩
  · simp [hp, h]

theorem clientLog_ok {c : Collector} (h : CollOK c) (lc : LogCall) :
    CollOK (c.clientLog lc) ∧ (c.clientLog lc).producerMode = c.producerMode := by
  unfold Collector.clientLog
  refine ⟨⟨?_, ?_, h.fin⟩, rfl⟩
  · simp [h.noExc]
  · simp [h.data]

theorem runOps_ok (ev : String) : ∀ (ops : List TurnOp) (c : Collector), CollOK c →
    CollOK (runOps ev c ops).1 ∧ (runOps ev c ops).1.producerMode = c.producerMode := by
  intro ops
  induction ops with
  | nil => intro c h; exact ⟨h, rfl⟩
  | cons op rest ih =>
    intro c h
    cases op with
    | log lc =>
      simp only [runOps]
      have := clientLog_ok h lc
      have r := ih _ this.1
      exact ⟨r.1, r.2.trans this.2⟩
    | emit v md p =>
      simp only [runOps]
      have he := emit_ok h v md
      rcases hr : c.emit v md with ⟨c', e⟩
      rw [hr] at he
      have r := ih c' he.1
      cases e with
      | none => exact ⟨r.1, r.2.trans he.2⟩
      | some e =>
        by_cases hp : p = true
        · simp only [hp, if_true]; exact he
        · simp only [hp, Bool.false_eq_true, if_false]; exact ⟨r.1, r.2.trans he.2⟩
    | echo p =>
      simp only [runOps]
      have he := emit_ok h ev []
      rcases hr : c.emit ev [] with ⟨c', e⟩
      rw [hr] at he
      have r := ih c' he.1
      cases e with
      | none => exact ⟨r.1, r.2.trans he.2⟩
      | some e =>
        by_cases hp : p = true
        · simp only [hp, if_true]; exact he
        · simp only [hp, Bool.false_eq_true, if_false]; exact ⟨r.1, r.2.trans he.2⟩
    | finish p =>
      simp only [runOps]
      have he := finish_ok h
      rcases hr : c.finish with ⟨c', e⟩
      rw [hr] at he
      have r := ih c' he.1
      cases e with
      | none => exact ⟨r.1, r.2.trans he.2⟩
      | some e =>
        by_cases hp : p = true
        · simp only [hp, if_true]; exact he
        · simp only [hp, Bool.false_eq_true, if_false]; exact ⟨r.1, r.2.trans he.2⟩

/-- Whatever a turn does, its collector holds at most one data batch (exactly one iff `hasData`),
no exception batch, and is finished only on a producer stream. -/
theorem runTurn_ok (pm : Bool) (ev : String) (t : Turn) :
    CollOK (runTurn pm ev t).1 ∧ (runTurn pm ev t).1.producerMode = pm := by
  unfold runTurn
  have h := runOps_ok ev t.ops (newCollector pm) (newCollector_ok pm)
  rcases hr : runOps ev (newCollector pm) t.ops with ⟨c, e⟩
  rw [hr] at h
  cases e with
  | some e => exact h
  | none => cases t.fin <;> exact h

/-- **finish_refused_on_exchange (turn).** No statement sequence can finish an exchange stream. -/
theorem exchange_never_finished (ev : String) (t : Turn) : (runTurn false ev t).1.finished = false := by
  have h := runTurn_ok false ev t
  cases hf : (runTurn false ev t).1.finished with
  | false => rfl
  | true => have := h.1.fin hf; rw [h.2] at this; cases this

/-- A turn of log statements followed by one emit, ending normally, produces exactly those log
batches, in order, followed by the data batch ("each data batch preceded by that turn's logs"). -/
theorem turn_logs_then_data (pm : Bool) (ev : String) (logs : List LogCall) (v : String) (md : KVs) (p : Bool) :
    runTurn pm ev ⟨logs.map .log ++ [.emit v md p], .ok⟩ =
      ({ batches := logs.map (fun lc => .log lc.level lc.msg (wireExtras (mapOfKVs lc.extras)) none) ++ [.data v (mapOfKVs md)],
         hasData := true, finished := false, producerMode := pm }, none) := by
  have key : ∀ (logs : List LogCall) (c : Collector), c.hasData = false →
      runOps ev c (logs.map .log ++ [.emit v md p]) =
        ({ c with batches := c.batches ++ logs.map (fun lc => .log lc.level lc.msg (wireExtras (mapOfKVs lc.extras)) none)
                              ++ [.data v (mapOfKVs md)], hasData := true }, none) := by
    intro logs
    induction logs with
    | nil => intro c hc; simp [runOps, Collector.emit, hc]
    | cons lc rest ih =>
      intro c hc
      simp only [List.map_cons, List.cons_append, runOps]
      rw [ih (c.clientLog lc) (by simp [Collector.clientLog, hc])]
      simp [Collector.clientLog]
  unfold runTurn
  rw [key logs (newCollector pm) rfl]
  simp [newCollector]

/-! ### The lockstep loop, one input batch at a time -/

theorem loop_nil (env : LoopEnv) (k : Nat) : loop env k [] = ⟨[], [], none, .eos⟩ := by
  simp [loop]

/-- **cancel.** A cancel batch runs no turn: the hook (when the state has one) is the only call. -/
theorem loop_cancel (env : LoopEnv) (k : Nat) (rest : List InBatch) :
    loop env k (.cancel :: rest) =
      ⟨[], if env.hook = .absent then [] else [.cancel], none, .cancelled⟩ := by
  simp [loop]

/-- An input that does not fit the declared schema ends the stream with one exception batch; the
state is not called. -/
theorem loop_cast_fail (env : LoopEnv) (k : Nat) (v : String) (lib : Option String) (rest : List InBatch)
    (e : SrvErr) (h : casted env v lib = .error e) :
    loop env k (.data v lib :: rest) = ⟨[writeErrorBatch e env.rid], [], some e, .failed⟩ := by
  simp only [loop, h]

/-- **failed_turn (error / panic).** -/
theorem loop_turn_error (env : LoopEnv) (k : Nat) (v : String) (lib : Option String) (rest : List InBatch)
    (inVal : String) (c : Collector) (e : SrvErr)
    (hc : casted env v lib = .ok inVal) (ht : turnOf env k inVal = (c, some e)) :
    loop env k (.data v lib :: rest) =
      ⟨[writeErrorBatch e env.rid], [callOf env k inVal], some e, .failed⟩ := by
  simp only [loop, hc, ht]

/-- **failed_turn (no data batch).** -/
theorem loop_turn_nodata (env : LoopEnv) (k : Nat) (v : String) (lib : Option String) (rest : List InBatch)
    (inVal : String) (c : Collector)
    (hc : casted env v lib = .ok inVal) (ht : turnOf env k inVal = (c, none))
    (hf : c.finished = false) (hd : c.hasData = false) :
    loop env k (.data v lib :: rest) =
      ⟨[writeErrorBatch fwNoData env.rid], [callOf env k inVal], some fwNoData, .failed⟩ := by
  simp [loop, hc, ht, hf, hd]

/-- **producer finish.** The turn's batches are flushed and the stream ends: no later input is read. -/
theorem loop_turn_finish (env : LoopEnv) (k : Nat) (v : String) (lib : Option String) (rest : List InBatch)
    (inVal : String) (c : Collector)
    (hc : casted env v lib = .ok inVal) (ht : turnOf env k inVal = (c, none)) (hf : c.finished = true) :
    loop env k (.data v lib :: rest) = ⟨c.batches, [callOf env k inVal], none, .finished⟩ := by
  simp [loop, hc, ht, hf]

/-- **lockstep step.** A turn that emitted its data batch and did not finish is flushed, then the
loop goes on with the next input batch and the next turn. -/
theorem loop_turn_data (env : LoopEnv) (k : Nat) (v : String) (lib : Option String) (rest : List InBatch)
    (inVal : String) (c : Collector)
    (hc : casted env v lib = .ok inVal) (ht : turnOf env k inVal = (c, none))
    (hf : c.finished = false) (hd : c.hasData = true) :
    loop env k (.data v lib :: rest) =
      ⟨c.batches ++ (loop env (k + 1) rest).batches, callOf env k inVal :: (loop env (k + 1) rest).calls,
       (loop env (k + 1) rest).err, (loop env (k + 1) rest).stop⟩ := by
  simp [loop, hc, ht, hf, hd]

/-- The six ways one data batch can be handled (exhaustive). -/
theorem loop_data_cases (env : LoopEnv) (k : Nat) (v : String) (lib : Option String) (rest : List InBatch) :
    (∃ e, casted env v lib = .error e ∧
        loop env k (.data v lib :: rest) = ⟨[writeErrorBatch e env.rid], [], some e, .failed⟩) ∨
    (∃ inVal c, casted env v lib = .ok inVal ∧ CollOK c ∧ c.producerMode = env.isProducer ∧
      ((∃ e, turnOf env k inVal = (c, some e) ∧
          loop env k (.data v lib :: rest) = ⟨[writeErrorBatch e env.rid], [callOf env k inVal], some e, .failed⟩) ∨
       (turnOf env k inVal = (c, none) ∧ c.finished = false ∧ c.hasData = false ∧
          loop env k (.data v lib :: rest) =
            ⟨[writeErrorBatch fwNoData env.rid], [callOf env k inVal], some fwNoData, .failed⟩) ∨
       (turnOf env k inVal = (c, none) ∧ c.finished = true ∧
          loop env k (.data v lib :: rest) = ⟨c.batches, [callOf env k inVal], none, .finished⟩) ∨
       (turnOf env k inVal = (c, none) ∧ c.finished = false ∧ c.hasData = true ∧
          loop env k (.data v lib :: rest) =
            ⟨c.batches ++ (loop env (k + 1) rest).batches, callOf env k inVal :: (loop env (k + 1) rest).calls,
             (loop env (k + 1) rest).err, (loop env (k + 1) rest).stop⟩))) := by
  cases hc : casted env v lib with
  | error e => exact .inl ⟨e, rfl, loop_cast_fail env k v lib rest e hc⟩
  | ok inVal =>
    refine .inr ⟨inVal, (turnOf env k inVal).1, rfl, ?_, ?_, ?_⟩
    · exact (runTurn_ok _ _ _).1
    · exact (runTurn_ok _ _ _).2
    · rcases ht : turnOf env k inVal with ⟨c, e⟩
      cases e with
      | some e => exact .inl ⟨e, rfl, loop_turn_error env k v lib rest inVal c e hc ht⟩
      | none =>
        rcases Bool.eq_false_or_eq_true c.finished with hf | hf
        · exact .inr (.inr (.inl ⟨rfl, hf, loop_turn_finish env k v lib rest inVal c hc ht hf⟩))
        · rcases Bool.eq_false_or_eq_true c.hasData with hd | hd
          · exact .inr (.inr (.inr ⟨rfl, hf, hd, loop_turn_data env k v lib rest inVal c hc ht hf hd⟩))
          · exact .inr (.inl ⟨rfl, hf, hd, loop_turn_nodata env k v lib rest inVal c hc ht hf hd⟩)

/-! ### Whole-stream theorems (induction over the client's input stream) -/

/-- Number of input batches before the first cancel batch (or the end of the input stream). -/
def dataPrefix (ins : List InBatch) : Nat := (ins.takeWhile InBatch.isData).length

@[simp] theorem dataPrefix_nil : dataPrefix [] = 0 := rfl
@[simp] theorem dataPrefix_cancel (r : List InBatch) : dataPrefix (.cancel :: r) = 0 := rfl
@[simp] theorem dataPrefix_data (v : String) (l : Option String) (r : List InBatch) :
    dataPrefix (.data v l :: r) = dataPrefix r + 1 := by
  simp [dataPrefix, List.takeWhile_cons, InBatch.isData]

/-- Number of `Produce` / `Exchange` calls the state received. -/
def turnCalls (cs : List Callback) : Nat := (cs.filter Callback.isTurn).length
def cancelCalls (cs : List Callback) : Nat := (cs.filter fun c => !c.isTurn).length

@[simp] theorem turnCalls_nil : turnCalls [] = 0 := rfl
@[simp] theorem cancelCalls_nil : cancelCalls [] = 0 := rfl
theorem callOf_isTurn (env : LoopEnv) (k : Nat) (x : String) : (callOf env k x).isTurn = true := by
  unfold callOf; split <;> rfl
@[simp] theorem turnCalls_callOf (env : LoopEnv) (k : Nat) (x : String) (cs : List Callback) :
    turnCalls (callOf env k x :: cs) = turnCalls cs + 1 := by
  simp [turnCalls, callOf_isTurn]
@[simp] theorem cancelCalls_callOf (env : LoopEnv) (k : Nat) (x : String) (cs : List Callback) :
    cancelCalls (callOf env k x :: cs) = cancelCalls cs := by
  simp [cancelCalls, callOf_isTurn]

/-- **failed_turn_one_exception.** The output of the loop contains at most one exception batch;
it contains one exactly when the loop reports a handler error (`streamErr`), which is exactly
when it stopped through a failure exit; and then that batch is the LAST batch written and
carries that error. -/
theorem loop_exceptions (env : LoopEnv) : ∀ (ins : List InBatch) (k : Nat),
    excCount (loop env k ins).batches = (if (loop env k ins).err.isSome then 1 else 0) ∧
    ((loop env k ins).err.isSome ↔ (loop env k ins).stop = .failed) ∧
    (∀ e, (loop env k ins).err = some e →
      (loop env k ins).batches.getLast? = some (writeErrorBatch e env.rid)) := by
  intro ins
  induction ins with
  | nil => intro k; simp [loop_nil]
  | cons b rest ih =>
    intro k
    cases b with
    | cancel => simp [loop_cancel]
    | data v lib =>
      rcases loop_data_cases env k v lib rest with ⟨e, _, h⟩ | ⟨inVal, c, _, hok, _, h⟩
      · simp [h]
      · rcases h with ⟨e, _, h⟩ | ⟨_, _, _, h⟩ | ⟨_, _, h⟩ | ⟨_, _, _, h⟩
        · simp [h]
        · simp [h]
        · simp [h, hok.noExc]
        · have := ih (k + 1)
          rw [h]
          refine ⟨by simp [hok.noExc, this.1], this.2.1, ?_⟩
          intro e he
          have hl := this.2.2 e he
          simp only [] at he ⊢
          rw [List.getLast?_append, hl]
          rfl

/-- **lockstep counts.** Whatever the script does: never more data batches than turns, never more
turns than input batches before the cancel; when the stream ends because the client closed or
cancelled it, every one of those input batches got exactly one turn and exactly one data batch;
a finishing or failing last turn may be the only one without a data batch. -/
theorem loop_counts (env : LoopEnv) : ∀ (ins : List InBatch) (k : Nat),
    dataCount (loop env k ins).batches ≤ turnCalls (loop env k ins).calls ∧
    turnCalls (loop env k ins).calls ≤ dataPrefix ins ∧
    turnCalls (loop env k ins).calls ≤ dataCount (loop env k ins).batches + 1 ∧
    (((loop env k ins).stop = .eos ∨ (loop env k ins).stop = .cancelled) →
      dataCount (loop env k ins).batches = dataPrefix ins ∧
      turnCalls (loop env k ins).calls = dataPrefix ins) := by
  intro ins
  induction ins with
  | nil => intro k; simp [loop_nil]
  | cons b rest ih =>
    intro k
    cases b with
    | cancel =>
      rw [loop_cancel]
      by_cases hh : env.hook = .absent <;> simp [hh, turnCalls, Callback.isTurn]
    | data v lib =>
      rcases loop_data_cases env k v lib rest with ⟨e, _, h⟩ | ⟨inVal, c, _, hok, _, h⟩
      · simp [h]
      · rcases h with ⟨e, _, h⟩ | ⟨_, _, _, h⟩ | ⟨_, _, h⟩ | ⟨_, _, hd, h⟩
        · simp [h]
        · simp [h]
        · rw [h]
          have := hok.data
          by_cases hd : c.hasData = true <;> simp [hd] at this <;> simp [this]
        · have ih' := ih (k + 1)
          have hdc := hok.data
          simp only [hd, if_true] at hdc
          rw [h]
          simp only [dataCount_append, hdc, turnCalls_callOf, dataPrefix_data]
          refine ⟨by omega, by omega, by omega, ?_⟩
          intro hs
          have := ih'.2.2.2 hs
          omega

/-- **exchange_lockstep.** On an exchange stream `Finish` never ends the stream; and when the
stream ends without an exception the output holds exactly one data batch per input batch the
client sent before closing / cancelling, each produced by its own `Exchange` call. -/
theorem exchange_lockstep (env : LoopEnv) (hx : env.isProducer = false) : ∀ (ins : List InBatch) (k : Nat),
    (loop env k ins).stop ≠ .finished ∧
    ((loop env k ins).err = none →
      dataCount (loop env k ins).batches = dataPrefix ins ∧
      turnCalls (loop env k ins).calls = dataPrefix ins) := by
  intro ins
  have hstop : ∀ (ins : List InBatch) (k : Nat), (loop env k ins).stop ≠ .finished := by
    intro ins
    induction ins with
    | nil => intro k; simp [loop_nil]
    | cons b rest ih =>
      intro k
      cases b with
      | cancel => simp [loop_cancel]
      | data v lib =>
        rcases loop_data_cases env k v lib rest with ⟨e, _, h⟩ | ⟨inVal, c, _, hok, hpm, h⟩
        · simp [h]
        · rcases h with ⟨e, _, h⟩ | ⟨_, _, _, h⟩ | ⟨_, hf, h⟩ | ⟨_, _, _, h⟩
          · simp [h]
          · simp [h]
          · have := hok.fin hf; rw [hpm, hx] at this; cases this
          · rw [h]; exact ih (k + 1)
  intro k
  refine ⟨hstop ins k, ?_⟩
  intro he
  have hex := loop_exceptions env ins k
  have hnf : (loop env k ins).stop ≠ .failed := by
    intro hf; have := hex.2.1.2 hf; simp [he] at this
  have hs : (loop env k ins).stop = .eos ∨ (loop env k ins).stop = .cancelled := by
    have := hstop ins k
    cases hst : (loop env k ins).stop <;> simp_all
  exact (loop_counts env ins k).2.2.2 hs

/-- **producer_until_finish.** On a producer stream without an exception, either the state
finished (the stream ends right after that turn's batches: see `stop_is_final`) or every tick the
client sent before closing / cancelling got its turn; every turn but possibly the finishing one
yielded exactly one data batch. -/
theorem producer_until_finish (env : LoopEnv) (ins : List InBatch) (k : Nat)
    (he : (loop env k ins).err = none) :
    ((loop env k ins).stop = .finished ∧ 1 ≤ turnCalls (loop env k ins).calls ∧
        turnCalls (loop env k ins).calls ≤ dataCount (loop env k ins).batches + 1 ∧
        dataCount (loop env k ins).batches ≤ turnCalls (loop env k ins).calls) ∨
    ((loop env k ins).stop ≠ .finished ∧
        turnCalls (loop env k ins).calls = dataPrefix ins ∧
        dataCount (loop env k ins).batches = dataPrefix ins) := by
  have hex := loop_exceptions env ins k
  have hc := loop_counts env ins k
  have hnf : (loop env k ins).stop ≠ .failed := by
    intro hf; have := hex.2.1.2 hf; simp [he] at this
  cases hst : (loop env k ins).stop with
  | failed => exact absurd hst hnf
  | eos => have := hc.2.2.2 (.inl hst); exact .inr ⟨by simp, this.2, this.1⟩
  | cancelled => have := hc.2.2.2 (.inr hst); exact .inr ⟨by simp, this.2, this.1⟩
  | finished =>
    refine .inl ⟨rfl, ?_, hc.2.2.1, hc.1⟩
    -- a finished stop comes from a turn
    have : ∀ (ins : List InBatch) (k : Nat), (loop env k ins).stop = .finished → 1 ≤ turnCalls (loop env k ins).calls := by
      intro ins
      induction ins with
      | nil => intro k h; simp [loop_nil] at h
      | cons b rest ih =>
        intro k hfin
        cases b with
        | cancel => simp [loop_cancel] at hfin
        | data v lib =>
          rcases loop_data_cases env k v lib rest with ⟨e, _, h⟩ | ⟨inVal, c, _, _, _, h⟩
          · simp [h] at hfin
          · rcases h with ⟨e, _, h⟩ | ⟨_, _, _, h⟩ | ⟨_, _, h⟩ | ⟨_, _, _, h⟩ <;> simp [h] at hfin ⊢
    exact this ins k hst

/-- **stop_is_final.** Once the loop has left through a finish, a failure or a cancel, nothing the
client still sends is read as a turn: the outcome does not depend on the rest of the input
("the stream ends immediately after", "no turn > k runs", "no further turn run"). -/
theorem stop_is_final (env : LoopEnv) : ∀ (ins more : List InBatch) (k : Nat),
    (loop env k ins).stop ≠ .eos → loop env k (ins ++ more) = loop env k ins := by
  intro ins more
  induction ins with
  | nil => intro k h; simp [loop_nil] at h
  | cons b rest ih =>
    intro k hs
    cases b with
    | cancel => simp [loop_cancel]
    | data v lib =>
      rw [List.cons_append]
      rcases loop_data_cases env k v lib rest with ⟨e, hc, h⟩ | ⟨inVal, c, hc, _, _, h⟩
      · rw [h, loop_cast_fail env k v lib (rest ++ more) e hc]
      · rcases h with ⟨e, ht, h⟩ | ⟨ht, hf, hd, h⟩ | ⟨ht, hf, h⟩ | ⟨ht, hf, hd, h⟩
        · rw [h, loop_turn_error env k v lib (rest ++ more) inVal c e hc ht]
        · rw [h, loop_turn_nodata env k v lib (rest ++ more) inVal c hc ht hf hd]
        · rw [h, loop_turn_finish env k v lib (rest ++ more) inVal c hc ht hf]
        · rw [h] at hs
          rw [h, loop_turn_data env k v lib (rest ++ more) inVal c hc ht hf hd, ih (k + 1) hs]

/-- **cancel_once.** `OnCancel` runs at most once, and only as the very last callback, when the
loop stops on a cancel batch; when the loop does stop on a cancel batch it runs exactly once if
the state implements the hook (whatever the hook does: return, error, panic) — and then exactly
the input batches before the cancel batch had their turn (`loop_counts`), none after it
(`stop_is_final`). -/
theorem cancel_once (env : LoopEnv) : ∀ (ins : List InBatch) (k : Nat),
    cancelCalls (loop env k ins).calls ≤ 1 ∧
    (cancelCalls (loop env k ins).calls = 1 →
      (loop env k ins).stop = .cancelled ∧ env.hook ≠ .absent ∧
      (loop env k ins).calls.getLast? = some .cancel) ∧
    ((loop env k ins).stop = .cancelled →
      cancelCalls (loop env k ins).calls = if env.hook = .absent then 0 else 1) := by
  intro ins
  induction ins with
  | nil => intro k; simp [loop_nil]
  | cons b rest ih =>
    intro k
    cases b with
    | cancel =>
      rw [loop_cancel]
      by_cases hh : env.hook = .absent <;> simp [hh, cancelCalls, Callback.isTurn]
    | data v lib =>
      rcases loop_data_cases env k v lib rest with ⟨e, _, h⟩ | ⟨inVal, c, _, _, _, h⟩
      · simp [h]
      · rcases h with ⟨e, _, h⟩ | ⟨_, _, _, h⟩ | ⟨_, _, h⟩ | ⟨_, _, _, h⟩
        · simp [h]
        · simp [h]
        · simp [h]
        · have ih' := ih (k + 1)
          rw [h]
          simp only [cancelCalls_callOf]
          refine ⟨ih'.1, ?_, ih'.2.2⟩
          intro h1
          have := ih'.2.1 h1
          refine ⟨this.1, this.2.1, ?_⟩
          have hne : (loop env (k + 1) rest).calls ≠ [] := by
            intro hnil; rw [hnil] at h1; simp at h1
          rw [List.getLast?_cons_of_ne_nil hne] <;> exact this.2.2

theorem callOf_index (env : LoopEnv) (k : Nat) (x : String) : (callOf env k x).index? = some k := by
  unfold callOf; split <;> rfl

/-- **turn order.** The turns the state sees are numbered `k, k+1, k+2, …` without gap or
repetition: input batch `i` is handled by turn `i` — input order is preserved. -/
theorem turns_in_order (env : LoopEnv) : ∀ (ins : List InBatch) (k : Nat),
    (loop env k ins).calls.filterMap Callback.index? =
      List.range' k (turnCalls (loop env k ins).calls) := by
  intro ins
  induction ins with
  | nil => intro k; simp [loop_nil]
  | cons b rest ih =>
    intro k
    cases b with
    | cancel =>
      rw [loop_cancel]
      by_cases hh : env.hook = .absent <;> simp [hh, turnCalls, Callback.isTurn, Callback.index?]
    | data v lib =>
      rcases loop_data_cases env k v lib rest with ⟨e, _, h⟩ | ⟨inVal, c, _, _, _, h⟩
      · simp [h]
      · rcases h with ⟨e, _, h⟩ | ⟨_, _, _, h⟩ | ⟨_, _, h⟩ | ⟨_, _, _, h⟩
        · simp [h, callOf_index]
        · simp [h, callOf_index]
        · simp [h, callOf_index]
        · rw [h]
          simp only [List.filterMap_cons, callOf_index, turnCalls_callOf, ih (k + 1)]
          rw [List.range'_succ]

/-- **exchange_order.** If every turn echoes its input, the output is exactly the (cast) input
batches, one data batch each, in input order, up to the first cancel batch. -/
theorem exchange_echo_order (env : LoopEnv) (hx : env.isProducer = false)
    (hecho : ∀ k, env.script.turnAt k = ⟨[.echo true], .ok⟩)
    (g : String → Option String → String) (hcast : ∀ v lib, casted env v lib = .ok (g v lib)) :
    ∀ (ins : List InBatch) (k : Nat),
      (loop env k ins).batches =
        (ins.takeWhile InBatch.isData).filterMap (fun b => match b with
          | .data v lib => some (Batch.data (g v lib) [])
          | .cancel => none) := by
  intro ins
  induction ins with
  | nil => intro k; simp [loop_nil]
  | cons b rest ih =>
    intro k
    cases b with
    | cancel => simp [loop_cancel, InBatch.isData]
    | data v lib =>
      have ht : turnOf env k (g v lib) =
          ({ batches := [.data (g v lib) []], hasData := true, finished := false, producerMode := false }, none) := by
        simp [turnOf, hecho, runTurn, runOps, Collector.emit, newCollector, echoOf, hx, mapOfKVs]
      rw [loop_turn_data env k v lib rest (g v lib) _ (hcast v lib) ht rfl rfl]
      simp [List.takeWhile_cons, InBatch.isData, ih (k + 1)]

/-! ### castRecordBatch -/

/-- **castable_input_is_cast.** What reaches `Exchange` for an input batch whose schema is not
`Equal` to the declared one: refused when the arity or a field name differs; the batch itself when
only nullability differs; otherwise exactly what the library cast yields, and an exception when
the library refuses the cast. -/
theorem cast_spec (src tgt : Schema) (v : String) (lib : Option String) :
    (src = tgt → castInput src tgt v lib = .ok v) ∧
    (src.length ≠ tgt.length → castInput src tgt v lib = .error fwCast) ∧
    (src.map (·.name) ≠ tgt.map (·.name) → castInput src tgt v lib = .error fwCast) ∧
    (src ≠ tgt → src.length = tgt.length → src.map (·.name) = tgt.map (·.name) →
      (src.map (·.typ) = tgt.map (·.typ) → castInput src tgt v lib = .ok v) ∧
      (src.map (·.typ) ≠ tgt.map (·.typ) →
        (∀ v', lib = some v' → castInput src tgt v lib = .ok v') ∧
        (lib = none → castInput src tgt v lib = .error fwCast))) := by
  refine ⟨?_, ?_, ?_, ?_⟩
  · intro h; simp [castInput, h]
  · intro h
    have hne : src ≠ tgt := fun he => h (by rw [he])
    simp [castInput, hne, h]
  · intro h
    have hne : src ≠ tgt := fun he => h (by rw [he])
    unfold castInput
    simp only [hne, if_false]
    by_cases hl : src.length ≠ tgt.length
    · simp [hl]
    · simp [hl, h]
  · intro hne hl hn
    unfold castInput
    simp only [hne, if_false]
    refine ⟨fun ht => by simp [hl, hn, ht], fun ht => ⟨fun v' hv => by simp [hl, hn, ht, hv], fun hv => by simp [hl, hn, ht, hv]⟩⟩

/-- The state is called with the cast value, and not at all when the cast fails. -/
theorem exchange_sees_cast_input (env : LoopEnv) (hx : env.isProducer = false) (k : Nat) (v : String)
    (lib : Option String) (rest : List InBatch) :
    match casted env v lib with
    | .ok inVal => (loop env k (.data v lib :: rest)).calls.head? = some (.exchange k inVal)
    | .error e => loop env k (.data v lib :: rest) = ⟨[writeErrorBatch e env.rid], [], some e, .failed⟩ := by
  rcases loop_data_cases env k v lib rest with ⟨e, hc, h⟩ | ⟨inVal, c, hc, _, _, h⟩
  · rw [hc]; exact h
  · rw [hc]
    rcases h with ⟨e, _, h⟩ | ⟨_, _, _, h⟩ | ⟨_, _, h⟩ | ⟨_, _, _, h⟩ <;> simp [h, callOf, hx]

/-! ### The whole call: init, header stream, output stream -/

/-- The init logs that pass the level filter, as `LogMessage`s (see C04 for the filter). -/
def keptInitLogs (lvl : Bytes) (s : StreamScript) : List LogMessage :=
  ((newCallCtx lvl).runLogs s.initLogs).logs

theorem dataCount_logs (logs : List LogMessage) (rid : Bytes) :
    dataCount (logs.map (writeLogBatch · rid)) = 0 := by
  induction logs with
  | nil => rfl
  | cons l r ih =>
    have : dataCount [writeLogBatch l rid] = 0 := rfl
    rw [List.map_cons, ← List.singleton_append, dataCount_append, this, ih]

theorem excCount_logs (logs : List LogMessage) (rid : Bytes) :
    excCount (logs.map (writeLogBatch · rid)) = 0 := by
  induction logs with
  | nil => rfl
  | cons l r ih =>
    have : excCount [writeLogBatch l rid] = 0 := rfl
    rw [List.map_cons, ← List.singleton_append, excCount_append, this, ih]

/-- **serve_ok_shape.** When init returns a state that fits the method, the call writes the
optional header stream and then ONE output stream: init logs (unless the header stream took
them), then what the lockstep loop writes; callbacks and `handlerErr` are the loop's. -/
theorem serve_ok_shape (m : SMethod) (lvl rid : Bytes) (s : StreamScript) (input : InputStream)
    (st : StateKind) (hook : CancelHook) (header : Option String) (resInput : Option Schema) (isP : Bool)
    (hi : s.init = .ok st hook header resInput) (hm : decideMode m.typ st = some isP) :
    serveStream m lvl rid s input =
      { streams := headerStreams m (keptInitLogs lvl s) header ++
          [{ schema := m.outputSchema,
             batches := (if m.hasHeader && header.isSome then [] else keptInitLogs lvl s).map (writeLogBatch · rid) ++
               (loop (mkEnv m rid s input isP hook resInput) 0 input.batches).batches }],
        calls := (loop (mkEnv m rid s input isP hook resInput) 0 input.batches).calls,
        handlerErr := (loop (mkEnv m rid s input isP hook resInput) 0 input.batches).err } := by
  unfold serveStream keptInitLogs
  simp only [hi, hm]

/-- **header_is_own_stream_first.** A header returned by init on a header-declaring method is
written as its own complete stream, with the header schema, BEFORE the output stream; it holds
the init logs and then exactly one data batch (the header) — no output data, no exception; the
output stream then starts directly with the loop's batches. -/
theorem header_is_own_stream_first (m : SMethod) (lvl rid : Bytes) (s : StreamScript) (input : InputStream)
    (st : StateKind) (hook : CancelHook) (h : String) (resInput : Option Schema) (isP : Bool)
    (hi : s.init = .ok st hook (some h) resInput) (hm : decideMode m.typ st = some isP)
    (hh : m.hasHeader = true) :
    ∃ hdr out, (serveStream m lvl rid s input).streams = [hdr, out] ∧
      hdr.schema = m.headerSchema ∧
      hdr.batches = (keptInitLogs lvl s).map (writeLogBatch · []) ++ [.data h []] ∧
      dataCount hdr.batches = 1 ∧ excCount hdr.batches = 0 ∧
      out.schema = m.outputSchema ∧
      out.batches = (loop (mkEnv m rid s input isP hook resInput) 0 input.batches).batches := by
  rw [serve_ok_shape m lvl rid s input st hook (some h) resInput isP hi hm]
  refine ⟨headerStream m (keptInitLogs lvl s) h,
    { schema := m.outputSchema,
      batches := (loop (mkEnv m rid s input isP hook resInput) 0 input.batches).batches },
    ?_, rfl, rfl, ?_, ?_, rfl, rfl⟩
  · simp [headerStreams, hh]
  · simp [headerStream, dataCount_logs]
  · simp [headerStream, excCount_logs]

/-- Without a header (none returned, or the method declares none) there is a single stream. -/
theorem no_header_single_stream (m : SMethod) (lvl rid : Bytes) (s : StreamScript) (input : InputStream)
    (st : StateKind) (hook : CancelHook) (header : Option String) (resInput : Option Schema) (isP : Bool)
    (hi : s.init = .ok st hook header resInput) (hm : decideMode m.typ st = some isP)
    (hn : m.hasHeader = false ∨ header = none) :
    (serveStream m lvl rid s input).streams =
      [{ schema := m.outputSchema,
         batches := (keptInitLogs lvl s).map (writeLogBatch · rid) ++
           (loop (mkEnv m rid s input isP hook resInput) 0 input.batches).batches }] := by
  rw [serve_ok_shape m lvl rid s input st hook header resInput isP hi hm]
  rcases hn with hn | hn
  · cases header <;> simp [headerStreams, hn]
  · simp [headerStreams, hn]

/-- **serve_no_state.** If init fails, panics, returns nil, or returns a state that does not
implement what the method needs, the call writes one stream holding exactly one exception batch,
the state (if any) is never called, and the dispatch hook is told about the error. -/
theorem serve_no_state (m : SMethod) (lvl rid : Bytes) (s : StreamScript) (input : InputStream)
    (h : (∃ e, s.init = .fail e) ∨ (∃ p, s.init = .panic p) ∨ s.init = .nilResult ∨
         (∃ st hook header ri, s.init = .ok st hook header ri ∧ decideMode m.typ st = none)) :
    ∃ sch e, serveStream m lvl rid s input =
      { streams := [{ schema := sch, batches := [writeErrorBatch e rid] }], calls := [], handlerErr := some e } := by
  unfold serveStream errorStream
  rcases h with ⟨e, h⟩ | ⟨p, h⟩ | h | ⟨st, hook, header, ri, h, hd⟩
  · exact ⟨_, _, by simp only [h]; rfl⟩
  · exact ⟨_, _, by simp only [h]; rfl⟩
  · exact ⟨_, _, by simp only [h]; rfl⟩
  · exact ⟨_, _, by simp only [h, hd]; rfl⟩

/-- `decideMode`: a producer method needs `ProducerState`, an exchange method `ExchangeState`; a
dynamic method takes whichever the state implements, preferring producer. -/
theorem decideMode_spec (t : StreamType) (st : StateKind) :
    decideMode t st =
      match t with
      | .producer => if st.isProducerState then some true else none
      | .exchange => if st.isExchangeState then some false else none
      | .dynamic => if st.isProducerState then some true else if st.isExchangeState then some false else none := by
  cases t <;> rfl

/-- **exchange_lockstep (whole call).** For an exchange-mode stream that ends without an exception
the output stream holds exactly one data batch per input batch sent before the close / cancel,
the state saw exactly that many `Exchange` calls, and the header stream (if any) holds none of
them. -/
theorem serve_exchange_lockstep (m : SMethod) (lvl rid : Bytes) (s : StreamScript) (input : InputStream)
    (st : StateKind) (hook : CancelHook) (header : Option String) (resInput : Option Schema)
    (hi : s.init = .ok st hook header resInput) (hm : decideMode m.typ st = some false)
    (he : (serveStream m lvl rid s input).handlerErr = none) :
    ∃ out, (serveStream m lvl rid s input).streams.getLast? = some out ∧
      dataCount out.batches = dataPrefix input.batches ∧
      turnCalls (serveStream m lvl rid s input).calls = dataPrefix input.batches := by
  rw [serve_ok_shape m lvl rid s input st hook header resInput false hi hm] at he ⊢
  have hl := (exchange_lockstep (mkEnv m rid s input false hook resInput) rfl input.batches 0).2 he
  refine ⟨{ schema := m.outputSchema,
            batches := (if m.hasHeader && header.isSome then [] else keptInitLogs lvl s).map (writeLogBatch · rid) ++
              (loop (mkEnv m rid s input false hook resInput) 0 input.batches).batches },
    by simp, ?_, hl.2⟩
  simp [dataCount_logs, hl.1]

/-- **one exception per call.** Over everything written for the call there is at most one
exception batch, and there is one exactly when the dispatch hook is given a non-nil error. -/
theorem serve_exception_iff_error (m : SMethod) (lvl rid : Bytes) (s : StreamScript) (input : InputStream) :
    ((serveStream m lvl rid s input).streams.map (fun st => excCount st.batches)).sum =
      if (serveStream m lvl rid s input).handlerErr.isSome then 1 else 0 := by
  cases hi : s.init with
  | fail e =>
    obtain ⟨sch, e', h⟩ := serve_no_state m lvl rid s input (.inl ⟨e, hi⟩); simp [h]
  | panic p =>
    obtain ⟨sch, e', h⟩ := serve_no_state m lvl rid s input (.inr (.inl ⟨p, hi⟩)); simp [h]
  | nilResult =>
    obtain ⟨sch, e', h⟩ := serve_no_state m lvl rid s input (.inr (.inr (.inl hi))); simp [h]
  | ok st hook header ri =>
    cases hm : decideMode m.typ st with
    | none =>
      obtain ⟨sch, e', h⟩ := serve_no_state m lvl rid s input (.inr (.inr (.inr ⟨st, hook, header, ri, hi, hm⟩)))
      simp [h]
    | some isP =>
      rw [serve_ok_shape m lvl rid s input st hook header ri isP hi hm]
      have hx := (loop_exceptions (mkEnv m rid s input isP hook ri) input.batches 0).1
      have hh : ((headerStreams m (keptInitLogs lvl s) header).map (fun st => excCount st.batches)).sum = 0 := by
        unfold headerStreams
        cases header with
        | none => rfl
        | some h => by_cases hhh : m.hasHeader = true <;> simp [hhh, headerStream, excCount_logs]
      simp [hh, excCount_logs, hx]

/-! ### Non-vacuity: concrete streams hitting every exit -/

def exM : SMethod := ⟨.exchange, "{x:int64}", true, some [⟨"x", "int64", false⟩], true, "{n:int64}"⟩
def prM : SMethod := ⟨.producer, "{x:int64}", true, none, false, "{}"⟩
def echoTurn : Turn := ⟨[.log ⟨lvlInfo, [1], []⟩, .echo true], .ok⟩

-- exchange: header stream first, one data batch per input in input order (int32 input cast by the
-- library), cancel hook once, the batch after the cancel is never exchanged
example : serveStream exM [] [7] ⟨[], .ok .exch .panic (some "h") none, [], echoTurn⟩
      ⟨[⟨"x", "int32", false⟩], [.data "i32:5" (some "i:5"), .data "i32:6" (some "i:6"), .cancel, .data "i32:7" (some "i:7")]⟩
    = { streams := [⟨"{n:int64}", [.data "h" []]⟩,
                    ⟨"{x:int64}", [.log lvlInfo [1] [] none, .data "i:5" [], .log lvlInfo [1] [] none, .data "i:6" []]⟩],
        calls := [.exchange 0 "i:5", .exchange 1 "i:6", .cancel], handlerErr := none } := by decide

-- exchange: Finish is refused; ignoring the refusal leaves a turn without data -> one exception, no turn 1
example : serveStream exM [] [7] ⟨[], .ok .exch .absent none none, [⟨[.finish false], .ok⟩], echoTurn⟩
      ⟨[⟨"x", "int64", false⟩], [.data "i:1" none, .data "i:2" none]⟩
    = { streams := [⟨"{x:int64}", [.exc fwNoData.msg (some [7])]⟩],
        calls := [.exchange 0 "i:1"], handlerErr := some fwNoData } := by decide

-- producer: one data batch per tick until the state finishes; the remaining ticks are not run
example : serveStream prM [] [] ⟨[], .ok .prod .ok none none, [⟨[.echo true], .ok⟩, ⟨[.echo true], .ok⟩, ⟨[.finish true], .ok⟩], echoTurn⟩
      ⟨[], [.data "t" none, .data "t" none, .data "t" none, .data "t" none, .data "t" none]⟩
    = { streams := [⟨"{x:int64}", [.data "i:0" [], .data "i:1" []]⟩],
        calls := [.produce 0, .produce 1, .produce 2], handlerErr := none } := by decide

-- a panicking turn after an emit: the emitted batch is dropped, exactly one exception, nothing after
example : (serveStream prM [] [] ⟨[], .ok .prod .ok none none, [⟨[.echo true], .panic (.str [0x21])⟩], echoTurn⟩
      ⟨[], [.data "t" none, .data "t" none]⟩).streams
    = [⟨"{x:int64}", [.exc (runtimeError ++ colonSpace ++ [0x21]) none]⟩] := by decide

-- uncastable input (renamed field): exception, state never called
example : serveStream exM [] [] ⟨[], .ok .exch .ok none none, [], echoTurn⟩
      ⟨[⟨"y", "int64", false⟩], [.data "i:1" none]⟩
    = { streams := [⟨"{x:int64}", [.exc fwCast.msg none]⟩], calls := [], handlerErr := some fwCast } := by decide

end Vgi.Props.C06
