import Vgi.Model.ScriptUnary
/-!
# C04 — Unary calls return the handler's value or its error, after its logs

Theorems about `Vgi.Script.serveUnary` (pipe) and `Vgi.Script.handleUnary` (HTTP), the models of
`Server.serveUnary` / `HttpServer.handleUnary` that the driver `Vgi.Drive.C04` executes.
Quantifiers: every registered unary method `m` (valued or void), every requested level string
`lvl` (the six names, "", anything else), every request id, every scripted handler `s`
(any list of `ClientLog` calls with any levels / messages / extras, then value | error | panic),
both transports. No bound on any list.
-/
namespace Vgi.Props.C04
open Vgi Vgi.Script

/-! ### Specification vocabulary -/

/-- The level the server filters with: the requested one, TRACE when none was sent. -/
def effLevel (lvl : Bytes) : Bytes := if lvl = [] then lvlTrace else lvl

/-- "At or above the requested level" in the code's priority table. -/
def keepLog (lvl : Bytes) (lc : LogCall) : Bool := levelPriority lc.level ≤ levelPriority (effLevel lvl)

/-- The log batch a kept `ClientLog` call becomes. -/
def logBatch (rid : Bytes) (lc : LogCall) : Batch :=
  .log lc.level lc.msg (wireExtras (mapOfKVs lc.extras)) (ridOpt rid)

/-- The error the client is told about when the handler fails or panics. -/
def failure : Outcome → Option Bytes
  | .ret _ => none
  | .fail e => some e.message
  | .panic p => some (runtimeError ++ colonSpace ++ (panickedPrefix ++ p.fmtV))

/-- The single terminal batch of the response. -/
def terminal (m : UMethod) (rid : Bytes) (s : UnaryScript) : Batch :=
  match s.outcome with
  | .ret v => if m.isVoid then .void else .data v []
  | .fail e => .exc e.message (ridOpt rid)
  | .panic p => .exc (runtimeError ++ colonSpace ++ (panickedPrefix ++ p.fmtV)) (ridOpt rid)

/-! ### The logging context -/

theorem clientLog_level (c : CallCtx) (lc : LogCall) : (c.clientLog lc).logLevel = c.logLevel := by
  unfold CallCtx.clientLog; split <;> rfl

theorem runLogs_spec (ls : List LogCall) : ∀ c : CallCtx,
    (c.runLogs ls).logLevel = c.logLevel ∧
    (c.runLogs ls).logs = c.logs ++
      (ls.filter fun lc => decide (levelPriority lc.level ≤ levelPriority c.logLevel)).map
        (fun lc => { level := lc.level, msg := lc.msg, extras := mapOfKVs lc.extras }) := by
  induction ls with
  | nil => intro c; simp [CallCtx.runLogs]
  | cons lc rest ih =>
    intro c
    have h := ih (c.clientLog lc)
    simp only [CallCtx.runLogs, List.foldl_cons] at h ⊢
    rw [clientLog_level] at h
    refine ⟨h.1, ?_⟩
    rw [h.2]
    unfold CallCtx.clientLog
    by_cases hp : levelPriority lc.level > levelPriority c.logLevel
    · have hn : ¬ levelPriority lc.level ≤ levelPriority c.logLevel := by omega
      simp [hp, hn]
    · have hn : levelPriority lc.level ≤ levelPriority c.logLevel := by omega
      simp [hp, hn]

/-- The drained logs of a handler run are exactly the kept calls, in emission order. -/
theorem handler_logs (lvl : Bytes) (s : UnaryScript) :
    (runHandler lvl s).ctx.logs =
      (s.logs.filter (keepLog lvl)).map
        (fun lc => { level := lc.level, msg := lc.msg, extras := mapOfKVs lc.extras }) := by
  have h := (runLogs_spec s.logs (newCallCtx lvl)).2
  have hl : (newCallCtx lvl).logLevel = effLevel lvl := rfl
  have hn : (newCallCtx lvl).logs = [] := rfl
  have hf : (fun lc : LogCall => decide (levelPriority lc.level ≤ levelPriority (effLevel lvl))) = keepLog lvl := rfl
  rw [hl, hn, List.nil_append, hf] at h
  unfold runHandler
  cases s.outcome <;> exact h

theorem handler_err (lvl : Bytes) (s : UnaryScript) :
    (runHandler lvl s).callErr = (failure s.outcome).map SrvErr.mk := by
  unfold runHandler failure
  cases s.outcome <;> rfl

theorem handler_value (lvl : Bytes) (s : UnaryScript) (v : String) (h : s.outcome = .ret v) :
    (runHandler lvl s).value = v := by
  unfold runHandler; rw [h]

/-! ### Shape of the response -/

/-- **unary_shape (pipe).** The response is the kept logs, in emission order, each as one log
batch, followed by exactly the terminal batch: the returned value (declared result schema), the
void batch, or one exception batch carrying the handler's error / panic. -/
theorem unary_shape_pipe (m : UMethod) (lvl rid : Bytes) (s : UnaryScript) :
    (serveUnary m lvl rid s).1.batches =
      (s.logs.filter (keepLog lvl)).map (logBatch rid) ++ [terminal m rid s] := by
  unfold serveUnary
  simp only [handler_logs]
  have he := handler_err lvl s
  cases hs : s.outcome with
  | ret v =>
    have hv := handler_value lvl s v hs
    simp only [hs, failure, Option.map_none] at he
    simp only [he]
    by_cases hvoid : m.isVoid = true
    · simp [hvoid, writeVoidResponse, writeUnaryResponse, terminal, hs, List.map_map, logBatch, writeLogBatch, Function.comp_def]
    · simp [hvoid, writeUnaryResponse, terminal, hs, hv, List.map_map, logBatch, writeLogBatch, Function.comp_def]
  | fail e =>
    simp only [hs, failure, Option.map_some] at he
    simp [he, writeErrorWithLogs, terminal, hs, List.map_map, logBatch, writeLogBatch, writeErrorBatch, Function.comp_def]
  | panic p =>
    simp only [hs, failure, Option.map_some] at he
    simp [he, writeErrorWithLogs, terminal, hs, List.map_map, logBatch, writeLogBatch, writeErrorBatch, Function.comp_def]

theorem writeArrow_body (st : Nat) (b : IpcStream) : (writeArrow st b).body = b := by
  unfold writeArrow; split <;> rfl

/-- **pipe_http_agree.** Both transports produce the same IPC stream (schema and batches) and
hand the same `handlerErr` to the dispatch hook; HTTP answers 200 and sets `X-VGI-RPC-Error`
exactly when the handler failed. -/
theorem pipe_http_agree (m : UMethod) (lvl rid : Bytes) (s : UnaryScript) :
    (handleUnary m lvl rid s).1.body = (serveUnary m lvl rid s).1 ∧
    (handleUnary m lvl rid s).2 = (serveUnary m lvl rid s).2 ∧
    (handleUnary m lvl rid s).1.status = 200 ∧
    ((handleUnary m lvl rid s).1.errorHeader = true ↔ (failure s.outcome).isSome) := by
  unfold handleUnary serveUnary
  have he := handler_err lvl s
  cases hs : s.outcome with
  | ret v =>
    simp only [hs, failure, Option.map_none] at he
    simp only [he]
    by_cases hvoid : m.isVoid = true <;> simp [hvoid, writeArrow, failure]
  | fail e =>
    simp only [hs, failure, Option.map_some] at he
    simp [he, writeArrow, failure]
  | panic p =>
    simp only [hs, failure, Option.map_some] at he
    simp [he, writeArrow, failure]

/-- **unary_shape** on either transport. -/
theorem unary_shape (t : Transport) (m : UMethod) (lvl rid : Bytes) (s : UnaryScript) :
    (unaryResponse t m lvl rid s).batches =
      (s.logs.filter (keepLog lvl)).map (logBatch rid) ++ [terminal m rid s] := by
  cases t with
  | pipe => exact unary_shape_pipe m lvl rid s
  | http =>
    show (handleUnary m lvl rid s).1.body.batches = _
    rw [(pipe_http_agree m lvl rid s).1]
    exact unary_shape_pipe m lvl rid s

/-- The stream carries the method's declared result schema (the empty schema for void methods);
an error response of a void method also uses the declared (empty) schema. -/
theorem response_schema (t : Transport) (m : UMethod) (lvl rid : Bytes) (s : UnaryScript)
    (hvoid : m.isVoid = true → m.resultSchema = emptySchema) :
    (unaryResponse t m lvl rid s).schema = m.resultSchema := by
  have hp : (serveUnary m lvl rid s).1.schema = m.resultSchema := by
    unfold serveUnary
    cases h : (runHandler lvl s).callErr with
    | some e => simp [h, writeErrorWithLogs]
    | none =>
      by_cases hv : m.isVoid = true
      · simp [h, hv, writeVoidResponse, writeUnaryResponse, hvoid hv]
      · simp [h, hv, writeUnaryResponse]
  cases t with
  | pipe => exact hp
  | http =>
    show (handleUnary m lvl rid s).1.body.schema = _
    rw [(pipe_http_agree m lvl rid s).1]; exact hp

example : (unaryResponse .http ⟨"{result:int64}", false⟩ lvlInfo [0x72]
    ⟨[⟨lvlDebug, [1], []⟩, ⟨lvlWarn, [2], [([3], [4])]⟩], .ret "i:7"⟩).batches
    = [.log lvlWarn [2] [([3], [4])] (some [0x72]), .data "i:7" []] := by decide

/-! ### Consequences spelled out clause by clause -/

theorem logBatch_isLog (rid : Bytes) (lc : LogCall) : (logBatch rid lc).isLog = true := rfl

theorem terminal_not_log (m : UMethod) (rid : Bytes) (s : UnaryScript) : (terminal m rid s).isLog = false := by
  unfold terminal
  cases s.outcome with
  | ret v => by_cases h : m.isVoid = true <;> simp [h, Batch.isLog]
  | fail e => rfl
  | panic p => rfl

/-- **exactly_one_terminal.** Exactly one batch of the response is not a log batch, and it is the
last one; everything before it is a log batch. -/
theorem exactly_one_terminal (t : Transport) (m : UMethod) (lvl rid : Bytes) (s : UnaryScript) :
    ((unaryResponse t m lvl rid s).batches.filter (fun b => !b.isLog)).length = 1 ∧
    (unaryResponse t m lvl rid s).batches.getLast? = some (terminal m rid s) ∧
    ∀ b ∈ (unaryResponse t m lvl rid s).batches.dropLast, b.isLog = true := by
  rw [unary_shape]
  refine ⟨?_, by simp, ?_⟩
  · rw [List.filter_append]
    have h1 : ((s.logs.filter (keepLog lvl)).map (logBatch rid)).filter (fun b => !b.isLog) = [] := by
      rw [List.filter_eq_nil_iff]
      intro b hb
      obtain ⟨lc, _, rfl⟩ := List.mem_map.1 hb
      simp [logBatch_isLog]
    simp [h1, terminal_not_log]
  · intro b hb
    rw [List.dropLast_concat] at hb
    obtain ⟨lc, _, rfl⟩ := List.mem_map.1 hb
    rfl

/-- **no_result_on_failure.** If the handler returns an error or panics, the response contains no
result / void batch and exactly one exception batch — the last batch — whose message is the
handler's error (`err.Error()`), resp. `RuntimeError: handler panicked: <%v of the value>`. -/
theorem no_result_on_failure (t : Transport) (m : UMethod) (lvl rid : Bytes) (s : UnaryScript)
    (msg : Bytes) (hf : failure s.outcome = some msg) :
    (∀ b ∈ (unaryResponse t m lvl rid s).batches, b.isData = false) ∧
    ((unaryResponse t m lvl rid s).batches.filter Batch.isExc) = [.exc msg (ridOpt rid)] ∧
    (unaryResponse t m lvl rid s).batches.getLast? = some (.exc msg (ridOpt rid)) := by
  have hterm : terminal m rid s = .exc msg (ridOpt rid) := by
    unfold terminal
    cases hs : s.outcome with
    | ret v => simp [hs, failure] at hf
    | fail e => simp only [hs, failure, Option.some.injEq] at hf; simp [hf]
    | panic p => simp only [hs, failure, Option.some.injEq] at hf; simp [hf]
  rw [unary_shape, hterm]
  refine ⟨?_, ?_, by simp⟩
  · intro b hb
    rcases List.mem_append.1 hb with hb | hb
    · obtain ⟨lc, _, rfl⟩ := List.mem_map.1 hb; rfl
    · simp at hb; subst hb; rfl
  · rw [List.filter_append]
    have h1 : ((s.logs.filter (keepLog lvl)).map (logBatch rid)).filter Batch.isExc = [] := by
      rw [List.filter_eq_nil_iff]
      intro b hb
      obtain ⟨lc, _, rfl⟩ := List.mem_map.1 hb
      simp [logBatch, Batch.isExc]
    simp [h1, Batch.isExc]

/-- **result_on_success.** If the handler returns normally the response has no exception batch
and its last batch is the single result batch holding the returned value (the void batch for a
void method). -/
theorem result_on_success (t : Transport) (m : UMethod) (lvl rid : Bytes) (s : UnaryScript)
    (v : String) (hs : s.outcome = .ret v) :
    (∀ b ∈ (unaryResponse t m lvl rid s).batches, b.isExc = false) ∧
    (unaryResponse t m lvl rid s).batches.filter Batch.isData =
      [if m.isVoid then .void else .data v []] ∧
    (unaryResponse t m lvl rid s).batches.getLast? = some (if m.isVoid then .void else .data v []) := by
  have hterm : terminal m rid s = if m.isVoid then .void else .data v [] := by
    unfold terminal; rw [hs]
  rw [unary_shape, hterm]
  refine ⟨?_, ?_, by simp⟩
  · intro b hb
    rcases List.mem_append.1 hb with hb | hb
    · obtain ⟨lc, _, rfl⟩ := List.mem_map.1 hb; rfl
    · simp at hb; subst hb; by_cases h : m.isVoid = true <;> simp [h, Batch.isExc]
  · rw [List.filter_append]
    have h1 : ((s.logs.filter (keepLog lvl)).map (logBatch rid)).filter Batch.isData = [] := by
      rw [List.filter_eq_nil_iff]
      intro b hb
      obtain ⟨lc, _, rfl⟩ := List.mem_map.1 hb
      simp [logBatch, Batch.isData]
    by_cases h : m.isVoid = true <;> simp [h1, h, Batch.isData]

/-- **request_id_echoed.** With a non-empty request id, every log batch and every exception batch
of the response carries exactly that id. -/
theorem request_id_echoed (t : Transport) (m : UMethod) (lvl rid : Bytes) (s : UnaryScript)
    (hrid : rid ≠ []) :
    ∀ b ∈ (unaryResponse t m lvl rid s).batches, (b.isLog = true ∨ b.isExc = true) →
      b.rid? = some (some rid) := by
  have hr : ridOpt rid = some rid := by simp [ridOpt, hrid]
  rw [unary_shape]
  intro b hb hk
  rcases List.mem_append.1 hb with hb | hb
  · obtain ⟨lc, _, rfl⟩ := List.mem_map.1 hb
    simp [logBatch, Batch.rid?, hr]
  · simp only [List.mem_singleton] at hb
    subst hb
    unfold terminal at hk ⊢
    cases hs : s.outcome with
    | ret v => by_cases h : m.isVoid = true <;> simp [hs, h, Batch.isLog, Batch.isExc] at hk
    | fail e => simp [Batch.rid?, hr]
    | panic p => simp [Batch.rid?, hr]

/-- **logs_in_emission_order.** The log batches are a subsequence of the handler's `ClientLog`
calls in emission order, and a call is present iff its level passes the filter. -/
theorem logs_in_emission_order (t : Transport) (m : UMethod) (lvl rid : Bytes) (s : UnaryScript) :
    (unaryResponse t m lvl rid s).batches.filter Batch.isLog =
      (s.logs.filter (keepLog lvl)).map (logBatch rid) ∧
    List.Sublist (s.logs.filter (keepLog lvl)) s.logs := by
  rw [unary_shape]
  refine ⟨?_, List.filter_sublist⟩
  rw [List.filter_append]
  have h1 : ((s.logs.filter (keepLog lvl)).map (logBatch rid)).filter Batch.isLog =
      (s.logs.filter (keepLog lvl)).map (logBatch rid) := by
    rw [List.filter_eq_self]
    intro b hb
    obtain ⟨lc, _, rfl⟩ := List.mem_map.1 hb
    rfl
  simp [h1, terminal_not_log]

/-! ### The level filter is the documented severity order -/

/-- The six protocol levels have priorities 0…5 in the order EXCEPTION, ERROR, WARN, INFO, DEBUG,
TRACE; the empty string and any other string get 6. -/
theorem level_table :
    levelPriority lvlException = 0 ∧ levelPriority lvlError = 1 ∧ levelPriority lvlWarn = 2 ∧
    levelPriority lvlInfo = 3 ∧ levelPriority lvlDebug = 4 ∧ levelPriority lvlTrace = 5 ∧
    levelPriority [] = 6 := by decide

theorem level_unknown (l : Bytes) (h : l ∉ [lvlException, lvlError, lvlWarn, lvlInfo, lvlDebug, lvlTrace]) :
    levelPriority l = 6 := by
  simp only [List.mem_cons, List.not_mem_nil, or_false, not_or] at h
  unfold levelPriority
  simp [h.1, h.2.1, h.2.2.1, h.2.2.2.1, h.2.2.2.2.1, h.2.2.2.2.2]

theorem levelPriority_le_six (l : Bytes) : levelPriority l ≤ 6 := by
  unfold levelPriority
  repeat (first | split | omega)

/-- A request without a log level is served as TRACE: all six protocol levels pass. -/
theorem no_level_means_trace (lc : LogCall)
    (h : lc.level ∈ [lvlException, lvlError, lvlWarn, lvlInfo, lvlDebug, lvlTrace]) :
    keepLog [] lc = true := by
  simp only [List.mem_cons, List.not_mem_nil, or_false] at h
  unfold keepLog effLevel
  rcases h with h | h | h | h | h | h <;> rw [h] <;> decide

/-- A kept message is at least as severe as the (effective) requested level; a dropped one is
strictly less severe. -/
theorem keepLog_iff (lvl : Bytes) (lc : LogCall) :
    keepLog lvl lc = true ↔ levelPriority lc.level ≤ levelPriority (effLevel lvl) := by
  simp [keepLog]

example : keepLog lvlInfo ⟨lvlWarn, [], []⟩ = true ∧ keepLog lvlInfo ⟨lvlInfo, [], []⟩ = true ∧
    keepLog lvlInfo ⟨lvlDebug, [], []⟩ = false := by decide

/-! ### Non-vacuity: a failing handler with logs on both sides of the filter -/

example :
    let s : UnaryScript := ⟨[⟨lvlError, [1], []⟩, ⟨lvlTrace, [2], []⟩, ⟨lvlWarn, [3], []⟩], .panic (.int (-12))⟩
    failure s.outcome = some (runtimeError ++ colonSpace ++ (panickedPrefix ++ [0x2d, 0x31, 0x32])) ∧
    (unaryResponse .pipe ⟨"{result:utf8}", false⟩ lvlWarn [9] s).batches =
      [.log lvlError [1] [] (some [9]), .log lvlWarn [3] [] (some [9]),
       .exc (runtimeError ++ colonSpace ++ (panickedPrefix ++ [0x2d, 0x31, 0x32])) (some [9])] := by
  decide

example : mapOfKVs [([2], [1]), ([1], [5]), ([2], [7])] = [([1], [5]), ([2], [7])] := by decide

/-! ### Extras survive the JSON encoding -/

/-- Text made of ASCII bytes only — which includes every control character 0x00–0x1f, 0x7f,
quotes and backslashes — comes back from the JSON round trip unchanged. -/
theorem jsonCoerce_ascii (s : Bytes) (h : ∀ b ∈ s, b < 0x80) : jsonCoerce s = s := by
  unfold jsonCoerce
  have key : ∀ (n : Nat) (t : Bytes), t.length ≤ n → (∀ b ∈ t, b < 0x80) → jsonCoerceAux n t = t := by
    intro n
    induction n with
    | zero => intro t hl _; cases t with
      | nil => rfl
      | cons b r => simp at hl
    | succ k ih =>
      intro t hl ht
      cases t with
      | nil => rfl
      | cons b r =>
        have hb : b < 0x80 := ht b (by simp)
        have hlen : utf8SeqLen (b :: r) = 1 := by simp [utf8SeqLen, hb]
        simp only [jsonCoerceAux, hlen, List.take_succ_cons, List.take_zero, List.drop_succ_cons, List.drop_zero]
        rw [ih r (by simpa using hl) (fun x hx => ht x (by simp [hx]))]
        rfl
  exact key s.length s (Nat.le_refl _) h

/-- **extras_delivered.** Every kept log call arrives with exactly the extras map the handler
passed (keys and values after the JSON round trip), whatever bytes they are made of. -/
theorem extras_delivered (t : Transport) (m : UMethod) (lvl rid : Bytes) (s : UnaryScript) :
    ((unaryResponse t m lvl rid s).batches.filter Batch.isLog).map
        (fun b => match b with | .log _ _ e _ => e | _ => []) =
      (s.logs.filter (keepLog lvl)).map fun lc => wireExtras (mapOfKVs lc.extras) := by
  rw [(logs_in_emission_order t m lvl rid s).1, List.map_map]
  rfl

-- control characters, quote, backslash, DEL, U+2028 pass unchanged; each invalid byte becomes U+FFFD
example : jsonCoerce [0x00, 0x07, 0x0b, 0x1f, 0x22, 0x5c, 0x7f, 0xe2, 0x80, 0xa8] =
    [0x00, 0x07, 0x0b, 0x1f, 0x22, 0x5c, 0x7f, 0xe2, 0x80, 0xa8] := by decide
example : jsonCoerce [0x61, 0xff, 0xfe, 0xc3, 0x28, 0xed, 0xa0, 0x80, 0xc0, 0xaf, 0xe2, 0x82] =
    [0x61] ++ replacementChar ++ replacementChar ++ replacementChar ++ [0x28] ++ replacementChar ++ replacementChar
      ++ replacementChar ++ replacementChar ++ replacementChar ++ replacementChar ++ replacementChar := by decide

end Vgi.Props.C04
