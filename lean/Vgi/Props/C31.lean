import Vgi.Model.Fetch
/-!
# C31 — External fetches obey the URL validator and size limits on every hop

Theorems about `Vgi.Fetch` (model of the validation / retry loop of `ResolveExternalLocation`
and of `fetchExternalData`). They hold for every configuration (any integers, defaults
included), every validator (any predicate on URLs), every scripted origin — any redirect graph,
including loops, any bodies, statuses and transport failures, differing from attempt to attempt —
and every `World` (zstd decoding and URL redaction uninterpreted).
-/
namespace Vgi.Props.C31
open Vgi Vgi.Fetch

/-! ### One attempt -/

/-- Every request of one attempt goes to a URL the validator accepted, provided the first URL was
accepted (it is validated before the first attempt). -/
theorem hop_validated (w : World) (c : Cfg) (v : Bytes → Bool) (origin : Bytes → Resp) :
    ∀ (rem : Nat) (url : Bytes), v url = true →
      ∀ u ∈ (hop w c (some v) origin rem url).1, v u = true
  | rem, url, hurl, u, hu => by
    unfold hop at hu
    cases ho : origin url with
    | redirect t =>
      simp only [ho] at hu
      cases rem with
      | zero => simp at hu; subst hu; exact hurl
      | succ rem' =>
        simp only at hu
        cases hvt : v t with
        | false => simp [rejectedBy, hvt] at hu; subst hu; exact hurl
        | true =>
          simp [rejectedBy, hvt] at hu
          rcases hu with hu | hu
          · subst hu; exact hurl
          · exact hop_validated w c v origin rem' t hvt u hu
    | ok b => simp [ho] at hu; subst hu; exact hurl
    | status n => simp [ho] at hu; subst hu; exact hurl
    | transport => simp [ho] at hu; subst hu; exact hurl

/-- One attempt sends at least one and at most `rem + 1` requests: at most `rem` redirects are
followed, whatever the redirect graph (loops included). -/
theorem hop_bounded (w : World) (c : Cfg) (validator : Option (Bytes → Bool)) (origin : Bytes → Resp) :
    ∀ (rem : Nat) (url : Bytes),
      1 ≤ (hop w c validator origin rem url).1.length ∧
      (hop w c validator origin rem url).1.length ≤ rem + 1
  | rem, url => by
    unfold hop
    cases ho : origin url with
    | redirect t =>
      cases rem with
      | zero => simp
      | succ rem' =>
        simp only
        cases hb : rejectedBy validator t with
        | true => simp
        | false =>
          have := hop_bounded w c validator origin rem' t
          simp
          omega
    | ok b => simp
    | status n => simp
    | transport => simp

/-- The first request of an attempt is the pointer URL itself. -/
theorem hop_head (w : World) (c : Cfg) (validator : Option (Bytes → Bool)) (origin : Bytes → Resp)
    (rem : Nat) (url : Bytes) : (hop w c validator origin rem url).1.head? = some url := by
  unfold hop
  cases ho : origin url with
  | redirect t =>
    cases rem with
    | zero => simp
    | succ rem' =>
      simp only
      cases hb : rejectedBy validator t <;> simp
  | ok b => simp
  | status n => simp
  | transport => simp

/-- A successful attempt ends at a URL that answered 200 with a body `handleBody` accepted. -/
theorem hop_ok (w : World) (c : Cfg) (validator : Option (Bytes → Bool)) (origin : Bytes → Resp) :
    ∀ (rem : Nat) (url : Bytes) (d : Bytes), (hop w c validator origin rem url).2 = .ok d →
      ∃ u b, (hop w c validator origin rem url).1.getLast? = some u ∧ origin u = .ok b ∧
        handleBody w c b = .ok d
  | rem, url, d, h => by
    unfold hop at h ⊢
    cases ho : origin url with
    | redirect t =>
      simp only [ho] at h ⊢
      cases rem with
      | zero => simp at h
      | succ rem' =>
        simp only at h ⊢
        cases hb : rejectedBy validator t with
        | true => simp [hb] at h
        | false =>
          simp only [hb, Bool.false_eq_true, if_false] at h ⊢
          obtain ⟨u, b, h1, h2, h3⟩ := hop_ok w c validator origin rem' t d h
          refine ⟨u, b, ?_, h2, h3⟩
          have hne : (hop w c validator origin rem' t).1 ≠ [] := by
            have := (hop_bounded w c validator origin rem' t).1
            intro h0; rw [h0] at this; simp at this
          rw [List.getLast?_cons_of_ne_nil hne]; exact h1
    | ok b =>
      simp only [ho] at h ⊢
      exact ⟨url, b, by simp, ho, h⟩
    | status n => simp [ho] at h
    | transport => simp [ho] at h

/-- **body_caps** (per response): an accepted body has at most `max_fetch_bytes` encoded bytes
(declared and actual), and a zstd body decodes to at most `max_decompressed_bytes`. -/
theorem handleBody_caps (w : World) (c : Cfg) (b : Body) (d : Bytes)
    (h : handleBody w c b = .ok d) :
    b.declared ≤ (maxFetchOf c : Int) ∧ b.bytes.length ≤ maxFetchOf c ∧ b.readErr = false ∧
    (b.zstd = true → w.zdec b.bytes = some d ∧ d.length ≤ maxDecompressedOf c) ∧
    (b.zstd = false → d = b.bytes) := by
  unfold handleBody at h
  split at h
  · cases h
  · rename_i h1
    split at h
    · cases h
    · rename_i h2
      split at h
      · cases h
      · rename_i h3
        refine ⟨by omega, by omega, by simpa using h2, ?_, ?_⟩
        · intro hz
          simp only [hz, if_true] at h
          unfold decompressCapped at h
          cases hd : w.zdec b.bytes with
          | none => simp [hd] at h
          | some out =>
            simp only [hd] at h
            by_cases hl : out.length > maxDecompressedOf c
            · simp [hl] at h
            · by_cases hw : w.zwin b.bytes > maxDecompressedOf c
              · simp [hw] at h
              · simp [hl, hw] at h
                subst h
                exact ⟨rfl, by omega⟩
        · intro hz
          simp [hz] at h
          exact h.symm

/-! ### The retry loop -/

/-- Every per-attempt request log is the log of one `fetchExternalData` call on the pointer URL. -/
theorem attempts_logs (w : World) (c : Cfg) (validator : Option (Bytes → Bool))
    (origin : Nat → Bytes → Resp) (url : Bytes) :
    ∀ (n k : Nat), ∀ l ∈ (attempts w c validator origin url n k).1,
      ∃ k', k ≤ k' ∧ k' < k + n ∧ l = (fetchOnce w c validator (origin k') url).1
  | 0, k, l, hl => by simp [attempts] at hl
  | 1, k, l, hl => by
    simp [attempts] at hl
    exact ⟨k, Nat.le_refl _, by omega, hl⟩
  | n + 2, k, l, hl => by
    simp only [attempts] at hl
    split at hl
    · simp at hl; exact ⟨k, Nat.le_refl _, by omega, hl⟩
    · simp at hl
      rcases hl with hl | hl
      · exact ⟨k, Nat.le_refl _, by omega, hl⟩
      · obtain ⟨k', h1, h2, h3⟩ := attempts_logs w c validator origin url (n + 1) (k + 1) l hl
        exact ⟨k', by omega, by omega, h3⟩

/-- At least one and at most `n` attempts are made. -/
theorem attempts_count (w : World) (c : Cfg) (validator : Option (Bytes → Bool))
    (origin : Nat → Bytes → Resp) (url : Bytes) :
    ∀ (n k : Nat), 1 ≤ n → 1 ≤ (attempts w c validator origin url n k).1.length ∧
      (attempts w c validator origin url n k).1.length ≤ n
  | 0, k, h => by omega
  | 1, k, _ => by simp [attempts]
  | n + 2, k, _ => by
    simp only [attempts]
    split
    · simp
    · have := attempts_count w c validator origin url (n + 1) (k + 1) (by omega)
      simp
      omega

/-- A successful loop ends with a successful `fetchExternalData` call. -/
theorem attempts_ok (w : World) (c : Cfg) (validator : Option (Bytes → Bool))
    (origin : Nat → Bytes → Resp) (url : Bytes) :
    ∀ (n k : Nat) (d : Bytes), (attempts w c validator origin url n k).2 = .ok d →
      ∃ k', (fetchOnce w c validator (origin k') url).2 = .ok d
  | 0, k, d, h => by simp [attempts] at h
  | 1, k, d, h => by simp [attempts] at h; exact ⟨k, h⟩
  | n + 2, k, d, h => by
    simp only [attempts] at h
    split at h
    · rename_i d' hd
      simp at h; subst h
      exact ⟨k, hd⟩
    · exact attempts_ok w c validator origin url (n + 1) (k + 1) d h

/-- If every attempt fails, all `n` attempts are made (every error is retried). -/
theorem attempts_all_fail (w : World) (c : Cfg) (validator : Option (Bytes → Bool))
    (origin : Nat → Bytes → Resp) (url : Bytes) :
    ∀ (n k : Nat), 1 ≤ n → (∀ k', (fetchOnce w c validator (origin k') url).2.isOk = false) →
      (attempts w c validator origin url n k).1.length = n
  | 0, k, h, _ => by omega
  | 1, k, _, _ => by simp [attempts]
  | n + 2, k, _, hf => by
    simp only [attempts]
    split
    · rename_i d hd
      have := hf k
      simp [hd, Except.isOk, Except.toBool] at this
    · have := attempts_all_fail w c validator origin url (n + 1) (k + 1) (by omega) hf
      simp
      omega

theorem attemptsOf_bounds (c : Cfg) : 2 ≤ attemptsOf c ∧ attemptsOf c ≤ 3 := by
  unfold attemptsOf retriesOf
  split
  · omega
  · split
    · omega
    · omega

theorem maxRedirectsOf_pos (c : Cfg) : 1 ≤ maxRedirectsOf c := by
  unfold maxRedirectsOf
  split <;> omega

/-! ### The property -/

/-- **only_validated_urls_requested**: with a validator configured, every request the fetcher
sends — the pointer URL, every redirect target, in every attempt — goes to a URL the validator
accepts; and when the validator refuses the pointer URL nothing at all is sent. -/
theorem only_validated_urls_requested (w : World) (c : Cfg) (v : Bytes → Bool)
    (origin : Nat → Bytes → Resp) (url : Bytes) :
    (∀ l ∈ (fetchAll w c (some v) origin url).1, ∀ u ∈ l, v u = true) ∧
    (v url = false → (fetchAll w c (some v) origin url) = ([], .rejectedFirst)) := by
  unfold fetchAll
  cases hv : v url with
  | false => simp [rejectedBy, hv]
  | true =>
    have hrb : rejectedBy (some v) url = false := by simp [rejectedBy, hv]
    simp only [hrb, Bool.false_eq_true, if_false]
    refine ⟨?_, by simp⟩
    intro l hl u hu
    have hl' : l ∈ (attempts w c (some v) origin url (attemptsOf c) 0).1 := by
      split at hl <;> exact hl
    obtain ⟨k', _, _, rfl⟩ := attempts_logs w c (some v) origin url (attemptsOf c) 0 l hl'
    exact hop_validated w c v (origin k') (maxRedirectsOf c) url hv u hu

/-- **redirects_bounded**: in every attempt at most `MaxRedirects` (default 5) redirects are
followed — at most `MaxRedirects + 1` requests — for every redirect graph, loops included; each
attempt starts at the pointer URL. -/
theorem redirects_bounded (w : World) (c : Cfg) (validator : Option (Bytes → Bool))
    (origin : Nat → Bytes → Resp) (url : Bytes) :
    ∀ l ∈ (fetchAll w c validator origin url).1,
      l.length ≤ maxRedirectsOf c + 1 ∧ l.head? = some url := by
  intro l hl
  unfold fetchAll at hl
  cases hrb : rejectedBy validator url with
  | true => simp [hrb] at hl
  | false =>
    simp only [hrb, Bool.false_eq_true, if_false] at hl
    have hl' : l ∈ (attempts w c validator origin url (attemptsOf c) 0).1 := by
      split at hl <;> exact hl
    obtain ⟨k', _, _, rfl⟩ := attempts_logs w c validator origin url (attemptsOf c) 0 l hl'
    exact ⟨(hop_bounded w c validator (origin k') (maxRedirectsOf c) url).2,
      hop_head w c validator (origin k') (maxRedirectsOf c) url⟩

/-- **attempts_bounded**: at most `MaxRetries + 1` attempts and never more than three, for every
configuration value (zero, negative and huge retry counts included); hence at most
`3·(MaxRedirects+1)` requests in total. A reported failure names that attempt count. -/
theorem attempts_bounded (w : World) (c : Cfg) (validator : Option (Bytes → Bool))
    (origin : Nat → Bytes → Resp) (url : Bytes) :
    (fetchAll w c validator origin url).1.length ≤ attemptsOf c ∧ attemptsOf c ≤ 3 ∧
    (∀ n e, (fetchAll w c validator origin url).2 = .failed n e → n = attemptsOf c ∧
      (fetchAll w c validator origin url).1.length ≤ n) := by
  have hb := attemptsOf_bounds c
  have hc := attempts_count w c validator origin url (attemptsOf c) 0 (by omega)
  unfold fetchAll
  cases hrb : rejectedBy validator url with
  | true => simp [hb.2]
  | false =>
    simp only [Bool.false_eq_true, if_false]
    split
    · exact ⟨hc.2, hb.2, by simp⟩
    · refine ⟨hc.2, hb.2, ?_⟩
      intro n e h
      simp at h
      exact ⟨h.1.symm, by rw [← h.1]; exact hc.2⟩

/-- **body_caps**: if the fetch yields data, then some attempt ended at a URL that answered 200
with an encoded body of at most `max_fetch_bytes` bytes (declared and actual), and the data is
that body, or its zstd decoding of at most `max_decompressed_bytes` bytes. -/
theorem body_caps (w : World) (c : Cfg) (validator : Option (Bytes → Bool))
    (origin : Nat → Bytes → Resp) (url : Bytes) (d : Bytes)
    (h : (fetchAll w c validator origin url).2 = .fetched d) :
    ∃ k u b, origin k u = .ok b ∧
      b.declared ≤ (maxFetchOf c : Int) ∧ b.bytes.length ≤ maxFetchOf c ∧
      (b.zstd = true → w.zdec b.bytes = some d ∧ d.length ≤ maxDecompressedOf c) ∧
      (b.zstd = false → d = b.bytes) := by
  unfold fetchAll at h
  cases hrb : rejectedBy validator url with
  | true => simp [hrb] at h
  | false =>
    simp only [hrb, Bool.false_eq_true, if_false] at h
    cases ha : (attempts w c validator origin url (attemptsOf c) 0).2 with
    | error e => simp [ha] at h
    | ok d' =>
      simp [ha] at h
      subst h
      obtain ⟨k', hk⟩ := attempts_ok w c validator origin url (attemptsOf c) 0 d' ha
      obtain ⟨u, b, _, h2, h3⟩ := hop_ok w c validator (origin k') (maxRedirectsOf c) url d' hk
      have caps := handleBody_caps w c b d' h3
      exact ⟨k', u, b, h2, caps.1, caps.2.1, caps.2.2.2.1, caps.2.2.2.2⟩

/-- **errors_redacted**: the error texts are functions of the REDACTED pointer URL only. Two
pointer URLs with the same redaction (same scheme, host and path; any user info, query string or
fragment) yield byte-identical error texts for the same failure, so no error can reveal anything
about the query string or the user info. Redirect targets never appear at all. -/
theorem errors_redacted (w : World) (c : Cfg) (u1 u2 : Bytes) (hr : w.redact u1 = w.redact u2)
    (n : Nat) (e : FetchErr) :
    fetchErrText w c u1 e = fetchErrText w c u2 e ∧ failedText w c u1 n e = failedText w c u2 n e := by
  have h1 : fetchErrText w c u1 e = fetchErrText w c u2 e := by
    cases e <;> simp [fetchErrText, hr]
  exact ⟨h1, by simp [failedText, h1]⟩

/-! ### Non-vacuity -/

deriving instance DecidableEq for Except

def uA : Bytes := [97]      -- "a"
def uB : Bytes := [98]
def uC : Bytes := [99]
def uEvil : Bytes := [101]
def demoW : World := { zdec := fun b => some (b ++ b), zwin := fun _ => 0, redact := fun _ => [42] }
def demoC : Cfg := ⟨0, 8, 5, 2⟩    -- defaults for retries (2 → 3 attempts); caps 8 / 5; 2 redirects

/-- attempt 0: a → b → c → (third redirect) refused by the limit; attempt 1: a → evil refused by the
validator; attempt 2: a → b answers 200. -/
def demoOrigin : Nat → Bytes → Resp
  | 0, u => if u = uA then .redirect uB else if u = uB then .redirect uC else .redirect uA
  | 1, u => if u = uA then .redirect uEvil else .ok ⟨3, [1, 2, 3], false, false⟩
  | _, u => if u = uA then .redirect uB else .ok ⟨2, [7, 7], false, true⟩

def demoV : Bytes → Bool := fun u => u != uEvil

example : fetchAll demoW demoC (some demoV) demoOrigin uA
    = ([[uA, uB, uC], [uA], [uA, uB]], .fetched [7, 7, 7, 7]) := by decide

example : (fetchAll demoW demoC (some demoV) demoOrigin uEvil) = ([], .rejectedFirst) := by decide

/-- a body of 9 bytes is over the cap of 8; a zstd body decoding to 6 bytes is over the cap of 5. -/
example : handleBody demoW demoC ⟨-1, [1, 2, 3, 4, 5, 6, 7, 8, 9], false, false⟩ = .error .tooLarge := by decide
example : handleBody demoW demoC ⟨3, [1, 2, 3], false, true⟩ = .error .decompress := by decide
example : handleBody demoW demoC ⟨9, [], false, false⟩ = .error (.declaredTooLarge 9) := by decide
example : attemptsOf ⟨7, 0, 0, 0⟩ = 3 ∧ attemptsOf ⟨1, 0, 0, 0⟩ = 2 ∧ attemptsOf ⟨-4, 0, 0, 0⟩ = 3 := by decide

end Vgi.Props.C31
