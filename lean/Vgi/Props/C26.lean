import Vgi.Model.Introspect
import Vgi.Generated.C26
/-!
# C26 — Token introspection never becomes an open credential oracle

Property theorems about `Vgi.Introspect` (model of `vgirpc/introspect_token.go`). All statements
are for every configuration, caller, clock, body, JSON decoder, resolver and digest function, and
(for the limiter) every history of calls.

* `disabled_resolves_nothing`, `forbidden_before_subject`, `auth_failed_reads_nothing`,
  `body_read_only_if_admitted` — nothing is read or resolved before the caller is authorized and
  admitted; the 403 is one fixed value;
* `jws_or_oversize_never_resolved` (+ `jwsShaped_iff`: the model's test IS the regular expression);
* `rate_bound` — in every limiter window every caller is admitted at most `perWindow` times;
* `unresolved_uniform_404`, `fixed_bodies`;
* `credential_not_in_outputs` — non-interference: the response and the log depend on the
  credential only through the resolver's answer, its JWS-shapedness and its digest;
* `facts_match_source` — caps, defaults, regular expression, limiter window, refusal codes and
  the ORDER of the guards as regenerated from the Go source equal what the model assumes.
-/
namespace Vgi.Props.C26
open Vgi Vgi.Introspect

/-! ## 1. Before the subject -/

/-- **disabled_resolves_nothing** -/
theorem disabled_resolves_nothing (lim : Limiter) (now : Int) (auth : Auth) (cl : Int) (body : Bytes)
    (decode : Bytes → Option Bytes) (resolver : Bytes → Res) (digest : Bytes → Bytes) :
    (handle none lim now auth cl body decode resolver digest).2 =
      { resp := .refusal .notEnabled none, bodyRead := false, resolverCalls := [], log := [] } := rfl

/-- **forbidden_before_subject** -/
theorem forbidden_before_subject (cfg : Cfg) (lim : Limiter) (now : Int) (a : Bool) (p : Bytes)
    (h : ¬ (a = true ∧ p ∈ cfg.principals)) (cl : Int) (body : Bytes)
    (decode : Bytes → Option Bytes) (resolver : Bytes → Res) (digest : Bytes → Bytes) :
    (handle (some cfg) lim now (.ctx a p) cl body decode resolver digest).2 =
      { resp := .refusal .notAnIntrospector none, bodyRead := false, resolverCalls := [],
        log := [{ msg := .refusedCaller, principal := p }] } := by
  have hc : callerOK cfg a p = false := by
    cases hh : callerOK cfg a p with
    | false => rfl
    | true =>
      simp only [callerOK, Bool.and_eq_true, List.contains_iff_mem] at hh
      exact absurd hh h
  simp only [handle, hc, if_true]

theorem auth_failed_reads_nothing (cfg : Cfg) (lim : Limiter) (now : Int) (cl : Int) (body : Bytes)
    (decode : Bytes → Option Bytes) (resolver : Bytes → Res) (digest : Bytes → Bytes) :
    (handle (some cfg) lim now .failed cl body decode resolver digest).2 =
      { resp := .authAnswered, bodyRead := false, resolverCalls := [], log := [] } := rfl

/-- An authorized caller's request consults the limiter exactly once, keyed by the principal; a
refused call is the fixed 429 with nothing read and nothing resolved; an admitted call is `serve`. -/
theorem authorized_cases (cfg : Cfg) (lim : Limiter) (now : Int) (p : Bytes)
    (h : p ∈ cfg.principals) (cl : Int) (body : Bytes)
    (decode : Bytes → Option Bytes) (resolver : Bytes → Res) (digest : Bytes → Bytes) :
    (handle (some cfg) lim now (.ctx true p) cl body decode resolver digest).1 =
      (allow cfg.perWindow lim now p).1 ∧
    (handle (some cfg) lim now (.ctx true p) cl body decode resolver digest).2 =
      if (allow cfg.perWindow lim now p).2 = true then serve cfg p cl body decode resolver digest
      else { resp := .refusal .rateLimited (some 1), bodyRead := false, resolverCalls := [],
             log := [{ msg := .rateLimited, principal := p }] } := by
  have hc : callerOK cfg true p = true := by
    simp [callerOK, h]
  cases ha : (allow cfg.perWindow lim now p).2 with
  | false => simp [handle, hc, ha]
  | true => simp [handle, hc, ha]

/-- Complete description of `serve`. -/
theorem serve_cases (cfg : Cfg) (p : Bytes) (cl : Int) (body : Bytes)
    (decode : Bytes → Option Bytes) (resolver : Bytes → Res) (digest : Bytes → Bytes) :
    (∃ read, readToken decode cl body = (none, read) ∧
        serve cfg p cl body decode resolver digest = { resp := .refusal .unresolved none, bodyRead := read }) ∨
    (∃ cred read, readToken decode cl body = (some cred, read) ∧ jwsShaped cred = true ∧
        serve cfg p cl body decode resolver digest =
          { resp := .refusal .unresolved none, bodyRead := read,
            log := [{ msg := .jwsRefused, principal := p, digest := some (digest cred) }] }) ∨
    (∃ cred read, readToken decode cl body = (some cred, read) ∧ jwsShaped cred = false ∧
        ((∃ ra e, resolver cred = .unavailable ra e ∧ serve cfg p cl body decode resolver digest =
            { resp := .refusal .unavailable (some (retryAfterOf ra)), bodyRead := read, resolverCalls := [cred],
              log := [{ msg := .unavailable, principal := p, digest := some (digest cred), err := some e }] }) ∨
         ((∃ up un ut, resolver cred = .unknown up un ut) ∧ serve cfg p cl body decode resolver digest =
            { resp := .refusal .unresolved none, bodyRead := read, resolverCalls := [cred],
              log := [{ msg := .unresolved, principal := p, digest := some (digest cred) }] }) ∨
         (∃ rp n ttl, resolver cred = .identity rp n ttl ∧ serve cfg p cl body decode resolver digest =
            { resp := .ok rp n (if ttl ≤ 0 then cfg.defaultTTL else ttl), bodyRead := read,
              resolverCalls := [cred],
              log := [{ msg := .resolved, principal := p, digest := some (digest cred),
                        resolvedPrincipal := some rp }] }))) := by
  unfold serve
  cases hrt : readToken decode cl body with
  | mk tok read =>
    cases tok with
    | none => exact Or.inl ⟨read, rfl, rfl⟩
    | some cred =>
      cases hj : jwsShaped cred with
      | true => exact Or.inr (Or.inl ⟨cred, read, rfl, hj, by simp [hj]⟩)
      | false =>
        refine Or.inr (Or.inr ⟨cred, read, rfl, hj, ?_⟩)
        cases hres : resolver cred with
        | unavailable ra e => exact Or.inl ⟨ra, e, rfl, by simp [hj, hres]⟩
        | unknown up un ut => exact Or.inr (Or.inl ⟨⟨up, un, ut, rfl⟩, by simp [hj, hres]⟩)
        | identity rp n ttl => exact Or.inr (Or.inr ⟨rp, n, ttl, rfl, by simp [hj, hres]⟩)

theorem readToken_some (decode : Bytes → Option Bytes) (cl : Int) (body cred : Bytes) (read : Bool)
    (h : readToken decode cl body = (some cred, read)) :
    cl ≤ maxBodyBytes ∧ body.length ≤ maxBodyBytes ∧ decode body = some cred ∧ cred ≠ [] ∧
      cred.length ≤ maxTokenChars ∧ read = true := by
  unfold readToken at h
  split at h
  · cases h
  · rename_i h1
    split at h
    · cases h
    · rename_i h2
      split at h
      · cases h
      · rename_i tok hd
        split at h
        · cases h
        · rename_i h3
          cases h
          refine ⟨by omega, by omega, hd, ?_, ?_, rfl⟩
          · intro he; exact h3 (Or.inl he)
          · have : ¬ cred.length > maxTokenChars := fun hh => h3 (Or.inr hh)
            omega

/-- **jws_or_oversize_never_resolved** -/
theorem jws_or_oversize_never_resolved (cfg : Option Cfg) (lim : Limiter) (now : Int) (auth : Auth)
    (cl : Int) (body : Bytes) (decode : Bytes → Option Bytes) (resolver : Bytes → Res)
    (digest : Bytes → Bytes) :
    (handle cfg lim now auth cl body decode resolver digest).2.resolverCalls = [] ∨
    ∃ c p cred, cfg = some c ∧ auth = .ctx true p ∧ p ∈ c.principals ∧
      (allow c.perWindow lim now p).2 = true ∧
      (handle cfg lim now auth cl body decode resolver digest).2.resolverCalls = [cred] ∧
      decode body = some cred ∧ jwsShaped cred = false ∧ cred ≠ [] ∧ cred.length ≤ maxTokenChars ∧
      body.length ≤ maxBodyBytes ∧ cl ≤ maxBodyBytes := by
  cases cfg with
  | none => exact Or.inl rfl
  | some c =>
    cases auth with
    | failed => exact Or.inl rfl
    | ctx a p =>
      by_cases hok : a = true ∧ p ∈ c.principals
      · obtain ⟨ha, hp⟩ := hok
        subst ha
        have hac := (authorized_cases c lim now p hp cl body decode resolver digest).2
        rw [hac]
        cases hal : (allow c.perWindow lim now p).2 with
        | false => exact Or.inl (by simp)
        | true =>
          simp only [if_true]
          rcases serve_cases c p cl body decode resolver digest with ⟨read, _, hs⟩ | ⟨cred, read, _, _, hs⟩ | ⟨cred, read, hrt, hj, hs⟩
          · rw [hs]; exact Or.inl rfl
          · rw [hs]; exact Or.inl rfl
          · obtain ⟨h1, h2, h3, h4, h5, _⟩ := readToken_some decode cl body cred read hrt
            right
            refine ⟨c, p, cred, rfl, rfl, hp, hal, ?_, h3, hj, h4, h5, h2, h1⟩
            rcases hs with ⟨ra, e, _, hs⟩ | ⟨_, hs⟩ | ⟨rp, n, ttl, _, hs⟩ <;> rw [hs]
      · rw [forbidden_before_subject c lim now a p hok]
        exact Or.inl rfl


/-- **body_read_only_if_admitted**: the request body is touched only for an enabled route, an
authenticated allowlisted caller and a call the limiter admitted. -/
theorem body_read_only_if_admitted (cfg : Option Cfg) (lim : Limiter) (now : Int) (auth : Auth)
    (cl : Int) (body : Bytes) (decode : Bytes → Option Bytes) (resolver : Bytes → Res)
    (digest : Bytes → Bytes)
    (h : (handle cfg lim now auth cl body decode resolver digest).2.bodyRead = true) :
    ∃ c p, cfg = some c ∧ auth = .ctx true p ∧ p ∈ c.principals ∧ (allow c.perWindow lim now p).2 = true := by
  cases cfg with
  | none => cases h
  | some c =>
    cases auth with
    | failed => cases h
    | ctx a p =>
      by_cases hok : a = true ∧ p ∈ c.principals
      · obtain ⟨ha, hp⟩ := hok
        subst ha
        rw [(authorized_cases c lim now p hp cl body decode resolver digest).2] at h
        cases hal : (allow c.perWindow lim now p).2 with
        | false => rw [hal] at h; simp at h
        | true => exact ⟨c, p, rfl, rfl, hp, hal⟩
      · rw [forbidden_before_subject c lim now a p hok] at h
        cases h

/-- `EnableTokenIntrospection` refuses a configuration without a non-empty principal, and an
accepted one has a positive per-window budget. -/
theorem enable_needs_principal (ps : List Bytes) (ttl rate : Int) :
    (enable ps ttl rate = none ↔ ∀ p ∈ ps, p = []) ∧
    (∀ c, enable ps ttl rate = some c → c.principals ≠ [] ∧ (∀ p ∈ c.principals, p ≠ [] ∧ p ∈ ps) ∧
      1 ≤ c.perWindow ∧ 0 < c.defaultTTL) := by
  unfold enable
  simp only
  constructor
  · constructor
    · intro h
      split at h
      · rename_i hf
        intro p hp
        by_cases he : p = []
        · exact he
        · have : p ∈ ps.filter (· ≠ []) := by simp [hp, he]
          rw [hf] at this
          cases this
      · cases h
    · intro h
      have : ps.filter (· ≠ []) = [] := by
        apply List.filter_eq_nil_iff.mpr
        intro p hp
        simp [h p hp]
      rw [if_pos this]
  · intro c h
    split at h
    · cases h
    · rename_i hne
      cases h
      refine ⟨hne, ?_, ?_, ?_⟩
      · intro p hp
        simp only [List.mem_filter, decide_eq_true_eq] at hp
        exact ⟨hp.2, hp.1⟩
      · simp only [defaultRate]
        split <;> omega
      · simp only [Introspect.defaultTTL]
        split <;> omega

/-! ## 2. JWS shape -/

theorem splitDots_ne_nil : ∀ s : Bytes, splitDots s ≠ []
  | [] => by simp [splitDots]
  | c :: r => by
    unfold splitDots
    split
    · simp
    · split <;> simp

/-- Joining the segments with dots gives the string back. -/
def joinDots : List Bytes → Bytes
  | [] => []
  | [a] => a
  | a :: b :: r => a ++ 46 :: joinDots (b :: r)

theorem joinDots_splitDots : ∀ s : Bytes, joinDots (splitDots s) = s
  | [] => rfl
  | c :: r => by
    have ih := joinDots_splitDots r
    unfold splitDots
    cases h : splitDots r with
    | nil => exact absurd h (splitDots_ne_nil r)
    | cons seg segs =>
      rw [h] at ih
      simp only
      by_cases hc : c = 46
      · simp only [hc, if_true]
        simp only [joinDots, List.nil_append]
        rw [ih]
      · simp only [hc, if_false]
        cases segs with
        | nil => simp only [joinDots] at ih ⊢; rw [ih]
        | cons s2 rest => simp only [joinDots, List.cons_append] at ih ⊢; rw [ih]

theorem splitDots_nodot : ∀ s : Bytes, (∀ c ∈ s, c ≠ 46) → splitDots s = [s]
  | [], _ => rfl
  | c :: r, h => by
    have ih := splitDots_nodot r (fun x hx => h x (by simp [hx]))
    have hc : c ≠ 46 := h c (by simp)
    unfold splitDots
    rw [ih]
    simp [hc]

theorem splitDots_append : ∀ (a r : Bytes), (∀ c ∈ a, c ≠ 46) →
    splitDots (a ++ 46 :: r) = a :: splitDots r
  | [], r, _ => by
    simp only [List.nil_append]
    rw [splitDots]
    cases h : splitDots r with
    | nil => exact absurd h (splitDots_ne_nil r)
    | cons seg segs => simp
  | c :: a, r, h => by
    have ih := splitDots_append a r (fun x hx => h x (by simp [hx]))
    have hc : c ≠ 46 := h c (by simp)
    simp only [List.cons_append]
    rw [splitDots, ih]
    simp [hc]

theorem b64url_nodot (a : Bytes) (h : a.all isB64url = true) : ∀ c ∈ a, c ≠ 46 := by
  intro c hc he
  have := List.all_eq_true.mp h c hc
  subst he
  exact absurd this (by decide)

/-- **jwsShaped_iff**: the model's test is the regular expression
`\A[A-Za-z0-9_-]+\.[A-Za-z0-9_-]+\.[A-Za-z0-9_-]*\z`. -/
theorem jwsShaped_iff (s : Bytes) :
    jwsShaped s = true ↔
      ∃ a b c, s = a ++ 46 :: (b ++ 46 :: c) ∧ a ≠ [] ∧ b ≠ [] ∧
        a.all isB64url = true ∧ b.all isB64url = true ∧ c.all isB64url = true := by
  constructor
  · intro h
    unfold jwsShaped at h
    split at h
    · rename_i a b c hs
      simp only [Bool.and_eq_true, Bool.not_eq_true', List.isEmpty_eq_false_iff] at h
      have hj := joinDots_splitDots s
      rw [hs] at hj
      simp only [joinDots] at hj
      exact ⟨a, b, c, hj.symm, h.1.1.1.1, h.1.1.1.2, h.1.1.2, h.1.2, h.2⟩
    · cases h
  · rintro ⟨a, b, c, hs, ha, hb, haa, hbb, hcc⟩
    have h1 := splitDots_append a (b ++ 46 :: c) (b64url_nodot a haa)
    have h2 := splitDots_append b c (b64url_nodot b hbb)
    have h3 := splitDots_nodot c (b64url_nodot c hcc)
    unfold jwsShaped
    rw [hs, h1, h2, h3]
    simp [ha, hb, haa, hbb, hcc]


/-! ## 3. Rate limit -/

/-- The trace of a history of limiter calls `(clock, key)`: for every call the index of the limiter
window it fell into (incremented at every reset), the key, and the decision. -/
def runLim (pw : Nat) : Limiter → Nat → List (Int × Bytes) → List (Nat × Bytes × Bool)
  | _, _, [] => []
  | l, w, (now, k) :: rest =>
    (if resets l now then w + 1 else w, k, (allow pw l now k).2) ::
      runLim pw (allow pw l now k).1 (if resets l now then w + 1 else w) rest

/-- How many calls of `k` were admitted in window `w`. -/
def admitted (tr : List (Nat × Bytes × Bool)) (w : Nat) (k : Bytes) : Nat :=
  (tr.filter fun e => e.1 = w ∧ e.2.1 = k ∧ e.2.2 = true).length

theorem admitted_cons (e : Nat × Bytes × Bool) (tr : List (Nat × Bytes × Bool)) (w : Nat) (k : Bytes) :
    admitted (e :: tr) w k = (if e.1 = w ∧ e.2.1 = k ∧ e.2.2 = true then 1 else 0) + admitted tr w k := by
  unfold admitted
  by_cases h : e.1 = w ∧ e.2.1 = k ∧ e.2.2 = true
  · simp [h]; omega
  · simp [h]

/-- The counter after one call: cleared if the window was reset, plus one for an admitted key. -/
theorem allow_counts (pw : Nat) (l : Limiter) (now : Int) (key k' : Bytes) :
    (allow pw l now key).1.counts k' =
      (if resets l now = true then 0 else l.counts k') +
      (if (allow pw l now key).2 = true ∧ k' = key then 1 else 0) := by
  unfold allow
  by_cases hr : resets l now = true
  · simp only [hr, if_true]
    by_cases hp : (0 : Nat) ≥ pw
    · simp [hp]
    · simp only [hp, if_false, bump]
      by_cases hk : k' = key <;> simp [hk]
  · have hr' : resets l now = false := by simpa using hr
    simp only [hr', Bool.false_eq_true, if_false]
    by_cases hp : l.counts key ≥ pw
    · simp [hp]
    · simp only [hp, if_false, bump]
      by_cases hk : k' = key <;> simp [hk]

/-- A call is admitted only below the cap. -/
theorem allow_admits_below (pw : Nat) (l : Limiter) (now : Int) (key : Bytes)
    (h : (allow pw l now key).2 = true) :
    (if resets l now = true then 0 else l.counts key) < pw := by
  unfold allow at h
  by_cases hr : resets l now = true
  · simp only [hr, if_true] at h ⊢
    by_cases hp : (0 : Nat) ≥ pw
    · simp [hp] at h
    · omega
  · have hr' : resets l now = false := by simpa using hr
    simp only [hr', Bool.false_eq_true, if_false] at h ⊢
    by_cases hp : l.counts key ≥ pw
    · simp [hp] at h
    · omega

theorem ind_eq (P : Prop) [Decidable P] (key k : Bytes) (a : Bool) :
    (if P ∧ key = k ∧ a = true then 1 else 0) =
      if P then (if a = true ∧ k = key then 1 else 0) else (0 : Nat) := by
  by_cases hP : P <;> by_cases hk : key = k <;> cases a <;> simp [hP, hk, eq_comm]

theorem rate_bound_aux (pw : Nat) : ∀ (evs : List (Int × Bytes)) (l : Limiter) (w0 : Nat) (w : Nat) (k : Bytes),
    (w0 < w → admitted (runLim pw l w0 evs) w k ≤ pw) ∧
    (l.counts k ≤ pw → admitted (runLim pw l w0 evs) w0 k + l.counts k ≤ pw) ∧
    (w < w0 → admitted (runLim pw l w0 evs) w k = 0)
  | [], l, w0, w, k => by simp [runLim, admitted]
  | (now, key) :: rest, l, w0, w, k => by
    simp only [runLim, admitted_cons, ind_eq]
    have hc := allow_counts pw l now key k
    have hb : (if (allow pw l now key).2 = true ∧ k = key then 1 else 0) = 0 ∨
        ((if (allow pw l now key).2 = true ∧ k = key then 1 else 0) = 1 ∧
          (if resets l now = true then 0 else l.counts k) < pw) := by
      by_cases h : (allow pw l now key).2 = true ∧ k = key
      · right
        have := allow_admits_below pw l now key h.1
        rw [← h.2] at this
        exact ⟨by simp [h], this⟩
      · left; simp [h]
    generalize (if (allow pw l now key).2 = true ∧ k = key then 1 else 0) = ind at hc hb ⊢
    by_cases hr : resets l now = true
    · simp only [hr, if_true] at hc hb ⊢
      have ih1 := rate_bound_aux pw rest (allow pw l now key).1 (w0 + 1) w k
      have ih2 := rate_bound_aux pw rest (allow pw l now key).1 (w0 + 1) w0 k
      have ih3 := rate_bound_aux pw rest (allow pw l now key).1 (w0 + 1) (w0 + 1) k
      rw [hc] at ih1 ih2 ih3
      refine ⟨?_, ?_, ?_⟩
      · intro hw
        by_cases hw1 : w0 + 1 = w
        · subst hw1
          simp only [if_true]
          have := ih3.2.1
          omega
        · simp only [hw1, if_false]
          have := ih1.1
          omega
      · intro _
        have hne : ¬ (w0 + 1 = w0) := by omega
        simp only [hne, if_false]
        have := ih2.2.2
        omega
      · intro hw
        have hne : ¬ (w0 + 1 = w) := by omega
        simp only [hne, if_false]
        have := ih1.2.2
        omega
    · have hr' : resets l now = false := by simpa using hr
      simp only [hr', Bool.false_eq_true, if_false] at hc hb ⊢
      have ih1 := rate_bound_aux pw rest (allow pw l now key).1 w0 w k
      have ih2 := rate_bound_aux pw rest (allow pw l now key).1 w0 w0 k
      rw [hc] at ih1 ih2
      refine ⟨?_, ?_, ?_⟩
      · intro hw
        have hne : ¬ (w0 = w) := by omega
        simp only [hne, if_false]
        have := ih1.1
        omega
      · intro _
        simp only [if_true]
        have := ih2.2.1
        omega
      · intro hw
        have hne : ¬ (w0 = w) := by omega
        simp only [hne, if_false]
        have := ih1.2.2
        omega

/-- **rate_bound**: for EVERY history of calls on a fresh limiter (any clocks, any keys, any
window length), every window index `w` and every key `k`: at most `perWindow` admitted calls. -/
theorem rate_bound (pw : Nat) (window : Int) (evs : List (Int × Bytes)) (w : Nat) (k : Bytes) :
    admitted (runLim pw (Limiter.fresh window) 0 evs) w k ≤ pw := by
  have h := rate_bound_aux pw evs (Limiter.fresh window) 0 w k
  by_cases hw : 0 < w
  · exact h.1 hw
  · have : w = 0 := by omega
    subst this
    have := h.2.1 (by simp [Limiter.fresh])
    omega


/-! ## 4/5. Uniform 404, and the credential stays out of the outputs -/

/-- **unresolved_uniform_404**: an unusable body, a JWS-shaped subject and a resolver answer of
`ok = false` — with ANY identity filled in alongside — are the one value `refusal unresolved`. -/
theorem unresolved_uniform_404 (cfg : Cfg) (p : Bytes) (cl : Int) (body : Bytes)
    (decode : Bytes → Option Bytes) (resolver : Bytes → Res) (digest : Bytes → Bytes) :
    (serve cfg p cl body decode resolver digest).resp = .refusal .unresolved none ∨
    ∃ cred read, readToken decode cl body = (some cred, read) ∧ jwsShaped cred = false ∧
      (∀ up un ut, resolver cred ≠ .unknown up un ut) ∧
      (serve cfg p cl body decode resolver digest).resolverCalls = [cred] := by
  rcases serve_cases cfg p cl body decode resolver digest with ⟨read, _, hs⟩ | ⟨cred, read, _, _, hs⟩ | ⟨cred, read, hrt, hj, hs⟩
  · rw [hs]; exact Or.inl rfl
  · rw [hs]; exact Or.inl rfl
  · rcases hs with ⟨ra, e, hr, hs⟩ | ⟨_, hs⟩ | ⟨rp, n, ttl, hr, hs⟩
    · have hne : ∀ up un ut, resolver cred ≠ .unknown up un ut := by
        intro up un ut h
        rw [hr] at h
        cases h
      rw [hs]; exact Or.inr ⟨cred, read, hrt, hj, hne, rfl⟩
    · rw [hs]; exact Or.inl rfl
    · have hne : ∀ up un ut, resolver cred ≠ .unknown up un ut := by
        intro up un ut h
        rw [hr] at h
        cases h
      rw [hs]; exact Or.inr ⟨cred, read, hrt, hj, hne, rfl⟩

/-- The bodies are functions of the code alone; these are the two the property names. -/
theorem fixed_bodies :
    Code.unresolved.status = 404 ∧ Code.unresolved.body = "{\"error\":\"unresolved\"}" ∧
    Code.notAnIntrospector.status = 403 ∧ Code.notAnIntrospector.body = "{\"error\":\"not_an_introspector\"}" ∧
    Code.notEnabled.status = 404 ∧ Code.rateLimited.status = 429 := by
  decide

def eraseDigest (r : LogRec) : LogRec := { r with digest := none }

/-- **credential_not_in_outputs** -/
theorem credential_not_in_outputs (cfg : Cfg) (p : Bytes) (cl1 cl2 : Int) (body1 body2 : Bytes)
    (decode : Bytes → Option Bytes) (resolver : Bytes → Res) (digest : Bytes → Bytes)
    (c1 c2 : Bytes) (r1 r2 : Bool)
    (h1 : readToken decode cl1 body1 = (some c1, r1)) (h2 : readToken decode cl2 body2 = (some c2, r2))
    (hj : jwsShaped c1 = jwsShaped c2) (hr : resolver c1 = resolver c2) :
    (serve cfg p cl1 body1 decode resolver digest).resp = (serve cfg p cl2 body2 decode resolver digest).resp ∧
    (serve cfg p cl1 body1 decode resolver digest).log.map eraseDigest =
      (serve cfg p cl2 body2 decode resolver digest).log.map eraseDigest ∧
    (∀ r ∈ (serve cfg p cl1 body1 decode resolver digest).log, r.digest = some (digest c1)) ∧
    ((serve cfg p cl1 body1 decode resolver digest).resolverCalls = [] ∨
      (serve cfg p cl1 body1 decode resolver digest).resolverCalls = [c1]) := by
  unfold serve
  rw [h1, h2]
  simp only
  cases hj1 : jwsShaped c1 with
  | true =>
    have hj2 : jwsShaped c2 = true := by rw [← hj, hj1]
    simp [hj2, eraseDigest]
  | false =>
    have hj2 : jwsShaped c2 = false := by rw [← hj, hj1]
    simp only [hj2, Bool.false_eq_true, if_false]
    rw [← hr]
    cases resolver c1 <;> simp [eraseDigest]


/-! ## 6. The source still has the shape the model assumes -/

/-- Regenerated from `introspect_token.go` on every run (`tools/factgen/c26`): the two caps, the
defaults, the JWS regular expression (the one `jwsShaped_iff` spells out), the one-second limiter
window, the five refusal (status, code) pairs, and the order
authenticate → allowlist → limiter → read → JWS test → resolver. -/
theorem facts_match_source :
    Generated.C26.maxBodyBytes = maxBodyBytes ∧ Generated.C26.maxTokenChars = maxTokenChars ∧
    Generated.C26.defaultTTLSeconds = defaultTTL ∧ Generated.C26.defaultRateLimit = defaultRate ∧
    Generated.C26.jwsRegex = "\\A[A-Za-z0-9_-]+\\.[A-Za-z0-9_-]+\\.[A-Za-z0-9_-]*\\z" ∧
    Generated.C26.limiterWindow = "time.Second" ∧
    Generated.C26.guardOrder = ["h.authenticate", "cfg.principals[]", "cfg.limiter.allow",
      "readIntrospectToken", "introspectJWSShaped.MatchString", "cfg.resolver"] ∧
    Generated.C26.refusals = ["http.StatusForbidden not_an_introspector", "http.StatusNotFound not_enabled",
      "http.StatusNotFound unresolved", "http.StatusServiceUnavailable unavailable",
      "http.StatusTooManyRequests rate_limited"] := by
  decide

/-! ## non-vacuity -/

-- a concrete enabled configuration, an allowlisted caller, budget 2: third call in the window is
-- refused, a JWS-shaped subject is refused without a resolver call, an opaque one resolves
def exCfg : Cfg := ⟨[[97]], 2, 300⟩
def exDecode : Bytes → Option Bytes := fun b => some b
def exResolver : Bytes → Res := fun c => if c = [120] then .identity [115] [110] 0 else .unknown [] [] 0

example : (handle (some exCfg) (Limiter.fresh 1000) 0 (.ctx true [97]) 3 [120] exDecode exResolver id).2
    = { resp := .ok [115] [110] 300, bodyRead := true, resolverCalls := [[120]],
        log := [{ msg := .resolved, principal := [97], digest := some [120], resolvedPrincipal := some [115] }] } := by
  decide
example : (handle (some exCfg) (Limiter.fresh 1000) 0 (.ctx true [97]) 5 [97, 46, 98, 46, 99] exDecode exResolver id).2
    = { resp := .refusal .unresolved none, bodyRead := true, resolverCalls := [],
        log := [{ msg := .jwsRefused, principal := [97], digest := some [97, 46, 98, 46, 99] }] } := by
  decide
example : (handle (some exCfg) (Limiter.fresh 1000) 0 (.ctx true [98]) 3 [120] exDecode exResolver id).2.resp
    = .refusal .notAnIntrospector none := by decide
example : (runLim 2 (Limiter.fresh 1000) 0 [(0, [97]), (1, [97]), (2, [97]), (999, [98]), (1000, [97])]).map (·.2.2)
    = [true, true, false, true, true] := by decide
example : jwsShaped [97, 46, 98, 46] = true ∧ jwsShaped [97, 46, 46, 99] = false ∧
    jwsShaped [97, 46, 98] = false ∧ jwsShaped [97, 46, 98, 46, 99, 46, 100] = false := by decide

end Vgi.Props.C26
