import Vgi.Model.ReqBody
namespace Vgi.Props.C18
end Vgi.Props.C18
