import Vgi.Proofs.ReqBody
/-!
# C18 — Request bodies are decoded exactly and never beyond their caps

Theorems about `Vgi.ReqBody` (model of `readHTTPBody`, `writeBodyReadError`, the
`max_request_bytes` fast path of `ServeHTTP`, `decompressBounded`, `DecodeContentEncoding`).
They quantify over **all** cap configurations (any `Int`s, incl. 0 and negatives), exempt and
non-exempt paths, declared and chunked lengths, all `Content-Encoding` byte strings and all codec
behaviours (`Facts`: any frame list, windows, declared size, clean or failing stream).

zstd/gzip themselves are trusted: "decoded to exactly the bytes the client encoded" is carried in
the model as "the whole cleanly-ended stream is delivered" (`total facts.frames` bytes); that the
library's stream *is* the client's bytes is checked by the harness oracle (hash of every delivered
body), not proved.
-/
namespace Vgi.Props.C18
open Vgi Vgi.Compress Vgi.ReqBody Vgi.Proofs.ReqBody Vgi.Proofs.CompressGrammar

/-- The `Content-Length` fast path of `ServeHTTP` refuses the request. -/
def FastRefused (cfg : Cfg) (exempt : Bool) (cl : Int) : Prop :=
  cfg.maxReq > 0 ∧ cl > cfg.maxReq ∧ exempt = false

instance (cfg : Cfg) (exempt : Bool) (cl : Int) : Decidable (FastRefused cfg exempt cl) := by
  unfold FastRefused; exact inferInstance

/-! ## unfolding lemmas -/

theorem serve_eq (cfg : Cfg) (exempt : Bool) (cl : Int) (rawLen : Nat) (hdr : Bytes) (facts : Facts) :
    serve cfg exempt cl rawLen hdr facts =
      if FastRefused cfg exempt cl then (.tooLarge cfg.maxReq, 0, 0) else readBody cfg exempt rawLen hdr facts := rfl

/-- raw bytes pulled by `io.ReadAll(io.LimitReader(r.Body, limit+1))` -/
def pulledRaw (cfg : Cfg) (exempt : Bool) (rawLen : Nat) : Nat :=
  if (rawLimit cfg exempt).1 > 0 then min rawLen ((rawLimit cfg exempt).1.toNat + 1) else rawLen

/-- the raw body overruns the limit in force -/
def RawOver (cfg : Cfg) (exempt : Bool) (rawLen : Nat) : Prop :=
  (rawLimit cfg exempt).1 > 0 ∧ (rawLen : Int) > (rawLimit cfg exempt).1

instance (cfg : Cfg) (exempt : Bool) (rawLen : Nat) : Decidable (RawOver cfg exempt rawLen) := by
  unfold RawOver; exact inferInstance

theorem rawOver_iff (cfg : Cfg) (exempt : Bool) (rawLen : Nat) :
    RawOver cfg exempt rawLen ↔ ¬ RawWithin cfg exempt rawLen := by
  rw [rawWithin_iff]; unfold RawOver
  constructor
  · intro ⟨a, b⟩ h; have := h a; omega
  · intro h
    by_cases hp : (rawLimit cfg exempt).1 > 0
    · exact ⟨hp, by
        by_cases hle : (rawLen : Int) ≤ (rawLimit cfg exempt).1
        · exact absurd (fun _ => hle) h
        · omega⟩
    · exact absurd (fun hh => absurd hh hp) h

theorem readBody_eq (cfg : Cfg) (exempt : Bool) (rawLen : Nat) (hdr : Bytes) (facts : Facts) :
    readBody cfg exempt rawLen hdr facts =
      if RawOver cfg exempt rawLen then
        (if (rawLimit cfg exempt).2 then .tooLarge (rawLimit cfg exempt).1 else .valueErr, pulledRaw cfg exempt rawLen, 0)
      else match classify hdr with
        | .identity => (.body rawLen, pulledRaw cfg exempt rawLen, 0)
        | .unknown => (.unsupported, pulledRaw cfg exempt rawLen, 0)
        | .codec c =>
          let d := decompressBounded (some c) facts (decCap cfg exempt)
          ((match d.1 with
            | .ok n => ROut.body n
            | .tooLarge l =>
              if (rawLimit cfg exempt).2 = true ∧ decCap cfg exempt = (rawLimit cfg exempt).1 then .tooLarge l else .valueErr
            | .decodeErr => .decodeErr
            | .unsupported => .unsupported), pulledRaw cfg exempt rawLen, d.2) := by
  unfold readBody RawOver pulledRaw
  simp only
  by_cases hp : (rawLimit cfg exempt).1 > 0
  · simp only [hp, if_true, true_and]
    by_cases ho : (rawLen : Int) > (rawLimit cfg exempt).1
    · have : ((min rawLen ((rawLimit cfg exempt).1.toNat + 1) : Nat) : Int) > (rawLimit cfg exempt).1 := by omega
      simp [ho, this]
    · have : ¬ ((min rawLen ((rawLimit cfg exempt).1.toNat + 1) : Nat) : Int) > (rawLimit cfg exempt).1 := by omega
      simp only [ho, this, if_false]
      cases classify hdr <;> rfl
  · simp only [hp, false_and, if_false]
    cases classify hdr <;> rfl

theorem decompressBounded_not_unsupported (c : Codec) (facts : Facts) (m : Int) :
    (decompressBounded (some c) facts m).1 ≠ .unsupported := by
  rw [decompressBounded_eq]
  split
  · simp
  · split
    · simp
    · simp only
      split
      · split
        · simp
        · split
          · split <;> simp
          · split <;> simp
      · split <;> simp

/-! ## 1. Exactness inside the caps, refusal outside -/

/-- **delivered_within_caps** (safety, no hypothesis on the codec's behaviour): whatever reaches
the handler passed the fast path, is within every raw cap, and — for a compressed body — is the
complete, cleanly ended decoded stream, within every decoded-size cap. -/
theorem delivered_within_caps (cfg : Cfg) (exempt : Bool) (cl : Int) (rawLen : Nat) (hdr : Bytes)
    (facts : Facts) (n : Nat) (h : (serve cfg exempt cl rawLen hdr facts).1 = .body n) :
    ¬ FastRefused cfg exempt cl ∧ RawWithin cfg exempt rawLen ∧
    (classify hdr = .identity → n = rawLen) ∧ classify hdr ≠ .unknown ∧
    (∀ c, classify hdr = .codec c →
      n = total facts.frames ∧ Clean facts ∧ DecWithin cfg exempt n) := by
  rw [serve_eq] at h
  by_cases hf : FastRefused cfg exempt cl
  · simp [hf] at h
  · simp only [hf, if_false] at h
    rw [readBody_eq] at h
    by_cases ho : RawOver cfg exempt rawLen
    · simp only [ho, if_true] at h
      split at h <;> simp at h
    · simp only [ho, if_false] at h
      have hw : RawWithin cfg exempt rawLen := by
        by_cases hw : RawWithin cfg exempt rawLen
        · exact hw
        · exact absurd ((rawOver_iff _ _ _).mpr hw) ho
      refine ⟨hf, hw, ?_⟩
      cases hc : classify hdr with
      | identity =>
        simp only [hc, ROut.body.injEq] at h
        exact ⟨fun _ => h.symm, by simp, by simp⟩
      | unknown => simp [hc] at h
      | codec c =>
        simp only [hc] at h
        refine ⟨by simp, by simp, ?_⟩
        intro c' hc'
        cases hc'
        cases hd : (decompressBounded (some c) facts (decCap cfg exempt)).1 with
        | ok k =>
          simp only [hd, ROut.body.injEq] at h
          obtain ⟨a, b, c2, d, _⟩ := decompressBounded_ok c facts _ k hd
          subst h
          refine ⟨a, ⟨b, c2⟩, ?_⟩
          rw [decWithin_iff]; exact d
        | tooLarge l => simp only [hd] at h; split at h <;> simp at h
        | decodeErr => simp [hd] at h
        | unsupported => simp [hd] at h

/-- **within_caps_exact** — an identity body within the raw caps is delivered byte for byte. -/
theorem within_caps_exact_identity (cfg : Cfg) (exempt : Bool) (cl : Int) (rawLen : Nat) (hdr : Bytes)
    (facts : Facts) (hid : classify hdr = .identity) (hf : ¬ FastRefused cfg exempt cl)
    (hw : RawWithin cfg exempt rawLen) :
    (serve cfg exempt cl rawLen hdr facts).1 = .body rawLen := by
  rw [serve_eq, if_neg hf, readBody_eq, if_neg (fun ho => (rawOver_iff _ _ _).mp ho hw), hid]

/-- **within_caps_exact** — a zstd/gzip body whose wire size is within the raw caps and whose
decoded size is within every decoded-size cap is decoded completely (`total facts.frames` bytes,
the whole stream), provided the library decodes the stream cleanly and — zstd only, the hedge in
the property's quantifier — every frame window fits the decoder's memory bound and the declared
content size is not above the cap. -/
theorem within_caps_exact (cfg : Cfg) (exempt : Bool) (cl : Int) (rawLen : Nat) (hdr : Bytes)
    (facts : Facts) (c : Codec) (hc : classify hdr = .codec c) (hf : ¬ FastRefused cfg exempt cl)
    (hw : RawWithin cfg exempt rawLen) (hcl : Clean facts)
    (hd : DecWithin cfg exempt (total facts.frames))
    (hwin : WindowsFit c facts (decCap cfg exempt))
    (hdecl : decCap cfg exempt > 0 → DeclaredFits facts (decCap cfg exempt)) :
    (serve cfg exempt cl rawLen hdr facts).1 = .body (total facts.frames) := by
  rw [serve_eq, if_neg hf, readBody_eq, if_neg (fun ho => (rawOver_iff _ _ _).mp ho hw), hc]
  simp only
  rw [decompressBounded_clean c facts _ hcl hwin hdecl ((decWithin_iff _ _ _).mp hd)]

/-- **over_cap_refused** — a body over any raw cap, refused by the fast path, or (compressed)
decoding to more than any decoded-size cap is never delivered: the answer is 413 or 400. -/
theorem over_cap_refused (cfg : Cfg) (exempt : Bool) (cl : Int) (rawLen : Nat) (hdr : Bytes)
    (facts : Facts)
    (h : FastRefused cfg exempt cl ∨ ¬ RawWithin cfg exempt rawLen ∨
      (∃ c, classify hdr = .codec c ∧ ¬ DecWithin cfg exempt (total facts.frames))) :
    status (serve cfg exempt cl rawLen hdr facts).1 = 413 ∨
    status (serve cfg exempt cl rawLen hdr facts).1 = 400 := by
  cases hs : (serve cfg exempt cl rawLen hdr facts).1 with
  | body n =>
    obtain ⟨a, b, _, _, e⟩ := delivered_within_caps cfg exempt cl rawLen hdr facts n hs
    rcases h with h | h | ⟨c, hc, h⟩
    · exact absurd h a
    · exact absurd b h
    · obtain ⟨e1, _, e3⟩ := e c hc
      rw [e1] at e3; exact absurd e3 h
  | tooLarge l => left; rfl
  | valueErr => right; rfl
  | decodeErr => right; rfl
  | unsupported =>
    exfalso
    rw [serve_eq] at hs
    by_cases hf : FastRefused cfg exempt cl
    · simp [hf] at hs
    · simp only [hf, if_false] at hs
      rw [readBody_eq] at hs
      by_cases ho : RawOver cfg exempt rawLen
      · simp only [ho, if_true] at hs; split at hs <;> simp at hs
      · rcases h with h | h | ⟨c, hc, h⟩
        · exact hf h
        · exact ho ((rawOver_iff _ _ _).mpr h)
        · simp only [ho, if_false, hc] at hs
          have hnu := decompressBounded_not_unsupported c facts (decCap cfg exempt)
          cases hd : (decompressBounded (some c) facts (decCap cfg exempt)).1 with
          | ok k => simp [hd] at hs
          | tooLarge l => simp only [hd] at hs; split at hs <;> simp at hs
          | decodeErr => simp [hd] at hs
          | unsupported => exact hnu hd

/-! ## 2. Which status -/

/-- **status_413_only_advertised** — 413 is answered only in the name of the advertised
`max_request_bytes`: it is set, the path is not exempt, the reported limit is that value, and the
declared length, the wire size, or the declared/actual decoded size really exceeds it. -/
theorem status_413_only_advertised (cfg : Cfg) (exempt : Bool) (cl : Int) (rawLen : Nat) (hdr : Bytes)
    (facts : Facts) (l : Int) (h : (serve cfg exempt cl rawLen hdr facts).1 = .tooLarge l) :
    cfg.maxReq > 0 ∧ exempt = false ∧ l = cfg.maxReq ∧
    (cl > cfg.maxReq ∨ (rawLen : Int) > cfg.maxReq ∨
      (∃ c, classify hdr = .codec c ∧
        ((∃ k, facts.fcs = some k ∧ (k : Int) > cfg.maxReq) ∨ (total facts.frames : Int) > cfg.maxReq))) := by
  rw [serve_eq] at h
  by_cases hf : FastRefused cfg exempt cl
  · simp only [hf, if_true, ROut.tooLarge.injEq] at h
    exact ⟨hf.1, hf.2.2, h.symm, Or.inl hf.2.1⟩
  · simp only [hf, if_false] at h
    rw [readBody_eq] at h
    obtain ⟨h1, h2, _⟩ := rawLimit_applied cfg exempt
    by_cases ho : RawOver cfg exempt rawLen
    · simp only [ho, if_true] at h
      cases hb : (rawLimit cfg exempt).2 with
      | false => simp [hb] at h
      | true =>
        simp only [hb, if_true, ROut.tooLarge.injEq] at h
        have ha := h1.mp hb
        have e := h2 ha
        rw [e] at h
        unfold RawOver at ho; rw [e] at ho
        exact ⟨ha.1, ha.2.1, h.symm, Or.inr (Or.inl ho.2)⟩
    · simp only [ho, if_false] at h
      cases hc : classify hdr with
      | identity => simp [hc] at h
      | unknown => simp [hc] at h
      | codec c =>
        simp only [hc] at h
        cases hd : (decompressBounded (some c) facts (decCap cfg exempt)).1 with
        | ok k => simp [hd] at h
        | decodeErr => simp [hd] at h
        | unsupported => simp [hd] at h
        | tooLarge l' =>
          simp only [hd] at h
          by_cases hcond : (rawLimit cfg exempt).2 = true ∧ decCap cfg exempt = (rawLimit cfg exempt).1
          · simp only [hcond, and_self, if_true, ROut.tooLarge.injEq] at h
            have ha := h1.mp hcond.1
            have e := h2 ha
            obtain ⟨t1, _, t3⟩ := decompressBounded_tooLarge c facts _ l' hd
            rw [hcond.2, e] at t1 t3
            exact ⟨ha.1, ha.2.1, by omega, Or.inr (Or.inr ⟨c, rfl, t3⟩)⟩
          · simp [hcond] at h

/-- **fast_path_413** — a declared length above the advertised cap is refused with 413 before
the body is touched (nothing is read, nothing decoded). -/
theorem fast_path_413 (cfg : Cfg) (exempt : Bool) (cl : Int) (rawLen : Nat) (hdr : Bytes) (facts : Facts)
    (h : FastRefused cfg exempt cl) :
    serve cfg exempt cl rawLen hdr facts = (.tooLarge cfg.maxReq, 0, 0) := by
  rw [serve_eq, if_pos h]

/-- **advertised_raw_overrun_413** — when the advertised cap governs, a wire body over it is
answered 413 (also for chunked bodies, which have no declared length). -/
theorem advertised_raw_overrun_413 (cfg : Cfg) (exempt : Bool) (cl : Int) (rawLen : Nat) (hdr : Bytes)
    (facts : Facts) (ha : Applied cfg exempt) (ho : (rawLen : Int) > cfg.maxReq) :
    status (serve cfg exempt cl rawLen hdr facts).1 = 413 := by
  rw [serve_eq]
  by_cases hf : FastRefused cfg exempt cl
  · simp [hf, status]
  · obtain ⟨h1, h2, _⟩ := rawLimit_applied cfg exempt
    have hro : RawOver cfg exempt rawLen := by
      unfold RawOver; rw [h2 ha]; exact ⟨ha.1, ho⟩
    simp only [hf, if_false]
    rw [readBody_eq, if_pos hro, h1.mpr ha]
    rfl

/-- **body_cap_overrun_400** — a wire body over the (non-advertised) body cap, when that is the
governing raw cap, is answered 400. -/
theorem body_cap_overrun_400 (cfg : Cfg) (exempt : Bool) (cl : Int) (rawLen : Nat) (hdr : Bytes)
    (facts : Facts) (hf : ¬ FastRefused cfg exempt cl) (ha : ¬ Applied cfg exempt)
    (hb : cfg.maxBody > 0) (ho : (rawLen : Int) > cfg.maxBody) :
    status (serve cfg exempt cl rawLen hdr facts).1 = 400 := by
  obtain ⟨h1, _, h3⟩ := rawLimit_applied cfg exempt
  have hro : RawOver cfg exempt rawLen := by
    unfold RawOver; rw [h3 ha]; exact ⟨hb, ho⟩
  have hb2 : (rawLimit cfg exempt).2 = false := by
    cases hx : (rawLimit cfg exempt).2 with
    | false => rfl
    | true => exact absurd (h1.mp hx) ha
  rw [serve_eq, if_neg hf, readBody_eq, if_pos hro, hb2]
  rfl

/-- **decoded_overrun_status** — a cleanly decodable body (windows within the memory bound) whose
decoded size exceeds the decoded-size cap in force is answered 413 exactly when that cap is the
advertised `max_request_bytes`, and 400 when it is the explicit or derived decompressed cap. -/
theorem decoded_overrun_status (cfg : Cfg) (exempt : Bool) (cl : Int) (rawLen : Nat) (hdr : Bytes)
    (facts : Facts) (c : Codec) (hc : classify hdr = .codec c) (hf : ¬ FastRefused cfg exempt cl)
    (hw : RawWithin cfg exempt rawLen) (hcl : Clean facts)
    (hwin : WindowsFit c facts (decCap cfg exempt))
    (hpos : decCap cfg exempt > 0) (hover : (total facts.frames : Int) > decCap cfg exempt) :
    status (serve cfg exempt cl rawLen hdr facts).1 =
      if Applied cfg exempt ∧ decCap cfg exempt = cfg.maxReq then 413 else 400 := by
  obtain ⟨h1, h2, h3⟩ := rawLimit_applied cfg exempt
  rw [serve_eq, if_neg hf, readBody_eq, if_neg (fun ho => (rawOver_iff _ _ _).mp ho hw), hc]
  simp only
  -- the decoder answers too-large
  have htl : (decompressBounded (some c) facts (decCap cfg exempt)).1 = .tooLarge (decCap cfg exempt) := by
    rw [decompressBounded_eq]
    split
    · rfl
    · simp only [hcl.1, Bool.false_eq_true, if_false]
      have hcs : (streamAvail (effLimit c (decCap cfg exempt)) facts.tailErr (effFrames c facts)).2 = .clean := by
        rw [streamAvail_clean_iff]
        refine ⟨hcl.2, ?_⟩
        unfold effFrames effLimit
        by_cases hz : c = .zstd
        · simp only [hz, if_true]; exact hwin hz
        · simp only [hz, if_false]; exact zeroed_windows_fit _ _
      have hta := streamAvail_clean_total _ _ _ hcs
      rw [total_effFrames] at hta
      simp only [hpos, if_true, hta, hcs]
      by_cases h2' : total facts.frames ≥ (decCap cfg exempt).toNat + 2
      · simp [h2']
      · have : total facts.frames = (decCap cfg exempt).toNat + 1 := by omega
        simp [this]
  rw [htl]
  by_cases ha : Applied cfg exempt
  · have e := h2 ha
    rw [h1.mpr ha, e]
    by_cases hd : decCap cfg exempt = cfg.maxReq
    · simp [hd, ha, status]
    · simp [hd, status]
  · have hb2 : (rawLimit cfg exempt).2 = false := by
      cases hx : (rawLimit cfg exempt).2 with
      | false => rfl
      | true => exact absurd (h1.mp hx) ha
    simp [hb2, ha, status]

/-! ## 3. Never more than one byte past a cap -/

/-- **never_past_cap_plus_one** — with a raw limit in force at most `limit + 1` wire bytes are
read; with a decoded-size cap in force at most `cap + 1` decoded bytes are pulled out of the
decoder (and none at all when the declared size already exceeds the cap or the fast path fires). -/
theorem never_past_cap_plus_one (cfg : Cfg) (exempt : Bool) (cl : Int) (rawLen : Nat) (hdr : Bytes)
    (facts : Facts) :
    ((rawLimit cfg exempt).1 > 0 →
      (serve cfg exempt cl rawLen hdr facts).2.1 ≤ (rawLimit cfg exempt).1.toNat + 1) ∧
    (decCap cfg exempt > 0 →
      (serve cfg exempt cl rawLen hdr facts).2.2 ≤ (decCap cfg exempt).toNat + 1) ∧
    (serve cfg exempt cl rawLen hdr facts).2.1 ≤ rawLen := by
  rw [serve_eq]
  by_cases hf : FastRefused cfg exempt cl
  · simp [hf]
  · simp only [hf, if_false]
    rw [readBody_eq]
    have hpr : ((rawLimit cfg exempt).1 > 0 → pulledRaw cfg exempt rawLen ≤ (rawLimit cfg exempt).1.toNat + 1)
        ∧ pulledRaw cfg exempt rawLen ≤ rawLen := by
      unfold pulledRaw
      by_cases hp : (rawLimit cfg exempt).1 > 0
      · simp only [hp, if_true]; omega
      · simp [hp]
    by_cases ho : RawOver cfg exempt rawLen
    · simp only [ho, if_true]
      exact ⟨hpr.1, by simp, hpr.2⟩
    · simp only [ho, if_false]
      cases hc : classify hdr with
      | identity => exact ⟨hpr.1, by simp, hpr.2⟩
      | unknown => exact ⟨hpr.1, by simp, hpr.2⟩
      | codec c =>
        exact ⟨hpr.1, fun hp => decompressBounded_pulled (some c) facts _ hp, hpr.2⟩

/-! ## 4. Unknown codings -/

/-- **unknown_coding_415** — a body within the raw caps whose `Content-Encoding` is none of
identity/zstd/gzip is answered 415; nothing is decoded. -/
theorem unknown_coding_415 (cfg : Cfg) (exempt : Bool) (cl : Int) (rawLen : Nat) (hdr : Bytes)
    (facts : Facts) (hu : classify hdr = .unknown) (hf : ¬ FastRefused cfg exempt cl)
    (hw : RawWithin cfg exempt rawLen) :
    status (serve cfg exempt cl rawLen hdr facts).1 = 415 ∧
    (serve cfg exempt cl rawLen hdr facts).2.2 = 0 := by
  rw [serve_eq, if_neg hf, readBody_eq, if_neg (fun ho => (rawOver_iff _ _ _).mp ho hw), hu]
  exact ⟨rfl, rfl⟩

/-- **classify_spelling** — the header is read modulo surrounding SP/HTAB and ASCII letter case:
`OWS name OWS` is classified by the lower-cased name. -/
theorem classify_spelling (o1 t o2 : Bytes) (ho1 : ∀ x ∈ o1, IsOWS x) (ho2 : ∀ x ∈ o2, IsOWS x)
    (ht : ∀ x ∈ t, IsVis x) (hne : t ≠ []) :
    classify (o1 ++ t ++ o2) =
      (if t.map asciiLower = tIdentity then Enc.identity
       else if t.map asciiLower = tZstd then .codec .zstd
       else if t.map asciiLower = tGzip then .codec .gzip else .unknown) := by
  unfold classify
  have htasc : ∀ x ∈ t, x.toNat < 0x80 := fun x hx => by have := (ht x hx).2.1; omega
  rw [trimSpace_token o1 t o2 ho1 ho2 ht hne, lowerTok_ascii t htasc]
  have : t.map asciiLower ≠ [] := by simpa using hne
  simp [this]

/-! ## 5. The intermediary decoder: stacks of codings -/

/-- The codings of the header that the decoder acts on, in header order. -/
def recognised (hdr : Bytes) : List Codec := (splitOn cComma hdr).filterMap codingOf

/-- Specification: undo the given codings one after the other, each on the output of the previous
one, each bounded by `maxOut`. -/
def decodeLayers (maxOut : Int) : List Codec → List Facts → Nat → DOut
  | [], _, cur => .ok cur
  | _ :: _, [], _ => .decodeErr
  | c :: cs, f :: fs, _ =>
    match (decompressBounded (some c) f maxOut).1 with
    | .ok n => decodeLayers maxOut cs fs n
    | e => e

theorem decodeLoop_eq (maxOut : Int) : ∀ (raws : List Bytes) (layers : List Facts) (cur : Nat),
    decodeLoop maxOut raws layers cur = decodeLayers maxOut (raws.filterMap codingOf) layers cur := by
  intro raws
  induction raws with
  | nil => intro layers cur; rfl
  | cons raw rest ih =>
    intro layers cur
    simp only [decodeLoop, List.filterMap_cons]
    cases hc : codingOf raw with
    | none => simp only [ih]
    | some c =>
      cases layers with
      | nil => simp [decodeLayers]
      | cons f more =>
        simp only [decodeLayers]
        cases hd : (decompressBounded (some c) f maxOut).1 with
        | ok n => simp only [ih]
        | tooLarge l => rfl
        | decodeErr => rfl
        | unsupported => rfl

/-- **stack_reverse_order** — `DecodeContentEncoding` undoes exactly the zstd/gzip codings named
in the header, last-applied first (the reverse of the header order); identity, empty and unknown
elements are no-ops wherever they stand. -/
theorem stack_reverse_order (dataLen : Nat) (hdr : Bytes) (maxOut : Int) (layers : List Facts) :
    decodeContentEncoding dataLen hdr maxOut layers =
      decodeLayers maxOut (recognised hdr).reverse layers dataLen := by
  unfold decodeContentEncoding recognised
  by_cases h0 : hdr = []
  · subst h0
    have : ((splitOn cComma []).filterMap codingOf) = [] := by decide
    simp [this, decodeLayers]
  · simp only [h0, if_false, decodeLoop_eq, List.filterMap_reverse]

/-- **stack_noop** — a header naming no zstd/gzip coding returns the data unchanged. -/
theorem stack_noop (dataLen : Nat) (hdr : Bytes) (maxOut : Int) (layers : List Facts)
    (h : recognised hdr = []) : decodeContentEncoding dataLen hdr maxOut layers = .ok dataLen := by
  rw [stack_reverse_order, h]; rfl

theorem decodeLayers_limit (maxOut : Int) (hm : maxOut > 0) :
    ∀ (cs : List Codec) (fs : List Facts) (cur n : Nat), cs ≠ [] →
      decodeLayers maxOut cs fs cur = .ok n → (n : Int) ≤ maxOut := by
  intro cs
  induction cs with
  | nil => intro _ _ _ h; exact absurd rfl h
  | cons c cs ih =>
    intro fs cur n _ h
    cases fs with
    | nil => simp [decodeLayers] at h
    | cons f fs =>
      simp only [decodeLayers] at h
      cases hd : (decompressBounded (some c) f maxOut).1 with
      | ok k =>
        simp only [hd] at h
        cases cs with
        | nil =>
          simp only [decodeLayers, DOut.ok.injEq] at h
          subst h
          exact (decompressBounded_ok c f maxOut k hd).2.2.2.1 hm
        | cons c2 cs2 => exact ih fs k n (by simp) h
      | tooLarge l => simp [hd] at h
      | decodeErr => simp [hd] at h
      | unsupported => simp [hd] at h

/-- **per_coding_limit** — with a positive limit, whenever at least one coding is undone the
returned body is at most `maxOut` bytes. -/
theorem per_coding_limit (dataLen : Nat) (hdr : Bytes) (maxOut : Int) (layers : List Facts) (n : Nat)
    (hm : maxOut > 0) (hr : recognised hdr ≠ [])
    (h : decodeContentEncoding dataLen hdr maxOut layers = .ok n) : (n : Int) ≤ maxOut := by
  rw [stack_reverse_order] at h
  exact decodeLayers_limit maxOut hm _ layers dataLen n (by simpa using hr) h

/-- A layer the library decodes cleanly, within the per-coding limit. -/
def LayerFits (maxOut : Int) (c : Codec) (f : Facts) : Prop :=
  Clean f ∧ WindowsFit c f maxOut ∧ (maxOut > 0 → DeclaredFits f maxOut) ∧
  (maxOut > 0 → (total f.frames : Int) ≤ maxOut)

/-- The size of the innermost payload: the decoded size of the last layer undone. -/
def innermost (dataLen : Nat) : List Facts → Nat
  | [] => dataLen
  | [f] => total f.frames
  | _ :: rest => innermost dataLen rest

theorem innermost_nonempty (a b : Nat) : ∀ (f : Facts) (fs : List Facts),
    innermost a (f :: fs) = innermost b (f :: fs) := by
  intro f fs
  induction fs generalizing f with
  | nil => rfl
  | cons g rest ih => exact ih g

theorem decodeLayers_exact (maxOut : Int) : ∀ (cs : List Codec) (fs : List Facts) (cur : Nat),
    cs.length = fs.length → (∀ p ∈ cs.zip fs, LayerFits maxOut p.1 p.2) →
    decodeLayers maxOut cs fs cur = .ok (innermost cur fs) := by
  intro cs
  induction cs with
  | nil => intro fs cur hl _; cases fs with
    | nil => rfl
    | cons _ _ => simp at hl
  | cons c cs ih =>
    intro fs cur hl hfit
    cases fs with
    | nil => simp at hl
    | cons f fs =>
      obtain ⟨h1, h2, h3, h4⟩ := hfit (c, f) (by simp)
      simp only [decodeLayers, decompressBounded_clean c f maxOut h1 h2 h3 h4]
      rw [ih fs (total f.frames) (by simpa using hl)
        (fun p hp => hfit p (by simp only [List.zip_cons_cons, List.mem_cons]; exact Or.inr hp))]
      cases fs with
      | nil => rfl
      | cons g rest => exact congrArg DOut.ok (innermost_nonempty _ _ g rest)

/-- **stack_exact** — any stack of cleanly decodable layers, each within the per-coding limit, is
undone completely: the result is the innermost payload. -/
theorem stack_exact (dataLen : Nat) (hdr : Bytes) (maxOut : Int) (layers : List Facts)
    (hl : (recognised hdr).length = layers.length)
    (hfit : ∀ p ∈ (recognised hdr).reverse.zip layers, LayerFits maxOut p.1 p.2) :
    decodeContentEncoding dataLen hdr maxOut layers = .ok (innermost dataLen layers) := by
  rw [stack_reverse_order]
  exact decodeLayers_exact maxOut _ layers dataLen (by simpa using hl) hfit

/-! ## Non-vacuity -/

def ofChars (cs : List Char) : Bytes := cs.map fun c => UInt8.ofNat c.toNat

/-- 1 000 wire bytes of zstd declaring and decoding to 16 000 bytes, body cap 1 000 (derived
decoded cap 16 000): delivered; one byte more decoded: 400; with the advertised cap 16 000
governing instead: 413. -/
example : serve ⟨1000, 0, 0⟩ false 1000 1000 (ofChars "zstd".toList)
    ⟨some 16000, false, [⟨16000, 16000⟩], false, false⟩ = (.body 16000, 1000, 16000) := by decide
example : status (serve ⟨1000, 0, 0⟩ false 1000 1000 (ofChars " ZSTD ".toList)
    ⟨none, false, [⟨1024, 16001⟩], false, false⟩).1 = 400 := by decide
example : status (serve ⟨0, 16000, 0⟩ false 1000 1000 (ofChars "gzip".toList)
    ⟨none, false, [⟨0, 8000⟩, ⟨0, 8001⟩], false, false⟩).1 = 413 := by decide
/-- raw cap + 1: exactly `cap + 1` bytes are read, then 413 (advertised) / 400 (body cap) -/
example : serve ⟨0, 99, 0⟩ false (-1) 5000 [] ⟨none, false, [], false, false⟩ = (.tooLarge 99, 100, 0) := by decide
example : serve ⟨99, 0, 0⟩ false (-1) 100 [] ⟨none, false, [], false, false⟩ = (.valueErr, 100, 0) := by decide
/-- negative decompressed cap = no cap -/
example : serve ⟨10, 0, -1⟩ false 10 10 (ofChars "gzip".toList)
    ⟨none, false, [⟨0, 1000000⟩], false, false⟩ = (.body 1000000, 10, 1000000) := by decide
/-- exempt path: the advertised cap does not apply -/
example : isExempt (ofChars "/vgi".toList) (ofChars "/vgi/health".toList) = true ∧
    isExempt [] (ofChars "/healthz".toList) = false := by decide
example : (serve ⟨0, 10, 0⟩ true 500 500 [] ⟨none, false, [], false, false⟩).1 = .body 500 := by decide
example : status (serve ⟨0, 0, 0⟩ false 5 5 (ofChars "br".toList) ⟨none, false, [], false, false⟩).1 = 415 := by
  decide
/-- "gzip, zstd": zstd was applied last and is undone first -/
example : recognised (ofChars "gzip, br, ZSTD".toList) = [.gzip, .zstd] := by decide
example : decodeContentEncoding 50 (ofChars "gzip, zstd".toList) 0
    [⟨some 80, false, [⟨1024, 80⟩], false, false⟩, ⟨none, false, [⟨0, 300⟩], false, false⟩] = .ok 300 := by decide
example : decodeContentEncoding 50 (ofChars "gzip, zstd".toList) 100
    [⟨some 80, false, [⟨1024, 80⟩], false, false⟩, ⟨none, false, [⟨0, 300⟩], false, false⟩] = .decodeErr := by
  decide
example : decodeContentEncoding 50 (ofChars "gzip, zstd".toList) 2000
    [⟨some 80, false, [⟨1024, 80⟩], false, false⟩, ⟨none, false, [⟨0, 3000⟩], false, false⟩] = .tooLarge 2000 := by
  decide

end Vgi.Props.C18
