import Vgi.Model.TokenScript
import Vgi.Props.C13
/-!
# C15 — Token lifetime is enforced and the call cache never changes outcomes

Model: `Vgi.Token.tooOld` (`checkTokenAge`), `cacheGet` / `cachePut` (`callStateCache`, LRU order,
capacity, per-entry expiry = min(now + ttl, expiry of the call token the entry was resolved
from) — the code after fix e2abf38), `resolveCall`, `exchange`.

* `ttl_enforced_cursor`, `ttl_enforced_call`: a cursor older than the TTL is refused; an accepted
  continuation implies that the call token minted for that call is still in date — also when the
  cache answered (the cache never extends a call token's lifetime).
* `cache_transparent`: in a world satisfying `Inv`, a continuation that echoes the call token it
  was given gets the SAME outcome from an instance whatever its cache contains (hit, miss, empty,
  disabled, another instance sharing key and configuration).
* `apply_preserves_inv`, `reachable_inv`: `Inv` holds after ANY history of commands (inits,
  honest and forged continuations on any instances with independent caches of any size, seal
  events, run-time `SetTokenTTL` / `SetCallStateCacheEntries` reconfiguration, any clock values — the clock is an argument of each request and need not be monotone).
-/
namespace Vgi.Props.C15
open Vgi Vgi.Token Vgi.Props.C12 Vgi.Props.C13

/-! ### the invariant -/

/-- call ids of sealed cursors and call tokens contain no NUL -/
def CallIdsOk (tbl : List SealRec) : Prop :=
  ∀ r ∈ tbl, (∀ d, r.pt = .cursor d → NoNul d.callId) ∧ (∀ d, r.pt = .call d → NoNul d.callId)

/-- under one key, a call id names one call-token content -/
def CallPayloadUnique (tbl : List SealRec) : Prop :=
  ∀ r₁ ∈ tbl, ∀ r₂ ∈ tbl, ∀ d₁ d₂, r₁.pt = .call d₁ → r₂.pt = .call d₂ → r₁.key = r₂.key →
    d₁.callId = d₂.callId → d₁ = d₂

/-- a cache entry stands for a sealed call token, repeats its contents and does not outlive it -/
def EntryOk (tbl : List SealRec) (key : Bytes) (ttl : Int) (e : CacheEntry) : Prop :=
  ∃ r ∈ tbl, ∃ d who, r.key = normKey key ∧ r.pt = .call d ∧ e.key = cacheKey d.callId who ∧
    e.schema = d.schema ∧ e.streamId = d.streamId ∧ e.inputSchema = d.inputSchema ∧ e.exp ≤ tokenExpiry ttl d.created

def CacheOk (tbl : List SealRec) (key : Bytes) (ttl : Int) (c : List CacheEntry) : Prop :=
  ∀ e ∈ c, EntryOk tbl key ttl e

def TableOk (tbl : List SealRec) : Prop := NoncesUnique tbl ∧ CallIdsOk tbl ∧ CallPayloadUnique tbl

def Inv (w : World) : Prop :=
  TableOk w.sealed ∧ ∀ p ∈ w.insts, CacheOk w.sealed p.2.key p.2.ttl p.2.cache

/-! ### cache facts -/

theorem cacheKey_inj {x y : Bytes} {i j : Ident} (hx : NoNul x) (hy : NoNul y)
    (h : cacheKey x i = cacheKey y j) : x = y :=
  (split_at_nul x y _ _ hx hy h).1

theorem cacheGet_some {max : Int} {entries : List CacheEntry} {now : Int} {k : Bytes} {r : Resolved}
    (h : (cacheGet max entries now k).1 = some r) :
    ∃ e ∈ entries, e.key = k ∧ ¬ now > e.exp ∧ r = e.resolved := by
  unfold cacheGet at h
  split at h
  · cases h
  · split at h
    · cases h
    · rename_i e hf
      have hp := List.find?_some hf
      have hm := List.mem_of_find?_eq_some hf
      simp at hp
      split at h
      · cases h
      · rename_i hexp
        simp at h
        exact ⟨e, hm, hp, hexp, h.symm⟩

theorem cacheGet_sub {max : Int} {entries : List CacheEntry} {now : Int} {k : Bytes} :
    ∀ e ∈ (cacheGet max entries now k).2, e ∈ entries := by
  intro e he
  unfold cacheGet at he
  split at he
  · exact he
  · split at he
    · exact he
    · rename_i e' hf
      have hm := List.mem_of_find?_eq_some hf
      split at he
      · exact (List.mem_filter.mp he).1
      · simp only [List.mem_cons] at he
        rcases he with he | he
        · rw [he]; exact hm
        · exact (List.mem_filter.mp he).1

theorem cachePut_mem {max ttl : Int} {entries : List CacheEntry} {now : Int} {k : Bytes} {r : Resolved}
    {tex : Int} : ∀ e ∈ cachePut max ttl entries now k r tex,
      e ∈ entries ∨ (e.key = k ∧ e.schema = r.schema ∧ e.streamId = r.streamId ∧ e.inputSchema = r.inputSchema ∧ e.exp ≤ tex) := by
  intro e he
  unfold cachePut at he
  split at he
  · exact Or.inl he
  · have he' := List.mem_of_mem_take he
    simp only [List.mem_cons] at he'
    rcases he' with he' | he'
    · right
      subst he'
      refine ⟨rfl, rfl, rfl, rfl, ?_⟩
      simp only
      split
      · exact Int.le_refl _
      · omega
    · exact Or.inl (List.mem_filter.mp he').1

/-! ### an honest call token resolves the same way through the cache and without it -/

/-- A minted token opens (with unique nonces the first matching record is the minting one). -/
theorem openToken_of_minted {tbl : List SealRec} (hu : NoncesUnique tbl) {key : Bytes} {v : UInt8}
    {aad tok : Bytes} {pt : Plain} (hm : Minted tbl key v aad tok pt) :
    openToken tbl key v tok aad = .ok pt := by
  obtain ⟨r, hr, hk, ha, hp, htok, hn, hc⟩ := hm
  unfold openToken
  rw [htok]
  have hsplit : splitEnvelope (v :: (r.nonce ++ r.ct)) = some ⟨v, r.nonce, r.ct⟩ := by
    unfold splitEnvelope
    have hlen : ¬ (v :: (r.nonce ++ r.ct)).length < minLen := by
      simp only [List.length_cons, List.length_append, minLen, nonceLen, tagLen] at hn hc ⊢
      omega
    simp only [hlen, if_false]
    have h1 : (r.nonce ++ r.ct).take nonceLen = r.nonce := by
      rw [List.take_append_of_le_length (by omega), List.take_of_length_le (by omega)]
    have h2 : (r.nonce ++ r.ct).drop nonceLen = r.ct := by
      rw [← hn]; simp
    rw [h1, h2]
  simp only [hsplit]
  simp only [ne_eq, not_true_eq_false, if_false]
  -- the lookup finds a record; by uniqueness it is r
  unfold aeadOpen
  cases hf : tbl.find? (fun x => x.matches (normKey key) r.nonce aad r.ct) with
  | none =>
    have := List.find?_eq_none.mp hf r hr
    simp [SealRec.matches, hk, ha] at this
  | some r' =>
    have hp' := List.find?_some hf
    have hm' := List.mem_of_find?_eq_some hf
    simp [SealRec.matches] at hp'
    have : r = r' := hu r hr r' hm' (by rw [hk, hp'.1]) hp'.2.1.symm
    subst this
    simp [hp]

/-- What `resolveCall` answers to a continuation that echoes the call token `k` of its call: the
same thing whether the cache hits or misses. -/
theorem resolveCall_honest (tbl : List SealRec) (ht : TableOk tbl) (inst : Inst)
    (hc : CacheOk tbl inst.key inst.ttl inst.cache) (now : Int) (cur : CursorData) (who : Ident)
    (hcur : NoNul cur.callId) (t : Bytes) (k : CallData)
    (hm : Minted tbl inst.key callVersion (callAad who) t (.call k)) (hid : k.callId = cur.callId) :
    (resolveCall tbl inst now cur (some t) who).2 =
      if tooOld now inst.ttl k.created then .error .expired else .ok k.resolved := by
  obtain ⟨hu, hn, hp⟩ := ht
  have hopen := openToken_of_minted hu hm
  obtain ⟨rk, hrk, hkk, _, hpk, htok, _, _⟩ := hm
  unfold resolveCall
  cases hg : cacheGet inst.cacheMax inst.cache now (cacheKey cur.callId who) with
  | mk a c =>
    cases a with
    | some r =>
      -- hit: the entry stands for a call record with the same call id, hence the same contents
      have hg1 : (cacheGet inst.cacheMax inst.cache now (cacheKey cur.callId who)).1 = some r := by rw [hg]
      obtain ⟨e, he, hek, hexp, hr⟩ := cacheGet_some hg1
      obtain ⟨r', hr', d', who', hk', hp', hkey', hs', hst', hin', hx'⟩ := hc e he
      have hd'n : NoNul d'.callId := (hn r' hr').2 d' hp'
      have hidd : d'.callId = cur.callId := cacheKey_inj hd'n hcur (by rw [← hkey', hek])
      have hdk : d' = k := hp r' hr' rk hrk d' k hp' hpk (by rw [hk', hkk]) (by rw [hidd, hid])
      subst hdk
      have hnot : tooOld now inst.ttl d'.created = false := by
        unfold tooOld tokenExpiry at *
        simp only [decide_eq_false_iff_not]
        omega
      simp only [hnot, Bool.false_eq_true, if_false]
      have : e.resolved = d'.resolved := by
        unfold CacheEntry.resolved CallData.resolved; rw [hs', hst', hin']
      rw [hr, this]
    | none =>
      simp only
      cases t with
      | nil =>
        -- an empty text is not a minted token
        exfalso
        have : b64Std [] = some [] := by decide
        rw [this] at htok
        cases htok
      | cons b bs =>
        simp only
        rw [hopen]
        simp only
        by_cases hto : tooOld now inst.ttl k.created = true
        · rw [if_pos hto, if_pos hto]
        · rw [if_neg hto, if_neg hto]
          have : ¬ (k.callId ≠ cur.callId) := by simp [hid]
          rw [if_neg this]

theorem dispatch_cache_irrelevant (tbl : List SealRec) (key : Bytes) (ttl : Int) (m₁ m₂ : Int)
    (c₁ c₂ : List CacheEntry) (s : Bool) (sv : Bytes) (ss : List (Bytes × Bytes)) (r h : Bool)
    (ms : List MethodInfo) (req : Req) (mi : MethodInfo) (cur : CursorData) (rc : Resolved) :
    dispatch tbl ⟨key, ttl, m₁, c₁, s, sv, ss, r, h, ms⟩ req mi cur rc =
    dispatch tbl ⟨key, ttl, m₂, c₂, s, sv, ss, r, h, ms⟩ req mi cur rc := by
  unfold dispatch stickyResolve
  rfl

/-- A continuation is *honest* when, if its cursor opens, it echoes a call token minted under the
same key for the same caller that names the cursor's call. -/
def Honest (tbl : List SealRec) (inst : Inst) (req : Req) : Prop :=
  ∀ tok d, req.cursor = some tok → openCursor tbl inst.key inst.ttl req.now tok req.who = .ok d →
    ∃ t k, req.call = some t ∧ Minted tbl inst.key callVersion (callAad req.who) t (.call k) ∧
      k.callId = d.callId

/-- **cache_transparent**: for an honest continuation the outcome (status, error, callbacks, what
is minted, the resolved stream id the hook sees) does not depend on the instance's cache: any two
caches that satisfy the invariant — warm, cold, empty, of any capacity including 0 (disabled),
i.e. also another instance sharing key and configuration — give the same outcome. -/
theorem cache_transparent (tbl : List SealRec) (ht : TableOk tbl) (inst : Inst)
    (c₂ : List CacheEntry) (m₂ : Int)
    (h₁ : CacheOk tbl inst.key inst.ttl inst.cache) (h₂ : CacheOk tbl inst.key inst.ttl c₂)
    (req : Req) (hon : Honest tbl inst req) :
    (exchange tbl inst req).2 = (exchange tbl { inst with cache := c₂, cacheMax := m₂ } req).2 := by
  cases inst with
  | mk key ttl m₁ c₁ s sv ss r h ms =>
    unfold exchange
    have hm : Inst.method? ⟨key, ttl, m₂, c₂, s, sv, ss, r, h, ms⟩ req.method =
        Inst.method? ⟨key, ttl, m₁, c₁, s, sv, ss, r, h, ms⟩ req.method := rfl
    simp only [hm]
    cases Inst.method? ⟨key, ttl, m₁, c₁, s, sv, ss, r, h, ms⟩ req.method with
    | none => rfl
    | some mi =>
      simp only
      cases hc : req.cursor with
      | none => rfl
      | some tok =>
        simp only
        cases ho : openCursor tbl key ttl req.now tok req.who with
        | error e => rfl
        | ok cur =>
          simp only
          split
          · rfl
          · obtain ⟨t, k, hcall, hmint, hid⟩ := hon tok cur hc ho
            have hcurn : NoNul cur.callId := by
              obtain ⟨rc, hrc, _, _, hpc, _⟩ := (openCursor_ok ho).1
              exact (ht.2.1 rc hrc).1 cur hpc
            have e1 := resolveCall_honest tbl ht ⟨key, ttl, m₁, c₁, s, sv, ss, r, h, ms⟩ h₁ req.now cur req.who hcurn t k hmint hid
            have e2 := resolveCall_honest tbl ht ⟨key, ttl, m₂, c₂, s, sv, ss, r, h, ms⟩ h₂ req.now cur req.who hcurn t k hmint hid
            rw [hcall]
            cases hr1 : resolveCall tbl ⟨key, ttl, m₁, c₁, s, sv, ss, r, h, ms⟩ req.now cur (some t) req.who with
            | mk d1 r1 =>
              cases hr2 : resolveCall tbl ⟨key, ttl, m₂, c₂, s, sv, ss, r, h, ms⟩ req.now cur (some t) req.who with
              | mk d2 r2 =>
                rw [hr1] at e1; rw [hr2] at e2
                simp only at e1 e2
                have : r1 = r2 := by rw [e1, e2]
                subst this
                cases r1 with
                | error e => rfl
                | ok rc =>
                  simp only
                  exact dispatch_cache_irrelevant tbl key ttl m₁ m₂ d1 d2 s sv ss r h ms req mi cur rc

/-- In particular: warm cache = no cache at all. -/
theorem hit_equals_disabled (tbl : List SealRec) (ht : TableOk tbl) (inst : Inst)
    (h₁ : CacheOk tbl inst.key inst.ttl inst.cache) (req : Req) (hon : Honest tbl inst req) :
    (exchange tbl inst req).2 = (exchange tbl { inst with cache := [], cacheMax := 0 } req).2 :=
  cache_transparent tbl ht inst [] 0 h₁ (by intro e he; cases he) req hon

/-! ### lifetime -/

/-- **ttl_enforced_cursor**: a cursor whose `CreatedAt` is more than the TTL in the past is
refused by every instance, whatever its cache holds: no callback runs, nothing is minted. -/
theorem ttl_enforced_cursor (tbl : List SealRec) (hu : NoncesUnique tbl) (inst : Inst) (req : Req)
    (r : SealRec) (hr : r ∈ tbl) (hk : r.key = normKey inst.key) (hn : r.nonce.length = nonceLen)
    (d : CursorData) (hp : r.pt = .cursor d) (tok : Bytes) (v : UInt8)
    (htok : b64Std tok = some (v :: (r.nonce ++ r.ct))) (hc : req.cursor = some tok)
    (hold : req.now - d.created * 1000 > inst.ttl) :
    (exchange tbl inst req).2.err ≠ none ∧ (exchange tbl inst req).2.events = [] ∧
    (exchange tbl inst req).2.next = none := by
  have key : ¬ ((exchange tbl inst req).2.events ≠ [] ∨ (exchange tbl inst req).2.err = none ∨
      (exchange tbl inst req).2.next ≠ none) := by
    intro h
    obtain ⟨tok', d', hc', hm, hage, _⟩ := reaches_state_implies_minted tbl inst req h
    rw [hc] at hc'; cases hc'
    obtain ⟨_, hpt, _⟩ := minted_is_that_record hu hr hk hn htok hm
    rw [hp] at hpt
    cases hpt
    unfold tooOld at hage
    simp only [decide_eq_false_iff_not] at hage
    exact hage hold
  refine ⟨fun hx => key (Or.inr (Or.inl hx)), ?_, ?_⟩
  · by_cases hx : (exchange tbl inst req).2.events = []
    · exact hx
    · exact absurd (Or.inl hx) key
  · by_cases hx : (exchange tbl inst req).2.next = none
    · exact hx
    · exact absurd (Or.inr (Or.inr hx)) key

/-- What a successful `resolveCall` guarantees, hit or miss: some call token sealed under this
key names the cursor's call and is still in date. -/
theorem resolveCall_ok_in_date (tbl : List SealRec) (hn : CallIdsOk tbl) (inst : Inst)
    (hc : CacheOk tbl inst.key inst.ttl inst.cache) (now : Int) (cur : CursorData) (hcur : NoNul cur.callId)
    (callTok : Option Bytes) (who : Ident) (c : List CacheEntry) (rc : Resolved)
    (h : resolveCall tbl inst now cur callTok who = (c, .ok rc)) :
    ∃ rk ∈ tbl, ∃ k, rk.key = normKey inst.key ∧ rk.pt = .call k ∧ k.callId = cur.callId ∧
      tooOld now inst.ttl k.created = false ∧ rc = k.resolved := by
  cases hg : (cacheGet inst.cacheMax inst.cache now (cacheKey cur.callId who)).1 with
  | none =>
    obtain ⟨t, k, _, hm, hid, hage, hrc⟩ := resolveCall_miss_ok h hg
    obtain ⟨rk, hrk, hk, _, hp, _⟩ := hm
    exact ⟨rk, hrk, k, hk, hp, hid, hage, hrc⟩
  | some r =>
    obtain ⟨e, he, hek, hexp, hr⟩ := cacheGet_some hg
    obtain ⟨r', hr', d', who', hk', hp', hkey', hs', hst', hin', hx'⟩ := hc e he
    have hd'n : NoNul d'.callId := (hn r' hr').2 d' hp'
    have hidd : d'.callId = cur.callId := cacheKey_inj hd'n hcur (by rw [← hkey', hek])
    refine ⟨r', hr', d', hk', hp', hidd, ?_, ?_⟩
    · unfold tooOld tokenExpiry at *
      simp only [decide_eq_false_iff_not]
      omega
    · -- the hit returns the entry
      unfold resolveCall at h
      cases hg2 : cacheGet inst.cacheMax inst.cache now (cacheKey cur.callId who) with
      | mk a c' =>
        rw [hg2] at hg h
        simp only at hg
        subst hg
        simp only [Prod.mk.injEq, Except.ok.injEq] at h
        have : e.resolved = d'.resolved := by
          unfold CacheEntry.resolved CallData.resolved; rw [hs', hst', hin']
        rw [← h.2, hr, this]

/-- **ttl_enforced_call** (the cache never extends a call token's lifetime): whenever a
continuation is accepted, runs any callback or mints anything — through a cache hit or not —
every call token sealed under this key for the cursor's call is within its TTL (and there is
one). So once the call token a client holds has expired, every instance refuses, warm or cold. -/
theorem ttl_enforced_call (tbl : List SealRec) (ht : TableOk tbl) (inst : Inst)
    (hc : CacheOk tbl inst.key inst.ttl inst.cache) (req : Req)
    (h : (exchange tbl inst req).2.events ≠ [] ∨ (exchange tbl inst req).2.err = none ∨
         (exchange tbl inst req).2.next ≠ none) :
    ∃ tok d, req.cursor = some tok ∧ Minted tbl inst.key cursorVersion (cursorAad req.who) tok (.cursor d) ∧
      (∃ rk ∈ tbl, ∃ k, rk.key = normKey inst.key ∧ rk.pt = .call k ∧ k.callId = d.callId) ∧
      (∀ rk ∈ tbl, ∀ k, rk.key = normKey inst.key → rk.pt = .call k → k.callId = d.callId →
        req.now - k.created * 1000 ≤ inst.ttl) := by
  have refused : ∀ x st e, exchange tbl inst req = (x, refuse st e) → False := by
    intro x st e hx
    rw [hx] at h
    simp [refuse] at h
  rcases exchange_cases tbl inst req with ⟨_, hx⟩ | ⟨mi, _, hrest⟩
  · exact (refused _ _ _ hx).elim
  · rcases hrest with ⟨_, hx⟩ | ⟨tok, hcur, hrest⟩
    · exact (refused _ _ _ hx).elim
    · rcases hrest with ⟨e', _, hx⟩ | ⟨cur, ho, hrest⟩
      · exact (refused _ _ _ hx).elim
      · rcases hrest with ⟨_, hx⟩ | ⟨_, _, hrest⟩
        · exact (refused _ _ _ hx).elim
        · rcases hrest with ⟨c, e', _, hx⟩ | ⟨c, rc, hr, _⟩
          · exact (refused _ _ _ hx).elim
          · obtain ⟨hmint, _⟩ := openCursor_ok ho
            have hcurn : NoNul cur.callId := by
              obtain ⟨rc', hrc', _, _, hpc, _⟩ := hmint
              exact (ht.2.1 rc' hrc').1 cur hpc
            obtain ⟨rk, hrk, k, hk, hp, hid, hage, _⟩ :=
              resolveCall_ok_in_date tbl ht.2.1 inst hc req.now cur hcurn req.call req.who c rc hr
            refine ⟨tok, cur, hcur, hmint, ⟨rk, hrk, k, hk, hp, hid⟩, ?_⟩
            intro rk' hrk' k' hk' hp' hid'
            have : k' = k := ht.2.2 rk' hrk' rk hrk k' k hp' hp (by rw [hk', hk]) (by rw [hid', hid])
            subst this
            unfold tooOld at hage
            simp only [decide_eq_false_iff_not] at hage
            omega

/-! ### the invariant holds in every reachable world -/

theorem recordSeal_shape {tbl tbl' : List SealRec} {key aad tok : Bytes} {s : Bool} {pt : Plain}
    (h : recordSeal tbl key aad s tok pt = some tbl') :
    ∃ n c, tbl' = ⟨normKey key, n, aad, c, pt⟩ :: tbl ∧ plainOk tbl (normKey key) pt = true := by
  unfold recordSeal at h
  split at h
  · cases h
  · split at h
    · cases h
    · rename_i env _
      split at h
      · rename_i hf
        cases h
        rw [Bool.and_eq_true] at hf
        exact ⟨env.nonce, env.ct, rfl, hf.2⟩
      · cases h

theorem recordSeal_tableOk {tbl tbl' : List SealRec} {key aad tok : Bytes} {s : Bool} {pt : Plain}
    (ht : TableOk tbl) (h : recordSeal tbl key aad s tok pt = some tbl') : TableOk tbl' := by
  obtain ⟨hu, hn, hp⟩ := ht
  refine ⟨recordSeal_unique hu h, ?_, ?_⟩
  · obtain ⟨n, c, hs, hok⟩ := recordSeal_shape h
    subst hs
    intro r hr
    simp only [List.mem_cons] at hr
    rcases hr with hr | hr
    · subst hr
      constructor
      · intro d hd
        simp only at hd
        subst hd
        simpa [plainOk, NoNul] using hok
      · intro d hd
        simp only at hd
        subst hd
        simp [plainOk] at hok
        exact hok.1
    · exact hn r hr
  · obtain ⟨n, c, hs, hok⟩ := recordSeal_shape h
    subst hs
    have newOld : ∀ r ∈ tbl, ∀ d dn, pt = .call dn → r.pt = .call d → r.key = normKey key →
        d.callId = dn.callId → d = dn := by
      intro r hr d dn hpt hrp hk hid
      subst hpt
      simp [plainOk, callConsistent] at hok
      have := hok.2 r hr
      rw [hrp] at this
      simp at this
      rcases this with (h1 | h1) | h1
      · exact absurd hk h1
      · exact absurd hid h1
      · exact h1
    intro r₁ h₁ r₂ h₂ d₁ d₂ hp₁ hp₂ hk hid
    simp only [List.mem_cons] at h₁ h₂
    rcases h₁ with h₁ | h₁ <;> rcases h₂ with h₂ | h₂
    · subst h₁; subst h₂
      simp only at hp₁ hp₂
      rw [hp₁] at hp₂
      cases hp₂; rfl
    · subst h₁
      simp only at hp₁ hk
      exact (newOld r₂ h₂ d₂ d₁ hp₁ hp₂ hk.symm hid.symm).symm
    · subst h₂
      simp only at hp₂ hk
      exact newOld r₁ h₁ d₁ d₂ hp₂ hp₁ hk hid
    · exact hp r₁ h₁ r₂ h₂ d₁ d₂ hp₁ hp₂ hk hid

theorem recordSeal_mono {tbl tbl' : List SealRec} {key aad tok : Bytes} {s : Bool} {pt : Plain}
    (h : recordSeal tbl key aad s tok pt = some tbl') : ∀ r ∈ tbl, r ∈ tbl' := by
  obtain ⟨n, c, hs, _⟩ := recordSeal_shape h
  subst hs
  intro r hr
  exact List.mem_cons_of_mem _ hr

theorem cacheOk_mono {tbl tbl' : List SealRec} {key : Bytes} {ttl : Int} {c : List CacheEntry}
    (h : CacheOk tbl key ttl c) (hm : ∀ r ∈ tbl, r ∈ tbl') : CacheOk tbl' key ttl c := by
  intro e he
  obtain ⟨r, hr, rest⟩ := h e he
  exact ⟨r, hm r hr, rest⟩

theorem cacheOk_sub {tbl : List SealRec} {key : Bytes} {ttl : Int} {c c' : List CacheEntry}
    (h : CacheOk tbl key ttl c) (hs : ∀ e ∈ c', e ∈ c) : CacheOk tbl key ttl c' :=
  fun e he => h e (hs e he)

/-- `resolveCall` keeps the cache within the invariant (a miss stores an entry that stands for the
call token it just opened and expires no later than that token). -/
theorem resolveCall_cacheOk (tbl : List SealRec) (inst : Inst)
    (hc : CacheOk tbl inst.key inst.ttl inst.cache) (now : Int) (cur : CursorData)
    (callTok : Option Bytes) (who : Ident) :
    CacheOk tbl inst.key inst.ttl (resolveCall tbl inst now cur callTok who).1 := by
  have hsub := cacheOk_sub hc (cacheGet_sub (max := inst.cacheMax) (now := now) (k := cacheKey cur.callId who))
  unfold resolveCall
  cases hg : cacheGet inst.cacheMax inst.cache now (cacheKey cur.callId who) with
  | mk a c =>
    rw [hg] at hsub
    simp only at hsub
    cases a with
    | some r => exact hsub
    | none =>
      simp only
      cases callTok with
      | none => exact hsub
      | some t =>
        cases t with
        | nil => exact hsub
        | cons b bs =>
          simp only
          cases ho : openToken tbl inst.key callVersion (b :: bs) (callAad who) with
          | error e => exact hsub
          | ok pt =>
            cases pt with
            | cursor d => exact hsub
            | session d => exact hsub
            | call d =>
              simp only
              by_cases hto : tooOld now inst.ttl d.created = true
              · rw [if_pos hto]; exact hsub
              · rw [if_neg hto]
                by_cases hid : d.callId ≠ cur.callId
                · rw [if_pos hid]; exact hsub
                · rw [if_neg hid]
                  simp only
                  have hid' : d.callId = cur.callId := by
                    by_cases hx : d.callId = cur.callId
                    · exact hx
                    · exact absurd hx hid
                  obtain ⟨r, hr, hk, _, hp, _⟩ := openToken_ok ho
                  intro e he
                  rcases cachePut_mem e he with hold | ⟨h1, h2, h3, h5, h4⟩
                  · exact hsub e hold
                  · exact ⟨r, hr, d, who, hk, hp, by rw [h1, hid'], h2, h3, h5, h4⟩

theorem exchange_cacheOk (tbl : List SealRec) (inst : Inst)
    (hc : CacheOk tbl inst.key inst.ttl inst.cache) (req : Req) :
    (exchange tbl inst req).1.key = inst.key ∧ (exchange tbl inst req).1.ttl = inst.ttl ∧
    CacheOk tbl inst.key inst.ttl (exchange tbl inst req).1.cache := by
  rcases exchange_cases tbl inst req with ⟨_, hx⟩ | ⟨mi, _, hrest⟩
  · rw [hx]; exact ⟨rfl, rfl, hc⟩
  · rcases hrest with ⟨_, hx⟩ | ⟨tok, _, hrest⟩
    · rw [hx]; exact ⟨rfl, rfl, hc⟩
    · rcases hrest with ⟨e', _, hx⟩ | ⟨cur, _, hrest⟩
      · rw [hx]; exact ⟨rfl, rfl, hc⟩
      · rcases hrest with ⟨_, hx⟩ | ⟨_, _, hrest⟩
        · rw [hx]; exact ⟨rfl, rfl, hc⟩
        · have := resolveCall_cacheOk tbl inst hc req.now cur req.call req.who
          rcases hrest with ⟨c, e', hr, hx⟩ | ⟨c, rc, hr, hx⟩
          · rw [hx]; rw [hr] at this; exact ⟨rfl, rfl, this⟩
          · rw [hx]; rw [hr] at this; exact ⟨rfl, rfl, this⟩

theorem mem_setInst {w : World} {n : String} {i : Inst} {p : String × Inst}
    (h : p ∈ (w.setInst n i).insts) : p = (n, i) ∨ p ∈ w.insts := by
  unfold World.setInst at h
  simp only [List.mem_cons] at h
  rcases h with h | h
  · exact Or.inl h
  · exact Or.inr (List.mem_filter.mp h).1

theorem instLookup_mem {w : World} {n : String} {i : Inst} (h : w.inst? n = some i) : ∃ m, (m, i) ∈ w.insts := by
  unfold World.inst? at h
  cases hf : w.insts.find? (fun p => p.1 == n) with
  | none => simp [hf] at h
  | some p =>
    simp [hf] at h
    exact ⟨p.1, by rw [← h]; exact List.mem_of_find?_eq_some hf⟩

/-- generic step: new table ⊇ old (and TableOk), one instance replaced by one whose cache is ok -/
theorem inv_update {w : World} (hi : Inv w) (tbl' : List SealRec) (ht' : TableOk tbl')
    (hm : ∀ r ∈ w.sealed, r ∈ tbl') (n : String) (i : Inst) (hc : CacheOk tbl' i.key i.ttl i.cache) :
    Inv (({ w with sealed := tbl' } : World).setInst n i) := by
  refine ⟨ht', ?_⟩
  intro p hp
  rcases mem_setInst hp with hp | hp
  · subst hp; exact hc
  · exact cacheOk_mono (hi.2 p hp) hm

theorem inv_table {w : World} (hi : Inv w) (tbl' : List SealRec) (ht' : TableOk tbl')
    (hm : ∀ r ∈ w.sealed, r ∈ tbl') : Inv ({ w with sealed := tbl' } : World) :=
  ⟨ht', fun p hp => cacheOk_mono (hi.2 p hp) hm⟩

theorem initStream_mint_callId {tbl : List SealRec} {inst : Inst} {who : Ident} {method : Bytes} {limit : Nat}
    {sess : Option Bytes} {callId streamId schema : Bytes} {created kcreated : Int} {cd : CursorData} {kd : CallData}
    (h : (initStream tbl inst who method limit sess callId streamId schema created kcreated).mint = some (cd, kd)) :
    cd.callId = kd.callId := by
  unfold initStream at h
  split at h
  · simp at h
  · split at h
    · simp at h
    · split at h
      · simp at h
      · simp only at h
        repeat' split at h
        all_goals first
          | (simp at h; done)
          | (simp at h; obtain ⟨a, b⟩ := h; rw [← a, ← b])

theorem applyInit_inv (w : World) (iname : String) (who : Ident) (method : Bytes) (limit : Nat)
    (sess : Option Bytes) (now : Int) (env : Option InitEnv) (hi : Inv w) :
    Inv (applyInit w iname who method limit sess now env).1 := by
  unfold applyInit
  split
  · exact hi
  · rename_i inst hinst
    simp only
    split
    · exact hi
    · rename_i cd kd hmint
      split
      · exact hi
      · rename_i e
        split
        · exact hi
        · split
          · exact hi
          · rename_i t1 h1
            split
            · exact hi
            · rename_i t2 h2
              have ht1 := recordSeal_tableOk hi.1 h1
              have ht2 := recordSeal_tableOk ht1 h2
              have hm : ∀ r ∈ w.sealed, r ∈ t2 := fun r hr => recordSeal_mono h2 r (recordSeal_mono h1 r hr)
              obtain ⟨m, hmem⟩ := instLookup_mem hinst
              have hc0 : CacheOk t2 inst.key inst.ttl inst.cache := cacheOk_mono (hi.2 _ hmem) hm
              obtain ⟨n2, c2, hs2, _⟩ := recordSeal_shape h2
              apply inv_update hi t2 ht2 hm
              intro en hen
              rcases cachePut_mem en hen with hold | ⟨k1, k2, k3, k5, k4⟩
              · exact hc0 en hold
              · -- the call record just sealed
                -- cd and kd come from initStream: same call id
                have hcall : cd.callId = kd.callId := initStream_mint_callId hmint
                refine ⟨⟨normKey inst.key, n2, callAad who, c2, .call kd⟩, by rw [hs2]; simp, kd, who, rfl, rfl, ?_, k2, k3, k5, k4⟩
                rw [k1, hcall]

theorem applyCont_inv (w : World) (iname : String) (req : Req) (env : Option (Bytes × Int)) (hi : Inv w) :
    Inv (applyCont w iname req env).1 := by
  unfold applyCont
  split
  · exact hi
  · rename_i inst hinst
    obtain ⟨m, hmem⟩ := instLookup_mem hinst
    have hc := hi.2 _ hmem
    obtain ⟨hk, httl, hco⟩ := exchange_cacheOk w.sealed inst hc req
    have hw1 : Inv (w.setInst iname (exchange w.sealed inst req).1) := by
      have := inv_update hi w.sealed hi.1 (fun r hr => hr) iname (exchange w.sealed inst req).1 (by rw [hk, httl]; exact hco)
      exact this
    simp only
    split
    · split
      · rename_i t h1
        simp only
        have ht := recordSeal_tableOk hi.1 h1
        exact inv_table hw1 t ht (recordSeal_mono h1)
      · exact hw1
    · exact hw1

theorem applySeal_inv (w : World) (iname : String) (aad : Bytes) (session : Bool) (tok : Bytes)
    (pt : Plain) (hi : Inv w) : Inv (applySeal w iname aad session tok pt).1 := by
  unfold applySeal
  split
  · exact hi
  · split
    · rename_i t h1
      exact inv_table hi t (recordSeal_tableOk hi.1 h1) (recordSeal_mono h1)
    · exact hi

theorem applySticky_inv (w : World) (op : StickyOp) (iname : String) (who : Ident) (sess : Option Bytes)
    (accept : Bool) (env : Option (Bytes × Bytes)) (hi : Inv w) :
    Inv (applySticky w op iname who sess accept env).1 := by
  unfold applySticky
  split
  · exact hi
  · rename_i inst hinst
    obtain ⟨m, hmem⟩ := instLookup_mem hinst
    have hc := hi.2 _ hmem
    -- the sticky family only ever changes `sessions`
    have hclose : (unaryClose w.sealed inst who sess).1.key = inst.key ∧
        (unaryClose w.sealed inst who sess).1.ttl = inst.ttl ∧
        (unaryClose w.sealed inst who sess).1.cache = inst.cache := by
      unfold unaryClose; repeat' split
      all_goals exact ⟨rfl, rfl, rfl⟩
    have hdel : (stickyDelete w.sealed inst who sess).1.key = inst.key ∧
        (stickyDelete w.sealed inst who sess).1.ttl = inst.ttl ∧
        (stickyDelete w.sealed inst who sess).1.cache = inst.cache := by
      unfold stickyDelete; repeat' split
      all_goals exact ⟨rfl, rfl, rfl⟩
    have hopen : ∀ sid, (unaryOpen w.sealed inst who sess accept sid).1.key = inst.key ∧
        (unaryOpen w.sealed inst who sess accept sid).1.ttl = inst.ttl ∧
        (unaryOpen w.sealed inst who sess accept sid).1.cache = inst.cache := by
      intro sid
      unfold unaryOpen; repeat' split
      all_goals exact ⟨rfl, rfl, rfl⟩
    split
    · exact hi
    · simp only
      exact inv_update hi w.sealed hi.1 (fun r hr => hr) iname _ (by rw [hclose.1, hclose.2.1, hclose.2.2]; exact hc)
    · simp only
      exact inv_update hi w.sealed hi.1 (fun r hr => hr) iname _ (by rw [hdel.1, hdel.2.1, hdel.2.2]; exact hc)
    · simp only
      split
      · split
        · rename_i t h1
          have ht := recordSeal_tableOk hi.1 h1
          have hm := recordSeal_mono h1
          exact inv_update hi t ht hm iname _ (by rw [(hopen _).1, (hopen _).2.1, (hopen _).2.2]; exact cacheOk_mono hc hm)
        · exact hi
      · exact hi
      · exact inv_update hi w.sealed hi.1 (fun r hr => hr) iname _ (by rw [(hopen _).1, (hopen _).2.1, (hopen _).2.2]; exact hc)

theorem applyReconf_inv (w : World) (n : String) (f : Inst → Inst) (hi : Inv w) :
    Inv (applyReconf w n f).1 := by
  unfold applyReconf
  split
  · exact hi
  · exact inv_update hi w.sealed hi.1 (fun r hr => hr) n _ (by intro e he; cases he)

/-- **apply_preserves_inv**: every command — `/init`, honest or forged continuation on any
instance at any clock value, seal event, sticky operation, (re)configuration of an instance —
keeps the invariant. -/
theorem apply_preserves_inv (w : World) (c : Cmd) (hi : Inv w) : Inv (apply w c).1 := by
  cases c with
  | inst name i =>
    exact inv_update hi w.sealed hi.1 (fun r hr => hr) name _ (by intro e he; cases he)
  | query a => exact hi
  | setTtl name ttl => simp only [apply]; exact applyReconf_inv w name _ hi
  | setCache name max => simp only [apply]; exact applyReconf_inv w name _ hi
  | init iname who method limit sess now env => exact applyInit_inv w iname who method limit sess now env hi
  | cont iname req env => exact applyCont_inv w iname req env hi
  | «seal» iname aad session tok pt => exact applySeal_inv w iname aad session tok pt hi
  | sticky op iname who sess accept env => exact applySticky_inv w op iname who sess accept env hi

theorem empty_inv : Inv World.empty := by
  refine ⟨⟨?_, ?_, ?_⟩, ?_⟩
  · intro r hr; simp [World.empty] at hr
  · intro r hr; simp [World.empty] at hr
  · intro r hr; simp [World.empty] at hr
  · intro p hp; simp [World.empty] at hp

/-- **reachable_inv**: the invariant holds in every world reachable from the empty one by ANY
history of commands: any interleaving of inits and continuations across any number of instances
with independent caches of any size (0, 1, default, …), any TTLs, any request times. -/
theorem reachable_inv (cs : List Cmd) : Inv (run World.empty cs) := by
  suffices ∀ w, Inv w → Inv (run w cs) from this _ empty_inv
  unfold run
  induction cs with
  | nil => intro w h; exact h
  | cons c cs ih => intro w h; exact ih _ (apply_preserves_inv w c h)

/-- **reachable_cache_transparent**: the headline statement. After any history, for every instance
of the world and every honest continuation, the outcome equals the outcome of the same instance
with its cache emptied and disabled, and of the same instance with any other invariant-respecting
cache (e.g. the cache of a sibling instance sharing the key and TTL). -/
theorem reachable_cache_transparent (cs : List Cmd) (n : String) (inst : Inst)
    (hmem : (n, inst) ∈ (run World.empty cs).insts) (req : Req)
    (hon : Honest (run World.empty cs).sealed inst req) :
    (exchange (run World.empty cs).sealed inst req).2 =
      (exchange (run World.empty cs).sealed { inst with cache := [], cacheMax := 0 } req).2 ∧
    ∀ n₂ inst₂, (n₂, inst₂) ∈ (run World.empty cs).insts → inst₂.key = inst.key → inst₂.ttl = inst.ttl →
      (exchange (run World.empty cs).sealed inst req).2 =
        (exchange (run World.empty cs).sealed { inst with cache := inst₂.cache, cacheMax := inst₂.cacheMax } req).2 := by
  have hi := reachable_inv cs
  have hc := hi.2 _ hmem
  refine ⟨hit_equals_disabled _ hi.1 inst hc req hon, ?_⟩
  intro n₂ inst₂ hmem₂ hk httl
  have hc₂ := hi.2 _ hmem₂
  simp only at hc hc₂
  rw [hk, httl] at hc₂
  exact cache_transparent _ hi.1 inst inst₂.cache inst₂.cacheMax hc hc₂ req hon

/-! ### Non-vacuity: a reachable world with a warm cache -/

/-- one instance (TTL 60 s, cache of 8), one `/init` by the anonymous caller at t = 100 s that
minted the C12 example tokens -/
def exInst8 : Inst := ⟨exKey, 60000, 8, [], false, [], [], true, true, [⟨[109], .exchange, .exchange, []⟩]⟩
def exCmds : List Cmd :=
  [.inst "i" exInst8,
   .init "i" anon [109] 5 none 100000 (some ⟨[65], [83], [], 100, 100, exCursorTok, exCallTok⟩)]
def exWorld : World := run World.empty exCmds
def exWarm : Inst := (exWorld.inst? "i").getD exInst8

-- the init really warmed the cache, and the table holds both tokens
example : exWarm.cache.length = 1 ∧ exWorld.sealed.length = 2 := by decide

-- an honest continuation at t = 130 s: accepted through the hit, and identically with the cache off
example : (exchange exWorld.sealed exWarm exReq).2.err = none ∧
    (cacheGet exWarm.cacheMax exWarm.cache exReq.now (cacheKey [65] anon)).1 = some ⟨[], [83], []⟩ ∧
    (exchange exWorld.sealed exWarm exReq).2 =
      (exchange exWorld.sealed { exWarm with cache := [], cacheMax := 0 } exReq).2 := by decide

-- the cache is not vacuous: WITHOUT the call token the warm instance accepts and the cold one refuses
example : (exchange exWorld.sealed exWarm { exReq with call := none }).2.err = none ∧
    (exchange exWorld.sealed { exWarm with cache := [], cacheMax := 0 } { exReq with call := none }).2 =
      refuse 400 .missingCall := by decide

-- one millisecond past the TTL (call token created at 100 s, TTL 60 s): refused, warm or not,
-- even with a cursor that is still fresh (re-minted at t = 150 s by a key holder)
def exLateCursor : SealRec := ⟨exKey, List.replicate 24 3, cursorAad anon, exCt, .cursor { exCursor with created := 150 }⟩
/-- base64 text of `06 ‖ 03×24 ‖ 09×16` -/
def exLateTok : Bytes := [66, 103, 77, 68, 65, 119, 77, 68, 65, 119, 77, 68, 65, 119, 77, 68, 65, 119, 77, 68, 65, 119, 77, 68, 65, 119, 77, 68, 65, 119, 77, 68, 65, 119, 107, 74, 67, 81, 107, 74, 67, 81, 107, 74, 67, 81, 107, 74, 67, 81, 107, 74, 67, 81, 107, 61]
example :
    (exchange (exLateCursor :: exWorld.sealed) exWarm ⟨anon, [109], some exLateTok, some exCallTok, false, none, 160001, []⟩).2 =
      refuse 400 .expired ∧
    (exchange (exLateCursor :: exWorld.sealed) exWarm ⟨anon, [109], some exLateTok, some exCallTok, false, none, 160000, []⟩).2.err = none := by
  decide

-- the honesty hypothesis is met by the example request
example : Honest exWorld.sealed exWarm exReq := by
  intro tok d hc ho
  have h1 : tok = exCursorTok := by
    have : exReq.cursor = some exCursorTok := rfl
    rw [this] at hc; cases hc; rfl
  subst h1
  have h2 : openCursor exWorld.sealed exWarm.key exWarm.ttl exReq.now exCursorTok exReq.who = .ok exCursor := by rfl
  rw [h2] at ho
  cases ho
  refine ⟨exCallTok, exCall, rfl, ?_, rfl⟩
  refine ⟨⟨exKey, exNonce2, callAad anon, exCt, .call exCall⟩, by decide, by decide, rfl, rfl, by decide, by decide, by decide⟩

end Vgi.Props.C15
