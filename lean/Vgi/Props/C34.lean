import Vgi.Model.Shm
/-!
# C34 — The shared-memory allocator keeps its table consistent

Property theorems about `Vgi.Shm` (model of `vgirpc/shm.go`'s allocator). All statements are
for every table, every size and every operation history — no bound anywhere.
-/
namespace Vgi.Props.C34
open Vgi Vgi.Shm

/-- Well-formed from `prevEnd`: offsets ascending, regions non-empty, disjoint, inside
`[prevEnd, dataEnd]`. -/
def WFfrom (dataEnd : Nat) : Nat → Table → Prop
  | prevEnd, [] => prevEnd ≤ dataEnd
  | prevEnd, e :: rest => prevEnd ≤ e.1 ∧ 0 < e.2 ∧ WFfrom dataEnd (e.1 + e.2) rest

/-- The documented table invariant: sorted, disjoint, inside the data area, count ≤ max. -/
def WF (s : Seg) : Prop := WFfrom s.size headerSize s.table ∧ s.table.length ≤ maxAllocs

instance decWFfrom (dataEnd : Nat) : ∀ p t, Decidable (WFfrom dataEnd p t)
  | p, [] => inferInstanceAs (Decidable (p ≤ dataEnd))
  | p, e :: rest =>
    have := decWFfrom dataEnd (e.1 + e.2) rest
    inferInstanceAs (Decidable (p ≤ e.1 ∧ 0 < e.2 ∧ WFfrom dataEnd (e.1 + e.2) rest))

instance (s : Seg) : Decidable (WF s) :=
  inferInstanceAs (Decidable (WFfrom s.size headerSize s.table ∧ s.table.length ≤ maxAllocs))

/-- The free gaps of a table, in order: (start, length). -/
def gaps (dataEnd : Nat) : Nat → Table → List (Nat × Nat)
  | prevEnd, [] => [(prevEnd, dataEnd - prevEnd)]
  | prevEnd, e :: rest => (prevEnd, e.1 - prevEnd) :: gaps dataEnd (e.1 + e.2) rest

theorem wf_prev_le {dataEnd : Nat} : ∀ {p : Nat} {t : Table}, WFfrom dataEnd p t → p ≤ dataEnd
  | _, [], h => h
  | p, e :: rest, h => by
    have := wf_prev_le h.2.2
    have h1 := h.1; have h2 := h.2.1
    omega

/-- Allocation preserves well-formedness (from any scan position). -/
theorem allocScan_wf {sz dataEnd : Nat} (hsz : 0 < sz) :
    ∀ {p : Nat} {t : Table} {o : Nat} {t' : Table},
      WFfrom dataEnd p t → allocScan sz dataEnd p t = some (o, t') → WFfrom dataEnd p t'
  | p, [], o, t', h, ha => by
    simp only [allocScan] at ha
    split at ha
    · cases ha
      simp only [WFfrom] at h ⊢
      omega
    · cases ha
  | p, e :: rest, o, t', h, ha => by
    simp only [allocScan] at ha
    split at ha
    · cases ha
      obtain ⟨h1, h2, h3⟩ := h
      refine ⟨Nat.le_refl _, hsz, ?_, h2, h3⟩
      omega
    · split at ha
      · rename_i o2 t2 heq
        cases ha
        obtain ⟨h1, h2, h3⟩ := h
        exact ⟨h1, h2, allocScan_wf hsz h3 heq⟩
      · cases ha

/-- The scan inserts exactly one entry `(o, sz)` and changes nothing else. -/
theorem allocScan_inserts {sz dataEnd : Nat} :
    ∀ {p : Nat} {t : Table} {o : Nat} {t' : Table},
      allocScan sz dataEnd p t = some (o, t') →
      ∃ pre post, t = pre ++ post ∧ t' = pre ++ (o, sz) :: post
  | p, [], o, t', ha => by
    simp only [allocScan] at ha
    split at ha
    · cases ha; exact ⟨[], [], rfl, rfl⟩
    · cases ha
  | p, e :: rest, o, t', ha => by
    simp only [allocScan] at ha
    split at ha
    · cases ha; exact ⟨[], e :: rest, rfl, rfl⟩
    · split at ha
      · rename_i o2 t2 heq
        cases ha
        obtain ⟨pre, post, h1, h2⟩ := allocScan_inserts heq
        exact ⟨e :: pre, post, by simp [h1], by simp [h2]⟩
      · cases ha

/-- First fit: the returned offset is the start of the FIRST gap that is large enough, and
allocation fails exactly when no gap is large enough. -/
theorem allocScan_first_fit {sz dataEnd : Nat} :
    ∀ (p : Nat) (t : Table),
      match allocScan sz dataEnd p t with
      | some (o, _) => ∃ pre g post, gaps dataEnd p t = pre ++ g :: post ∧ g.1 = o ∧ sz ≤ g.2 ∧
                         ∀ h ∈ pre, h.2 < sz
      | none => ∀ g ∈ gaps dataEnd p t, g.2 < sz
  | p, [] => by
    simp only [allocScan, gaps]
    split
    · rename_i o t' heq
      split at heq
      · cases heq
        exact ⟨[], (p, dataEnd - p), [], rfl, rfl, by simpa using ‹_›, by simp⟩
      · cases heq
    · rename_i heq
      split at heq
      · cases heq
      · intro g hg
        simp at hg
        subst hg
        simp at *
        omega
  | p, e :: rest => by
    have ih := allocScan_first_fit (sz := sz) (dataEnd := dataEnd) (e.1 + e.2) rest
    simp only [allocScan, gaps]
    by_cases hfit : e.1 - p ≥ sz
    · simp only [hfit, if_true]
      exact ⟨[], (p, e.1 - p), _, rfl, rfl, hfit, by simp⟩
    · simp only [hfit, if_false]
      cases hrec : allocScan sz dataEnd (e.1 + e.2) rest with
      | none =>
        simp only [hrec] at ih ⊢
        intro g hg
        simp at hg
        rcases hg with hg | hg
        · subst hg; simp; omega
        · exact ih g hg
      | some r =>
        obtain ⟨o, t2⟩ := r
        simp only [hrec] at ih ⊢
        obtain ⟨pre, g, post, h1, h2, h3, h4⟩ := ih
        refine ⟨(p, e.1 - p) :: pre, g, post, by simp [h1], h2, h3, ?_⟩
        intro h hh
        simp at hh
        rcases hh with hh | hh
        · subst hh; simp; omega
        · exact h4 h hh

/-- **alloc_preserves_wf**: a successful allocation keeps the table well-formed, adds exactly
the returned region, and the region lies inside the data area. -/
theorem alloc_preserves_wf (s : Seg) (n : Int) (o : Nat) (s' : Seg)
    (h : WF s) (ha : allocate s n = some (o, s')) :
    WF s' ∧ s'.size = s.size ∧
    (∃ pre post, s.table = pre ++ post ∧ s'.table = pre ++ (o, n.toNat) :: post) := by
  unfold allocate at ha
  split at ha
  · cases ha
  · split at ha
    · cases ha
    · split at ha
      · rename_i hn hlen o2 t2 heq
        cases ha
        have hpos : 0 < n.toNat := by omega
        obtain ⟨pre, post, h1, h2⟩ := allocScan_inserts heq
        refine ⟨⟨allocScan_wf hpos h.1 heq, ?_⟩, rfl, pre, post, h1, h2⟩
        simp only [h2]
        have : s.table.length < maxAllocs := by omega
        rw [h1] at this
        simp at this ⊢
        omega
      · cases ha

/-- Every entry of a well-formed table lies inside `[prevEnd, dataEnd]`. -/
theorem wf_in_bounds {dataEnd : Nat} : ∀ {p : Nat} {t : Table}, WFfrom dataEnd p t →
    ∀ e ∈ t, p ≤ e.1 ∧ e.1 + e.2 ≤ dataEnd
  | _, [], _, e, he => by cases he
  | p, x :: rest, h, e, he => by
    obtain ⟨h1, h2, h3⟩ := h
    have hb := wf_prev_le h3
    simp at he
    rcases he with he | he
    · subst he; exact ⟨h1, hb⟩
    · have := wf_in_bounds h3 e he
      omega

/-- **alloc_fails_iff**: allocation fails only for a non-positive size, a full table, or when
no free gap is large enough. -/
theorem alloc_fails_iff (s : Seg) (n : Int) :
    allocate s n = none ↔
      n ≤ 0 ∨ maxAllocs ≤ s.table.length ∨ ∀ g ∈ gaps s.size headerSize s.table, g.2 < n.toNat := by
  have ff := allocScan_first_fit (sz := n.toNat) (dataEnd := s.size) headerSize s.table
  unfold allocate
  by_cases h1 : n ≤ 0
  · simp [h1]
  · by_cases h2 : s.table.length ≥ maxAllocs
    · simp [h1, h2]
    · simp only [h1, h2, if_false, false_or]
      cases hs : allocScan n.toNat s.size headerSize s.table with
      | none =>
        simp only [hs] at ff
        constructor
        · intro _; exact ff
        · intro _; rfl
      | some r =>
        obtain ⟨o, t⟩ := r
        simp only [hs] at ff
        obtain ⟨pre, g, post, hg, _, hfit, _⟩ := ff
        constructor
        · intro h; cases h
        · intro h
          have := h g (by rw [hg]; simp)
          omega

/-- **first_fit**: a successful allocation returns the start of the first gap that fits. -/
theorem first_fit (s : Seg) (n : Int) (o : Nat) (s' : Seg) (ha : allocate s n = some (o, s')) :
    ∃ pre g post, gaps s.size headerSize s.table = pre ++ g :: post ∧ g.1 = o ∧ n.toNat ≤ g.2 ∧
      ∀ h ∈ pre, h.2 < n.toNat := by
  have ff := allocScan_first_fit (sz := n.toNat) (dataEnd := s.size) headerSize s.table
  unfold allocate at ha
  split at ha
  · cases ha
  · split at ha
    · cases ha
    · split at ha
      · rename_i o2 t2 heq
        cases ha
        simp only [heq] at ff
        exact ff
      · cases ha

/-- **free_removes_exactly**: a free removes exactly the first entry starting at that offset and
fails iff there is none. -/
theorem freeScan_spec (off : Nat) : ∀ (t : Table),
    match freeScan off t with
    | some t' => ∃ pre e post, t = pre ++ e :: post ∧ e.1 = off ∧ (∀ x ∈ pre, x.1 ≠ off) ∧
                   t' = pre ++ post
    | none => ∀ e ∈ t, e.1 ≠ off
  | [] => by simp [freeScan]
  | e :: rest => by
    have ih := freeScan_spec off rest
    simp only [freeScan]
    by_cases h : e.1 = off
    · simp only [h, if_true]
      exact ⟨[], e, rest, rfl, h, by simp, rfl⟩
    · simp only [h, if_false]
      cases hr : freeScan off rest with
      | none =>
        simp only [hr] at ih
        simp only [Option.map]
        intro x hx
        simp at hx
        rcases hx with hx | hx
        · subst hx; exact h
        · exact ih x hx
      | some t2 =>
        simp only [hr] at ih
        simp only [Option.map]
        obtain ⟨pre, x, post, h1, h2, h3, h4⟩ := ih
        refine ⟨e :: pre, x, post, by simp [h1], h2, ?_, by simp [h4]⟩
        intro y hy
        simp at hy
        rcases hy with hy | hy
        · subst hy; exact h
        · exact h3 y hy

theorem wf_weaken {dataEnd : Nat} : ∀ {p q : Nat} {t : Table}, q ≤ p → WFfrom dataEnd p t →
    WFfrom dataEnd q t
  | p, q, [], hq, h => by simp only [WFfrom] at h ⊢; omega
  | p, q, e :: rest, hq, h => by
    obtain ⟨h1, h2, h3⟩ := h
    exact ⟨by omega, h2, h3⟩

theorem freeScan_wf {dataEnd off : Nat} : ∀ {p : Nat} {t t' : Table},
    WFfrom dataEnd p t → freeScan off t = some t' → WFfrom dataEnd p t' ∧ t'.length + 1 = t.length
  | p, [], t', _, hf => by simp [freeScan] at hf
  | p, e :: rest, t', h, hf => by
    obtain ⟨h1, h2, h3⟩ := h
    simp only [freeScan] at hf
    split at hf
    · cases hf
      exact ⟨wf_weaken (by omega) h3, by simp⟩
    · cases hr : freeScan off rest with
      | none => simp [hr] at hf
      | some t2 =>
        simp [hr] at hf
        subst hf
        have ih := freeScan_wf h3 hr
        exact ⟨⟨h1, h2, ih.1⟩, by simp; omega⟩

theorem free_preserves_wf (s : Seg) (off : Nat) (s' : Seg) (h : WF s) (hf : free s off = some s') :
    WF s' ∧ s'.size = s.size := by
  unfold free at hf
  cases hr : freeScan off s.table with
  | none => simp [hr] at hf
  | some t2 =>
    simp [hr] at hf
    subst hf
    have := freeScan_wf h.1 hr
    exact ⟨⟨this.1, by have := h.2; simp; omega⟩, rfl⟩

theorem step_wf (s : Seg) (op : Op) (h : WF s) : WF (step s op) ∧ (step s op).size = s.size := by
  cases op with
  | alloc n =>
    simp only [step]
    cases ha : allocate s n with
    | none => exact ⟨h, rfl⟩
    | some r =>
      obtain ⟨o, s'⟩ := r
      have := alloc_preserves_wf s n o s' h ha
      exact ⟨this.1, this.2.1⟩
  | free o =>
    simp only [step]
    cases hf : free s o with
    | none => exact ⟨h, rfl⟩
    | some s' => exact free_preserves_wf s o s' h hf
  | reset =>
    have hb := wf_prev_le h.1
    exact ⟨⟨hb, Nat.zero_le _⟩, rfl⟩
  | allocw est tot =>
    simp only [step, allocateAndWrite]
    by_cases hc : canFit s est = true
    · simp only [hc, if_true]
      cases ha : allocate s tot with
      | none => exact ⟨h, rfl⟩
      | some r =>
        obtain ⟨o, s'⟩ := r
        have := alloc_preserves_wf s tot o s' h ha
        exact ⟨this.1, this.2.1⟩
    · simp only [hc]
      exact ⟨h, rfl⟩

/-- The capacity pre-check agrees with the allocator: `canFit` is true exactly when an
allocation of that size would succeed. -/
theorem fitScan_iff {sz dataEnd : Nat} : ∀ (p : Nat) (t : Table),
    fitScan sz dataEnd p t = true ↔ (allocScan sz dataEnd p t).isSome
  | p, [] => by
    simp only [fitScan, allocScan]
    by_cases h : dataEnd - p ≥ sz <;> simp [h]
  | p, e :: rest => by
    have ih := fitScan_iff (sz := sz) (dataEnd := dataEnd) (e.1 + e.2) rest
    simp only [fitScan, allocScan]
    by_cases h : e.1 - p ≥ sz
    · simp [h]
    · simp only [h, if_false]
      rw [ih]
      cases allocScan sz dataEnd (e.1 + e.2) rest with
      | none => simp
      | some r => simp

theorem canFit_iff_allocate (s : Seg) (n : Int) : canFit s n = true ↔ (allocate s n).isSome := by
  unfold canFit allocate
  by_cases h1 : n ≤ 0
  · simp [h1]
  · by_cases h2 : s.table.length ≥ maxAllocs
    · simp [h1, h2]
    · simp only [h1, h2, if_false]
      rw [fitScan_iff]
      cases allocScan n.toNat s.size headerSize s.table with
      | none => simp
      | some r => simp

/-- A write-batch allocation that succeeds allocated exactly `total` bytes first-fit; it can only
fail if the estimate does not fit or `total` does not fit. -/
theorem allocateAndWrite_spec (s : Seg) (est tot : Int) :
    allocateAndWrite s est tot = if (allocate s est).isSome then allocate s tot else none := by
  unfold allocateAndWrite
  by_cases h : canFit s est = true
  · have := (canFit_iff_allocate s est).1 h
    simp [h, this]
  · have : ¬ (allocate s est).isSome = true := fun hh => h ((canFit_iff_allocate s est).2 hh)
    simp [h, this]

theorem create_wf (dataSize : Nat) : WF (create dataSize) := by
  simp [WF, WFfrom, create]

/-- **reachable_wf**: after ANY sequence of allocate/free/reset operations on a fresh segment of
any size, the table is sorted, disjoint, inside the data area and holds at most `maxAllocs`
entries. -/
theorem reachable_wf (dataSize : Nat) (ops : List Op) : WF (ops.foldl step (create dataSize)) := by
  suffices ∀ s, WF s → WF (ops.foldl step s) from this _ (create_wf dataSize)
  induction ops with
  | nil => intro s h; exact h
  | cons op ops ih => intro s h; exact ih _ (step_wf s op h).1

/-- Every region of a reachable table lies in the data area `[headerSize, size]`. -/
theorem reachable_in_data_area (dataSize : Nat) (ops : List Op) :
    ∀ e ∈ (ops.foldl step (create dataSize)).table,
      headerSize ≤ e.1 ∧ e.1 + e.2 ≤ (ops.foldl step (create dataSize)).size :=
  wf_in_bounds (reachable_wf dataSize ops).1

/-! ### Header layout -/

theorem leBytes_length : ∀ k n, (leBytes k n).length = k
  | 0, _ => rfl
  | k + 1, n => by simp [leBytes, leBytes_length k]

theorem ofLE_leBytes : ∀ (k n : Nat), n < 256 ^ k → ofLE (leBytes k n) = n
  | 0, n, h => by simp at h; simp [leBytes, ofLE, h]
  | k + 1, n, h => by
    have hdiv : n / 256 < 256 ^ k := by
      rw [Nat.div_lt_iff_lt_mul (by decide)]
      rw [Nat.pow_succ] at h
      exact h
    simp only [leBytes, ofLE, ofLE_leBytes k (n / 256) hdiv]
    have : (UInt8.ofNat (n % 256)).toNat = n % 256 := by
      simp [UInt8.toNat_ofNat']
    rw [this]
    omega

theorem decode_encode_entries : ∀ (t : Table) (rest : Bytes),
    (∀ e ∈ t, e.1 < 2 ^ 64 ∧ e.2 < 2 ^ 64) →
    decodeEntries t.length (encodeEntries t ++ rest) = t
  | [], _, _ => rfl
  | e :: r, rest, h => by
    have he := h e (by simp)
    have h8a : (leBytes 8 e.1).length = 8 := leBytes_length _ _
    have h8b : (leBytes 8 e.2).length = 8 := leBytes_length _ _
    have ih := decode_encode_entries r rest (fun x hx => h x (by simp [hx]))
    simp only [encodeEntries, List.length_cons, decodeEntries, List.append_assoc]
    have t1 : (leBytes 8 e.1 ++ (leBytes 8 e.2 ++ (encodeEntries r ++ rest))).take 8 = leBytes 8 e.1 := by
      rw [List.take_append_of_le_length (by omega)]
      rw [List.take_of_length_le (by omega)]
    have d1 : (leBytes 8 e.1 ++ (leBytes 8 e.2 ++ (encodeEntries r ++ rest))).drop 8
        = leBytes 8 e.2 ++ (encodeEntries r ++ rest) := by
      rw [List.drop_append_of_le_length (by omega)]
      rw [List.drop_of_length_le (by omega)]
      rfl
    have t2 : (leBytes 8 e.2 ++ (encodeEntries r ++ rest)).take 8 = leBytes 8 e.2 := by
      rw [List.take_append_of_le_length (by omega)]
      rw [List.take_of_length_le (by omega)]
    have d2 : (leBytes 8 e.1 ++ (leBytes 8 e.2 ++ (encodeEntries r ++ rest))).drop 16
        = encodeEntries r ++ rest := by
      have : (16 : Nat) = 8 + 8 := rfl
      rw [this, ← List.drop_drop, d1]
      rw [List.drop_append_of_le_length (by omega)]
      rw [List.drop_of_length_le (by omega)]
      rfl
    rw [t1, d1, t2, d2, ih]
    rw [ofLE_leBytes 8 e.1 (by have := he.1; omega), ofLE_leBytes 8 e.2 (by have := he.2; omega)]

/-- **header_roundtrip**: another process decoding the live header bytes reads the same size and
the same table (for every table that fits the on-disk field widths). -/
theorem header_roundtrip (s : Seg) (hsize : headerSize ≤ s.size) (h64 : s.size < 2 ^ 64)
    (hcount : s.table.length < 2 ^ 32) (hent : ∀ e ∈ s.table, e.1 < 2 ^ 64 ∧ e.2 < 2 ^ 64) :
    decodeHeader (encodeHeader s) = some s := by
  have l4 : ∀ n, (leBytes 4 n).length = 4 := fun n => leBytes_length 4 n
  have l8 : ∀ n, (leBytes 8 n).length = 8 := fun n => leBytes_length 8 n
  have hm : magic.length = 4 := rfl
  unfold decodeHeader encodeHeader
  -- peel the fixed fields
  have e1 : (magic ++ leBytes 4 version ++ leBytes 8 (s.size - headerSize) ++ leBytes 4 s.table.length
      ++ leBytes 4 0 ++ encodeEntries s.table)
      = magic ++ (leBytes 4 version ++ (leBytes 8 (s.size - headerSize) ++ (leBytes 4 s.table.length
        ++ (leBytes 4 0 ++ (encodeEntries s.table ++ []))))) := by simp
  rw [e1]
  have tk : ∀ (a b : Bytes) (n : Nat), a.length = n → (a ++ b).take n = a := by
    intro a b n h; subst h; simp
  have dr : ∀ (a b : Bytes) (n : Nat), a.length = n → (a ++ b).drop n = b := by
    intro a b n h; subst h; simp
  have d4 := dr magic (leBytes 4 version ++ (leBytes 8 (s.size - headerSize) ++ (leBytes 4 s.table.length
        ++ (leBytes 4 0 ++ (encodeEntries s.table ++ []))))) 4 hm
  have d8 : (magic ++ (leBytes 4 version ++ (leBytes 8 (s.size - headerSize) ++ (leBytes 4 s.table.length
        ++ (leBytes 4 0 ++ (encodeEntries s.table ++ [])))))).drop 8
      = leBytes 8 (s.size - headerSize) ++ (leBytes 4 s.table.length
        ++ (leBytes 4 0 ++ (encodeEntries s.table ++ []))) := by
    have : (8 : Nat) = 4 + 4 := rfl
    rw [this, ← List.drop_drop, d4, dr _ _ 4 (l4 _)]
  have d16 : (magic ++ (leBytes 4 version ++ (leBytes 8 (s.size - headerSize) ++ (leBytes 4 s.table.length
        ++ (leBytes 4 0 ++ (encodeEntries s.table ++ [])))))).drop 16
      = leBytes 4 s.table.length ++ (leBytes 4 0 ++ (encodeEntries s.table ++ [])) := by
    have : (16 : Nat) = 8 + 8 := rfl
    rw [this, ← List.drop_drop, d8, dr _ _ 8 (l8 _)]
  have d24 : (magic ++ (leBytes 4 version ++ (leBytes 8 (s.size - headerSize) ++ (leBytes 4 s.table.length
        ++ (leBytes 4 0 ++ (encodeEntries s.table ++ [])))))).drop 24
      = encodeEntries s.table ++ [] := by
    have : (24 : Nat) = 16 + (4 + 4) := rfl
    rw [this, ← List.drop_drop, d16, ← List.drop_drop, dr _ _ 4 (l4 _), dr _ _ 4 (l4 _)]
  rw [tk _ _ 4 hm, d4, tk _ _ 4 (l4 _), d8, tk _ _ 8 (l8 _), d16, tk _ _ 4 (l4 _), d24]
  rw [ofLE_leBytes 4 version (by decide), ofLE_leBytes 8 _ (by omega), ofLE_leBytes 4 _ (by omega)]
  simp only [true_and, if_true]
  rw [decode_encode_entries s.table [] hent]
  have hs : headerSize + (s.size - headerSize) = s.size := by omega
  rw [hs]

/-- **attach_iff_same_size**: a second attachment validates exactly when it maps the segment with
the size recorded in the header (so a peer can never run the allocator over a different data area). -/
theorem attach_iff_same_size (s : Seg) (mapped : Nat) (hsize : headerSize ≤ s.size) (h64 : s.size < 2 ^ 64)
    (hcount : s.table.length < 2 ^ 32) (hent : ∀ e ∈ s.table, e.1 < 2 ^ 64 ∧ e.2 < 2 ^ 64) :
    validateAttach (encodeHeader s) mapped = true ↔ mapped = s.size := by
  unfold validateAttach
  rw [header_roundtrip s hsize h64 hcount hent]
  simp only [decide_eq_true_eq]
  exact eq_comm

/-- The fixed part of the documented layout: "VGIS", version 1 LE, data_size u64 LE at 8,
count u32 LE at 16, entries from offset 24, 16 bytes each. -/
theorem header_layout (s : Seg) :
    (encodeHeader s).take 4 = [0x56, 0x47, 0x49, 0x53] ∧
    ((encodeHeader s).drop 4).take 4 = [1, 0, 0, 0] ∧
    (encodeHeader s).length = headerFixed + entrySize * s.table.length := by
  refine ⟨by simp [encodeHeader, magic], by simp [encodeHeader, magic, leBytes, version], ?_⟩
  have : ∀ t : Table, (encodeEntries t).length = 16 * t.length := by
    intro t; induction t with
    | nil => rfl
    | cons e r ih => simp [encodeEntries, leBytes_length, ih]; omega
  simp [encodeHeader, leBytes_length, this, magic, headerFixed, entrySize]
  omega

/-! ### Allocation and free are inverse: nothing leaks, nothing else moves -/

/-- Scan level: on a well-formed table the entry a successful scan inserted is the first (only)
one starting at the returned offset, so freeing that offset gives back the original table. -/
theorem allocScan_freeScan {sz dataEnd : Nat} (hsz : 0 < sz) :
    ∀ {p : Nat} {t : Table} {o : Nat} {t' : Table},
      WFfrom dataEnd p t → allocScan sz dataEnd p t = some (o, t') →
      p ≤ o ∧ freeScan o t' = some t
  | p, [], o, t', _, ha => by
    simp only [allocScan] at ha
    split at ha
    · cases ha; exact ⟨Nat.le_refl _, by simp [freeScan]⟩
    · cases ha
  | p, e :: rest, o, t', h, ha => by
    simp only [allocScan] at ha
    split at ha
    · cases ha; exact ⟨Nat.le_refl _, by simp [freeScan]⟩
    · split at ha
      · rename_i o2 t2 heq
        cases ha
        obtain ⟨h1, h2, h3⟩ := h
        have ih := allocScan_freeScan hsz h3 heq
        have hne : ¬ e.1 = o := by omega
        refine ⟨by omega, ?_⟩
        simp only [freeScan, hne, if_false, ih.2, Option.map]
      · cases ha

/-- **alloc_then_free_restores**: on every well-formed segment, freeing the offset a successful
allocation returned yields exactly the segment as it was before that allocation — no entry is
lost, duplicated or moved, for every table and size. -/
theorem alloc_then_free_restores (s : Seg) (n : Int) (o : Nat) (s' : Seg)
    (h : WF s) (ha : allocate s n = some (o, s')) : free s' o = some s := by
  unfold allocate at ha
  split at ha
  · cases ha
  · split at ha
    · cases ha
    · split at ha
      · rename_i hn hlen o2 t2 heq
        cases ha
        have hpos : 0 < n.toNat := by omega
        have := (allocScan_freeScan hpos h.1 heq).2
        simp [free, this]
      · cases ha

/-- After an allocation is freed again, the same request is granted the same offset (the freed
space is reusable at once). -/
theorem alloc_free_alloc_same (s : Seg) (n : Int) (o : Nat) (s' s'' : Seg)
    (h : WF s) (ha : allocate s n = some (o, s')) (hf : free s' o = some s'') :
    allocate s'' n = some (o, s') := by
  rw [alloc_then_free_restores s n o s' h ha] at hf
  cases hf
  exact ha

/-! ### Non-vacuity: a concrete reachable, non-trivial state meets the hypotheses -/

example : WF (([.alloc 8, .alloc 4, .free 65536, .alloc 2] : List Op).foldl step (create 16)) := by
  decide

example : (([.alloc 8, .alloc 4, .free 65536, .alloc 2] : List Op).foldl step (create 16)).table
    = [(65536, 2), (65544, 4)] := by decide

example : allocate (create 16) 17 = none ∧ (allocate (create 16) 16).isSome := by decide

example : (allocate (step (create 16) (.alloc 8)) 4).bind (fun r => free r.2 r.1)
    = some (step (create 16) (.alloc 8)) := by decide

end Vgi.Props.C34
