import Vgi.Proofs.LazyInit
import Vgi.Generated.C40
/-!
# C40 — Concurrent HTTP serving: lazy set-up runs once, everybody sees the same result

Theorems about `Vgi.LazyInit` (the driver executes `nstep` / `ostep`). "Reachable" is
reachability by ANY action list = every interleaving of any number of concurrent first and
subsequent requests. `nsysK hasHook K` is one server whose requests all announce the same
transport `K` (an `HttpServer` only ever calls `notifyTransport(TransportKindHTTP, nil)`).
-/
namespace Vgi.Props.C40
open Vgi Vgi.LazyInit Vgi.TS

theorem reachable_ninv (hasHook : Bool) (K : Kind) (s : NState) (hr : Reachable (nsysK hasHook K) s) :
    NInv hasHook K s :=
  invariant_of_step (nsysK hasHook K) (NInv hasHook K) (ninv_init hasHook K)
    (fun s a s' hi hs => ninv_step hasHook K s s' a hi hs) s hr

theorem reachable_oinv (v : Nat) (s : OState) (hr : Reachable (osys v) s) : OInv v s :=
  invariant_of_step (osys v) (OInv v) (oinv_init v) (fun s a s' hi hs => oinv_step v s s' a hi hs) s hr

/-! ### The serve-start hook commits once -/

/-- **commit_once**: under every interleaving the hook succeeds at most once, the binding is
committed at most once, a success is either committed or about to be (nothing is lost), and at
most one request is ever inside the check/hook/commit transaction. -/
theorem commit_once (hasHook : Bool) (K : Kind) (s : NState) (hr : Reachable (nsysK hasHook K) s) :
    s.hookOk ≤ 1 ∧ s.commits ≤ 1 ∧ (hasHook = true → s.hookOk = s.commits + inflight s) ∧
    (∀ t1 t2, inGate (s.thr t1).pc = true → inGate (s.thr t2).pc = true → t1 = t2) := by
  have h := reachable_ninv hasHook K s hr
  refine ⟨?_, h.c2, h.c1, ?_⟩
  · cases hh : hasHook with
    | false => have := (h.c0 hh).2; omega
    | true =>
      have e := h.c1 hh
      have c2 := h.c2
      -- a success in flight means nothing has been committed yet
      have : inflight s = 1 → s.commits = 0 := by
        intro hi
        unfold inflight at hi
        split at hi
        · rename_i t hg
          split at hi
          · rename_i hp
            have hnb := h.h1 t (Or.inr hp)
            have : ¬ 1 ≤ s.commits := fun hc => hnb (h.b2.2 hc)
            omega
          · cases hi
        · cases hi
      have hle : inflight s ≤ 1 := by
        unfold inflight; split
        · split <;> omega
        · omega
      by_cases hi : inflight s = 1
      · have := this hi; omega
      · omega
  · intro t1 t2 h1 h2
    have g1 := h.gb t1 h1
    have g2 := h.gb t2 h2
    rw [g1] at g2
    exact Option.some.inj g2

/-- **no_hook_after_commit**: once the binding is committed no step of any request runs the hook
again (every later request takes the idempotent fast path). -/
theorem no_hook_after_commit (hasHook : Bool) (K : Kind) (s s' : NState) (a : NAct)
    (hr : Reachable (nsysK hasHook K) s) (hb : s.bound = some K)
    (hs : (nsysK hasHook K).step s a = some s') :
    s'.hookRuns = s.hookRuns ∧ s'.bound = some K := by
  have h := reachable_ninv hasHook K s hr
  cases a with
  | hookRun t ok =>
    simp only [nsysK, nstep] at hs
    split at hs
    · rename_i hp; exact absurd hb (h.h1 t (Or.inl hp))
    · cases hs
  | commit t =>
    simp only [nsysK, nstep] at hs
    split at hs
    · rename_i hp; exact absurd hb (h.h1 t (Or.inr hp))
    · cases hs
  | call t k =>
    simp only [nsysK] at hs
    split at hs
    · simp only [nstep] at hs; split at hs <;> cases hs; exact ⟨rfl, hb⟩
    · cases hs
  | lockGate t => simp only [nsysK, nstep] at hs; split at hs <;> cases hs; exact ⟨rfl, hb⟩
  | check t =>
    simp only [nsysK, nstep] at hs
    split at hs
    · split at hs
      · cases hs; exact ⟨rfl, hb⟩
      · split at hs <;> cases hs <;> exact ⟨rfl, hb⟩
    · cases hs
  | observe t => simp only [nsysK, nstep] at hs; split at hs <;> cases hs; exact ⟨rfl, hb⟩

/-- **retry_after_failure**: a failing hook run commits nothing and frees the gate; and in every
reachable state that is still unbound with the gate free, the next request is not let through
on the fast path: its check leads to the hook again (`pc = hook`), however many runs failed before. -/
theorem retry_after_failure (K : Kind) (s : NState) (hr : Reachable (nsysK true K) s) :
    (∀ t s', nstep true s (.hookRun t false) = some s' →
        s'.bound = s.bound ∧ s'.gate = none ∧ s'.commits = s.commits ∧ (s'.thr t).pc = .doneErr) ∧
    (s.bound ≠ some K → s.gate = none → ∀ t, (s.thr t).pc = .idle →
        ∃ s3, run (nsysK true K) s [.call t K, .lockGate t, .check t] = some s3 ∧
          (s3.thr t).pc = .hook ∧ s3.hookRuns = s.hookRuns) := by
  constructor
  · intro t s' hs
    simp only [nstep] at hs
    split at hs
    · cases hs; simp
    · cases hs
  · intro hb hg t hp
    let s1 := setN s t { pc := .wantGate, kind := K }
    let s2 := setN { s1 with gate := some t } t { (s1.thr t) with pc := .check }
    let s3 := setN s2 t { (s2.thr t) with pc := .hook }
    have e1 : (nsysK true K).step s (.call t K) = some s1 := by
      simp only [nsysK, if_true, nstep, hp]; rfl
    have e2 : (nsysK true K).step s1 (.lockGate t) = some s2 := by
      have h1 : (s1.thr t).pc = .wantGate := by simp [s1]
      have h2 : s1.gate = none := hg
      simp only [nsysK, nstep, h1, h2, and_self, if_true]; rfl
    have e3 : (nsysK true K).step s2 (.check t) = some s3 := by
      have h1 : (s2.thr t).pc = .check := by simp [s2]
      have h2 : (s2.thr t).kind = K := by simp [s2, s1]
      have h3 : s2.bound = s.bound := rfl
      simp only [nsysK, nstep, h1, h2, h3, if_true]
      have : ¬ s.bound = some K := hb
      simp only [this, if_false]
      show some (setN s2 t { pc := .hook, kind := K }) = some (setN s2 t { pc := .hook, kind := (s2.thr t).kind })
      rw [h2]
    refine ⟨s3, ?_, ?_, ?_⟩
    · simp only [run, e1, e2, e3]
    · simp [s3]
    · rfl

/-- **all_see_same_kind**: a request is let through only when the server is bound to `K`, it
stays bound, and every `TransportKind()` read by a request that was let through returns `K`. -/
theorem all_see_same_kind (hasHook : Bool) (K : Kind) (s : NState) (hr : Reachable (nsysK hasHook K) s) :
    (∀ t, (s.thr t).pc = .doneOk → s.bound = some K) ∧ (∀ x ∈ s.seen, x.2 = some K) ∧
    (s.bound = none ∨ s.bound = some K) := by
  have h := reachable_ninv hasHook K s hr
  exact ⟨h.d1, h.s1, h.b1⟩

/-! ### sync.Once cells (`protocolHashOnce`, `initPagesOnce`, `healthBodyOnce`) -/

/-- **once_cells_once**: the guarded computation runs at most once under every interleaving of
callers; a caller gets past `Do` only after it completed; every read of the cached field by a
caller that passed `Do` yields the one computed value (so every request sees the same hash). -/
theorem once_cells_once (v : Nat) (s : OState) (hr : Reachable (osys v) s) :
    s.computes ≤ 1 ∧ (∀ t, s.pc t = .after → s.done = true ∧ s.computes = 1 ∧ s.value = some v) ∧
    (∀ x ∈ s.reads, x.2 = some v) ∧
    (∀ t1 t2, s.pc t1 = .computing → s.pc t2 = .computing → t1 = t2) := by
  have h := reachable_oinv v s hr
  refine ⟨?_, ?_, h.rd, ?_⟩
  · cases hd : s.done with
    | false => have := h.d0 hd; omega
    | true => have := (h.d1 hd).1; omega
  · intro t ht
    have hd := h.af t ht
    exact ⟨hd, h.d1 hd⟩
  · intro t1 t2 h1 h2
    have r1 := h.rb t1 h1
    have r2 := h.rb t2 h2
    rw [r1] at r2
    exact Option.some.inj r2

/-! ### Lock-set discipline -/

/-- **lockset_race_free** (proved once, abstractly): in any execution that respects mutex `l` and
in which every access to field `f` is made while holding `l`, two accesses to `f` by different
threads are never unordered — between them the first thread released `l` and the second acquired
it afterwards (a happens-before edge), whatever else any thread does in between. -/
theorem lockset_race_free (f l a b : Nat) (hab : a ≠ b) (w1 w2 : Bool) (h0 : Option Nat)
    (pre mid post : List Ev)
    (hg : Good f l h0 (pre ++ .acc a f w1 :: (mid ++ .acc b f w2 :: post))) :
    ∃ m1 m2 m3, mid = m1 ++ .rel a l :: (m2 ++ .acq b l :: m3) := by
  obtain ⟨h', hg'⟩ := good_after_prefix f l pre h0 _ hg
  simp only [Good] at hg'
  have hh : h' = some a := hg'.1 trivial
  rw [hh] at hg'
  exact good_release_then_acquire f l a b hab w2 post mid hg'.2

/-- **lockset_discipline** (regenerated from the source on every run): every read and write of a
mutex-guarded field listed in `Generated.C40.designated` happens inside a region of its designated
mutex; every write of a Once-guarded field happens inside the body of its designated `sync.Once`,
and every read of it inside that body or after the `Do` call in the same function (or in a page
handler, which is only reachable after `InitPages`). -/
theorem lockset_discipline : ∀ a ∈ Vgi.Generated.C40.accesses, Vgi.Generated.C40.ok a = true := by decide

/-- The analysis is not vacuous: every guarded field was seen. -/
theorem lockset_covers : ∀ f ∈ Vgi.Generated.C40.fields,
    (Vgi.Generated.C40.accesses.any fun a => a.field = f) = true := by decide

/-- **structure_facts**: `ServeHTTP` calls `notifyTransport` and `InitPages` before dispatching to
the mux; `notifyTransport` holds the gate across check, hook and commit and commits only after the
hook returned nil; pooled codec writers are taken per call. -/
theorem structure_facts : ∀ f ∈ Vgi.Generated.C40.facts, f.2 = true := by decide

/-! ### Non-vacuity -/

-- two concurrent first requests: the first one's hook fails, the second (queued on the gate) re-runs
-- it, succeeds and commits; a third takes the fast path; everybody let through sees kind 7
example : ((run (nsysK true 7) ninit
      [.call 0 7, .call 1 7, .lockGate 0, .check 0, .hookRun 0 false, .lockGate 1, .check 1, .hookRun 1 true,
       .call 2 7, .commit 1, .lockGate 2, .check 2, .observe 1, .observe 2]).map fun s =>
    decide (s.hookRuns = 2 ∧ s.hookOk = 1 ∧ s.commits = 1 ∧ s.bound = some 7 ∧ (s.thr 0).pc = .doneErr ∧
      (s.thr 2).pc = .doneOk ∧ s.seen = [(2, some 7), (1, some 7)])) = some true := by decide

-- the gate really excludes: request 1 cannot enter while request 0 is in its hook
example : ((run (nsysK true 7) ninit [.call 0 7, .call 1 7, .lockGate 0, .check 0]).map fun s =>
    decide (nstep true s (.lockGate 1) |>.isNone)) = some true := by decide

-- a Once cell raced by three callers
example : ((run (osys 42) oinit [.enter 0, .enter 1, .begin 0, .enter 2, .finish 0, .pass 1, .pass 2, .read 1, .read 2,
      .enter 3, .read 3]).map fun s =>
    decide (s.computes = 1 ∧ s.reads = [(3, some 42), (2, some 42), (1, some 42)])) = some true := by decide

-- a disciplined trace with two threads
example : Good 0 0 none [.acq 1 0, .acc 1 0 true, .rel 1 0, .acq 2 0, .acc 2 0 false, .rel 2 0] := by
  simp [Good]

end Vgi.Props.C40
