import Vgi.Model.ScriptStream
/-!
Dispatch hooks and the HTTP stream endpoints of the scripted family: model of

* the hook section of `Server.serveOne`           (vgirpc/server_serve.go: start under `recover`,
                                                   `hookActive`, dispatch, end under `recover`)
* `HttpServer.startDispatchHook` + deferred cleanup (vgirpc/http_stream.go)
* what the four HTTP dispatch paths hand to the hook and whether their response reports an
  error: `handleUnary`, `handleStreamInit` (producer: `runProduceLoop` up to the batch limit,
  exchange: token only), `handleStreamExchange` (`handleProducerContinuation`,
  `handleExchangeCall`, `handleStreamCancel`), the pre-dispatch refusals (unknown method, input
  that does not cast, no token).

The hook of the family mints a fresh token per `OnDispatchStart` entry and behaves per call as
told: return normally, return a nil context, panic in start, panic in end.
-/
namespace Vgi.Script

inductive HookMode | normal | nilCtx | panicStart | panicEnd
  deriving Repr, DecidableEq

/-- What the hook object itself records. -/
inductive HookEvent
  /-- `OnDispatchStart` was entered and minted token `tok`; `panicked`: it then panicked. -/
  | start (tok : Nat) (panicked : Bool)
  /-- `OnDispatchEnd` was entered with this token (`none`: a nil token) and `err != nil`. -/
  | finish (tok : Option Nat) (err : Bool) (panicked : Bool)
  deriving Repr, DecidableEq

/-- Result of running a piece of Go code that may panic. -/
inductive Go (α : Type)
  | ret (a : α)
  | panicked
  deriving Repr, DecidableEq

/-- The scripted hook's `OnDispatchStart`: mints `tok`, records the entry, then returns the token
or panics. -/
def hookOnStart (mode : HookMode) (tok : Nat) : Go Nat × List HookEvent :=
  match mode with
  | .panicStart => (.panicked, [.start tok true])
  | _ => (.ret tok, [.start tok false])

/-- The scripted hook's `OnDispatchEnd`: records token and `err != nil`, then returns or panics. -/
def hookOnEnd (mode : HookMode) (token : Option Nat) (handlerErr : Bool) : Go Unit × List HookEvent :=
  match mode with
  | .panicEnd => (.panicked, [.finish token handlerErr true])
  | _ => (.ret (), [.finish token handlerErr false])

/-- State after the protected start block: `hookToken`, `hookActive`. -/
structure StartState where
  token : Option Nat
  active : Bool
  deriving Repr, DecidableEq

/-- `func() { defer recover…; hookCtx, hookToken = hook.OnDispatchStart(ctx, info); …; hookActive = true }()`.
A panic in `OnDispatchStart` unwinds before either assignment and is recovered: the token stays
nil, the hook stays inactive, and the block returns normally. A nil returned context leaves
`ctx` alone. -/
def hookStart (mode : HookMode) (tok : Nat) : StartState × List HookEvent :=
  match hookOnStart mode tok with
  | (.ret t, ev) => ({ token := some t, active := true }, ev)
  | (.panicked, ev) => ({ token := none, active := false }, ev)      -- recover()

/-- `if hookActive { func() { defer recover…; hook.OnDispatchEnd(ctx, hookToken, info, stats, handlerErr) }() }`
(pipe) / the deferred `cleanup` (HTTP). A panic in `OnDispatchEnd` is recovered. -/
def hookEnd (st : StartState) (mode : HookMode) (handlerErr : Bool) : List HookEvent :=
  if st.active then
    match hookOnEnd mode st.token handlerErr with
    | (.ret (), ev) => ev
    | (.panicked, ev) => ev                                             -- recover()
  else []

/-- The hook-independent result of dispatching one call. -/
structure CallOutcome where
  dispatched : Bool      -- reached the point where the hook is started
  respError : Bool       -- the response reports an error to the client (exception batch / error status)
  handlerErr : Bool      -- `handlerErr != nil` at the point the end hook runs
  deriving Repr, DecidableEq

/-- One call with an optional hook installed. The body runs between start and end and never sees
the hook (only a context value); what the call answers is the body's outcome. Returns that
outcome as seen by the serve loop / net/http (`Go.panicked` would be a panic escaping the
dispatch) and the hook's event log. -/
def dispatchCall (hook : Option HookMode) (tok : Nat) (o : CallOutcome) : Go CallOutcome × List HookEvent :=
  match hook with
  | none => (.ret o, [])
  | some mode =>
    if !o.dispatched then (.ret o, [])
    else
      let (st, ev) := hookStart mode tok
      (.ret o, ev ++ hookEnd st mode o.handlerErr)

def dispatch (hook : Option HookMode) (tok : Nat) (o : CallOutcome) : List HookEvent :=
  (dispatchCall hook tok o).2

/-- Every `OnDispatchStart` entry consumes one token of the hook's counter. -/
def nextToken (tok : Nat) (o : CallOutcome) : Nat := if o.dispatched then tok + 1 else tok

/-- A history of calls against one server with the hook installed: the event log of each call. -/
def historyEvents : Nat → List (HookMode × CallOutcome) → List (List HookEvent)
  | _, [] => []
  | tok, (m, o) :: rest => dispatch (some m) tok o :: historyEvents (nextToken tok o) rest

/-! ### Outcomes of the pipe call kinds -/

def hasExc (bs : List Batch) : Bool := bs.any Batch.isExc

def pipeUnaryOutcome (m : UMethod) (lvl rid : Bytes) (s : UnaryScript) : CallOutcome :=
  let r := serveUnary m lvl rid s
  { dispatched := true, respError := hasExc r.1.batches, handlerErr := r.2.isSome }

def pipeStreamOutcome (m : SMethod) (lvl rid : Bytes) (s : StreamScript) (input : InputStream) : CallOutcome :=
  let r := serveStream m lvl rid s input
  { dispatched := true, respError := r.streams.any (fun st => hasExc st.batches), handlerErr := r.handlerErr.isSome }

/-- Cancellation of the context given to `Serve`, noticed by `serveStream` at the top of its
lockstep loop (`if err := ctx.Err(); err != nil { break }`) before input batch `n` would be read:
the loop is left exactly as if the client had closed its input there — output stream closed with a
plain end-of-stream, rest of the input drained, `streamErr` untouched (nil). -/
def cancelServeAt (n : Option Nat) (input : InputStream) : InputStream :=
  match n with
  | some k => { input with batches := input.batches.take k }
  | none => input

/-- A pipe stream call during whose turn `k` (if it is reached) the serve context is cancelled. -/
def pipeStreamCancelledOutcome (m : SMethod) (lvl rid : Bytes) (s : StreamScript) (input : InputStream)
    (k : Nat) : CallOutcome :=
  pipeStreamOutcome m lvl rid s (cancelServeAt (some (k + 1)) input)

/-- Unknown method: answered with an error stream before any hook runs (`serveOne`, HTTP 404). -/
def unknownMethodOutcome : CallOutcome := { dispatched := false, respError := true, handlerErr := false }

/-- Parameters that do not deserialize (unary): `handlerErr = TypeError`, one error batch. -/
def badParamsOutcome : CallOutcome := { dispatched := true, respError := true, handlerErr := true }

/-! ### HTTP -/

/-- Server-side response caps of the HTTP transport that the histories exercise (all off by
default): `wireCap` = `SetMaxResponseBytes(1)` (every non-empty body overshoots; hard for unary
and exchange), `extCap` = external storage configured with threshold 1 and
`SetMaxExternalizedResponseBytes(1)` (every data batch with at least one row is refused before
any upload). -/
inductive HttpCfg | plain | wireCap | extCap
  deriving Repr, DecidableEq

def capFail : CallOutcome := { dispatched := true, respError := true, handlerErr := true }

/-- `handleUnary`: the handler's own failure, else the pre-flight external cap (valued results
only: a void response has no rows), else the post-flush wire cap. -/
def httpUnaryOutcome (cfg : HttpCfg) (m : UMethod) (lvl rid : Bytes) (s : UnaryScript) : CallOutcome :=
  let r := handleUnary m lvl rid s
  if r.2.isSome then
    { dispatched := true, respError := r.1.errorHeader || hasExc r.1.body.batches, handlerErr := true }
  else match cfg with
    -- a void response is written and returned before either cap is looked at
    | .extCap => if m.isVoid then { dispatched := true, respError := false, handlerErr := false } else capFail
    | .wireCap => if m.isVoid then { dispatched := true, respError := false, handlerErr := false } else capFail
    | .plain => { dispatched := true, respError := r.1.errorHeader || hasExc r.1.body.batches, handlerErr := false }

/-- A result that cannot be serialized (`serializeResult` fails, or the handler failed before):
both transports answer one error batch and hand the error to the hook. -/
def serializationErrorOutcome : CallOutcome := { dispatched := true, respError := true, handlerErr := true }

/-- Calls that are refused AFTER the hook was started and before the handler runs: lost sticky
session, protocol-version mismatch (HTTP), stream-init parameters that do not deserialize. -/
def refusedAfterStartOutcome : CallOutcome := { dispatched := true, respError := true, handlerErr := true }

/-- The protocol-version gate of the pipe transport sits BEFORE the hook. -/
def pipeVersionRefusedOutcome : CallOutcome := { dispatched := false, respError := true, handlerErr := false }

/-- The data batch a collector holds has at least one row (`predictExternalizeBytes` > 0 with
threshold 1). Value tokens of zero-row batches are `rows=0[…]`. -/
def Collector.dataNonEmpty (c : Collector) : Bool :=
  c.batches.any fun b => match b with
    | .data v _ => !(v.startsWith "rows=0[")
    | _ => false

/-- `runProduceLoop`: turns from cursor `k` until the state finishes, a turn fails, the external
cap refuses a data batch, or `fuel` (= `producerBatchLimit` − data batches so far, limit > 0)
data batches have been written. -/
structure ProduceOut where
  finished : Bool
  err : Option SrvErr
  cursor : Nat            -- the state's cursor afterwards
  deriving Repr, DecidableEq

/-- "Externalised payload exceeds max_externalized_response_bytes" / "HTTP body exceeds max_response_bytes" -/
def fwCap : SrvErr := ⟨[0xff, 0xfe, 8]⟩

def produceLoop (s : StreamScript) (extCap : Bool) : Nat → Nat → ProduceOut
  | 0, k => { finished := false, err := none, cursor := k }          -- batch limit reached
  | fuel + 1, k =>
    match runTurn true (natToken k) (s.turnAt k) with
    | (_, some e) => { finished := false, err := some e, cursor := k + 1 }
    | (c, none) =>
      if !c.finished && !c.hasData then { finished := false, err := some fwNoData, cursor := k + 1 }
      else if extCap && c.dataNonEmpty then { finished := false, err := some fwCap, cursor := k + 1 }
      else if c.finished then { finished := true, err := none, cursor := k + 1 }
      else produceLoop s extCap fuel (k + 1)

/-- "state token encode: gob: type not registered for interface" -/
def fwTokenEncode : SrvErr := ⟨[0xff, 0xfe, 7]⟩

/-- Result of one HTTP stream request. `token`: the cursor inside the state token the response
carries (`none`: the response carries no token). -/
structure HttpStreamOut where
  outcome : CallOutcome
  token : Option Nat
  deriving Repr, DecidableEq

def httpFail : HttpStreamOut :=
  { outcome := { dispatched := true, respError := true, handlerErr := true }, token := none }

def httpOk (token : Option Nat) : HttpStreamOut :=
  { outcome := { dispatched := true, respError := false, handlerErr := false }, token := token }

/-- The tail shared by `/init` (producer) and a producer continuation: the produce loop, then the
continuation token when the batch limit stopped it. `encodable`: the state's concrete type is
gob-registered (a state decoded from a token always is). -/
def producerResponse (cfg : HttpCfg) (s : StreamScript) (limit k : Nat) (encodable : Bool) : HttpStreamOut :=
  let r := produceLoop s (cfg == .extCap) limit k
  match r.err with
  | some _ => httpFail                                   -- error batch written inside the stream
  | none =>
    if r.finished then httpOk none
    else if encodable then httpOk (some r.cursor)
    else httpFail                                         -- token packing failed: error batch appended

/-- The script's way of returning a header whose serialization fails. -/
def badHeader : String := "BAD"

/-- `handleStreamInit` after the hook is started (parameters deserialize). -/
def httpInit (cfg : HttpCfg) (m : SMethod) (limit : Nat) (s : StreamScript) (encodable : Bool) : HttpStreamOut :=
  match s.init with
  | .fail _ => httpFail
  | .panic _ => httpFail
  | .nilResult => httpFail
  | .ok st _ header _ =>
    match decideMode m.typ st with
    | none => httpFail
    | some isProducer =>
      if m.hasHeader && header == some badHeader then httpFail     -- writeStreamHeader fails
      else if isProducer then producerResponse cfg s limit 0 encodable
      else if encodable then httpOk (some 0)                        -- token only; no cap applies
      else httpFail

/-- What the client sends to `/exchange`. -/
inductive HttpInput
  | data (v : String) (lib : Option String)
  | cancel
  deriving Repr, DecidableEq

/-- The cast `handleStreamExchange` applies before anything else when the method has a registered
input schema. -/
def httpCasted (m : SMethod) (src : Schema) (v : String) (lib : Option String) : Except SrvErr String :=
  match m.inputSchema with
  | some tgt => castInput src tgt v lib
  | none => .ok v

/-- The cast a DYNAMIC exchange stream applies, after the hook was started, against the input
schema its init declared (`StreamResult.InputSchema`, carried in the call token). -/
def httpDeclaredCast (m : SMethod) (declared : Option Schema) (src : Schema) (v : String)
    (lib : Option String) : Except SrvErr String :=
  match declared with
  | some tgt => if m.typ = .dynamic then castInput src tgt v lib else .ok v
  | none => .ok v

/-- `handleStreamExchange` for a client holding a token with cursor `k`. An input batch that does
not cast to the REGISTERED input schema is refused (400) before the hook is started; one that
does not cast to a dynamic stream's DECLARED schema is refused after. -/
def httpExchange (cfg : HttpCfg) (m : SMethod) (limit : Nat) (s : StreamScript) (isProducer : Bool)
    (declared : Option Schema) (k : Nat) (src : Schema) (inp : HttpInput) : HttpStreamOut :=
  match inp with
  | .cancel => httpOk none     -- handleStreamCancel: OnCancel (errors/panics swallowed), empty stream
  | .data v lib =>
    match httpCasted m src v lib with
    | .error _ => { outcome := { dispatched := false, respError := true, handlerErr := false }, token := none }
    | .ok v1 =>
      if isProducer then producerResponse cfg s limit k true
      else
        match httpDeclaredCast m declared src v1 lib with
        | .error _ => httpFail
        | .ok inVal =>
          match runTurn false inVal (s.turnAt k) with
          | (_, some _) => httpFail
          | (c, none) =>
            if !c.hasData then httpFail                      -- validate(): no data batch
            else if cfg == .extCap && c.dataNonEmpty then httpFail   -- checkExternalBudget
            else if cfg == .wireCap then httpFail             -- enforceResponseBudgets (hard for exchange)
            else httpOk (some (k + 1))

end Vgi.Script
