import Vgi.Model.OAuthCookie
import Vgi.Model.OAuthUrl
/-!
Model of the redirect validators (`validateOriginalURL`, `validateReturnTo`, `isLocalhost` in
`vgirpc/oauth_pkce_oidc.go`) and of the decision order of the three browser handlers in
`vgirpc/oauth_pkce_handlers.go`: `pkceRedirectToOAuth` (what goes into the session cookie),
`handleOAuthCallback` (when the code is exchanged, where the redirect goes, where the token is
put) and `pkceEarlyReturnRedirect`.

What comes from outside the handlers is an explicit input: the decoded query parameters
(`net/url` query decoding), the random verifier / state, the clock, whether OIDC discovery
worked, and the token endpoint's answer.
-/
namespace Vgi.OAuth
open Vgi

def maxOriginalURLLen : Nat := 2048
def maxReturnToLen : Nat := 2048
def sessionMaxAge : Int := 600

def sHttp : Bytes := [104, 116, 116, 112]
def sHttps : Bytes := [104, 116, 116, 112, 115]
def sSep : Bytes := [58, 47, 47]                       -- "://"
def sLocalhost : Bytes := [108, 111, 99, 97, 108, 104, 111, 115, 116]
def sLoopback4 : Bytes := [49, 50, 55, 46, 48, 46, 48, 46, 49]
def sLoopback6 : Bytes := [91, 58, 58, 49, 93]         -- "[::1]"
def sTokenEq : Bytes := [116, 111, 107, 101, 110, 61]  -- "token="

def fallback (pfx : Bytes) : Bytes := if pfx ≠ [] then pfx else [cSlash]

/-- "Starts with exactly one slash": `/`, or `/c…` with `c` neither `/` nor `\`. -/
def singleSlash : Bytes → Bool
  | [c] => c == cSlash
  | c :: d :: _ => c == cSlash && d != cSlash && d != cBackslash
  | [] => false

/-- `validateOriginalURL(u, prefix)` (with the guard of the F27 fix as its last test). -/
def validateOriginalURL (u pfx : Bytes) : Bytes :=
  let u := if u.length > maxOriginalURLLen then u.take maxOriginalURLLen else u
  match parseURL u with
  | none => fallback pfx
  | some p =>
    if p.scheme ≠ [] ∨ p.host ≠ [] then fallback pfx
    else if pfx ≠ [] ∧ ¬ startsWith pfx u then fallback pfx
    else if ¬ singleSlash u then fallback pfx
    else u

/-- `isLocalhost`. -/
def isLocalhost (h : Bytes) : Bool := h = sLocalhost || h = sLoopback4 || h = sLoopback6

/-- The three origin tests of `validateReturnTo`, on the parsed scheme and host. -/
def originAllowed (allow : List Bytes) (scheme host : Bytes) : Bool :=
  let hn := hostname host
  let pt := port host
  (isLocalhost hn && scheme = sHttp) ||
  allow.contains (scheme ++ sSep ++ hn) ||
  (pt ≠ [] && allow.contains (scheme ++ sSep ++ hn ++ [cColon] ++ pt))

/-- `validateReturnTo(u, allowedOrigins)`; `[]` is the Go `""` (refused). -/
def validateReturnTo (u : Bytes) (allow : List Bytes) : Bytes :=
  if u = [] ∨ u.length > maxReturnToLen then []
  else match parseURL u with
    | none => []
    | some p =>
      if p.scheme ≠ sHttp ∧ p.scheme ≠ sHttps then []
      else if p.host = [] then []
      else if originAllowed allow p.scheme p.host then u
      else []

/-! ### handlers -/

structure Cfg where
  pfx : Bytes
  allow : List Bytes
  sessionKey : Bytes

/-- `pkceRedirectToOAuth`: the four fields packed into the session cookie. `path` is
`r.URL.Path`, `rawQuery` is `r.URL.RawQuery`, `rtParam` the decoded `_vgi_return_to`. -/
def loginFields (cfg : Cfg) (path rawQuery rtParam verifier state : Bytes) : Fields :=
  let orig := if rawQuery ≠ [] then path ++ cQuest :: rawQuery else path
  ⟨verifier, state, validateOriginalURL orig cfg.pfx, validateReturnTo rtParam cfg.allow⟩

def loginCookie (mac : Bytes → Bytes → Bytes) (cfg : Cfg)
    (path rawQuery rtParam verifier state : Bytes) (now : Int) : Bytes :=
  let f := loginFields cfg path rawQuery rtParam verifier state
  pack mac f.verifier f.state f.originalURL f.returnTo cfg.sessionKey now

/-- `separator` + `"token=" + token`: the start of the fragment appended to a return URL. -/
def withToken (returnTo token : Bytes) : Bytes :=
  returnTo ++ (if returnTo.contains cHash then [38] else [cHash]) ++ sTokenEq ++ token

inductive CbOut
  | refused (status : Nat)
  /-- 302 to `returnTo` with the token in the fragment (`loc` = Location up to the token). -/
  | external (loc : Bytes)
  /-- 302 to the validated original URL; the token goes into the auth cookie only. -/
  | sameOrigin (loc : Bytes) (authCookie : Bytes)
  deriving Repr, DecidableEq

structure CbResult where
  out : CbOut
  /-- `(code, code_verifier)` posted to the token endpoint, if it was called. -/
  exchanged : Option (Bytes × Bytes)
  deriving Repr, DecidableEq

/-- `handleOAuthCallback`. `errParam`, `code`, `state` are the decoded query parameters,
`cookie` the session cookie value (absent = `none`), `discoveryOK` the OIDC discovery outcome,
`idp` the bearer token the exchange yields (`none` = the exchange failed). -/
def callback (mac : Bytes → Bytes → Bytes) (cfg : Cfg) (errParam code state : Bytes)
    (cookie : Option Bytes) (now : Int) (discoveryOK : Bool) (idp : Option Bytes) : CbResult :=
  if errParam ≠ [] then ⟨.refused 400, none⟩
  else if code = [] ∨ state = [] then ⟨.refused 400, none⟩
  else match cookie with
    | none => ⟨.refused 400, none⟩
    | some c =>
      if c = [] then ⟨.refused 400, none⟩
      else match unpack mac c cfg.sessionKey sessionMaxAge now with
        | .error _ => ⟨.refused 400, none⟩
        | .ok f =>
          if state ≠ f.state then ⟨.refused 400, none⟩
          else if ¬ discoveryOK then ⟨.refused 502, none⟩
          else match idp with
            | none => ⟨.refused 502, some (code, f.verifier)⟩
            | some token =>
              if f.returnTo ≠ [] then ⟨.external (withToken f.returnTo token), some (code, f.verifier)⟩
              else ⟨.sameOrigin (validateOriginalURL f.originalURL cfg.pfx) token, some (code, f.verifier)⟩

/-- `pkceEarlyReturnRedirect`: `some loc` when it redirects (Location up to the token).
`jwtExpired` is `isJWTExpired(token)`. -/
def earlyReturn (cfg : Cfg) (rtParam : Bytes) (authCookie : Option Bytes) (jwtExpired : Bool) :
    Option Bytes :=
  let rt := validateReturnTo rtParam cfg.allow
  if rt = [] then none
  else match authCookie with
    | none => none
    | some tok => if tok = [] then none else if jwtExpired then none else some (withToken rt tok)

end Vgi.OAuth
