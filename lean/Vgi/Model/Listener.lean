import Vgi.Util
import Vgi.Model.TransSys
/-!
Model of the socket listeners `Server.RunUnix` (`vgirpc/server_unix.go`) and `Server.RunTcp`
(`vgirpc/server_tcp.go`) — the two functions are the same program up to the listening socket.

A transition system whose actions are the critical sections of `mu` (the `active` counter, the
`timer` variable, `shutdown`), the timer's firing, and the client-visible events:

* `bind`        remove stale file, `net.Listen`, `os.Chmod(path, 0o600)`, `onBound`, `arm(grace)`
* `accept c`    `Accept()` returns connection `c` (not yet counted)
* `count`       `mu{ active++; disarm() }`, `wg.Add(1)`, `go serve(c)`
* `send c x`    the client of `c` writes request `x`
* `serveOne c`  one `serveOne(ctx, conn, conn, shmConn)` round on `c`: reads `c`'s next request,
                writes the response on `c`
* `connDone c`  the serve loop of `c` ended; `mu{ active--; if active == 0 && idle && !shutdown { arm(idle) } }`, `wg.Done()`
* `fire g`      the armed timer `g` expires: its `AfterFunc` goroutine starts (and will wait for `mu`)
* `timerRun g`  the callback's critical section: `mu{ if active == 0 { shutdown = true; ln.Close() } }`
* `acceptErr`   `Accept()` returns an error (listener closed, or an environment fault): `break`
* `leave`       `mu{ disarm() }`
* `ret`         `wg.Wait()` returned; deferred `ln.Close()`, `os.Remove(path)`

`timer.Stop()` cancels a timer that has not fired; a timer whose callback already started cannot be
stopped (it is in `fired` and still runs its critical section) — this is the window in which a
stale callback meets a newly counted connection.
-/
namespace Vgi.Listener
open Vgi

inductive Stage
  | absent | accepted | serving | done
  deriving DecidableEq, Repr

inductive MainPc
  | init | accepting | gotConn (c : Nat) | broke | waiting | returned
  deriving DecidableEq, Repr

/-- Owner-only mode set right after bind. -/
def ownerOnly : Nat := 0o600

structure Cfg where
  idle : Bool          -- idleTimeout > 0
  unix : Bool          -- RunUnix (socket file) vs RunTcp
  h : Nat → Nat        -- the (pure) method the connections call
  T : Nat := 0         -- idleTimeout (time units)
  G : Nat := 0         -- start-up grace = max(idleTimeout, 60 s)

structure LState where
  file : Option Nat := none           -- mode of the socket file, `none` = no file
  main : MainPc := .init
  active : Int := 0
  timer : Option (Nat × Bool) := none -- the `timer` variable: (id, not yet fired)
  fired : List Nat := []              -- callbacks started, waiting for `mu`
  nextTimer : Nat := 0
  shutdown : Bool := false
  lnClosed : Bool := false
  envFault : Bool := false            -- an Accept error that was not the listener closing
  ids : List Nat := []                -- connections Accept has returned, newest first
  stage : Nat → Stage := fun _ => .absent
  inbox : Nat → List Nat := fun _ => []
  served : Nat → List Nat := fun _ => []
  outbox : Nat → List Nat := fun _ => []
  sent : Nat → List Nat := fun _ => []    -- history: everything the client of c wrote
  now : Nat := 0                      -- the clock
  deadline : Nat := 0                 -- when the timer in `timer` is due (`time.AfterFunc(d, …)` at `now + d`)
  zeroSince : Nat := 0                -- history: when `active` last dropped to 0 (0 = never had a connection)
  lastCount : Nat := 0                -- history: when a connection was last counted

inductive Act
  | bind (stale : Option Nat)
  | accept (c : Nat)
  | count
  | send (c x : Nat)
  | serveOne (c : Nat)
  | connDone (c : Nat)
  | fire (g : Nat)
  | timerRun (g : Nat)
  | acceptErr (fault : Bool)
  | leave
  | ret
  | tick (t : Nat)     -- time passes
  | expire (g : Nat)   -- the armed timer is due and its callback runs at once (fire + timerRun with no delay)
  deriving Repr

def upd {β : Type} (f : Nat → β) (c : Nat) (v : β) : Nat → β := fun i => if i = c then v else f i

/-- `arm(d)`: `disarm()` then `timer = time.AfterFunc(d, …)`. -/
def arm (s : LState) (d : Nat) : LState :=
  { s with timer := some (s.nextTimer, true), nextTimer := s.nextTimer + 1, deadline := s.now + d }

/-- `disarm()`: `timer.Stop(); timer = nil`. -/
def disarm (s : LState) : LState := { s with timer := none }

def step (C : Cfg) (s : LState) : Act → Option LState
  | .bind _stale =>
    if s.main = .init then
      let s1 := { s with main := .accepting, file := if C.unix then some ownerOnly else none }
      some (if C.idle then arm s1 C.G else s1)
    else none
  | .accept c =>
    if s.main = .accepting ∧ s.lnClosed = false ∧ s.stage c = .absent then
      some { s with main := .gotConn c, ids := c :: s.ids, stage := upd s.stage c .accepted }
    else none
  | .count =>
    match s.main with
    | .gotConn c =>
      some (disarm { s with main := .accepting, active := s.active + 1, stage := upd s.stage c .serving,
                            lastCount := s.now })
    | _ => none
  | .send c x =>
    if s.stage c = .accepted ∨ s.stage c = .serving then
      some { s with inbox := upd s.inbox c (s.inbox c ++ [x]), sent := upd s.sent c (s.sent c ++ [x]) }
    else none
  | .serveOne c =>
    if s.stage c = .serving then
      match s.inbox c with
      | [] => none
      | x :: rest =>
        some { s with inbox := upd s.inbox c rest, served := upd s.served c (s.served c ++ [x]),
                      outbox := upd s.outbox c (s.outbox c ++ [C.h x]) }
    else none
  | .connDone c =>
    if s.stage c = .serving then
      let s1 := { s with stage := upd s.stage c .done, active := s.active - 1,
                         zeroSince := if s.active - 1 = 0 then s.now else s.zeroSince }
      some (if s1.active = 0 ∧ C.idle ∧ s1.shutdown = false then arm s1 C.T else s1)
    else none
  | .fire g =>
    if s.timer = some (g, true) then
      some { s with timer := some (g, false), fired := g :: s.fired }
    else none
  | .timerRun g =>
    if g ∈ s.fired then
      let s1 := { s with fired := s.fired.filter (· ≠ g) }
      some (if s.active = 0 then { s1 with shutdown := true, lnClosed := true } else s1)
    else none
  | .acceptErr fault =>
    if s.main = .accepting ∧ (s.lnClosed = true ∨ fault = true) then
      some { s with main := .broke, envFault := s.envFault || (fault && !s.lnClosed) }
    else none
  | .leave =>
    if s.main = .broke then some (disarm { s with main := .waiting }) else none
  | .ret =>
    if s.main = .waiting ∧ s.ids.all (fun c => s.stage c ≠ .serving) then
      some { s with main := .returned, lnClosed := true, file := none }
    else none

  | .tick t => some { s with now := max s.now t }
  | .expire g =>
    if s.timer = some (g, true) ∧ s.deadline ≤ s.now then
      let s1 := { s with timer := some (g, false) }
      some (if s.active = 0 then { s1 with shutdown := true, lnClosed := true } else s1)
    else none

def init : LState := {}

def sys (C : Cfg) : TS.Sys LState Act := { init := init, step := step C }

/-- The timed system: a timer expires exactly when it is due and its callback runs without delay
(`expire`); the untimed `fire` / `timerRun` pair, which lets a callback linger, is switched off. -/
def tsys (C : Cfg) : TS.Sys LState Act :=
  { init := init,
    step := fun s a => match a with
      | .fire _ => none
      | .timerRun _ => none
      | _ => step C s a }

/-- Number of connections currently being served (counted and not yet finished). -/
def openCount (s : LState) : Nat := s.ids.countP (fun c => s.stage c = .serving)

end Vgi.Listener
