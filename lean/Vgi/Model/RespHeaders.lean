import Vgi.Util
import Vgi.Model.RespHeadersFacts
/-!
# C20 — model of the correlation / capability / CORS-expose headers of `HttpServer.ServeHTTP`

Mirrors (vgirpc/http.go) `resolveRequestID`, `newRequestID`, `addCapabilityHeaders`,
`addCorsHeaders`, the head of `ServeHTTP` (request id first, serve-start hook, capability headers,
OPTIONS preflight / PKCE token-proxy preflight, CORS, everything else); (vgirpc/http_sticky.go)
`addStickyCapabilityHeaders`; (vgirpc/unauthorized.go) `proxyAuthHeaders` and the headers
`writeUnauthorized` can set.

HTTP header names are case-insensitive (and Go canonicalises them on `Set`); the model spells every
name in lower case, and the harness / fact generator lower-case what they observe.
-/
namespace Vgi.RespHeaders

/-! ## X-Request-ID -/

/-- Go's `unicode.IsSpace`, which `strings.TrimSpace` uses. -/
def isSpace (c : Char) : Bool :=
  let n := c.toNat
  n == 0x09 || n == 0x0A || n == 0x0B || n == 0x0C || n == 0x0D || n == 0x20 || n == 0x85 || n == 0xA0 ||
  n == 0x1680 || (0x2000 ≤ n && n ≤ 0x200A) || n == 0x2028 || n == 0x2029 || n == 0x202F ||
  n == 0x205F || n == 0x3000

def trimLeft (s : List Char) : List Char := s.dropWhile isSpace

def trimRight (s : List Char) : List Char := (trimLeft s.reverse).reverse

/-- `strings.TrimSpace` on a valid UTF-8 string. -/
def trimSpace (s : List Char) : List Char := trimLeft (trimRight s)

/-- `len(s)`: length in UTF-8 bytes. -/
def byteLen : List Char → Nat
  | [] => 0
  | c :: r => c.utf8Size + byteLen r

def maxRequestIDLength : Nat := 128

def hexDigitLower (n : Nat) : Char :=
  if n < 10 then Char.ofNat (48 + n) else Char.ofNat (87 + n)

/-- `hex.EncodeToString` -/
def hexEncode : List UInt8 → List Char
  | [] => []
  | b :: r => hexDigitLower (b.toNat / 16) :: hexDigitLower (b.toNat % 16) :: hexEncode r

/-- `newRequestID`: 8 bytes from crypto/rand (or the fixed all-zero fallback), hex encoded. -/
def newRequestID (rnd : List UInt8) : List Char := hexEncode rnd

/-- `resolveRequestID`: `hdr` is `r.Header.Get("X-Request-ID")` ("" when absent), `rnd` the random
bytes the mint would use. -/
def resolveRequestID (hdr : List Char) (rnd : List UInt8) : List Char :=
  let id := trimSpace hdr
  if id.isEmpty || byteLen id > maxRequestIDLength then newRequestID rnd else id

def isLowerHexChar (c : Char) : Bool :=
  ('0' ≤ c && c ≤ '9') || ('a' ≤ c && c ≤ 'f')

/-- "16 lowercase hex characters" -/
def isMintShape (s : List Char) : Bool := s.length == 16 && s.all isLowerHexChar

/-! ## configuration -/

structure Cfg where
  cors : Bool                       -- SetCorsOrigins(non-empty)
  maxRequestBytes : Nat             -- 0 = not set
  maxResponseBytes : Nat
  maxExternalizedResponseBytes : Nat
  maxUploadBytes : Nat
  externalStorage : Bool            -- server has an ExternalLocationConfig with Storage
  upload : Bool                     -- SetUploadURLProvider
  proofRequired : Bool              -- SetProxyProofRequired(true)
  introspect : Bool                 -- EnableTokenIntrospection
  extraProxyHeaders : List String   -- SetProxyAuthHeaders
  sticky : Option Nat               -- EnableSticky(ttl seconds)
  echoNames : List String           -- keys of SetStickyEchoHeaders (in the order the script lists them)
  compression : Bool                -- compression level > 0
  hookFails : Bool                  -- the serve-start hook returns an error
  pkce : Bool                       -- SetOAuthPkce
  deriving Repr

/-- `EnableSticky` called with these TTLs (seconds) in turn: the first call creates the registry
(a non-positive TTL means the 300 s default), later calls only replace a positive TTL. -/
def stickyDefaultTTLSec : Nat := 300

def stickyTTL : List Int → Option Nat
  | [] => none
  | first :: rest =>
    some (rest.foldl (fun ttl d => if d > 0 then d.toNat else ttl)
      (if first > 0 then first.toNat else stickyDefaultTTLSec))

/-! ## header names (lower case) -/

def hRequestID : String := "x-request-id"
def hSupportedEncodings : String := "vgi-supported-encodings"
def hExternalization : String := "vgi-externalization-enabled"
def hMaxRequestBytes : String := "vgi-max-request-bytes"
def hMaxResponseBytes : String := "vgi-max-response-bytes"
def hMaxExternalized : String := "vgi-max-externalized-response-bytes"
def hUploadURL : String := "vgi-upload-url-support"
def hMaxUploadBytes : String := "vgi-max-upload-bytes"
def hProofRequired : String := "vgi-proxy-proof-required"
def hIntrospect : String := "vgi-token-introspection"
def hStickyEnabled : String := "vgi-sticky-enabled"
def hStickyTTL : String := "vgi-sticky-default-ttl"
def hStickyEchoHeaders : String := "vgi-sticky-echo-headers"
def hSession : String := "vgi-session"
def hSessionClose : String := "vgi-session-close"
def echoPrefix : String := "vgi-echo-"
def hWWWAuthenticate : String := "www-authenticate"
def hAuthReason : String := "vgi-auth-reason"
def hAuthProxyRequired : String := "vgi-auth-proxy-required"
def hRpcError : String := "x-vgi-rpc-error"
def hContentEncoding : String := "x-vgi-content-encoding"
def hProof : String := "vgi-proxy-proof"
def hExpose : String := "access-control-expose-headers"

/-! ## capability headers (`addCapabilityHeaders`, `addStickyCapabilityHeaders`) -/

def supportedEncodingsValue (cfg : Cfg) : String := if cfg.compression then "zstd, gzip" else ""

/-- keep the rows whose condition holds -/
def enabledRows {α : Type} (rows : List (Bool × α)) : List α :=
  rows.filterMap fun r => if r.1 then some r.2 else none

/-- `addCapabilityHeaders` + `addStickyCapabilityHeaders`, as (condition, (name, value)) rows in the
order the source sets them. -/
def capabilityTable (cfg : Cfg) : List (Bool × String × String) :=
  [ (true, hSupportedEncodings, supportedEncodingsValue cfg),
    (decide (cfg.maxRequestBytes > 0), hMaxRequestBytes, toString cfg.maxRequestBytes),
    (decide (cfg.maxResponseBytes > 0), hMaxResponseBytes, toString cfg.maxResponseBytes),
    (decide (cfg.maxExternalizedResponseBytes > 0), hMaxExternalized, toString cfg.maxExternalizedResponseBytes),
    (true, hExternalization, if cfg.externalStorage then "true" else "false"),
    (cfg.upload, hUploadURL, "true"),
    (cfg.upload && decide (cfg.maxUploadBytes > 0), hMaxUploadBytes, toString cfg.maxUploadBytes),
    (cfg.proofRequired, hProofRequired, "true"),
    (cfg.introspect, hIntrospect, "true"),
    (cfg.sticky.isSome, hStickyEnabled, "true"),
    (cfg.sticky.isSome, hStickyTTL, toString (cfg.sticky.getD 0)),
    (cfg.sticky.isSome && !cfg.echoNames.isEmpty, hStickyEchoHeaders, ", ".intercalate cfg.echoNames) ]

def capabilityHeaders (cfg : Cfg) : List (String × String) := enabledRows (capabilityTable cfg)

/-! ## what else the configuration can put on a response -/

/-- `proxyAuthHeaders` -/
def proxyAuthHeaders (cfg : Cfg) : List String :=
  (if cfg.proofRequired then [hProof] else []) ++ cfg.extraProxyHeaders

/-- Headers a rejection (`writeUnauthorized`) can carry under this configuration. -/
def rejectionHeaders (cfg : Cfg) : List String :=
  [hAuthReason, hWWWAuthenticate] ++ (if (proxyAuthHeaders cfg).isEmpty then [] else [hAuthProxyRequired])

/-- Per-outcome headers of the audited families: RPC error marker, negotiated body encoding,
sticky session token / close marker and the configured `VGI-Echo-<name>` values. -/
def outcomeHeaders (cfg : Cfg) : List String :=
  [hRpcError, hContentEncoding, hSession, hSessionClose] ++ cfg.echoNames.map (echoPrefix ++ ·)

/-! ## Access-Control-Expose-Headers (`addCorsHeaders`) -/

/-- the fixed and conditional entries, as (condition, name) rows in source order -/
def exposeTable (cfg : Cfg) : List (Bool × String) :=
  [ (true, hWWWAuthenticate), (true, hRequestID), (true, hContentEncoding), (true, hRpcError),
    (true, hMaxResponseBytes), (true, hMaxExternalized), (true, hExternalization),
    (true, hSupportedEncodings), (true, hStickyEnabled), (true, hStickyTTL), (true, hStickyEchoHeaders),
    (true, hSession), (true, hSessionClose),
    (decide (cfg.maxRequestBytes > 0), hMaxRequestBytes),
    (cfg.upload, hUploadURL),
    (cfg.upload && decide (cfg.maxUploadBytes > 0), hMaxUploadBytes),
    (cfg.proofRequired, hProofRequired),
    (cfg.introspect, hIntrospect),
    (true, hAuthReason),
    (!(proxyAuthHeaders cfg).isEmpty, hAuthProxyRequired) ]

def exposeList (cfg : Cfg) : List String :=
  enabledRows (exposeTable cfg) ++ cfg.echoNames.map (echoPrefix ++ ·)

/-! ## ServeHTTP -/

/-- Where `ServeHTTP` stops. -/
inductive Exit
  | hookFailed          -- 500 "server startup hook failed"
  | tokenPreflight      -- OPTIONS {prefix}/_oauth/token with PKCE: dedicated handler, own CORS
  | preflight           -- any other OPTIONS: 204
  | tooLarge            -- Content-Length over max_request_bytes: 413 before the mux
  | dispatched          -- the mux (handlers, 404/405, pages, health, …)
  deriving DecidableEq, Repr

structure Req where
  options : Bool            -- r.Method == OPTIONS
  tokenProxyPath : Bool     -- r.URL.Path == prefix + "/_oauth/token"
  overLimit : Bool          -- max_request_bytes set, Content-Length above it, path not exempt
  requestID : List Char     -- X-Request-ID request header ("" when absent)
  deriving Repr

def exitOf (cfg : Cfg) (req : Req) : Exit :=
  if cfg.hookFails then .hookFailed
  else if req.options then (if cfg.pkce && req.tokenProxyPath then .tokenPreflight else .preflight)
  else if req.overLimit then .tooLarge
  else .dispatched

/-- A header write performed after `ServeHTTP`'s own (by a handler, a page, the mux, `http.Error`). -/
inductive HdrOp
  | set (name value : String)
  | del (name : String)
  deriving DecidableEq, Repr

def HdrOp.name : HdrOp → String
  | .set n _ => n
  | .del n => n

abbrev Headers := List (String × String)

def hset (h : Headers) (name value : String) : Headers :=
  (h.filter fun p => p.1 != name) ++ [(name, value)]

def hdel (h : Headers) (name : String) : Headers :=
  h.filter fun p => p.1 != name

def hget (h : Headers) (name : String) : Option String :=
  (h.find? fun p => p.1 == name).map (·.2)

def applyOp (h : Headers) : HdrOp → Headers
  | .set n v => hset h n v
  | .del n => hdel h n

def setAll (h : Headers) (kvs : List (String × String)) : Headers :=
  kvs.foldl (fun acc p => hset acc p.1 p.2) h

/-- The audited response headers `ServeHTTP` itself has set when it stops at `exitOf cfg req`,
followed by the later writes `ops` of whoever answers. -/
def serveHeaders (cfg : Cfg) (req : Req) (rnd : List UInt8) (ops : List HdrOp) : Headers :=
  let h0 : Headers := hset [] hRequestID (String.ofList (resolveRequestID req.requestID rnd))
  let own : Headers :=
    match exitOf cfg req with
    | .hookFailed => h0
    | .tokenPreflight => setAll h0 (capabilityHeaders cfg)
    | .preflight | .tooLarge | .dispatched =>
      let h1 := setAll h0 (capabilityHeaders cfg)
      if cfg.cors then hset h1 hExpose (", ".intercalate (exposeList cfg)) else h1
  ops.foldl applyOp own

/-! ## what the model assumes of the source (checked on the regenerated facts) -/

/-- the headers the property demands on every response, plus the expose list itself -/
def protectedNames : List String := [hRequestID, hSupportedEncodings, hExternalization, hExpose]

/-- the functions through which `ServeHTTP` itself writes them -/
def ownWriters : List String :=
  ["ServeHTTP", "addCapabilityHeaders", "addStickyCapabilityHeaders", "addCorsHeaders"]

def hasPrefix (p s : String) : Bool := p.toList.isPrefixOf s.toList

/-- the audited families: VGI-*, X-VGI-*, X-Request-ID, WWW-Authenticate -/
def audited (s : String) : Bool :=
  hasPrefix "vgi-" s || hasPrefix "x-vgi-" s || s == hRequestID || s == hWWWAuthenticate

/-- a dynamic name `p ++ …` might fall into an audited family -/
def couldBeAudited (p : String) : Bool :=
  audited p || hasPrefix p "vgi-" || hasPrefix p "x-vgi-" || hasPrefix p hRequestID || hasPrefix p hWWWAuthenticate

def nameMatches : NameFact → String → Bool
  | .const s, n => s == n
  | .prefixed p, n => hasPrefix p n
  | .unknown _, _ => false

/-- nobody but `ServeHTTP`'s own helpers writes a protected header -/
def writeOK (w : WriteFact) : Bool :=
  match w.name with
  | .const s => !protectedNames.contains s || ownWriters.contains w.fn
  | .prefixed p => protectedNames.all fun n => !hasPrefix p n
  | .unknown _ => false

/-- everything switched on (the echo names are quantified separately) -/
def cfgMax : Cfg :=
  { cors := true, maxRequestBytes := 1, maxResponseBytes := 1, maxExternalizedResponseBytes := 1,
    maxUploadBytes := 1, externalStorage := true, upload := true, proofRequired := true,
    introspect := true, extraProxyHeaders := [], sticky := some 1, echoNames := [],
    compression := true, hookFails := false, pkce := true }

/-- every audited header the package can set is in the expose list of the all-on configuration;
the only dynamic audited family is `VGI-Echo-<name>` -/
def exposedOK (w : WriteFact) : Bool :=
  w.op == "Del" ||
  match w.name with
  | .const s => !audited s || (exposeList cfgMax).contains s
  | .prefixed p => !couldBeAudited p || p == echoPrefix
  | .unknown _ => false

def FactsOK (F : Facts) : Prop :=
  F.ridFirst = true ∧ F.capsAfterHook = true ∧ F.corsBeforeDispatch = true ∧
  ∀ w ∈ F.writes, writeOK w = true ∧ exposedOK w = true

instance (F : Facts) : Decidable (FactsOK F) := by unfold FactsOK; infer_instance

end Vgi.RespHeaders
