import Vgi.Util
import Vgi.Model.TransSys
/-!
Model of the lazy, concurrent set-up on the HTTP request path:

* `Server.notifyTransport` (`vgirpc/server.go`): the two-mutex single flight around the
  serve-start hook — `transportNotifyMu` (the gate, held across check / hook / commit) and
  `transportMu` (guarding `transportKind`, `transportCapabilities`, `serveStartHook`);
* the `sync.Once` cells `protocolHashOnce` (`Server.ProtocolHash`), `initPagesOnce`
  (`HttpServer.InitPages`), `healthBodyOnce` (`handleHealth`);
* an abstract lock-set discipline: executions are traces of acquire / release / access events.

Each is a transition system whose actions are the critical sections; a schedule is a list of
actions, so the theorems in `Vgi.Props.C40` hold for every interleaving of any number of requests.
-/
namespace Vgi.LazyInit
open Vgi

/-! ### notifyTransport -/

/-- A transport kind together with its capability set (what `notifyTransport` compares). -/
abbrev Kind := Nat

inductive NPc
  | idle | wantGate | check | hook | commit | doneOk | doneErr
  deriving DecidableEq, Repr

structure NThread where
  pc : NPc := .idle
  kind : Kind := 0
  deriving Repr

structure NState where
  gate : Option Nat := none            -- holder of `transportNotifyMu`
  bound : Option Kind := none          -- `transportKind` (+capabilities); `none` = unbound ("")
  thr : Nat → NThread := fun _ => {}
  hookRuns : Nat := 0                  -- invocations of the serve-start hook
  hookOk : Nat := 0                    -- invocations that returned nil
  commits : Nat := 0                   -- executions of the commit section
  seen : List (Nat × Option Kind) := []  -- `TransportKind()` as read by requests that were let through

inductive NAct
  | call (t : Nat) (k : Kind)          -- a request enters `notifyTransport(kind, caps)`
  | lockGate (t : Nat)                 -- `transportNotifyMu.Lock()`
  | check (t : Nat)                    -- `transportMu{ already bound to this kind? ; hook := serveStartHook }`
  | hookRun (t : Nat) (ok : Bool)      -- `hook(kind, capsCopy)` returns nil / an error
  | commit (t : Nat)                   -- `transportMu{ transportKind = kind; … }`, deferred gate unlock
  | observe (t : Nat)                  -- the request, let through, reads `TransportKind()`
  deriving Repr

def setN (s : NState) (t : Nat) (th : NThread) : NState :=
  { s with thr := fun i => if i = t then th else s.thr i }

/-- `hasHook`: `serveStartHook != nil` (fixed before serving). -/
def nstep (hasHook : Bool) (s : NState) : NAct → Option NState
  | .call t k =>
    if (s.thr t).pc = .idle then some (setN s t { pc := .wantGate, kind := k }) else none
  | .lockGate t =>
    if (s.thr t).pc = .wantGate ∧ s.gate = none then
      some (setN { s with gate := some t } t { (s.thr t) with pc := .check })
    else none
  | .check t =>
    if (s.thr t).pc = .check then
      if s.bound = some (s.thr t).kind then
        -- idempotent repeat: return nil (the deferred unlock releases the gate)
        some (setN { s with gate := none } t { (s.thr t) with pc := .doneOk })
      else if hasHook then some (setN s t { (s.thr t) with pc := .hook })
      else some (setN s t { (s.thr t) with pc := .commit })
    else none
  | .hookRun t ok =>
    if (s.thr t).pc = .hook then
      if ok then
        some (setN { s with hookRuns := s.hookRuns + 1, hookOk := s.hookOk + 1 } t { (s.thr t) with pc := .commit })
      else
        -- not committing the binding: the next request re-fires the hook
        some (setN { s with hookRuns := s.hookRuns + 1, gate := none } t { (s.thr t) with pc := .doneErr })
    else none
  | .commit t =>
    if (s.thr t).pc = .commit then
      some (setN { s with bound := some (s.thr t).kind, commits := s.commits + 1, gate := none } t
        { (s.thr t) with pc := .doneOk })
    else none
  | .observe t =>
    if (s.thr t).pc = .doneOk then some { s with seen := (t, s.bound) :: s.seen } else none

def ninit : NState := {}

def nsys (hasHook : Bool) : TS.Sys NState NAct := { init := ninit, step := nstep hasHook }

/-- One server, one transport: every request asks for the same kind `K` (an `HttpServer` always
calls `notifyTransport(TransportKindHTTP, nil)`). -/
def nsysK (hasHook : Bool) (K : Kind) : TS.Sys NState NAct :=
  { init := ninit,
    step := fun s a => match a with
      | .call _ k => if k = K then nstep hasHook s a else none
      | _ => nstep hasHook s a }

/-! ### sync.Once cells -/

inductive OPc
  | idle | waiting | computing | after
  deriving DecidableEq, Repr

structure OState where
  done : Bool := false                 -- the Once's done flag
  running : Option Nat := none         -- holder of the Once's internal mutex, inside f()
  value : Option Nat := none           -- the cached field (`protocolHash`, `healthBody`, pages)
  computes : Nat := 0                  -- how often f() ran
  pc : Nat → OPc := fun _ => .idle
  reads : List (Nat × Option Nat) := [] -- the field as read by callers after `Do` returned

inductive OAct
  | enter (t : Nat)      -- `once.Do(f)`: fast path if done, else queue on the Once's mutex
  | begin (t : Nat)      -- got the mutex, not done: run f
  | pass (t : Nat)       -- got the mutex, done meanwhile: return
  | finish (t : Nat)     -- f stores the value, done = true, mutex released
  | read (t : Nat)       -- the caller reads the cached field after Do returned
  deriving Repr

def setO (s : OState) (t : Nat) (p : OPc) : OState :=
  { s with pc := fun i => if i = t then p else s.pc i }

/-- `v` is what f computes (a function of configuration frozen before serving). -/
def ostep (v : Nat) (s : OState) : OAct → Option OState
  | .enter t =>
    if s.pc t = .idle then some (setO s t (if s.done then .after else .waiting)) else none
  | .begin t =>
    if s.pc t = .waiting ∧ s.running = none ∧ s.done = false then
      some (setO { s with running := some t } t .computing)
    else none
  | .pass t =>
    if s.pc t = .waiting ∧ s.running = none ∧ s.done = true then some (setO s t .after) else none
  | .finish t =>
    if s.pc t = .computing then
      some (setO { s with value := some v, computes := s.computes + 1, done := true, running := none } t .after)
    else none
  | .read t =>
    if s.pc t = .after then some { s with reads := (t, s.value) :: s.reads } else none

def oinit : OState := {}

def osys (v : Nat) : TS.Sys OState OAct := { init := oinit, step := ostep v }

/-! ### Lock-set discipline over event traces -/

inductive Ev
  | acq (t l : Nat)                 -- thread t acquires mutex l
  | rel (t l : Nat)                 -- thread t releases mutex l
  | acc (t f : Nat) (write : Bool)  -- thread t reads/writes field f
  deriving DecidableEq, Repr

/-- `Good f l h tr`: starting with mutex `l` held by `h`, the trace `tr` respects the mutex
(acquired only when free, released only by its holder) and every access to field `f` is made by
the thread that currently holds `l` — the lock-set discipline for `f` with designated lock `l`. -/
def Good (f l : Nat) : Option Nat → List Ev → Prop
  | _, [] => True
  | h, .acq t l' :: rest => if l' = l then h = none ∧ Good f l (some t) rest else Good f l h rest
  | h, .rel t l' :: rest => if l' = l then h = some t ∧ Good f l none rest else Good f l h rest
  | h, .acc t f' _ :: rest => (f' = f → h = some t) ∧ Good f l h rest

end Vgi.LazyInit
