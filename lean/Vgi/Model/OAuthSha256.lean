import Vgi.Util
/-!
SHA-256 / HMAC-SHA256 (FIPS 180-4, RFC 2104) in core Lean, used by the C27 driver so that the
packed session cookie can be compared byte for byte with the one `packOAuthCookie` emits.

The C27 theorems never look inside the hash: they are stated for an arbitrary keyed function
`mac : Bytes → Bytes → Bytes` (plus, where needed, the only fact used: the tag is 32 bytes long,
`hmac_length` below), so they hold in particular for this instance.  Cryptographic strength is
an assumption, not a theorem.
-/
namespace Vgi.OAuth.Sha256
open Vgi

def kTable : Array UInt32 := #[
  0x428a2f98, 0x71374491, 0xb5c0fbcf, 0xe9b5dba5, 0x3956c25b, 0x59f111f1, 0x923f82a4, 0xab1c5ed5,
  0xd807aa98, 0x12835b01, 0x243185be, 0x550c7dc3, 0x72be5d74, 0x80deb1fe, 0x9bdc06a7, 0xc19bf174,
  0xe49b69c1, 0xefbe4786, 0x0fc19dc6, 0x240ca1cc, 0x2de92c6f, 0x4a7484aa, 0x5cb0a9dc, 0x76f988da,
  0x983e5152, 0xa831c66d, 0xb00327c8, 0xbf597fc7, 0xc6e00bf3, 0xd5a79147, 0x06ca6351, 0x14292967,
  0x27b70a85, 0x2e1b2138, 0x4d2c6dfc, 0x53380d13, 0x650a7354, 0x766a0abb, 0x81c2c92e, 0x92722c85,
  0xa2bfe8a1, 0xa81a664b, 0xc24b8b70, 0xc76c51a3, 0xd192e819, 0xd6990624, 0xf40e3585, 0x106aa070,
  0x19a4c116, 0x1e376c08, 0x2748774c, 0x34b0bcb5, 0x391c0cb3, 0x4ed8aa4a, 0x5b9cca4f, 0x682e6ff3,
  0x748f82ee, 0x78a5636f, 0x84c87814, 0x8cc70208, 0x90befffa, 0xa4506ceb, 0xbef9a3f7, 0xc67178f2]

def rotr (x : UInt32) (n : UInt32) : UInt32 := (x >>> n) ||| (x <<< (32 - n))

structure St where
  a : UInt32
  b : UInt32
  c : UInt32
  d : UInt32
  e : UInt32
  f : UInt32
  g : UInt32
  h : UInt32

def initSt : St :=
  ⟨0x6a09e667, 0xbb67ae85, 0x3c6ef372, 0xa54ff53a, 0x510e527f, 0x9b05688c, 0x1f83d9ab, 0x5be0cd19⟩

def be32 (b0 b1 b2 b3 : UInt8) : UInt32 :=
  (b0.toUInt32 <<< 24) ||| (b1.toUInt32 <<< 16) ||| (b2.toUInt32 <<< 8) ||| b3.toUInt32

def wordsOf : Bytes → List UInt32
  | b0 :: b1 :: b2 :: b3 :: r => be32 b0 b1 b2 b3 :: wordsOf r
  | _ => []

/-- Extend the 16 block words to the 64-entry message schedule. -/
def schedule (w16 : List UInt32) : Array UInt32 := Id.run do
  let mut w : Array UInt32 := w16.toArray
  for i in [16:64] do
    let w15 := w[i - 15]!
    let w2 := w[i - 2]!
    let s0 := rotr w15 7 ^^^ rotr w15 18 ^^^ (w15 >>> 3)
    let s1 := rotr w2 17 ^^^ rotr w2 19 ^^^ (w2 >>> 10)
    w := w.push (w[i - 16]! + s0 + w[i - 7]! + s1)
  return w

def round (s : St) (k w : UInt32) : St :=
  let s1 := rotr s.e 6 ^^^ rotr s.e 11 ^^^ rotr s.e 25
  let ch := (s.e &&& s.f) ^^^ ((~~~ s.e) &&& s.g)
  let t1 := s.h + s1 + ch + k + w
  let s0 := rotr s.a 2 ^^^ rotr s.a 13 ^^^ rotr s.a 22
  let mj := (s.a &&& s.b) ^^^ (s.a &&& s.c) ^^^ (s.b &&& s.c)
  let t2 := s0 + mj
  ⟨t1 + t2, s.a, s.b, s.c, s.d + t1, s.e, s.f, s.g⟩

def compress (s : St) (block : Bytes) : St :=
  let w := schedule (wordsOf block)
  let r := (List.range 64).foldl (fun st i => round st kTable[i]! w[i]!) s
  ⟨s.a + r.a, s.b + r.b, s.c + r.c, s.d + r.d, s.e + r.e, s.f + r.f, s.g + r.g, s.h + r.h⟩

def be64Bytes (n : Nat) : Bytes :=
  (List.range 8).map fun i => UInt8.ofNat (n / 256 ^ (7 - i) % 256)

def pad (msg : Bytes) : Bytes :=
  let l := msg.length
  let z := (55 + 64 - l % 64) % 64
  msg ++ [0x80] ++ List.replicate z 0 ++ be64Bytes (8 * l)

def blocks : Nat → Bytes → St → St
  | 0, _, s => s
  | n + 1, bs, s => if bs.length < 64 then s else blocks n (bs.drop 64) (compress s (bs.take 64))

def wordBytes (w : UInt32) : Bytes :=
  [(w >>> 24).toUInt8, (w >>> 16).toUInt8, (w >>> 8).toUInt8, w.toUInt8]

def digestOf (s : St) : Bytes :=
  wordBytes s.a ++ wordBytes s.b ++ wordBytes s.c ++ wordBytes s.d ++
  wordBytes s.e ++ wordBytes s.f ++ wordBytes s.g ++ wordBytes s.h

def sha256 (msg : Bytes) : Bytes :=
  let p := pad msg
  digestOf (blocks (p.length / 64 + 1) p initSt)

def hmac (key msg : Bytes) : Bytes :=
  let k0 := if key.length > 64 then sha256 key else key
  let k := k0 ++ List.replicate (64 - k0.length) 0
  let ipad := k.map (· ^^^ 0x36)
  let opad := k.map (· ^^^ 0x5c)
  sha256 (opad ++ sha256 (ipad ++ msg))

theorem digestOf_length (s : St) : (digestOf s).length = 32 := by
  simp [digestOf, wordBytes]

theorem sha256_length (m : Bytes) : (sha256 m).length = 32 := digestOf_length _

/-- The only fact about HMAC-SHA256 the C27 theorems use. -/
theorem hmac_length (k m : Bytes) : (hmac k m).length = 32 := sha256_length _

end Vgi.OAuth.Sha256
