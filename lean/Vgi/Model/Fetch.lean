import Vgi.Util
/-!
Model of the external fetch in `vgirpc/external.go`: the validation + retry loop of
`ResolveExternalLocation`, `fetchExternalData` (redirect policy, status, size caps, optional
zstd decoding), `decompressZstdCapped`, the config defaulting helpers and the error texts
(`redactExternalURL` is a `World` function: `net/url` is not modelled).

The origin is a script: for attempt number `k` and a URL it says what the answer is — a redirect
to a target, a 200 with a body, another status, or a transport error. URLs are the strings the
Go client would put in `req.URL.String()` (redirect targets already resolved).
-/
namespace Vgi.Fetch

/-! ### Configuration (defaults as in the `(*ExternalLocationConfig)` helpers) -/

structure Cfg where
  maxRetries      : Int
  maxFetch        : Int
  maxDecompressed : Int
  maxRedirects    : Int
  deriving Repr

def defaultDecompressionCap : Nat := 4294967296     -- 4 GiB
def defaultMaxFetch : Nat := 268435456              -- 256 MiB

/-- `maxRetries()`: non-positive → 2, more than 2 → 2. -/
def retriesOf (c : Cfg) : Nat :=
  if c.maxRetries ≤ 0 then 2 else if c.maxRetries > 2 then 2 else c.maxRetries.toNat

/-- `maxAttempts := config.maxRetries() + 1`. -/
def attemptsOf (c : Cfg) : Nat := retriesOf c + 1

def maxFetchOf (c : Cfg) : Nat := if c.maxFetch ≤ 0 then defaultMaxFetch else c.maxFetch.toNat
def maxDecompressedOf (c : Cfg) : Nat :=
  if c.maxDecompressed ≤ 0 then defaultDecompressionCap else c.maxDecompressed.toNat
def maxRedirectsOf (c : Cfg) : Nat := if c.maxRedirects ≤ 0 then 5 else c.maxRedirects.toNat

/-! ### The origin and one response -/

structure Body where
  declared : Int          -- resp.ContentLength (-1 when the length is not declared)
  bytes    : Bytes        -- what the body reader yields
  readErr  : Bool         -- the body read fails (connection cut mid-body)
  zstd     : Bool         -- Content-Encoding: zstd
  deriving DecidableEq, Repr

inductive Resp
  | redirect (target : Bytes)   -- 3xx with a Location; target = the next request's URL
  | ok (b : Body)               -- 200
  | status (code : Nat)         -- any other final status (incl. a 3xx without Location)
  | transport                   -- the round trip failed
  deriving DecidableEq, Repr

inductive FetchErr
  | redirectLimit
  | rejected                              -- a redirect target refused by the validator
  | transport
  | status (code : Nat)
  | declaredTooLarge (declared : Int)
  | readBody
  | tooLarge
  | decompress
  deriving DecidableEq, Repr

/-- Library functions (not verified). -/
structure World where
  zdec   : Bytes → Option Bytes     -- full zstd decoding; none = corrupt input
  zwin   : Bytes → Nat              -- the frame's window size as the decoder computes it
  redact : Bytes → Bytes            -- redactExternalURL

/-- `decompressZstdCapped(data, cap)` for `cap > 0`: an output longer than the cap is an error; so
is a frame whose window exceeds the cap (`zstd.WithDecoderMaxMemory(cap)` bounds the decoder's
memory, and a window is at least 1 KiB — caps below 1 KiB refuse every payload). -/
def decompressCapped (w : World) (data : Bytes) (cap : Nat) : Option Bytes :=
  match w.zdec data with
  | none => none
  | some out => if out.length > cap || w.zwin data > cap then none else some out

/-- The part of `fetchExternalData` after a 200 arrived. -/
def handleBody (w : World) (c : Cfg) (b : Body) : Except FetchErr Bytes :=
  if b.declared > (maxFetchOf c : Int) then .error (.declaredTooLarge b.declared)
  else if b.readErr then .error .readBody
  else if b.bytes.length > maxFetchOf c then .error .tooLarge
  else if b.zstd then
    match decompressCapped w b.bytes (maxDecompressedOf c) with
    | some out => .ok out
    | none => .error .decompress
  else .ok b.bytes

/-- `validator != nil && validator(u) != nil`. -/
def rejectedBy (validator : Option (Bytes → Bool)) (u : Bytes) : Bool :=
  match validator with
  | some v => !v u
  | none => false

/-- One `fetchClient.Get`: the request to `url`, then the redirect walk under `CheckRedirect`.
`rem` = redirects still allowed (`len(via) > maxRedirects` fails the hop). Returns the requests
that were SENT, in order, and the outcome. A rejected or over-limit target is never requested. -/
def hop (w : World) (c : Cfg) (validator : Option (Bytes → Bool)) (origin : Bytes → Resp) :
    Nat → Bytes → List Bytes × Except FetchErr Bytes
  | rem, url =>
    match origin url with
    | .redirect t =>
      match rem with
      | 0 => ([url], .error .redirectLimit)
      | rem' + 1 =>
        if rejectedBy validator t then ([url], .error .rejected)
        else
          let r := hop w c validator origin rem' t
          (url :: r.1, r.2)
    | .ok b => ([url], handleBody w c b)
    | .status n => ([url], .error (.status n))
    | .transport => ([url], .error .transport)

/-- `fetchExternalData(client, rawURL, validator, caps…)`. -/
def fetchOnce (w : World) (c : Cfg) (validator : Option (Bytes → Bool)) (origin : Bytes → Resp)
    (url : Bytes) : List Bytes × Except FetchErr Bytes :=
  hop w c validator origin (maxRedirectsOf c) url

/-- The retry loop: attempt `k` sees `origin k`; stop at the first success. Returns the request
log of every attempt made and the last outcome. -/
def attempts (w : World) (c : Cfg) (validator : Option (Bytes → Bool)) (origin : Nat → Bytes → Resp)
    (url : Bytes) : Nat → Nat → List (List Bytes) × Except FetchErr Bytes
  | 0, _ => ([], .error .transport)          -- unreachable: attemptsOf ≥ 2
  | 1, k => let r := fetchOnce w c validator (origin k) url; ([r.1], r.2)
  | n + 2, k =>
    let r := fetchOnce w c validator (origin k) url
    match r.2 with
    | .ok d => ([r.1], .ok d)
    | .error _ =>
      let rest := attempts w c validator origin url (n + 1) (k + 1)
      (r.1 :: rest.1, rest.2)

inductive Outcome
  | rejectedFirst                  -- the first URL was refused: nothing is sent
  | failed (n : Nat) (e : FetchErr) -- "fetching external data after n attempts: e"
  | fetched (data : Bytes)
  deriving DecidableEq, Repr

/-- The validation and fetch part of `ResolveExternalLocation` for a non-empty pointer URL. -/
def fetchAll (w : World) (c : Cfg) (validator : Option (Bytes → Bool)) (origin : Nat → Bytes → Resp)
    (url : Bytes) : List (List Bytes) × Outcome :=
  if rejectedBy validator url then ([], .rejectedFirst)
  else
    let r := attempts w c validator origin url (attemptsOf c) 0
    match r.2 with
    | .ok d => (r.1, .fetched d)
    | .error e => (r.1, .failed (attemptsOf c) e)

/-! ### Error texts -/

def natStr (n : Nat) : Bytes := bytesOfString (toString n)
def intStr (n : Int) : Bytes := bytesOfString (toString n)
def str (s : String) : Bytes := bytesOfString s

/-- The text of a `fetchExternalData` error for the pointer URL `rawURL` (the decompression error
is followed by the zstd library's own text, which is not modelled). -/
def fetchErrText (w : World) (c : Cfg) (rawURL : Bytes) : FetchErr → Bytes
  | .redirectLimit => str "external fetch redirect limit (" ++ natStr (maxRedirectsOf c) ++ str ") exceeded"
  | .rejected => str "URL rejected by validator"
  | .transport => str "GET " ++ w.redact rawURL ++ str " failed"
  | .status n => str "GET " ++ w.redact rawURL ++ str ": status " ++ natStr n
  | .declaredTooLarge d => str "external response Content-Length " ++ intStr d ++
      str " exceeds max_fetch_bytes=" ++ natStr (maxFetchOf c)
  | .readBody => str "reading external response body from " ++ w.redact rawURL
  | .tooLarge => str "external response exceeds max_fetch_bytes=" ++ natStr (maxFetchOf c)
  | .decompress => str "decompressing zstd data from " ++ w.redact rawURL ++
      str " exceeds max_decompressed_bytes=" ++ natStr (maxDecompressedOf c) ++ str ": "

/-- `"fetching external data after %d attempts: %w"`. -/
def failedText (w : World) (c : Cfg) (rawURL : Bytes) (n : Nat) (e : FetchErr) : Bytes :=
  str "fetching external data after " ++ natStr n ++ str " attempts: " ++ fetchErrText w c rawURL e

end Vgi.Fetch
