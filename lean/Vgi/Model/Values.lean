import Vgi.Util
/-!
Model of the value (de)serializer of `vgirpc` (C08, shared with C07):

* `types_schema.go`      `parseTag`, `goTypeToArrowTypeAt`, `structFieldsOf`, `structArrowType`,
                         `tagName`, `goFieldForArrowName`
* `types_convert.go`     `toInt64`, `toUint64`
* `types_serialize.go`   `daysSinceEpoch`, `microsSinceMidnight`, `decimalFromValue`, `buildArray` /
                         `appendToBuilder` (one model function: the two Go functions repeat the same
                         conversions), `sortMapKeys`, `buildStructArray`, `serializeVgirpcStruct`
* `types_deserialize.go` `timestampToTime`, `setFieldFromArrow`, `setIntField`/`setUintField`,
                         `setListField`, `setMapField`, `setStructField`, `deserializeParams` (value part)

Go's `time.Time` is modelled as `(sec, nsec)` = Unix seconds (floor) and nanoseconds in the second;
`time.Duration` / `int64` arithmetic wraps modulo 2^64 where the code multiplies. Library
functions used by the code (`time.Unix`, `time.UnixMicro`, `Time.Add`, `Time.Clock`, `Time.Unix`,
`time.Date(..).AddDate`, `decimal128.FromString/ToString`, reflect `SetInt/SetUint` truncation)
are modelled after their documented behaviour and validated by the correspondence run; no theorem
is about their internals.

Byte strings (names, tags, string values) are `List Char` with one `Char` per byte.
-/
namespace Vgi.Values

abbrev BStr := List Char

inductive Err
  | derive      -- the type cannot be described (describeStruct error)
  | encode      -- buildArray / appendToBuilder returned an error or panicked
  | decode      -- setFieldFromArrow returned an error or panicked
  | unmodelled  -- outside the modelled family (driver answers bad-op)
  deriving DecidableEq, Repr

/-! ## Integer arithmetic -/

/-- Go's `/` on integers for a positive divisor: truncation toward zero. -/
def tquot (a b : Int) : Int := if 0 ≤ a then a / b else -((-a) / b)
/-- Go's `%` for a positive divisor. -/
def trem (a b : Int) : Int := a - b * tquot a b

/-- `int64(x)` of a mathematical integer: two's complement wrap-around. -/
def wrapS64 (x : Int) : Int := (x + 9223372036854775808) % 18446744073709551616 - 9223372036854775808
/-- `int32(x)`. -/
def wrapS32 (x : Int) : Int := (x + 2147483648) % 4294967296 - 2147483648

/-- An integer machine type: signedness and width. -/
structure ITy where
  signed : Bool
  bits : Nat
  deriving DecidableEq, Repr

def ITy.lo (t : ITy) : Int := if t.signed then -((2 : Int) ^ (t.bits - 1)) else 0
def ITy.hi (t : ITy) : Int := if t.signed then (2 : Int) ^ (t.bits - 1) else (2 : Int) ^ t.bits
def ITy.InRange (t : ITy) (v : Int) : Prop := t.lo ≤ v ∧ v < t.hi
instance (t : ITy) (v : Int) : Decidable (t.InRange v) := inferInstanceAs (Decidable (_ ∧ _))

/-- Conversion of a mathematical integer to machine type `t` (Go conversion semantics). -/
def wrap (t : ITy) (x : Int) : Int :=
  if t.signed then (x + (2 : Int) ^ (t.bits - 1)) % (2 : Int) ^ t.bits - (2 : Int) ^ (t.bits - 1)
  else x % (2 : Int) ^ t.bits

def i64 : ITy := ⟨true, 64⟩
def u64 : ITy := ⟨false, 64⟩

/-- `buildArray` INT*/UINT*: `toInt64` (signed wire) or `toUint64` (unsigned wire) of the Go
value, then the cast to the wire width. -/
def encodeInt (wire : ITy) (v : Int) : Int :=
  wrap wire (if wire.signed then wrap i64 v else wrap u64 v)

/-- `setFieldFromArrow` for integer arrays: widen to `int64`/`uint64`, then
`setIntField`/`setUintField` (cross-signedness goes through the other 64-bit type), then reflect's
`SetInt`/`SetUint`, which truncate to the destination width. -/
def decodeInt (go wire : ITy) (w : Int) : Int :=
  if wire.signed then
    (if go.signed then wrap go (wrap i64 w) else wrap go (wrap u64 (wrap i64 w)))
  else
    (if go.signed then wrap go (wrap i64 (wrap u64 w)) else wrap go (wrap u64 w))

/-! ## Go time -/

structure GoTime where
  sec : Int      -- Unix seconds (floor)
  nsec : Int     -- 0 ≤ nsec < 10^9
  deriving DecidableEq, Repr

/-- `time.Unix(sec, nsec)`. -/
def goUnix (sec nsec : Int) : GoTime :=
  if nsec < 0 ∨ nsec ≥ 1000000000 then
    let n := tquot nsec 1000000000
    let sec := sec + n
    let nsec := nsec - n * 1000000000
    if nsec < 0 then ⟨sec - 1, nsec + 1000000000⟩ else ⟨sec, nsec⟩
  else ⟨sec, nsec⟩

/-- `t.Add(d)` for `d : int64` nanoseconds (no saturation inside the modelled range). -/
def goAdd (t : GoTime) (d : Int) : GoTime :=
  let dsec := tquot d 1000000000
  let nsec := t.nsec + trem d 1000000000
  if nsec ≥ 1000000000 then ⟨t.sec + dsec + 1, nsec - 1000000000⟩
  else if nsec < 0 then ⟨t.sec + dsec - 1, nsec + 1000000000⟩
  else ⟨t.sec + dsec, nsec⟩

/-- `t.UTC().UnixMicro()`: `sec*1e6 + nsec/1e3` in wrapping int64 arithmetic. -/
def unixMicro (t : GoTime) : Int := wrapS64 (t.sec * 1000000 + t.nsec / 1000)

/-- `timestampToTime(v, timestamp[us])` = `time.UnixMicro(v).UTC()` =
`time.Unix(v/1e6, (v%1e6)*1e3)`. -/
def timestampToTime (us : Int) : GoTime := goUnix (tquot us 1000000) (trem us 1000000 * 1000)

/-- `daysSinceEpoch(t)`: floor of `t.Unix()/86400`, cast to int32. -/
def daysSinceEpoch (t : GoTime) : Int :=
  let days := tquot t.sec 86400
  let days := if trem t.sec 86400 < 0 then days - 1 else days
  wrapS32 days

/-- `time.Date(1970,1,1,0,0,0,0,UTC).AddDate(0,0,int(d))`. -/
def date32ToTime (d : Int) : GoTime := ⟨d * 86400, 0⟩

/-- `microsSinceMidnight(t)`: `t.UTC().Clock()` and the microsecond of the second. -/
def microsSinceMidnight (t : GoTime) : Int :=
  let sod := t.sec % 86400
  let h := sod / 3600
  let m := sod % 3600 / 60
  let s := sod % 60
  h * 3600000000 + m * 60000000 + s * 1000000 + t.nsec / 1000

/-- Decode of time64[us]: `epoch.Add(time.Duration(us) * time.Microsecond)`. -/
def time64ToTime (us : Int) : GoTime := goAdd ⟨0, 0⟩ (wrapS64 (us * 1000))

/-- `d.Microseconds()`. -/
def durEncode (ns : Int) : Int := tquot ns 1000
/-- `time.Duration(v) * time.Microsecond`. -/
def durDecode (us : Int) : Int := wrapS64 (us * 1000)

/-! ## decimal128(20,4) ⇄ string -/

def digitChar (d : Nat) : Char := Char.ofNat (48 + d)
def digitVal (c : Char) : Option Nat := if 48 ≤ c.toNat ∧ c.toNat ≤ 57 then some (c.toNat - 48) else none

/-- Decimal digits of `n`, most significant first (`fuel` > number of digits). -/
def natDigits : Nat → Nat → List Char
  | 0, _ => []
  | f + 1, n => if n < 10 then [digitChar n] else natDigits f (n / 10) ++ [digitChar (n % 10)]
def natStr (n : Nat) : List Char := natDigits (n + 1) n

def parseDigitsAcc : Nat → List Char → Option Nat
  | acc, [] => some acc
  | acc, c :: r => match digitVal c with
    | some d => parseDigitsAcc (acc * 10 + d) r
    | none => none
/-- All characters are digits (the empty string is 0). -/
def parseDigits (cs : List Char) : Option Nat := parseDigitsAcc 0 cs

def intStr (n : Int) : List Char := if n < 0 then '-' :: natStr n.natAbs else natStr n.natAbs

def pad4 (m : Nat) : List Char :=
  [digitChar (m / 1000 % 10), digitChar (m / 100 % 10), digitChar (m / 10 % 10), digitChar (m % 10)]

/-- `decimal128.Num.ToString(4)`. -/
def decToString (n : Int) : List Char :=
  (if n < 0 then ['-'] else []) ++ natStr (n.natAbs / 10000) ++ ['.'] ++ pad4 (n.natAbs % 10000)

def decLimit : Int := 100000000000000000000   -- 10^20: FitsInPrecision(20)

/-- Scaled magnitude of `ip.fp`: four fraction digits, the rest rounded half away from zero
(the library adds ±0.5 and truncates). -/
def decScale (ip : Nat) (fp : List Char) : Option Nat :=
  let f4 := (fp ++ ['0', '0', '0', '0']).take 4
  match parseDigits f4, parseDigits (fp.drop 4) with
  | some f, some _ =>
    let up := match (fp.drop 4).head? with
      | some c => if c.toNat ≥ 53 then 1 else 0
      | none => 0
    some (ip * 10000 + f + up)
  | _, _ => none

/-- Magnitude of an unsigned plain decimal `digits[.digits]` (at least one digit), scaled by 10⁴. -/
def decParseBody (body : List Char) : Option Nat :=
  let ipart := body.takeWhile (· ≠ '.')
  let fpart := (body.dropWhile (· ≠ '.')).drop 1
  if ipart.isEmpty ∧ fpart.isEmpty then none
  else match parseDigits ipart with
    | none => none
    | some ip => decScale ip fpart

/-- `decimal128.FromString(s, 20, 4)` on plain decimal strings `[+-]digits[.digits]`; a value
that does not fit 20 digits of precision is an error. -/
def decParse (s : List Char) : Except Err Int :=
  let neg := s.head? = some '-'
  let body := if s.head? = some '-' ∨ s.head? = some '+' then s.drop 1 else s
  match decParseBody body with
  | none => .error .encode
  | some m =>
    if (m : Int) < decLimit then .ok (if neg then -(m : Int) else (m : Int)) else .error .encode

/-! ## Types -/

inductive Kind
  | int (t : ITy)     -- int8..int64, int (= 64 bits), uint8..uint64, uint
  | f32 | f64 | bool | str | time | dur
  deriving DecidableEq, Repr

mutual
/-- Go field types of the supported family. `bytes` is `[]byte` (a slice whose element kind is
uint8); the fields of a struct carry their `vgirpc` and `arrow` tag values. -/
inductive GoTy
  | prim (k : Kind)
  | bytes
  | ptr (t : GoTy)
  | slice (t : GoTy)
  | map (k v : GoTy)
  | struct (fs : GoFields)
inductive GoFields
  | nil
  | cons (tag atag : BStr) (t : GoTy) (rest : GoFields)
end

mutual
/-- Arrow data types the derivation produces. -/
inductive ATy
  | int (t : ITy) | f32 | f64 | bool | utf8 | largeUtf8 | binary | largeBinary | fixed (w : Nat)
  | date32 | ts (utc : Bool) | time64 | dur | dec | dict
  | list (e : ATy) | map (k v : ATy) | struct (fs : AFields)
  | other (id : Nat)      -- any Arrow type the derivation never produces (only a peer's batch can carry it)
inductive AFields
  | nil
  | cons (name : BStr) (t : ATy) (nullable : Bool) (rest : AFields)
end

/-! ## Tags (`parseTag`) -/

structure TagInfo where
  name : BStr
  dflt : Option BStr := none
  arrowType : BStr := []
  elemType : BStr := []
  nullable : Bool := false
  deriving DecidableEq, Repr

/-- `strings.Split(s, ",")`. -/
def splitComma : BStr → List BStr
  | [] => [[]]
  | c :: r =>
    match splitComma r with
    | [] => [[]]            -- unreachable
    | p :: ps => if c = ',' then [] :: p :: ps else (c :: p) :: ps

def kwDefault : BStr := ['d', 'e', 'f', 'a', 'u', 'l', 't', '=']
def kwElem : BStr := ['e', 'l', 'e', 'm', '=']
def kwNullable : BStr := ['n', 'u', 'l', 'l', 'a', 'b', 'l', 'e']

def applyTagPart (info : TagInfo) (part : BStr) : TagInfo :=
  if kwDefault.isPrefixOf part then { info with dflt := some (part.drop kwDefault.length) }
  else if kwElem.isPrefixOf part then { info with elemType := part.drop kwElem.length }
  else if part = kwNullable then { info with nullable := true }
  else { info with arrowType := part }

def parseTag (tag : BStr) : TagInfo :=
  match splitComma tag with
  | [] => { name := [] }
  | n :: parts => parts.foldl applyTagPart { name := n }

/-- `tagName`: the part before the first comma; "" for an absent or "-" tag. -/
def tagName (tag : BStr) : BStr :=
  if tag = [] ∨ tag = ['-'] then [] else tag.takeWhile (· ≠ ',')

/-- A struct field takes part in the schema iff its `vgirpc` tag is neither "" nor "-". -/
def tagged (tag : BStr) : Bool := !(tag = [] ∨ tag = ['-'])

/-! ## Schema derivation (`goTypeToArrowTypeAt`, `structFieldsOf`) -/

def maxStructNestDepth : Nat := 8

def kwFixedPre : BStr := ['f', 'i', 'x', 'e', 'd', '_', 'b', 'i', 'n', 'a', 'r', 'y', '[']

/-- `strconv.Atoi` restricted to what a tag can sensibly carry: optional sign, digits. -/
def atoi (cs : BStr) : Option Int :=
  let (neg, body) := match cs with
    | '-' :: r => (true, r)
    | '+' :: r => (false, r)
    | r => (false, r)
  if body.isEmpty then none
  else match parseDigits body with
    | some n => some (if neg then -(n : Int) else n)
    | none => none

/-- The tag overrides that ignore the Go type (first `switch tag.ArrowType`). -/
def overrideTy (aty : BStr) : Option ATy :=
  if aty = ['i', 'n', 't', '8'] then some (.int ⟨true, 8⟩)
  else if aty = ['i', 'n', 't', '1', '6'] then some (.int ⟨true, 16⟩)
  else if aty = ['i', 'n', 't', '3', '2'] then some (.int ⟨true, 32⟩)
  else if aty = ['u', 'i', 'n', 't', '8'] then some (.int ⟨false, 8⟩)
  else if aty = ['u', 'i', 'n', 't', '1', '6'] then some (.int ⟨false, 16⟩)
  else if aty = ['u', 'i', 'n', 't', '3', '2'] then some (.int ⟨false, 32⟩)
  else if aty = ['u', 'i', 'n', 't', '6', '4'] then some (.int ⟨false, 64⟩)
  else if aty = ['f', 'l', 'o', 'a', 't', '3', '2'] then some .f32
  else if aty = ['e', 'n', 'u', 'm'] then some .dict
  else if aty = ['d', 'i', 'c', 't', '_', 's', 't', 'r', 'i', 'n', 'g'] then some .dict
  else if aty = ['b', 'i', 'n', 'a', 'r', 'y'] then some .binary
  else if aty = ['l', 'a', 'r', 'g', 'e', '_', 's', 't', 'r', 'i', 'n', 'g'] then some .largeUtf8
  else if aty = ['l', 'a', 'r', 'g', 'e', '_', 'b', 'i', 'n', 'a', 'r', 'y'] then some .largeBinary
  else if aty = ['d', 'a', 't', 'e'] then some .date32
  else if aty = ['t', 'i', 'm', 'e', 's', 't', 'a', 'm', 'p'] then some (.ts false)
  else if aty = ['t', 'i', 'm', 'e', 's', 't', 'a', 'm', 'p', '_', 'u', 't', 'c'] then some (.ts true)
  else if aty = ['t', 'i', 'm', 'e'] then some .time64
  else if aty = ['d', 'u', 'r', 'a', 't', 'i', 'o', 'n'] then some .dur
  else if aty = ['d', 'e', 'c', 'i', 'm', 'a', 'l'] then some .dec
  else none

def kwStruct : BStr := ['s', 't', 'r', 'u', 'c', 't']

/-- `fixed_binary[N]`: `some (ok w)` / `some error` when the tag has that shape, `none` otherwise. -/
def fixedTag (aty : BStr) : Option (Except Err ATy) :=
  if kwFixedPre.isPrefixOf aty ∧ aty.getLast? = some ']' then
    let inner := (aty.drop kwFixedPre.length).dropLast
    match atoi inner with
    | some w => if w ≤ 0 then some (.error .derive) else some (.ok (.fixed w.toNat))
    | none => some (.error .derive)
  else none

def derefTy : GoTy → GoTy
  | .ptr t => t
  | t => t

def isPtr : GoTy → Bool
  | .ptr _ => true
  | _ => false

def AFields.length : AFields → Nat
  | .nil => 0
  | .cons _ _ _ r => r.length + 1

mutual
/-- `goTypeToArrowTypeAt` after the pointer has been stripped (`t = t.Elem()`): the data type
only (nullability is `tag.Nullable || t is a pointer`). The recursive calls strip the child's
pointer in place, as the Go function does on entry. -/
def deriveS : GoTy → BStr → BStr → Nat → Except Err ATy
  | t, aty, et, depth =>
    match overrideTy aty with
    | some a => .ok a
    | none =>
      if aty = kwStruct then
        -- structArrowType
        if depth ≥ maxStructNestDepth then .error .derive
        else match t with
          | .struct fs => match deriveFields fs (depth + 1) with
            | .ok afs => if afs.length = 0 then .error .derive else .ok (.struct afs)
            | .error e => .error e
          | _ => .error .derive
      else match fixedTag aty with
        | some r => r
        | none => match t with
          | .prim (.int it) => .ok (.int ⟨it.signed, it.bits⟩)
          | .prim .f32 => .ok .f32
          | .prim .f64 => .ok .f64
          | .prim .bool => .ok .bool
          | .prim .str => .ok .utf8
          | .prim .dur => .ok (.int i64)       -- kind Int64
          | .prim .time => .error .derive      -- kind Struct without the struct tag
          | .bytes => .ok .binary
          | .slice e =>
            match (match e with
              | .ptr e' => deriveS e' et [] depth
              | e' => deriveS e' et [] depth) with
            | .ok a => .ok (.list a)
            | .error e => .error e
          | .map k v =>
            match (match k with
              | .ptr k' => deriveS k' [] [] depth
              | k' => deriveS k' [] [] depth),
              (match v with
              | .ptr v' => deriveS v' [] [] depth
              | v' => deriveS v' [] [] depth) with
            | .ok ka, .ok va => .ok (.map ka va)
            | .error e, _ => .error e
            | _, .error e => .error e
          | .struct _ => .error .derive        -- a struct kind without the struct tag
          | .ptr _ => .error .derive           -- a second pointer level is an unsupported kind
/-- `structFieldsOf(t, depth)`. -/
def deriveFields : GoFields → Nat → Except Err AFields
  | .nil, _ => .ok .nil
  | .cons tag _ t rest, depth =>
    if tagged tag then
      match (match t with
        | .ptr t' => deriveS t' (parseTag tag).arrowType (parseTag tag).elemType depth
        | t' => deriveS t' (parseTag tag).arrowType (parseTag tag).elemType depth) with
      | .error e => .error e
      | .ok a => match deriveFields rest depth with
        | .error e => .error e
        | .ok r => .ok (.cons (parseTag tag).name a ((parseTag tag).nullable || isPtr t) r)
    else deriveFields rest depth
end

/-- `goTypeToArrowTypeAt(t, tagInfo{ArrowType: aty, ElemType: et}, depth)`. -/
def deriveTy (t : GoTy) (aty et : BStr) (depth : Nat) : Except Err ATy := deriveS (derefTy t) aty et depth

/-! ## Values and wire cells -/

mutual
/-- Go values. A pointer is `nil` or (implicitly) its pointee. Struct values carry the tags of
their Go type (the dynamic type information `buildStructArray` reflects on). -/
inductive Val
  | nil
  | int (v : Int)
  | f32 (bits : Nat)
  | f64 (bits : Nat)
  | bool (b : Bool)
  | str (s : BStr)
  | bytes (b : BStr)
  | time (t : GoTime)
  | dur (ns : Int)
  | slice (isNil : Bool) (vs : Vals)
  | map (isNil : Bool) (kvs : KVs)
  | struct (fs : SFields)
inductive Vals
  | nil
  | cons (v : Val) (rest : Vals)
inductive KVs
  | nil
  | cons (k v : Val) (rest : KVs)
inductive SFields
  | nil
  | cons (tag atag : BStr) (v : Val) (rest : SFields)
end

inductive BinKind | normal | large | fixed
  deriving DecidableEq, Repr

mutual
/-- One slot of an Arrow array, tagged with the array type `setFieldFromArrow` switches on. -/
inductive Cell
  | null
  | int (t : ITy) (v : Int)
  | f32 (bits : Nat)
  | f64 (bits : Nat)
  | bool (b : Bool)
  | str (large : Bool) (s : BStr)
  | bin (k : BinKind) (b : BStr)
  | date (d : Int)
  | ts (us : Int)
  | time (us : Int)
  | dur (us : Int)
  | dec (n : Int)
  | dict (entries : List BStr) (idx : Nat)   -- a dictionary slot: the column's dictionary and this row's index into it
  | list (cs : Cells)
  | map (kvs : CKVs)
  | struct (fs : CFields)
inductive Cells
  | nil
  | cons (c : Cell) (rest : Cells)
inductive CKVs
  | nil
  | cons (k v : Cell) (rest : CKVs)
inductive CFields
  | nil
  | cons (name : BStr) (c : Cell) (rest : CFields)
end

/-! ## Map key order (`sortMapKeys`) -/

def bstrLt : BStr → BStr → Bool
  | [], [] => false
  | [], _ :: _ => true
  | _ :: _, [] => false
  | a :: as, b :: bs => if a.toNat < b.toNat then true else if b.toNat < a.toNat then false else bstrLt as bs

/-- Sort key of a map-key cell: the string itself, or the decimal text of an integer key
("10" < "9", the historical ordering the code keeps). -/
def cellKeyText : Cell → BStr
  | .str _ s => s
  | .dict es i => es.getD i []
  | .int _ v => intStr v
  | _ => []

def cellKeyLt (a b : Cell) : Bool := bstrLt (cellKeyText a) (cellKeyText b)

def insertCKV (k v : Cell) : CKVs → CKVs
  | .nil => .cons k v .nil
  | .cons k' v' r => if cellKeyLt k' k then .cons k' v' (insertCKV k v r) else .cons k v (.cons k' v' r)

/-- The entries of a map column in sorted key order. (The Go code sorts the keys and then
appends; encoding and then sorting by the same key is the same list.) -/
def sortCKVs : CKVs → CKVs
  | .nil => .nil
  | .cons k v r => insertCKV k v (sortCKVs r)

/-! ## Encoding (`buildArray` / `appendToBuilder`) -/

def AFields.mapM (f : BStr → ATy → Except Err Cell) : AFields → Except Err CFields
  | .nil => .ok .nil
  | .cons n a _ r => match f n a with
    | .error e => .error e
    | .ok c => match AFields.mapM f r with
      | .error e => .error e
      | .ok cs => .ok (.cons n c cs)

/-- Does some field carry `name` in its `arrow` tag? (first pass of `goFieldForArrowName`) -/
def SFields.hasArrow (name : BStr) : SFields → Bool
  | .nil => false
  | .cons _ atag _ r => tagName atag = name || SFields.hasArrow name r

/-- Leaf conversions of `buildArray`, by wire type and dynamic Go type of the value. -/
def encodeLeaf : ATy → Val → Except Err Cell
  | .utf8, .str x => .ok (.str false x)
  | .utf8, _ => .error .unmodelled            -- fmt.Sprintf("%v")
  | .largeUtf8, .str x => .ok (.str true x)
  | .largeUtf8, _ => .error .unmodelled
  | .dict, .str x => .ok (.dict [x] 0)       -- a one-value dictionary builder: entry 0
  | .dict, _ => .error .unmodelled
  | .int t, .int v => .ok (.int t (encodeInt t v))
  | .int _, _ => .error .encode
  | .f64, .f64 b => .ok (.f64 b)
  | .f64, .f32 _ => .error .unmodelled        -- float widening / int→float need float arithmetic
  | .f64, .int _ => .error .unmodelled
  | .f64, _ => .error .encode
  | .f32, .f32 b => .ok (.f32 b)
  | .f32, .f64 _ => .error .unmodelled
  | .f32, .int _ => .error .unmodelled
  | .f32, _ => .error .encode
  | .bool, .bool b => .ok (.bool b)
  | .bool, _ => .error .encode
  | .binary, .bytes b => .ok (.bin .normal b)
  | .binary, _ => .error .encode
  | .largeBinary, .bytes b => .ok (.bin .large b)
  | .largeBinary, _ => .error .encode
  | .fixed w, .bytes b => if b.length = w then .ok (.bin .fixed b) else .error .encode
  | .fixed _, _ => .error .encode
  | .date32, .time t => .ok (.date (daysSinceEpoch t))
  | .date32, _ => .error .encode
  | .ts _, .time t => .ok (.ts (unixMicro t))
  | .ts _, _ => .error .encode
  | .time64, .time t => .ok (.time (microsSinceMidnight t))
  | .time64, _ => .error .encode
  | .dur, .dur ns => .ok (.dur (durEncode ns))
  | .dur, .int _ => .error .unmodelled        -- asDuration converts any integer kind
  | .dur, .f32 _ => .error .unmodelled
  | .dur, .f64 _ => .error .unmodelled
  | .dur, _ => .error .encode
  | .dec, .str x => match decParse x with
    | .ok n => .ok (.dec n)
    | .error e => .error e
  | .dec, _ => .error .encode
  | _, _ => .error .encode

/-- A collection or struct value under a wire type that is not its own: the string-like wire
types format any value with `%v` (outside the model), every other conversion refuses it. -/
def encodeMismatch : ATy → Except Err Cell
  | .utf8 => .error .unmodelled
  | .largeUtf8 => .error .unmodelled
  | .dict => .error .unmodelled
  | _ => .error .encode

mutual
/-- `buildArray(dt, value)` / `appendToBuilder(b, dt, value)`: nil pointer → null; otherwise one
pointer level is dereferenced (implicit in `Val`) and the value converted by wire type. -/
def encode (a : ATy) : Val → Except Err Cell
  | .nil => .ok .null
  | .slice _ vs => match a with
    | .list ea => match encodeElems ea vs with
      | .ok cs => .ok (.list cs)
      | .error e => .error e
    | a => encodeMismatch a
  | .map _ kvs => match a with
    | .map ka va => match encodeKVs ka va kvs with
      | .ok cs => .ok (.map (sortCKVs cs))
      | .error e => .error e
    | a => encodeMismatch a
  | .struct sfs => match a with
    | .struct afs =>
      match afs.mapM (fun name ca =>
          if sfs.hasArrow name then encodeByArrow ca name sfs else encodeByTag ca name sfs) with
      | .ok cs => .ok (.struct cs)
      | .error e => .error e
    | a => encodeMismatch a
  | .int v => encodeLeaf a (.int v)
  | .f32 b => encodeLeaf a (.f32 b)
  | .f64 b => encodeLeaf a (.f64 b)
  | .bool b => encodeLeaf a (.bool b)
  | .str x => encodeLeaf a (.str x)
  | .bytes b => encodeLeaf a (.bytes b)
  | .time t => encodeLeaf a (.time t)
  | .dur ns => encodeLeaf a (.dur ns)
def encodeElems (a : ATy) : Vals → Except Err Cells
  | .nil => .ok .nil
  | .cons v r => match encode a v with
    | .error e => .error e
    | .ok c => match encodeElems a r with
      | .error e => .error e
      | .ok cs => .ok (.cons c cs)
def encodeKVs (ka va : ATy) : KVs → Except Err CKVs
  | .nil => .ok .nil
  | .cons k v r => match encode ka k with
    | .error e => .error e
    | .ok ck => match encode va v with
      | .error e => .error e
      | .ok cv => match encodeKVs ka va r with
        | .error e => .error e
        | .ok cs => .ok (.cons ck cv cs)
/-- `getFieldValue`: the first Go field whose `arrow` tag name matches. -/
def encodeByArrow (a : ATy) (name : BStr) : SFields → Except Err Cell
  | .nil => .ok .null
  | .cons _ atag v r => if tagName atag = name then encode a v else encodeByArrow a name r
/-- … otherwise the first whose `vgirpc` tag name matches; no field → null. -/
def encodeByTag (a : ATy) (name : BStr) : SFields → Except Err Cell
  | .nil => .ok .null
  | .cons tag _ v r => if tagName tag = name then encode a v else encodeByTag a name r
end

/-! ## Decoding (`setFieldFromArrow`) -/

mutual
/-- The zero value of a Go type (what a field keeps when its column/child/element is null). -/
def zeroVal : GoTy → Val
  | .prim (.int _) => .int 0
  | .prim .f32 => .f32 0
  | .prim .f64 => .f64 0
  | .prim .bool => .bool false
  | .prim .str => .str []
  | .prim .time => .time ⟨-62135596800, 0⟩     -- time.Time{}: 0001-01-01T00:00:00Z
  | .prim .dur => .dur 0
  | .bytes => .bytes []
  | .ptr _ => .nil
  | .slice _ => .slice true .nil
  | .map _ _ => .map true .nil
  | .struct fs => .struct (zeroFields fs)
def zeroFields : GoFields → SFields
  | .nil => .nil
  | .cons tag atag t r => .cons tag atag (zeroVal t) (zeroFields r)
end

def GoFields.length : GoFields → Nat
  | .nil => 0
  | .cons _ _ _ r => r.length + 1

/-- `goFieldForArrowName`, first pass (`arrow` tags). -/
def GoFields.findArrow (name : BStr) : GoFields → Nat → Option (Nat × GoTy)
  | .nil, _ => none
  | .cons _ atag t r, i => if tagName atag = name then some (i, t) else GoFields.findArrow name r (i + 1)
/-- second pass (`vgirpc` tags). -/
def GoFields.findTag (name : BStr) : GoFields → Nat → Option (Nat × GoTy)
  | .nil, _ => none
  | .cons tag _ t r, i => if tagName tag = name then some (i, t) else GoFields.findTag name r (i + 1)
def GoFields.find (name : BStr) (fs : GoFields) : Option (Nat × GoTy) :=
  match fs.findArrow name 0 with
  | some r => some r
  | none => fs.findTag name 0

def SFields.setAt : SFields → Nat → Val → SFields
  | .nil, _, _ => .nil
  | .cons tag atag _ r, 0, v => .cons tag atag v r
  | .cons tag atag x r, i + 1, v => .cons tag atag x (SFields.setAt r i v)

def decodeLeafInt (t : GoTy) (wire : ITy) (w : Int) : Except Err Val :=
  match t with
  | .prim (.int g) => .ok (.int (decodeInt g wire w))
  | .prim .dur => .ok (.dur (decodeInt i64 wire w))   -- kind Int64: SetInt works on a Duration field
  | _ => .error .decode                                -- reflect panics on a kind mismatch

/-- Is the slot null? (`col.IsNull(idx)`) -/
def Cell.isNull : Cell → Bool
  | .null => true
  | _ => false

mutual
/-- A column / list element / map item / struct child read into a field of type `t`: the callers'
`IsNull` check (null → the field keeps its zero value) followed by
`setFieldFromArrow(field, fieldType, col, idx, …)`, which switches on the array type; a pointer
type is dereferenced once and the result implicitly re-wrapped. -/
def decode (t : GoTy) : Cell → Except Err Val
  | .null => .ok (zeroVal t)
  | .int w v => decodeLeafInt (derefTy t) w v
  | .f32 b => match derefTy t with
    | .prim .f32 => .ok (.f32 b)
    | .prim .f64 => .error .unmodelled
    | _ => .error .decode
  | .f64 b => match derefTy t with
    | .prim .f64 => .ok (.f64 b)
    | .prim .f32 => .error .unmodelled
    | _ => .error .decode
  | .bool b => match derefTy t with
    | .prim .bool => .ok (.bool b)
    | _ => .error .decode
  | .str _ x => match derefTy t with
    | .prim .str => .ok (.str x)
    | _ => .error .decode
  | .dict es i => match derefTy t with
    -- `dict.Value(c.GetValueIndex(idx))`: the entry the ROW'S INDEX selects, in both the `enum`
    -- branch and the generic Dictionary branch (an index outside the dictionary panics)
    | .prim .str => match es[i]? with
      | some x => .ok (.str x)
      | none => .error .decode
    | _ => .error .decode
  | .bin _ b => match derefTy t with
    | .bytes => .ok (.bytes b)
    | _ => .error .decode
  | .date d => match derefTy t with
    | .prim .time => .ok (.time (date32ToTime d))
    | _ => .error .decode
  | .ts us => match derefTy t with
    | .prim .time => .ok (.time (timestampToTime us))
    | _ => .error .decode
  | .time us => match derefTy t with
    | .prim .time => .ok (.time (time64ToTime us))
    | _ => .error .decode
  | .dur us => match derefTy t with
    | .prim .dur => .ok (.dur (durDecode us))
    | _ => .error .decode
  | .dec n => match derefTy t with
    | .prim .str => .ok (.str (decToString n))
    | _ => .error .decode
  | .list cs => match derefTy t with
    | .slice et => match decodeElems et cs with
      | .ok vs => .ok (.slice false vs)
      | .error e => .error e
    | _ => .error .decode
  | .map kvs => match derefTy t with
    | .map kt vt => match decodeKVs kt vt kvs with
      | .ok r => .ok (.map false r)
      | .error e => .error e
    | _ => .error .decode
  | .struct cfs => match derefTy t with
    | .struct gfs => match decodeChildren gfs cfs (zeroFields gfs) with
      | .ok r => .ok (.struct r)
      | .error e => .error e
    | _ => .error .decode
/-- `setListField`: a null element leaves the slot at its zero value. -/
def decodeElems (et : GoTy) : Cells → Except Err Vals
  | .nil => .ok .nil
  | .cons c r =>
    match decode et c with
    | .error e => .error e
    | .ok v => match decodeElems et r with
      | .error e => .error e
      | .ok vs => .ok (.cons v vs)
/-- `setMapField`: a null item leaves the zero value. (Keys are decoded without a null check in
the Go code; an Arrow map key is never null, so the difference is not observable.) -/
def decodeKVs (kt vt : GoTy) : CKVs → Except Err KVs
  | .nil => .ok .nil
  | .cons k v r =>
    match decode kt k with
    | .error e => .error e
    | .ok kv =>
      match decode vt v with
      | .error e => .error e
      | .ok vv => match decodeKVs kt vt r with
        | .error e => .error e
        | .ok rest => .ok (.cons kv vv rest)
/-- `setStructField`: walk the ARROW children, find each one's Go field; unknown children are
skipped, null children leave the field as it is. -/
def decodeChildren (gfs : GoFields) : CFields → SFields → Except Err SFields
  | .nil, acc => .ok acc
  | .cons name c r, acc =>
    match gfs.find name with
    | none => decodeChildren gfs r acc
    | some (i, ft) =>
      if c.isNull then decodeChildren gfs r acc
      else match decode ft c with
        | .error e => .error e
        | .ok v => decodeChildren gfs r (acc.setAt i v)
end

/-! ## Top level: `serializeVgirpcStruct` and the value part of `deserializeParams` -/

/-- Columns of the tagged fields, positionally (`desc.Fields[i]` ↔ `schema.Field(i)`). -/
def encodeTop : AFields → SFields → Except Err CFields
  | afs, .nil => match afs with
    | .nil => .ok .nil
    | _ => .error .encode
  | afs, .cons tag _ v r =>
    if tagged tag then
      match afs with
      | .nil => .error .encode
      | .cons name a _ ar => match encode a v with
        | .error e => .error e
        | .ok c => match encodeTop ar r with
          | .error e => .error e
          | .ok cs => .ok (.cons name c cs)
    else encodeTop afs r

/-- Row 0 of a batch whose schema equals the declared one, into the struct (defaults are C07's
concern and handled in `Vgi.Params`): tagged fields positionally, untagged fields keep zero. -/
def decodeTop : GoFields → CFields → Except Err SFields
  | .nil, _ => .ok .nil
  | .cons tag atag t r, cfs =>
    if tagged tag then
      match cfs with
      | .nil => .error .decode
      | .cons _ c cr => match decode t c with
        | .error e => .error e
        | .ok v => match decodeTop r cr with
          | .error e => .error e
          | .ok vs => .ok (.cons tag atag v vs)
    else match decodeTop r cfs with
      | .error e => .error e
      | .ok vs => .ok (.cons tag atag (zeroVal t) vs)

end Vgi.Values

namespace Vgi.Values

/-! ## Per-type memoization (`types_cache.go`: `describeStruct` over `structDescCache`) -/

/-- `describeStruct`: return the memoized description of type key `k`, computing and storing it
on first use. `build` is the uncached walk (`buildStructDesc`); the cache is a `sync.Map` keyed by
the `reflect.Type`, here an association list keyed by any type with decidable equality. -/
def describe {κ δ : Type} [DecidableEq κ] (build : κ → δ) (cache : List (κ × δ)) (k : κ) : List (κ × δ) × δ :=
  match cache.find? (fun e => e.1 = k) with
  | some e => (cache, e.2)
  | none => ((k, build k) :: cache, build k)

/-- A history of `describeStruct` calls from some cache: the description each call returned. -/
def describeAll {κ δ : Type} [DecidableEq κ] (build : κ → δ) : List (κ × δ) → List κ → List δ
  | _, [] => []
  | cache, k :: ks => (describe build cache k).2 :: describeAll build (describe build cache k).1 ks

end Vgi.Values
