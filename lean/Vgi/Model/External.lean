import Vgi.Util
/-!
Model of the external-location write and read paths in `vgirpc/external.go`:
`IsExternalLocationBatch`, `MakeExternalLocationBatch`, `externalizeBatchCtx`,
`ResolveExternalLocation` (everything after the fetch), `batchMetadata`, `metaGet`.

What the model cannot see is abstracted exactly where the Go code calls a library:

* Arrow IPC encoding/decoding, SHA-256 and zstd are the fields of a `World` (functions on
  bytes). The theorems quantify over every `World`; the round-trip theorem assumes only that
  the codecs invert each other on the bytes at hand.
* The fetch itself (`fetchExternalData`, retries, redirects, caps) is property C31; here its
  result is `Except Unit Bytes` (the decoded body, or "all attempts failed").
* A batch is `(schema id, rows, fingerprint of the column values, custom metadata)`.
-/
namespace Vgi.External

abbrev Meta := List (Bytes × Bytes)      -- ordered key/value pairs, duplicates allowed

/-- `metaGet` / `arrow.Metadata.FindKey`: the value of the FIRST entry with that key. -/
def metaGet : Meta → Bytes → Option Bytes
  | [], _ => none
  | (k', v) :: r, k => if k' = k then some v else metaGet r k

def hasKey (m : Meta) (k : Bytes) : Bool := (metaGet m k).isSome

/-- "vgi_rpc.location" -/
def keyLocation : Bytes := [118, 103, 105, 95, 114, 112, 99, 46, 108, 111, 99, 97, 116, 105, 111, 110]
/-- "vgi_rpc.location.sha256" -/
def keyLocationSha : Bytes :=
  [118, 103, 105, 95, 114, 112, 99, 46, 108, 111, 99, 97, 116, 105, 111, 110, 46, 115, 104, 97, 50, 53, 54]
/-- "vgi_rpc.log_level" -/
def keyLogLevel : Bytes := [118, 103, 105, 95, 114, 112, 99, 46, 108, 111, 103, 95, 108, 101, 118, 101, 108]
/-- "zstd" -/
def encZstd : Bytes := [122, 115, 116, 100]

structure Batch where
  schema  : Nat        -- opaque schema identity (fields, types, schema metadata)
  rows    : Nat
  payload : Bytes      -- opaque fingerprint of the column values
  md      : Meta       -- the batch's custom metadata (IPC message custom_metadata)
  deriving DecidableEq, Repr

/-- `IsExternalLocationBatch(batch, meta)`: zero rows, a location key, no log-level key. -/
def isExternalLocation (rows : Nat) (m : Meta) : Bool :=
  if rows ≠ 0 then false
  else if !hasKey m keyLocation then false
  else !hasKey m keyLogLevel

/-- The library functions the Go code calls (not verified; every theorem is for all worlds). -/
structure World where
  ser   : Batch → Bytes                  -- serializeBatchAsIPC
  parse : Bytes → Option (List Batch)    -- ipc.NewReader + the `for reader.Next()` yield; none = NewReader error
  sha   : Bytes → Bytes                  -- hex(sha256(.))
  zenc  : Bytes → Bytes                  -- zstd EncodeAll
  zdec  : Bytes → Option Bytes           -- decompressZstdCapped

/-! ### Write path -/

structure Compression where
  algorithm : Bytes
  level     : Int

structure ExtCfg where
  storage     : Bool                     -- config.Storage != nil
  threshold   : Int                      -- ExternalizeThresholdBytes
  compression : Option Compression

def defaultThreshold : Int := 1048576

/-- `(*ExternalLocationConfig).threshold`. -/
def threshold (c : ExtCfg) : Int :=
  if c.threshold ≤ 0 then defaultThreshold else c.threshold

/-- `MakeExternalLocationBatch`'s metadata: location, then the checksum when non-empty. -/
def pointerMeta (url sha : Bytes) : Meta :=
  if sha ≠ [] then [(keyLocation, url), (keyLocationSha, sha)] else [(keyLocation, url)]

structure Upload where
  data : Bytes
  enc  : Bytes                           -- contentEncoding handed to Storage.Upload
  deriving DecidableEq, Repr

inductive ExtResult
  | inline                               -- batch and metadata returned unchanged, 0 bytes charged
  | encoderErr                           -- zstd.NewWriter refused the level (levels outside 1..4)
  | uploadErr (up : Upload)              -- Storage.Upload failed
  | pointer (schema : Nat) (md : Meta) (charged : Nat) (up : Upload)
  deriving DecidableEq, Repr

/-- `config.Compression != nil && config.Compression.Algorithm == "zstd"`. -/
def zstdOn (c : ExtCfg) : Bool :=
  match c.compression with
  | some k => k.algorithm == encZstd
  | none => false

/-- `zstd.NewWriter(nil, zstd.WithEncoderLevel(level))` fails: a positive `Level` is passed on
as `zstd.EncoderLevel(Level)`, and the library knows only levels 1..4. -/
def levelBad (c : ExtCfg) : Bool :=
  match c.compression with
  | some k => decide (k.level > 4)
  | none => false

/-- What is handed to `Storage.Upload`: the raw IPC bytes, or their zstd encoding. -/
def mkUpload (w : World) (c : ExtCfg) (raw : Bytes) : Upload :=
  if zstdOn c then ⟨w.zenc raw, encZstd⟩ else ⟨raw, []⟩

/-- `externalizeBatchCtx`. `bufSize` is `batchBufferSize(batch)`; `store` is `Storage.Upload`
(`none` = error). The pointer batch has the original schema, zero rows and metadata `md`; the
checksum is taken over the RAW IPC bytes, before compression. -/
def externalize (w : World) (cfg : Option ExtCfg) (b : Batch) (bufSize : Nat)
    (store : Upload → Option Bytes) : ExtResult :=
  match cfg with
  | none => .inline
  | some c =>
    if !c.storage then .inline
    else if b.rows = 0 then .inline
    else if (bufSize : Int) < threshold c then .inline
    else if zstdOn c && levelBad c then .encoderErr
    else match store (mkUpload w c (w.ser b)) with
      | none => .uploadErr (mkUpload w c (w.ser b))
      | some url => .pointer b.schema (pointerMeta url (w.sha (w.ser b))) (w.ser b).length
          (mkUpload w c (w.ser b))

/-! ### Read path -/

/-- A log/error batch inside a fetched stream: zero rows and a log-level key in the batch's
custom metadata. -/
def isLogBatch (b : Batch) : Bool := hasKey b.md keyLogLevel && b.rows == 0

/-- A nested pointer inside a fetched stream ("redirect loop" test): location key and zero rows,
looked at only after the log test. -/
def isNestedPointer (b : Batch) : Bool := hasKey b.md keyLocation && b.rows == 0

inductive ResErr
  | missingUrl | validator | fetch | checksum | parse | loop | noData
  deriving DecidableEq, Repr

/-- The selection walk of `ResolveExternalLocation` over the batches the reader yields:
skip logs, refuse a nested pointer, otherwise remember the batch (the last one wins). -/
def walk : List Batch → Option Batch → Except ResErr Batch
  | [], none => .error .noData
  | [], some d => .ok d
  | b :: rest, acc =>
    if isLogBatch b then walk rest acc
    else if isNestedPointer b then .error .loop
    else walk rest (some b)

/-- What `ResolveExternalLocation` can see of the fetched bytes. -/
structure Fetched where
  digest : Bytes                         -- hex sha256 of the decoded body
  parsed : Option (List Batch)

structure ResCfg where
  validator : Option (Bytes → Bool)      -- URLValidator (nil allowed); true = accepted

inductive ResResult
  | pass                                 -- not a pointer (or no config): input returned unchanged
  | err (e : ResErr)
  | ok (b : Batch)
  deriving DecidableEq, Repr

/-- `config.URLValidator != nil && config.URLValidator(url) != nil`. -/
def rejected (c : ResCfg) (url : Bytes) : Bool :=
  match c.validator with
  | some v => !v url
  | none => false

/-- The checksum test: only when the pointer carries `vgi_rpc.location.sha256`. -/
def shaMismatch (m : Meta) (digest : Bytes) : Bool :=
  match metaGet m keyLocationSha with
  | some expected => expected != digest
  | none => false

/-- `ResolveExternalLocation` after the fetch has been performed (`fetched`). -/
def resolveCore (cfg : Option ResCfg) (rows : Nat) (m : Meta)
    (fetch : Bytes → Except Unit Fetched) : ResResult :=
  match cfg with
  | none => .pass
  | some c =>
    if !isExternalLocation rows m then .pass
    else
      let url := (metaGet m keyLocation).getD []
      if url = [] then .err .missingUrl
      else
        if rejected c url then .err .validator
        else match fetch url with
          | .error _ => .err .fetch
          | .ok f =>
            if shaMismatch m f.digest then .err .checksum
            else match f.parsed with
              | none => .err .parse
              | some bs => match walk bs none with
                | .ok d => .ok d
                | .error e => .err e

/-- The same with the library functions applied to the fetched bytes. -/
def resolve (w : World) (cfg : Option ResCfg) (rows : Nat) (m : Meta)
    (fetch : Bytes → Except Unit Bytes) : ResResult :=
  resolveCore cfg rows m fun u => (fetch u).map fun body => ⟨w.sha body, w.parse body⟩

/-- A faithful origin + `fetchExternalData`'s decoding step: the stored object is served with
the content encoding it was uploaded with. -/
def serve (w : World) (up : Upload) : Except Unit Bytes :=
  if up.enc = encZstd then
    match w.zdec up.data with
    | some x => .ok x
    | none => .error ()
  else .ok up.data

end Vgi.External
