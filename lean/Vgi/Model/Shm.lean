import Vgi.Util
/-!
Model of the shared-memory allocator in `vgirpc/shm.go`
(`allocateLocked`, `freeAtLocked`, `Reset`, `initializeHeader`, `readAllocs`, `writeAllocs`).

Offsets and lengths are `Nat`. The Go code works in `uint64`; the only subtraction
(`gap := e[0] - prevEnd`, `dataEnd - prevEnd`) is performed on a table that satisfies the
well-formedness invariant proved in `Vgi.Props.C34`, under which it never wraps, so truncated
`Nat` subtraction and `uint64` subtraction agree on every reachable state. (The correspondence
check compares the real header bytes after every operation.)
-/
namespace Vgi.Shm

def headerSize : Nat := 65536
def headerFixed : Nat := 24
def entrySize : Nat := 16
def maxAllocs : Nat := (headerSize - headerFixed) / entrySize

abbrev Table := List (Nat × Nat)   -- (offset, length), in header order

/-- The scan of `allocateLocked`: walk the table keeping `prevEnd`; insert at the first gap that
fits; otherwise try the tail gap up to `dataEnd`. Returns the offset and the new table. -/
def allocScan (sz dataEnd : Nat) : Nat → Table → Option (Nat × Table)
  | prevEnd, [] => if dataEnd - prevEnd ≥ sz then some (prevEnd, [(prevEnd, sz)]) else none
  | prevEnd, e :: rest =>
    if e.1 - prevEnd ≥ sz then some (prevEnd, (prevEnd, sz) :: e :: rest)
    else match allocScan sz dataEnd (e.1 + e.2) rest with
      | some (o, t) => some (o, e :: t)
      | none => none

structure Seg where
  size  : Nat          -- total mapping size (header + data)
  table : Table
  deriving Repr, DecidableEq

def create (dataSize : Nat) : Seg := { size := headerSize + dataSize, table := [] }

/-- `allocateLocked(size int)`. -/
def allocate (s : Seg) (size : Int) : Option (Nat × Seg) :=
  if size ≤ 0 then none
  else if s.table.length ≥ maxAllocs then none
  else match allocScan size.toNat s.size headerSize s.table with
    | some (o, t) => some (o, { s with table := t })
    | none => none

/-- The scan of `canFitLocked`: is there a contiguous gap of `sz` bytes? -/
def fitScan (sz dataEnd : Nat) : Nat → Table → Bool
  | prevEnd, [] => decide (dataEnd - prevEnd ≥ sz)
  | prevEnd, e :: rest => if e.1 - prevEnd ≥ sz then true else fitScan sz dataEnd (e.1 + e.2) rest

/-- `canFitLocked(size int)`. -/
def canFit (s : Seg) (size : Int) : Bool :=
  if size ≤ 0 then false
  else if s.table.length ≥ maxAllocs then false
  else fitScan size.toNat s.size headerSize s.table

/-- `AllocateAndWrite` as far as the allocator is concerned: the capacity pre-check on the
(environment-supplied) size estimate, then `allocateLocked` of the exact wire size. -/
def allocateAndWrite (s : Seg) (estimate total : Int) : Option (Nat × Seg) :=
  if canFit s estimate then allocate s total else none

/-- `freeAtLocked(offset)`: remove the first entry whose offset matches. -/
def freeScan (off : Nat) : Table → Option Table
  | [] => none
  | e :: rest => if e.1 = off then some rest else (freeScan off rest).map (e :: ·)

def free (s : Seg) (off : Nat) : Option Seg :=
  (freeScan off s.table).map fun t => { s with table := t }

def reset (s : Seg) : Seg := { s with table := [] }

/-! ### Header codec (documented layout: magic, version, data_size, count, reserved, entries) -/

def leBytes : Nat → Nat → Bytes
  | 0, _ => []
  | k + 1, n => UInt8.ofNat (n % 256) :: leBytes k (n / 256)

def ofLE : Bytes → Nat
  | [] => 0
  | b :: r => b.toNat + 256 * ofLE r

def magic : Bytes := [0x56, 0x47, 0x49, 0x53]   -- "VGIS"
def version : Nat := 1

def encodeEntries : Table → Bytes
  | [] => []
  | e :: r => leBytes 8 e.1 ++ leBytes 8 e.2 ++ encodeEntries r

/-- Live prefix of the header: fixed 24 bytes + 16 bytes per counted entry. -/
def encodeHeader (s : Seg) : Bytes :=
  magic ++ leBytes 4 version ++ leBytes 8 (s.size - headerSize) ++ leBytes 4 s.table.length
    ++ leBytes 4 0 ++ encodeEntries s.table

def decodeEntries : Nat → Bytes → Table
  | 0, _ => []
  | n + 1, bs => (ofLE (bs.take 8), ofLE ((bs.drop 8).take 8)) :: decodeEntries n (bs.drop 16)

/-- What another process attaching the segment reads (`validateHeader` + `readAllocs`). -/
def decodeHeader (bs : Bytes) : Option Seg :=
  if bs.take 4 = magic ∧ ofLE ((bs.drop 4).take 4) = version then
    let dataSize := ofLE ((bs.drop 8).take 8)
    let count := ofLE ((bs.drop 16).take 4)
    some { size := headerSize + dataSize, table := decodeEntries count (bs.drop 24) }
  else none

/-- `ShmAttach(name, mapped)` + `validateHeader`: a peer may attach only with the mapping size the
header's data_size field documents. -/
def validateAttach (bs : Bytes) (mapped : Nat) : Bool :=
  match decodeHeader bs with
  | some s' => decide (s'.size = mapped)
  | none => false

/-! ### Operation interpreter (shared by the theorems and the driver) -/

inductive Op
  | alloc (n : Int) | free (off : Nat) | reset | allocw (estimate total : Int)
  deriving Repr

def step (s : Seg) : Op → Seg
  | .alloc n => match allocate s n with | some (_, s') => s' | none => s
  | .free o => match free s o with | some s' => s' | none => s
  | .reset => reset s
  | .allocw est tot => match allocateAndWrite s est tot with | some (_, s') => s' | none => s

end Vgi.Shm
