import Vgi.Util
/-!
Model of the part of Go's `net/url.Parse` (go1.26, `urlstrictcolons` default) that decides the
three things `validateOriginalURL` / `validateReturnTo` (`vgirpc/oauth_pkce_oidc.go`) look at:
does the string parse, what is `Scheme`, what is `Host` (and from it `Hostname()` / `Port()`).
It follows `Parse → parse → getScheme / parseAuthority / parseHost / setPath / setFragment /
unescape` branch for branch, including IP-literals (`netip.ParseAddr`, IPv6 with zone and
embedded IPv4).  `net/url` itself is library code: the model of it is *validated* by the
correspondence run (every disagreement is a broken tie), not verified.
-/
namespace Vgi.OAuth
open Vgi

/-! ### byte classes -/

def cSlash : UInt8 := 47
def cQuest : UInt8 := 63
def cHash : UInt8 := 35
def cAt : UInt8 := 64
def cColon : UInt8 := 58
def cPct : UInt8 := 37
def cBackslash : UInt8 := 92
def cLBr : UInt8 := 91
def cRBr : UInt8 := 93
def cDot : UInt8 := 46

def isUpper (c : UInt8) : Bool := 65 ≤ c && c ≤ 90
def isLower (c : UInt8) : Bool := 97 ≤ c && c ≤ 122
def isAlpha (c : UInt8) : Bool := isUpper c || isLower c
def isDigit (c : UInt8) : Bool := 48 ≤ c && c ≤ 57
def isHex (c : UInt8) : Bool := isDigit c || (65 ≤ c && c ≤ 70) || (97 ≤ c && c ≤ 102)
def toLowerB (c : UInt8) : UInt8 := if isUpper c then c + 32 else c
def lower (s : Bytes) : Bytes := s.map toLowerB

/-- `unhex` (precondition: `isHex`). -/
def unhex (c : UInt8) : Nat := 9 * (c.toNat / 64) + c.toNat % 16

/-- `stringContainsCTLByte`. -/
def hasCTL (s : Bytes) : Bool := s.any fun b => b < 32 || b == 127

/-- Bytes with the `encodeHost` (= `encodeZone`) bit in `net/url`'s table: the ASCII bytes that
may appear literally in a host. -/
def hostOK (c : UInt8) : Bool :=
  isAlpha c || isDigit c ||
  c == 33 || c == 34 || c == 36 || c == 38 || c == 39 || c == 40 || c == 41 || c == 42 ||
  c == 43 || c == 44 || c == 45 || c == 46 || c == 58 || c == 59 || c == 60 || c == 61 ||
  c == 62 || c == 91 || c == 93 || c == 95 || c == 126

/-! ### string helpers -/

/-- `strings.Cut(s, c)`: text before the first `c`, and (if there is one) the text after it. -/
def cut (c : UInt8) : Bytes → Bytes × Option Bytes
  | [] => ([], none)
  | x :: r => if x = c then ([], some r) else
    let (a, b) := cut c r
    (x :: a, b)

/-- Split at the LAST occurrence of `c` (`strings.LastIndex`). -/
def cutLast (c : UInt8) : Bytes → Option (Bytes × Bytes)
  | [] => none
  | x :: r =>
    match cutLast c r with
    | some (a, b) => some (x :: a, b)
    | none => if x = c then some ([], r) else none

def startsWith (p s : Bytes) : Bool := p.isPrefixOf s

/-- `strings.Index(s, sub) >= 0 ? some idx`. -/
def indexOf (sub : Bytes) : Bytes → Nat → Option Nat
  | [], i => if sub = [] then some i else none
  | x :: r, i => if startsWith sub (x :: r) then some i else indexOf sub r (i + 1)

/-! ### `unescape` -/

inductive Mode | plain | host | zone
  deriving DecidableEq

def pct25 : Bytes := [37, 50, 53]   -- "%25"

/-- `unescape(s, mode)`. `plain` stands for the path / fragment / userinfo modes, which only
validate and decode `%XX` ('+' is left alone outside query components). -/
def unescape (mode : Mode) : Bytes → Option Bytes
  | [] => some []
  | c :: rest =>
    if c = cPct then
      match rest with
      | h1 :: h2 :: rest' =>
        if ¬ (isHex h1 ∧ isHex h2) then none
        else if mode = .host ∧ unhex h1 < 8 ∧ [c, h1, h2] ≠ pct25 then none
        else
          let v := UInt8.ofNat (unhex h1 * 16 + unhex h2)
          if mode = .zone ∧ [c, h1, h2] ≠ pct25 ∧ v ≠ 32 ∧ ¬ hostOK v then none
          else match unescape mode rest' with
            | some r => some (v :: r)
            | none => none
      | _ => none
    else if mode ≠ .plain ∧ c < 128 ∧ ¬ hostOK c then none
    else match unescape mode rest with
      | some r => some (c :: r)
      | none => none

/-! ### `netip.ParseAddr` for IP-literals (validity only) -/

/-- `parseIPv4Fields`: four dotted decimal octets, no leading zeros, each ≤ 255.
State: current value, digits in the current octet, dots seen, previous byte was a dot / start. -/
def ip4Go : Bytes → (val digLen pos : Nat) → (prevDot : Bool) → Bool
  | [], _, _, pos, prevDot => !prevDot && pos == 3
  | c :: r, val, digLen, pos, prevDot =>
    if isDigit c then
      if digLen == 1 && val == 0 then false
      else
        let v := val * 10 + (c.toNat - 48)
        if v > 255 then false else ip4Go r v (digLen + 1) pos false
    else if c = cDot then
      if prevDot || r.isEmpty || pos == 3 then false else ip4Go r 0 0 (pos + 1) true
    else false

def ip4Valid (s : Bytes) : Bool := ip4Go s 0 0 0 true

def hexRun : Bytes → Bytes × Bytes
  | [] => ([], [])
  | c :: r => if isHex c then let (a, b) := hexRun r; (c :: a, b) else ([], c :: r)

/-- The group loop of `parseIPv6`. `i` = bytes of the address filled so far, `ell` = an ellipsis
has been seen. Returns `some i'` with the rest fully consumed, or `none` on any error; the flag says whether an ellipsis was seen. -/
def ip6Loop : Nat → Bytes → (i : Nat) → (ell : Bool) → Option (Nat × Bool)
  | 0, _, _, _ => none
  | fuel + 1, s, i, ell =>
    if i ≥ 16 then (if s.isEmpty then some (i, ell) else none)
    else
      let (digits, after) := hexRun s
      if digits.length > 4 then none
      else if digits.isEmpty then none
      else match after with
        | [] => some (i + 2, ell)
        | c :: rest =>
          if c = cDot then
            if (!ell && i != 12) || i + 4 > 16 then none
            else if ip4Valid s then some (i + 4, ell) else none
          else if c ≠ cColon then none
          else match rest with
            | [] => none
            | c2 :: rest2 =>
              if c2 = cColon then
                if ell then none
                else if rest2.isEmpty then some (i + 2, true)
                else ip6Loop fuel rest2 (i + 2) true
              else ip6Loop fuel rest (i + 2) ell

/-- `parseIPv6(s)` succeeds. -/
def ip6Valid (inp : Bytes) : Bool :=
  let (s, zone) := cut cPct inp
  if zone = some [] then false
  else
    let (s, ell, only) :=
      match s with
      | 58 :: 58 :: r => (r, true, r.isEmpty)
      | _ => (s, false, false)
    if only then true
    else match ip6Loop (s.length + 2) s 0 ell with
      | none => false
      | some (i, ell) => if i < 16 then ell else !ell

/-- `netip.ParseAddr(s)` succeeds with a non-IPv4 address: the first of `.`, `:`, `%` decides. -/
def ipLiteralOK (s : Bytes) : Bool :=
  match s.find? (fun c => c == cDot || c == cColon || c == cPct) with
  | some c => if c = cColon then ip6Valid s else false
  | none => false

/-! ### `parseHost`, `parseAuthority` -/

/-- `validOptionalPort`: empty, or `:` followed by digits only. -/
def validOptionalPort : Bytes → Bool
  | [] => true
  | c :: r => c == cColon && r.all isDigit

def countOf (c : UInt8) (s : Bytes) : Nat := (s.filter (· == c)).length

/-- The IP-literal's text between the brackets, unescaped: the part before the first `%25` in
host mode, the zone (from `%25` on) in zone mode. -/
def unescLiteral (hostname : Bytes) : Option Bytes :=
  match indexOf pct25 hostname 0 with
  | some z =>
    match unescape .host (hostname.take z), unescape .zone (hostname.drop z) with
    | some a, some b => some (a ++ b)
    | _, _ => none
  | none => unescape .host hostname

/-- The `validOptionalPort(host[i:])` test of a bracket-less host: `i` is the first colon for
http/https (strict colons), the last colon otherwise. -/
def hostPortOK (scheme host : Bytes) : Bool :=
  match cut cColon host with
  | (_, none) => true
  | (_, some afterFirst) =>
    if countOf cColon host > 1 ∧ ¬ (scheme = [104, 116, 116, 112] ∨ scheme = [104, 116, 116, 112, 115]) then
      match cutLast cColon host with
      | some (_, p) => validOptionalPort (cColon :: p)
      | none => true
    else validOptionalPort (cColon :: afterFirst)

/-- `parseHost(scheme, host)`; `none` = error. -/
def parseHost (scheme host : Bytes) : Option Bytes :=
  match cutLast cLBr host with
  | some (_ :: _, _) => none                       -- '[' not at the start: invalid IP-literal
  | some ([], afterBr) =>
    -- IP-literal
    match cutLast cRBr afterBr with
    | none => none
    | some (hostname, colonPort) =>
      if ¬ validOptionalPort colonPort then none
      else match unescLiteral hostname with
        | none => none
        | some h => if ipLiteralOK h then some (cLBr :: h ++ cRBr :: colonPort) else none
  | none => if hostPortOK scheme host then unescape .host host else none

/-- `validUserinfo` (on bytes: every non-ASCII rune fails, as any byte ≥ 0x80 does here). -/
def userinfoOK (c : UInt8) : Bool :=
  isAlpha c || isDigit c ||
  c == 45 || c == 46 || c == 95 || c == 58 || c == 126 || c == 33 || c == 36 || c == 38 ||
  c == 39 || c == 40 || c == 41 || c == 42 || c == 43 || c == 44 || c == 59 || c == 61 ||
  c == 37 || c == 64

/-- `parseAuthority`: the host after the last `@`, userinfo validated and unescaped. -/
def parseAuthority (scheme authority : Bytes) : Option Bytes :=
  match cutLast cAt authority with
  | none => parseHost scheme authority
  | some (userinfo, hostPart) =>
    match parseHost scheme hostPart with
    | none => none
    | some host =>
      if ¬ userinfo.all userinfoOK then none
      else
        let (user, pass) := cut cColon userinfo
        match unescape .plain user, unescape .plain (pass.getD []) with
        | some _, some _ => some host
        | _, _ => none

/-! ### `getScheme`, `parse`, `Parse` -/

/-- `getScheme`: `none` = "missing protocol scheme"; otherwise (scheme, rest). -/
def getSchemeGo (full : Bytes) : Nat → Bytes → Option (Bytes × Bytes)
  | _, [] => some ([], full)
  | i, c :: rest =>
    if isAlpha c then getSchemeGo full (i + 1) rest
    else if isDigit c || c == 43 || c == 45 || c == 46 then
      if i = 0 then some ([], full) else getSchemeGo full (i + 1) rest
    else if c = cColon then
      if i = 0 then none else some (full.take i, rest)
    else some ([], full)

def getScheme (s : Bytes) : Option (Bytes × Bytes) := getSchemeGo s 0 s

structure Parsed where
  scheme : Bytes      -- lower-cased
  host : Bytes        -- `URL.Host` (unescaped; `[v6]:port` form kept)
  deriving Repr, DecidableEq

def star : Bytes := [42]
def slash2 : Bytes := [47, 47]
def slash3 : Bytes := [47, 47, 47]

/-- What follows a cut point: nothing, or the separator and the text after it. -/
def optTail (c : UInt8) : Option Bytes → Bytes
  | none => []
  | some t => c :: t

/-- The authority branch of `parse`: `rest2` is the text after the leading `//`; the authority
runs to the first `/`, the path is what remains (and must unescape). -/
def parseWithAuthority (scheme rest2 : Bytes) : Option Parsed :=
  match parseAuthority scheme (cut cSlash rest2).1 with
  | none => none
  | some host =>
    if (unescape .plain (optTail cSlash (cut cSlash rest2).2)).isSome then some ⟨scheme, host⟩ else none

/-- `parse` after the scheme and the query have been split off (`rest` has no `?`). -/
def parseAfterScheme (scheme rest : Bytes) : Option Parsed :=
  if ¬ startsWith [cSlash] rest ∧ scheme ≠ [] then some ⟨scheme, []⟩     -- opaque
  else if ¬ startsWith [cSlash] rest ∧ (cut cSlash rest).1.contains cColon then none
  else if (scheme ≠ [] ∨ ¬ startsWith slash3 rest) ∧ startsWith slash2 rest then
    parseWithAuthority scheme (rest.drop 2)
  else if (unescape .plain rest).isSome then some ⟨scheme, []⟩ else none

/-- `parse(rawURL, viaRequest = false)`. -/
def parseNoFrag (raw : Bytes) : Option Parsed :=
  if hasCTL raw then none
  else if raw = star then some ⟨[], []⟩
  else match getScheme raw with
    | none => none
    | some (schemeRaw, rest0) => parseAfterScheme (lower schemeRaw) (cut cQuest rest0).1

/-- `url.Parse`: the fragment is cut off first and must unescape when it is not empty. -/
def parseURL (raw : Bytes) : Option Parsed :=
  match parseNoFrag (cut cHash raw).1 with
  | none => none
  | some p =>
    match (cut cHash raw).2 with
    | none => some p
    | some f => if f = [] then some p else if (unescape .plain f).isSome then some p else none

/-! ### `Hostname()`, `Port()` -/

/-- `splitHostPort`. -/
def splitHostPort (hostPort : Bytes) : Bytes × Bytes :=
  let (host, port) :=
    match cutLast cColon hostPort with
    | some (h, p) => if validOptionalPort (cColon :: p) then (h, p) else (hostPort, [])
    | none => (hostPort, [])
  let host :=
    if startsWith [cLBr] host ∧ host.getLast? = some cRBr then (host.drop 1).dropLast else host
  (host, port)

def hostname (host : Bytes) : Bytes := (splitHostPort host).1
def port (host : Bytes) : Bytes := (splitHostPort host).2

end Vgi.OAuth
