import Vgi.Model.RouteAuthFacts
/-!
# C22 — model of `HttpServer.ServeHTTP` as far as the authenticator gate is concerned

The model *interprets* a `Table` of facts extracted from the source (`Vgi.Generated.C22.table`):

* `activeRoutes` instantiates the registered patterns for a configuration (prefix, feature flags,
  operator routes) exactly as `initRoutes` / `initPages` / `EnableSticky` / `Handle` register them;
* `matchPath` / `resolve` mirror `net/http.ServeMux` (Go 1.22+ routing tree: literal child first,
  then single wildcard, then multi wildcard; exact-verb patterns, then GET for HEAD, then verb-less
  patterns);
* `serve` mirrors `ServeHTTP`: OPTIONS is answered as a preflight before anything else; otherwise the
  matched handler runs: first the statements the source executes before `h.authenticate` (only
  config nil-guards and pure reads are interpretable), then `authenticate`, then the work of the
  route class (`workOf`), recorded as a list of `Event`s = invocations of handler / provider /
  resolver / stream state / session state mocks.

Mirrors: http.go `ServeHTTP`, `authenticate`, `initRoutes`, `initPages`; http_unary.go `handleUnary`;
http_stream.go `handleStreamInit`, `handleStreamExchange`; http_upload_url.go `handleUploadURLInit`;
introspect_token.go `handleIntrospectToken`; http_sticky.go `EnableSticky`, `Handle`,
`handleStickyDelete`; oauth_pkce_handlers.go `wrapPageWithPkce`; proof.go `ProofAuthenticate`.
-/
namespace Vgi.RouteAuth

/-! ## configuration, request, authenticator behaviour -/

/-- concrete pattern segment -/
inductive CSeg
  | lit (s : String)
  | wild
  deriving DecidableEq, Repr

/-- concrete pattern (prefix spliced in) -/
structure Pat where
  verb : Option String
  segs : List CSeg
  tail : PTail
  deriving DecidableEq, Repr

structure Cfg where
  pfx : List String        -- segments of `h.prefix` ("" = [])
  authenticator : Bool     -- SetAuthenticate was called
  proofGate : Bool         -- the authenticator is ProofAuthenticate(require, inner)
  pkce : Bool              -- SetOAuthPkce (chains a cookie authenticator, adds login routes)
  upload : Bool            -- SetUploadURLProvider
  introspect : Bool        -- EnableTokenIntrospection
  sticky : Bool            -- EnableSticky
  describePage : Bool
  landingPage : Bool
  notFoundPage : Bool
  custom : List Pat        -- operator routes registered through Handle
  rotated : Bool := false  -- SetAuthenticate was called again AFTER SetOAuthPkce: the new authenticator
                           -- replaces the cookie chain (nothing of the old one may survive)
  deriving Repr

/-- The ways an authenticator can refuse (`authenticate`'s error arms). -/
inductive Reject
  | failure        -- *AuthFailure (possibly wrapped)        -> 401
  | rpcValue       -- *RpcError ValueError                  -> 401
  | rpcPermission  -- *RpcError PermissionError             -> 401
  | unavailable    -- *AuthUnavailableError                 -> 503
  | rpcOther       -- *RpcError of another type             -> 500
  | other          -- any other error                       -> 500
  deriving DecidableEq, Repr

/-- What the (inner) authenticator does with this request. -/
inductive Inner
  | accept (principal : String)   -- authenticated context
  | acceptAnon                    -- non-nil, unauthenticated context
  | reject (k : Reject)
  | rejectCtx (k : Reject) (principal : String)   -- returns (authenticated context, error): still a refusal
  | nilNil                        -- returns (nil, nil): no context, no error
  deriving DecidableEq, Repr

inductive ProofKind | absent | valid | bad
  deriving DecidableEq, Repr

inductive SessKind | absent | garbage | fresh   -- fresh: token of a live session opened anonymously
  deriving DecidableEq, Repr

inductive Body
  | empty | garbage
  | valid                 -- well-formed for the route the path addresses
  | mismatch              -- well-formed request naming another method
  | count (k : Int)       -- upload-URL request asking for k pairs
  | tokUnknown | tokJws | tokDown   -- introspection subjects: unresolvable / JWS-shaped / resolver outage
  deriving DecidableEq, Repr

/-- the body parses as a vgi-rpc request (an Arrow IPC stream with request metadata) -/
def Body.wellFormed : Body → Bool
  | .valid | .mismatch | .count _ => true
  | _ => false

structure Req where
  verb : String
  path : List String      -- non-empty segments
  slash : Bool            -- trailing slash ("/" itself is [] with slash)
  ctArrow : Bool          -- Content-Type is the Arrow stream type
  body : Body
  inner : Inner
  proof : ProofKind
  sess : SessKind
  deriving Repr

/-- What `h.authenticateFunc(r)` yields for the configured stack: the proof gate runs first and
refuses with an AuthFailure unless the proof verifies; the PKCE cookie chain turns a ValueError into
the chain's own ValueError (no cookie is ever sent) and passes everything else through. -/
def outcome (cfg : Cfg) (req : Req) : Inner :=
  if cfg.proofGate && req.proof != .valid then .reject .failure
  else match req.inner with
    -- ProofAuthenticate and ChainAuthenticate both answer `nil, err`: the context is dropped
    | .rejectCtx k p => if cfg.proofGate || (cfg.pkce && !cfg.rotated) then .reject k else .rejectCtx k p
    | i => i

/-- `ChainAuthenticate(m₁ … mₙ)`: the first member that answers without error wins; an
*AuthUnavailableError stops the chain; a ValueError RpcError ("not my credential") moves on; any other
error (PermissionError, AuthFailure, other RpcErrors, plain errors) stops the chain and is the
chain's answer; when every member declined the chain itself answers ValueError. The chain returns
`nil, err`: a context that came with an error is dropped. -/
def chainOutcome : List Inner → Inner
  | [] => .reject .rpcValue
  | .accept p :: _ => .accept p
  | .acceptAnon :: _ => .acceptAnon
  | .nilNil :: _ => .nilNil
  | .reject .rpcValue :: rest => chainOutcome rest
  | .rejectCtx .rpcValue _ :: rest => chainOutcome rest
  | .reject k :: _ => .reject k
  | .rejectCtx k _ :: _ => .reject k

def Inner.isReject : Inner → Bool
  | .reject _ => true
  | .rejectCtx _ _ => true
  | .nilNil => true
  | _ => false

/-- The caller identity a handler sees. -/
structure Ctx where
  authenticated : Bool
  principal : String
  deriving DecidableEq, Repr

def anonymous : Ctx := { authenticated := false, principal := "" }

/-- `HttpServer.authenticate`: `none` = the request was answered (or dropped) by the gate. -/
def authenticate (cfg : Cfg) (req : Req) : Option Ctx :=
  if cfg.authenticator then
    match outcome cfg req with
    | .accept p => some { authenticated := true, principal := p }
    | .acceptAnon => some anonymous
    | .reject _ => none
    | .rejectCtx _ _ => none     -- `if err != nil` decides; the context that came with it is ignored
    | .nilNil => none
  else some anonymous

/-! ## route classes -/

inductive RouteClass
  | rpcUnary | streamInit | continuation | uploadUrl | introspect      -- RPC / control routes
  | health | wellKnown | oauthLogin | page | custom | sessionDelete    -- the exempt set
  | unknown
  deriving DecidableEq, Repr

def introspectSeg : String := "__introspect_token__"
def uploadSeg : String := "__upload_url__"
def sessionSeg : String := "__session__"

/-- Class of a registration, decided by its *pattern* (the property's exempt list is a list of
routes, not of Go identifiers). -/
def classify : PatFact → RouteClass
  | .operator => .custom
  | .pat (some "POST") [.pfx, .wild] .exact => .rpcUnary
  | .pat (some "POST") [.pfx, .wild, .lit "init"] .exact => .streamInit
  | .pat (some "POST") [.pfx, .wild, .lit "exchange"] .exact => .continuation
  | .pat (some "POST") [.pfx, .lit "__upload_url__", .lit "init"] .exact => .uploadUrl
  | .pat (some "POST") [.pfx, .lit "__introspect_token__"] .exact => .introspect
  | .pat (some "GET") [.lit "health"] .exact => .health
  | .pat (some "GET") [.pfx, .lit "health"] .exact => .health
  | .pat (some "GET") [.lit ".well-known", .lit "oauth-protected-resource", .pfx] .exact => .wellKnown
  | .pat (some "GET") [.pfx, .lit "_oauth", .lit "callback"] .exact => .oauthLogin
  | .pat (some "GET") [.pfx, .lit "_oauth", .lit "logout"] .exact => .oauthLogin
  | .pat (some "POST") [.pfx, .lit "_oauth", .lit "token"] .exact => .oauthLogin
  | .pat (some "OPTIONS") [.pfx, .lit "_oauth", .lit "token"] .exact => .oauthLogin
  | .pat (some "GET") [.pfx] .exact => .page
  | .pat (some "GET") [] .dollar => .page
  | .pat (some "GET") [.pfx, .lit "describe"] .exact => .page
  | .pat none [] .subtree => .page
  | .pat (some "DELETE") [.pfx, .lit "__session__"] .exact => .sessionDelete
  | _ => .unknown

/-- The routes the property allows to be reachable without authentication. -/
def RouteClass.exempt : RouteClass → Bool
  | .health | .wellKnown | .oauthLogin | .page | .custom | .sessionDelete => true
  | _ => false

/-! ## which registrations are live for a configuration -/

def condValue (cfg : Cfg) (text : String) : Option Bool :=
  if text = "h.prefix != \"\"" then some (!cfg.pfx.isEmpty)
  else if text = "h.prefix == \"\"" then some cfg.pfx.isEmpty
  else if text = "h.pkce != nil" then some cfg.pkce
  else if text = "h.enableDescribePage" then some cfg.describePage
  else if text = "h.enableLandingPage" then some cfg.landingPage
  else if text = "h.enableNotFoundPage" then some cfg.notFoundPage
  else if text = "h.stickyRegistry == nil" then some true   -- first EnableSticky call
  else none

def condHolds (cfg : Cfg) (c : Cond) : Bool :=
  match condValue cfg c.text with
  | some b => b != c.neg
  | none => false

def registrarRuns (cfg : Cfg) (name : String) : Bool :=
  if name = "initRoutes" then true
  else if name = "initPages" then true
  else if name = "EnableSticky" then cfg.sticky
  else false

def instSegs (pfx : List String) : List PSeg → List CSeg
  | [] => []
  | .lit s :: r => .lit s :: instSegs pfx r
  | .wild :: r => .wild :: instSegs pfx r
  | .pfx :: r => pfx.map .lit ++ instSegs pfx r

/-- A live route: the concrete pattern and the registration it comes from. -/
structure Active where
  pat : Pat
  fact : RouteFact
  deriving Repr

def operatorFact : RouteFact :=
  { registrar := "Handle", conds := [], pattern := .operator, handler := "<param>", wrapper := "" }

def activate (cfg : Cfg) (r : RouteFact) : Option Active :=
  match r.pattern with
  | .operator => none
  | .pat v segs tail =>
    if registrarRuns cfg r.registrar && r.conds.all (condHolds cfg) then
      some { pat := { verb := v, segs := instSegs cfg.pfx segs, tail := tail }, fact := r }
    else none

def activeRoutes (T : Table) (cfg : Cfg) : List Active :=
  T.routes.filterMap (activate cfg) ++ cfg.custom.map fun p => { pat := p, fact := operatorFact }

/-! ## ServeMux matching -/

structure Cand (α : Type) where
  segs : List CSeg
  tail : PTail
  val : α

/-- the pattern ending exactly at this node with the given tail -/
def leaf {α : Type} (cs : List (Cand α)) (t : PTail) : Option α :=
  (cs.find? fun c => c.segs.isEmpty && c.tail == t).map (·.val)

/-- descend into the child node labelled `seg` -/
def children {α : Type} (cs : List (Cand α)) (seg : CSeg) : List (Cand α) :=
  cs.filterMap fun c =>
    match c.segs with
    | h :: t => if h = seg then some { c with segs := t } else none
    | [] => none

/-- `routingNode.matchPath`: literal child, then single wildcard, then the multi wildcard (subtree
pattern) of this node. A trailing slash matches `{$}` first, then the subtree pattern; never a
single wildcard. -/
def matchPath {α : Type} : List (Cand α) → List String → Bool → Option α
  | cs, [], false => leaf cs .exact
  | cs, [], true =>
    match leaf cs .dollar with
    | some v => some v
    | none => leaf cs .subtree
  | cs, s :: rest, sl =>
    match matchPath (children cs (.lit s)) rest sl with
    | some v => some v
    | none =>
      match matchPath (children cs .wild) rest sl with
      | some v => some v
      | none => leaf cs .subtree

def candsFor (rs : List Active) (v : Option String) : List (Cand Active) :=
  (rs.filter fun a => a.pat.verb == v).map fun a => { segs := a.pat.segs, tail := a.pat.tail, val := a }

/-- `routingNode.matchMethodAndPath` (no host patterns are ever registered). -/
def resolveIn (rs : List Active) (verb : String) (path : List String) (sl : Bool) : Option Active :=
  match matchPath (candsFor rs (some verb)) path sl with
  | some a => some a
  | none =>
    match (if verb = "HEAD" then matchPath (candsFor rs (some "GET")) path sl else none) with
    | some a => some a
    | none => matchPath (candsFor rs none) path sl

def resolve (T : Table) (cfg : Cfg) (req : Req) : Option Active :=
  resolveIn (activeRoutes T cfg) req.verb req.path req.slash

/-! ## work of each route class (what runs once the gate has let the request through) -/

inductive Event
  | handler        -- a unary method handler ran
  | describe       -- the __describe__ batch was built and returned
  | init           -- a stream method's init handler ran
  | state          -- a stream state's Produce/Exchange ran
  | provider (n : Nat)   -- UploadURLProvider.GenerateUploadURL ran n times
  | resolver       -- the TokenResolver ran
  | custom         -- an operator route's handler ran
  | stateClose     -- a sticky session state was closed
  deriving DecidableEq, Repr

inductive MKind | unary | producer | exchange
  deriving DecidableEq, Repr

/-- the methods the harness registers -/
def methodKind (m : String) : Option MKind :=
  if m = "u1" then some .unary
  else if m = "pr1" then some .producer
  else if m = "ex1" then some .exchange
  else none

def maxUploadCount : Nat := 100

def clampCount (k : Int) : Nat :=
  if k < 1 then 1 else if k > 100 then maxUploadCount else k.toNat

/-- the `{method}` capture: segment `back` positions from the end of the path -/
def captured (path : List String) (back : Nat) : String :=
  (path.reverse.drop back).headD ""

def introspector : String := "introspector"

def workOf (cfg : Cfg) (req : Req) (ctx : Ctx) : RouteClass → Option (List Event)
  | .rpcUnary =>
    let m := captured req.path 0
    if !req.ctArrow then some []
    else if m = "__describe__" then
      -- handleDescribe only needs a well-formed request stream; it ignores which method it names
      (if req.body.wellFormed then some [.describe] else some [])
    else if methodKind m = some .unary && req.body = .valid then some [.handler]
    else some []
  | .streamInit =>
    let m := captured req.path 1
    if !req.ctArrow || req.body != .valid then some []
    else match methodKind m with
      | some .producer => some [.init, .state]
      | some .exchange => some [.init]
      | _ => some []
  | .continuation =>
    let m := captured req.path 1
    if req.ctArrow && req.body = .valid && m = "ex1" then some [.state] else some []
  | .uploadUrl =>
    if !cfg.upload || !req.ctArrow then some []
    else match req.body with
      | .valid => some [.provider 1]
      | .count k => some [.provider (clampCount k)]
      | _ => some []
  | .introspect =>
    if !(ctx.authenticated && ctx.principal = introspector) then some []
    else match req.body with
      | .valid | .tokUnknown | .tokDown => some [.resolver]
      | _ => some []
  | .custom => some [.custom]
  | .sessionDelete =>
    -- best-effort identity: an authenticated context does not match the anonymous session
    if req.sess = .fresh && !ctx.authenticated then some [.stateClose] else some []
  | .health | .wellKnown | .oauthLogin | .page => some []
  | .unknown => none

/-! ## ServeHTTP -/

inductive Gate
  | denied      -- answered by `authenticate` (401 / 503 / 500) or dropped (nil, nil)
  | disabled    -- a config nil-guard answered 404 before the authenticator
  | passed      -- the request got past (or never met) the authenticator
  deriving DecidableEq, Repr

/-- Who answered. -/
inductive Served
  | preflight
  | noRoute                 -- the mux answered 404 / 405 / a redirect itself
  | route (c : RouteClass)
  deriving DecidableEq, Repr

structure Resp where
  gate : Gate
  events : List Event
  served : Served
  unknown : Bool := false    -- the facts contain something the model cannot interpret
  deriving DecidableEq, Repr

def featureOn (cfg : Cfg) (field : String) : Option Bool :=
  if field = "introspect" then some cfg.introspect
  else if field = "uploadURLProvider" then some cfg.upload
  else none

def StmtKind.benign : StmtKind → Bool
  | .configRead _ => true
  | .pathValueRead => true
  | .nilGuard f => f = "introspect" || f = "uploadURLProvider"
  | .other => false

/-- Run a handler as the facts describe it: pre-auth statements, the authenticate call, the work. -/
def runHandler (hf : HandlerFact) (cfg : Cfg) (req : Req) (c : RouteClass) : List StmtKind → Resp
  | .nilGuard f :: rest =>
    match featureOn cfg f with
    | some true => runHandler hf cfg req c rest
    | some false => { gate := .disabled, events := [], served := .route c }
    | none => { gate := .passed, events := [], served := .route c, unknown := true }
  | .configRead _ :: rest => runHandler hf cfg req c rest
  | .pathValueRead :: rest => runHandler hf cfg req c rest
  | .other :: _ => { gate := .passed, events := [], served := .route c, unknown := true }
  | [] =>
    let ctx? : Option Ctx := if hf.hasAuth then authenticate cfg req else some anonymous
    match ctx? with
    | none =>
      if hf.guarded then { gate := .denied, events := [], served := .route c }
      else { gate := .denied, events := [], served := .route c, unknown := true }
    | some ctx =>
      match workOf cfg req ctx c with
      | some ev => { gate := .passed, events := ev, served := .route c }
      | none => { gate := .passed, events := [], served := .route c, unknown := true }

/-- identity seen by the exempt handlers that look at the caller on their own
(`authenticateRequest` in handleStickyDelete): never refuses. -/
def bestEffortCtx (cfg : Cfg) (req : Req) : Ctx :=
  if cfg.authenticator then
    match outcome cfg req with
    | .accept p => { authenticated := true, principal := p }
    | .rejectCtx _ p => { authenticated := true, principal := p }   -- `auth, _ := h.authenticateFunc(r)`
    | _ => anonymous
  else anonymous

/-- `wrapPageWithPkce`: the page wrapper calls the authenticator itself and refuses on any error. -/
def pageRefused (cfg : Cfg) (req : Req) : Bool :=
  cfg.authenticator && (match outcome cfg req with | .reject _ => true | .rejectCtx _ _ => true | _ => false)

def findHandler (T : Table) (name : String) : Option HandlerFact :=
  T.handlers.find? fun h => h.name = name

def runRoute (T : Table) (cfg : Cfg) (req : Req) (a : Active) : Resp :=
  let c := classify a.fact.pattern
  if c.exempt then
    if a.fact.wrapper = "wrapPageWithPkce" then
      -- the page wrapper consults the authenticator itself and refuses on error (401 / login redirect)
      if pageRefused cfg req then
        { gate := .denied, events := [], served := .route c }
      else { gate := .passed, events := [], served := .route c }
    else if a.fact.wrapper = "" then
      match workOf cfg req (bestEffortCtx cfg req) c with
      | some ev => { gate := .passed, events := ev, served := .route c }
      | none => { gate := .passed, events := [], served := .route c, unknown := true }
    else { gate := .passed, events := [], served := .route c, unknown := true }
  else
    match findHandler T a.fact.handler with
    | none => { gate := .passed, events := [], served := .route c, unknown := true }
    | some hf =>
      if a.fact.wrapper = "" then runHandler hf cfg req c hf.preAuth
      else { gate := .passed, events := [], served := .route c, unknown := true }

/-- `HttpServer.ServeHTTP` (gate-relevant part). -/
def serve (T : Table) (cfg : Cfg) (req : Req) : Resp :=
  if req.verb = "OPTIONS" then { gate := .passed, events := [], served := .preflight }
  else
    match resolve T cfg req with
    | none => { gate := .passed, events := [], served := .noRoute }
    | some a => runRoute T cfg req a

/-! ## what must hold of a fact table -/

def authFirst (T : Table) (r : RouteFact) : Bool :=
  r.wrapper = "" &&
  match findHandler T r.handler with
  | some hf => hf.hasAuth && hf.guarded && hf.preAuth.all StmtKind.benign
  | none => false

def knownWrapper (w : String) : Bool := w = "" || w = "wrapPageWithPkce"

/-- A registration is fine when it is one of the exempt routes (by pattern) or its handler
authenticates before anything else. -/
def routeOK (T : Table) (r : RouteFact) : Bool :=
  ((classify r.pattern).exempt && knownWrapper r.wrapper) || authFirst T r

def knownCond (c : Cond) : Bool :=
  (condValue { pfx := [], authenticator := false, proofGate := false, pkce := false, upload := false,
               introspect := false, sticky := false, describePage := false, landingPage := false,
               notFoundPage := false, custom := [] } c.text).isSome

def knownRegistrar (n : String) : Bool :=
  n = "initRoutes" || n = "initPages" || n = "EnableSticky" || n = "Handle"

/-- Everything in the table is something the model interprets: registering functions, guards,
classes. -/
def routeRecognised (r : RouteFact) : Bool :=
  knownRegistrar r.registrar && r.conds.all knownCond && classify r.pattern != .unknown &&
  ((r.pattern == .operator) == (r.registrar == "Handle"))

/-- ServeHTTP may call a handler directly only inside its OPTIONS (preflight) branch. -/
def directOK (d : DirectFact) : Bool :=
  d.conds.head? = some "r.Method == http.MethodOptions"

/-- `authenticate` hands out a context in exactly two places: `Anonymous()` when no authenticator is
configured, and the authenticator's own context on the fall-through after `if err != nil { …;
return nil }`. Every other return is `nil`. (This is what the hand-written `authenticate` above
assumes of the source.) -/
def returnOK (g : GateFact) (r : ReturnFact) : Bool :=
  r.expr = "nil" ||
  (r.expr = "Anonymous()" && r.conds = ["h.authenticateFunc == nil"]) ||
  (r.expr = g.ctxVar && g.ctxVar != "" &&
    -- the fall-through after `if err != nil { …; return nil }`, or directly under `if err == nil`
    ((r.conds = [] && g.errBranchExit) || r.conds = [g.errVar ++ " == nil"]))

def gateOK (g : GateFact) : Bool :=
  g.callTopLevel && g.returns.all (returnOK g)

def TableOK (T : Table) : Prop :=
  (∀ r ∈ T.routes, routeOK T r = true) ∧ (∀ d ∈ T.direct, directOK d = true) ∧ gateOK T.gate = true

instance (T : Table) : Decidable (TableOK T) := by unfold TableOK; infer_instance

end Vgi.RouteAuth
