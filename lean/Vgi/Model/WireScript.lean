import Vgi.Model.Wire
/-!
Hex script syntax for abstract bodies (shared by the C01 and C03 drivers; the Lean counterpart of
`c01Parse` / `c01BuildBody` in harness/c01.go):

  {S|SX <schema> {B <rows> <cells> <meta> | K <token x..> <call x..>}} [J]
  <schema> = - | hexname:hextype:0|1,...   <cells> = - | x<hex>;x<hex>;...   <meta> = - | hexkey=hexval,...
-/
namespace Vgi.WireScript
open Vgi Vgi.Wire

def parseHex (s : String) : Option Bytes := bytesOfHexAux s.toList

def parseField (s : String) : Option Field :=
  match s.splitOn ":" with
  | [n, t, nl] => do
    let nb ← parseHex n
    let tb ← parseHex t
    let nu ← (if nl = "0" then some false else if nl = "1" then some true else none)
    pure ⟨nb, tb, nu⟩
  | _ => none

def parseSchema (s : String) : Option Schema :=
  if s = "-" then some [] else (s.splitOn ",").mapM parseField

def parseCells (s : String) : Option (List Bytes) :=
  if s = "-" then some [] else (s.splitOn ";").mapM parseHexArg

def parseKV (s : String) : Option (Bytes × Bytes) :=
  match s.splitOn "=" with
  | [k, v] => do
    let kb ← parseHex k
    let vb ← parseHex v
    pure (kb, vb)
  | _ => none

def parseMeta (s : String) : Option Meta :=
  if s = "-" then some [] else (s.splitOn ",").mapM parseKV

def parseBatches : List String → Option (List Batch × List String)
  | "B" :: r :: c :: m :: rest => do
    let rows ← r.toNat?
    let cells ← parseCells c
    let md ← parseMeta m
    let (bs, rest') ← parseBatches rest
    pure (⟨rows, md, cells⟩ :: bs, rest')
  | "K" :: t :: c :: rest => do
    let tb ← parseHexArg t
    let cb ← parseHexArg c
    let (bs, rest') ← parseBatches rest
    pure (stateTokenBatch tb cb :: bs, rest')
  | ws => some ([], ws)
termination_by ws => ws.length
decreasing_by all_goals (simp_wf; omega)

def parseStreams : Nat → List String → Option (List Stream × Bool)
  | _, [] => some ([], false)
  | _, ["J"] => some ([], true)
  | 0, _ => none
  | fuel + 1, tag :: sch :: rest =>
    if tag = "S" ∨ tag = "SX" then do
      let schema ← parseSchema sch
      let (bs, rest') ← parseBatches rest
      let (more, junk) ← parseStreams fuel rest'
      pure (⟨schema, bs, tag = "SX"⟩ :: more, junk)
    else none
  | _, _ => none

end Vgi.WireScript
