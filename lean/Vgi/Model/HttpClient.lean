import Vgi.Util
/-!
Model of the native HTTP client in `vgirpc/http_client.go`
(`post`, `parseMain`, `parseIPCStream`, `openStream`, `CallUnary` and the stream object
`HttpClientStream` with `Next`, `Exchange`, `Cancel`, `Close`, `continuationBody`).

What is abstract (environment, supplied on every driver line by the harness, never decided by the
model):
* a response is what `net/http` hands to `post` (transport error | status, Content-Length, read
  error, encoded length, the two encoding headers, the outcome of the decompression library, the
  `X-VGI-RPC-Error` flag) and, for the decoded body, what the Arrow IPC *library* reads from it:
  a sequence of IPC streams (schema fingerprint or unreadable, record batches read before the
  reader stopped, whether it stopped on an error) and the number of bytes left over;
* a record batch is `rows`, a fingerprint of its columns (`payload`), its custom metadata as the
  wire-order key/value list (duplicates possible) and the `exception_type` the JSON library finds
  in `vgi_rpc.log_extra`;
* metadata keys with a framework role are renamed by the harness (`S` stream_state, `C`
  call_state, `L` log_level, `M` log_message, `X` location); all other keys and all values are
  opaque words, the empty value is `""`.

Everything the Go functions *decide* on these inputs is modelled here, branch for branch.
-/
namespace Vgi.HttpClient

/-! ## Metadata maps (`recordMetadata`: Go map built in wire order, later keys overwrite) -/

abbrev Md := List (String × String)

def kState : String := "S"      -- MetaStreamState
def kCall : String := "C"       -- MetaCallState
def kLevel : String := "L"      -- MetaLogLevel
def kMessage : String := "M"    -- MetaLogMessage
def kLocation : String := "X"   -- MetaLocation
def lvlException : String := "EXC"              -- string(LogException)
def defaultExcType : String := "x457863657074696f6e"   -- hex word of "Exception"

def mdFind : Md → String → Option String
  | [], _ => none
  | (k', v) :: r, k => if k' = k then some v else mdFind r k

/-- Go's `m[k]` (zero value when absent). -/
def mdGet (m : Md) (k : String) : String := (mdFind m k).getD ""

/-- Go's `delete(m, k)`. -/
def mdDel (m : Md) (k : String) : Md := m.filter (fun p => decide (p.1 ≠ k))

/-- Go's `m[k] = v`. -/
def mdSet (m : Md) (k v : String) : Md := (k, v) :: mdDel m k

/-- `recordMetadata`: the map view of a wire key/value list. -/
def toMap (wire : Md) : Md := wire.foldl (fun m p => mdSet m p.1 p.2) []

/-! ## Wire objects -/

structure Msg where
  rows : Nat
  payload : String
  xt : String          -- exception_type found in log_extra by encoding/json ("" if none)
  md : Md              -- custom metadata, wire order
  deriving Repr, DecidableEq

structure Ipc where
  schema : Option String   -- fingerprint of the stream's schema; none = ipc.NewReader failed
  msgs : List Msg          -- record batches read before the reader stopped
  readErr : Bool           -- reader stopped on an error (reader.Err() != nil)
  deriving Repr, DecidableEq

inductive Resp
  | terr
  | http (status : Nat) (clen : Int) (rdErr : Bool) (elen : Nat) (ce xce : String)
         (dec : Option Nat) (rpcErr : Bool) (streams : List Ipc) (trail : Nat)
  deriving Repr, DecidableEq

structure Cfg where
  maxEnc : Nat
  maxDec : Nat
  deriving Repr, DecidableEq

inductive Err
  | protocol | typeErr | transport      -- locally built RpcError{Type: ...}
  | status (code : Nat)                 -- *HTTPStatusError
  | exc (typ msg : String)              -- rpcErrorFromMetadata(EXCEPTION batch)
  | other                               -- plain Go error (closed, wrong stream kind, encoding failure)
  deriving Repr, DecidableEq

/-- `ClientBatch`: the record (fingerprint, rows) and the metadata map handed to the caller. -/
structure Batch where
  payload : String
  rows : Nat
  md : Md
  deriving Repr, DecidableEq

structure Parsed where
  batches : List Batch
  token : String
  callToken : String
  deriving Repr, DecidableEq

/-! ## `parseIPCStream` -/

def excOf (md : Md) (xt : String) : Err :=
  .exc (if xt ≠ "" then xt else defaultExcType) (mdGet md kMessage)

/-- The `for reader.Next()` loop of `parseIPCStream`. -/
def parseMsgs (tid : Bool) : List Msg → Parsed → Except Err Parsed
  | [], p => .ok p
  | m :: rest, p =>
    let md := toMap m.md
    let level := mdGet md kLevel
    if m.rows = 0 ∧ level ≠ "" then
      if level = lvlException then .error (excOf md m.xt)
      else parseMsgs tid rest p
    else
      let token := mdGet md kState
      let md1 := if token ≠ "" then mdDel md kState else md
      let call := mdGet md1 kCall
      let md2 := if call ≠ "" then mdDel md1 kCall else md1
      let p1 : Parsed :=
        { p with token := if token ≠ "" then token else p.token,
                 callToken := if call ≠ "" then call else p.callToken }
      if mdGet md2 kLocation ≠ "" then .error .protocol
      else if token ≠ "" ∧ m.rows = 0 ∧ tid = false then parseMsgs tid rest p1
      else parseMsgs tid rest { p1 with batches := p1.batches ++ [⟨m.payload, m.rows, md2⟩] }

def emptyParsed : Parsed := ⟨[], "", ""⟩

/-- `exceptionInStream`: the first EXCEPTION envelope among the batches the reader still yields. -/
def firstExc : List Msg → Option Err
  | [] => none
  | m :: rest =>
    let md := toMap m.md
    if m.rows = 0 ∧ mdGet md kLevel = lvlException then some (excOf md m.xt) else firstExc rest

/-- `parseIPCStream(raw, expected, tokenIsData)`; `expected = none` is a nil schema. -/
def parseStream (expected : Option String) (tid : Bool) (s : Ipc) : Except Err Parsed :=
  match s.schema with
  | none => .error .protocol
  | some sid =>
    if expected.isSome ∧ expected ≠ some sid then
      match firstExc s.msgs with
      | some e => .error e
      | none => .error .typeErr
    else match parseMsgs tid s.msgs emptyParsed with
      | .error e => .error e
      | .ok p => if s.readErr then .error .protocol else .ok p

/-! ## `post` -/

/-- ASCII white space (`strings.TrimSpace` also trims U+0085/U+00A0 and other Unicode spaces,
which cannot occur in a header value that net/http accepted). -/
def isSp (c : Char) : Bool :=
  c = ' ' || c = '\t' || c = '\n' || c = '\r' || c = Char.ofNat 11 || c = Char.ofNat 12

def trimLeft : List Char → List Char
  | [] => []
  | c :: r => if isSp c then trimLeft r else c :: r

def trimChars (l : List Char) : List Char := (trimLeft (trimLeft l).reverse).reverse

/-- `strings.Split(s, ",")` on characters: always at least one (possibly empty) piece. -/
def splitComma : List Char → List (List Char)
  | [] => [[]]
  | c :: r =>
    match splitComma r with
    | [] => [[c]]
    | h :: t => if c = ',' then [] :: h :: t else (c :: h) :: t

def trimS (s : String) : String := String.ofList (trimChars s.toList)
def lowerS (s : String) : String := String.ofList (s.toList.map Char.toLower)

def encNameOk (n : String) : Bool := n = "zstd" || n = "gzip" || n = "identity"

/-- `validateClientContentEncoding`. -/
def validEnc (h : String) : Bool :=
  if trimS h = "" then true
  else (splitComma h.toList).all (fun raw =>
    encNameOk (String.ofList ((trimChars raw).map Char.toLower)))

structure HttpOk where
  rpcErr : Bool
  streams : List Ipc
  trail : Nat
  deriving Repr, DecidableEq

/-- The encoding `post` acts on: the standard header unless blank, else the custom one. -/
def encOf (ce xce : String) : String := if trimS ce = "" then trimS xce else trimS ce

/-- Length of the decoded body `post` goes on with (none = `DecodeContentEncoding` failed);
identity / no encoding leaves the body as it is. -/
def decodedLen (elen : Nat) (enc : String) (dec : Option Nat) : Option Nat :=
  if enc ≠ "" ∧ lowerS enc ≠ "identity" then dec else some elen

/-- `post` from the point where `c.inner.Do(req)` returned. -/
def post (cfg : Cfg) : Resp → Except Err HttpOk
  | .terr => .error .transport
  | .http status clen rdErr elen ce xce dec rpcErr streams trail =>
    if clen > (cfg.maxEnc : Int) then .error .transport
    else if rdErr then .error .transport
    else if elen > cfg.maxEnc then .error .transport
    else if validEnc (encOf ce xce) = false then .error .transport
    else
      match decodedLen elen (encOf ce xce) dec with
      | none => .error .transport
      | some n =>
        if n > cfg.maxDec then .error .transport
        else if status < 200 ∨ status ≥ 300 then .error (.status status)
        else .ok ⟨rpcErr, streams, trail⟩

/-- `parseMain`. -/
def parseMain (r : HttpOk) (expected : Option String) (tid : Bool) : Except Err Parsed :=
  match r.streams with
  | [] => .error .protocol
  | s :: more =>
    match parseStream expected tid s with
    | .error e => .error e
    | .ok p =>
      if more ≠ [] ∨ r.trail > 0 then .error .protocol
      else if r.rpcErr then .error .protocol
      else .ok p

/-- `post` followed by `parseMain`. -/
def fetch (cfg : Cfg) (expected : Option String) (tid : Bool) (r : Resp) : Except Err Parsed :=
  match post cfg r with
  | .error e => .error e
  | .ok h => parseMain h expected tid

/-! ## The stream object -/

structure Stream where
  exchange : Bool
  outSchema : String        -- schemas.Output (fingerprint)
  inSchema : String         -- schemas.Input (exchange streams)
  header : Option Batch
  pending : List Batch
  token : String
  callToken : String
  finished : Bool
  closed : Bool
  deriving Repr, DecidableEq

inductive Kind | init | unary | next | exchange | cancel
  deriving Repr, DecidableEq

/-- What a request carries that the property speaks about (continuation requests: the cursor,
the call token, the cancel mark; init/unary requests carry none). -/
structure Req where
  cursor : String
  call : String
  cancel : Bool
  deriving Repr, DecidableEq

inductive Event
  | sent (k : Kind) (q : Req)
  | recv (k : Kind) (r : Resp)
  deriving Repr, DecidableEq

inductive Res
  | batch (b : Batch)
  | eos
  | ok
  | opened (hdr : Option Batch)
  | err (e : Err)
  deriving Repr, DecidableEq

structure World where
  cfg : Cfg
  cc : Bool                 -- HttpClient.closed
  st : Option Stream
  deriving Repr, DecidableEq

/-- The response the transport hands back for the next request (none offered = the network
gives nothing back: a transport error). -/
def headResp : List Resp → Resp
  | [] => .terr
  | r :: _ => r

/-- The `for` loop of `Next` on a producer stream. One response is consumed per iteration. -/
def nextLoop (cfg : Cfg) (cc : Bool) : Stream → List Resp → List Event → Stream × Res × List Event
  | s, rs, ev =>
    match s.pending with
    | b :: rest => ({ s with pending := rest }, .batch b, ev)
    | [] =>
      if s.finished ∨ s.token = "" then ({ s with finished := true }, .eos, ev)
      else if cc then (s, .err .other, ev)
      else
        let q : Req := ⟨s.token, s.callToken, false⟩
        match rs with
        | [] => (s, .err .transport, ev ++ [.sent .next q, .recv .next .terr])
        | r :: rs' =>
          let ev' := ev ++ [.sent .next q, .recv .next r]
          match fetch cfg (some s.outSchema) false r with
          | .error e => (s, .err e, ev')
          | .ok p =>
            nextLoop cfg cc
              { s with pending := p.batches, token := p.token,
                       callToken := if p.callToken ≠ "" then p.callToken else s.callToken,
                       finished := decide (p.token = "") } rs' ev'

/-- `(*HttpClientStream).Next`. -/
def nextOp (cfg : Cfg) (cc : Bool) (s : Stream) (rs : List Resp) : Stream × Res × List Event :=
  if s.closed then (s, .err .other, [])
  else if s.exchange then (s, .err .other, [])
  else nextLoop cfg cc s rs []

/-- The caller's input batch as far as `Exchange` looks at it. -/
structure Input where
  schema : String      -- fingerprint of input.Schema()
  tooBig : Bool        -- continuationBody fails (encoded request exceeds the client request cap)
  deriving Repr, DecidableEq

/-- `(*HttpClientStream).Exchange`. -/
def exchangeOp (cfg : Cfg) (cc : Bool) (s : Stream) (inp : Input) (rs : List Resp) :
    Stream × Res × List Event :=
  if s.closed then (s, .err .other, [])
  else if s.exchange = false then (s, .err .other, [])
  else if s.finished ∨ s.token = "" then (s, .err .protocol, [])
  else if inp.schema ≠ s.inSchema then (s, .err .typeErr, [])
  else if inp.tooBig then (s, .err .transport, [])
  else
    let q : Req := ⟨s.token, s.callToken, false⟩
    let s1 : Stream := { s with token := "", finished := true }
    if cc then (s1, .err .other, [])
    else
      let r := headResp rs
      let ev := [Event.sent .exchange q, Event.recv .exchange r]
      match fetch cfg (some s.outSchema) true r with
      | .error e => (s1, .err e, ev)
      | .ok p =>
        match p.batches with
        | [b] =>
          if p.token = "" then (s1, .err .protocol, ev)
          else
            ({ s1 with token := p.token,
                       callToken := if p.callToken ≠ "" then p.callToken else s1.callToken,
                       finished := decide (p.token = "") }, .batch b, ev)
        | _ => (s1, .err .protocol, ev)

/-- `(*HttpClientStream).Cancel`. -/
def cancelOp (cfg : Cfg) (cc : Bool) (s : Stream) (rs : List Resp) : Stream × Res × List Event :=
  if s.closed ∨ s.finished ∨ s.token = "" then ({ s with finished := true }, .ok, [])
  else
    let q : Req := ⟨s.token, s.callToken, true⟩
    let s1 : Stream := { s with finished := true, token := "" }
    if cc then (s1, .err .other, [])
    else
      let r := headResp rs
      let ev := [Event.sent .cancel q, Event.recv .cancel r]
      match fetch cfg (some s.outSchema) false r with
      | .error e => (s1, .err e, ev)
      | .ok p =>
        if p.batches.length ≠ 0 ∨ p.token ≠ "" then (s1, .err .protocol, ev)
        else (s1, .ok, ev)

/-- `(*HttpClientStream).Close`. -/
def closeOp (s : Stream) : Stream :=
  if s.closed then s else { s with pending := [], header := none, closed := true }

/-- What `OpenProducer`/`OpenExchange` are called with. -/
structure OpenSpec where
  exchange : Bool
  hdrSchema : Option String
  outSchema : String
  inSchema : String
  deriving Repr, DecidableEq

/-- `openStream` from the point where `post` returned. -/
def openParse (o : OpenSpec) (h : HttpOk) : Except Err Stream :=
  -- optional header stream first
  let hdrRes : Except Err (Option Batch × List Ipc) :=
    match o.hdrSchema with
    | none => .ok (none, h.streams)
    | some hs =>
      match h.streams with
      | [] => .error .protocol
      | s :: more =>
        match parseStream (some hs) true s with
        | .error e => .error e
        | .ok ph =>
          match ph.batches with
          | [b] => .ok (some b, more)
          | _ => .error .protocol
  match hdrRes with
  | .error e => .error e
  | .ok (hdr, rest) =>
    match rest with
    | [] => .error .protocol
    | s :: more =>
      match parseStream (some o.outSchema) false s with
      | .error e => .error e
      | .ok p =>
        if more ≠ [] ∨ h.trail > 0 then .error .protocol
        else if o.exchange ∧ p.batches ≠ [] then .error .protocol
        else if o.exchange ∧ (p.token = "" ∨ p.callToken = "") then .error .protocol
        else if h.rpcErr then .error .protocol
        else .ok { exchange := o.exchange, outSchema := o.outSchema, inSchema := o.inSchema,
                   header := hdr, pending := p.batches, token := p.token,
                   callToken := p.callToken, finished := decide (p.token = ""), closed := false }

def noReq : Req := ⟨"", "", false⟩

/-- `openStream`. -/
def openOp (cfg : Cfg) (cc : Bool) (o : OpenSpec) (rs : List Resp) :
    Option Stream × Res × List Event :=
  if cc then (none, .err .other, [])
  else
    let r := headResp rs
    let ev := [Event.sent .init noReq, Event.recv .init r]
    match post cfg r with
    | .error e => (none, .err e, ev)
    | .ok h =>
      match openParse o h with
      | .error e => (none, .err e, ev)
      | .ok s => (some s, .opened s.header, ev)

/-- `CallUnary`. -/
def unaryOp (cfg : Cfg) (cc : Bool) (expected : Option String) (rs : List Resp) : Res × List Event :=
  if cc then (.err .other, [])
  else
    let r := headResp rs
    let ev := [Event.sent .unary noReq, Event.recv .unary r]
    match fetch cfg expected true r with
    | .error e => (.err e, ev)
    | .ok p =>
      match p.batches with
      | [b] => (.batch b, ev)
      | _ => (.err .protocol, ev)

inductive Op
  | open (o : OpenSpec)
  | next
  | exchange (inp : Input)
  | cancel
  | close
  | clientClose
  | unary (expected : Option String)
  | stat
  deriving Repr, DecidableEq

/-- No stream object exists (never opened, or the open failed): the caller has nothing to call. -/
def noStream : Res := .err .other

/-- One caller action against the responses the transport will hand back during it. -/
def stepOp (w : World) (op : Op) (rs : List Resp) : World × Res × List Event :=
  match op with
  | .open o =>
    let (st, res, ev) := openOp w.cfg w.cc o rs
    ({ w with st := st }, res, ev)
  | .unary e =>
    let (res, ev) := unaryOp w.cfg w.cc e rs
    (w, res, ev)
  | .clientClose => ({ w with cc := true }, .ok, [])
  | .next =>
    match w.st with
    | none => (w, noStream, [])
    | some s => let (s', res, ev) := nextOp w.cfg w.cc s rs; ({ w with st := some s' }, res, ev)
  | .exchange inp =>
    match w.st with
    | none => (w, noStream, [])
    | some s => let (s', res, ev) := exchangeOp w.cfg w.cc s inp rs; ({ w with st := some s' }, res, ev)
  | .cancel =>
    match w.st with
    | none => (w, noStream, [])
    | some s => let (s', res, ev) := cancelOp w.cfg w.cc s rs; ({ w with st := some s' }, res, ev)
  | .close =>
    match w.st with
    | none => (w, noStream, [])
    | some s => ({ w with st := some (closeOp s) }, .ok, [])
  | .stat => (w, .ok, [])

/-- A history: caller actions, each with the responses the (faulty) transport would give. -/
abbrev History := List (Op × List Resp)

/-- Run a history; returns the final world, the results in order and the full wire trace. -/
def run : World → History → World × List Res × List Event
  | w, [] => (w, [], [])
  | w, (op, rs) :: h =>
    let (w1, res, ev) := stepOp w op rs
    let (w2, ress, evs) := run w1 h
    (w2, res :: ress, ev ++ evs)

end Vgi.HttpClient
