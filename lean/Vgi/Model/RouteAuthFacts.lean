import Vgi.Util
/-!
# C22 — datatypes of the facts regenerated from `/repo/vgirpc` by `tools/factgen/c22`

`Vgi.Generated.C22` (regenerated on every `./check C22`) is a value of `Table`:

* every `<x>.mux.HandleFunc(pattern, handler)` registration of the package (`initRoutes`,
  `initPages`, `EnableSticky`, `Handle`) with the pattern already tokenised, the guarding `if`
  conditions and the handler expression;
* for every handler named by a registration: whether its body calls `h.authenticate(w, r)`, whether
  a `nil` result returns immediately, and the (classified) statements that run before that call;
* the handler methods `ServeHTTP` calls directly (bypassing the mux);
* the shape of `HttpServer.authenticate` itself: where it returns a non-nil context.
-/
namespace Vgi.RouteAuth

/-- A segment of a registered pattern. -/
inductive PSeg
  | lit (s : String)   -- literal path segment
  | wild               -- `{name}`
  | pfx                -- the segments of `h.prefix` are spliced in here
  deriving DecidableEq, Repr

/-- How a pattern ends: exactly here, `/{$}`, or a trailing `/` (subtree). -/
inductive PTail | exact | dollar | subtree
  deriving DecidableEq, Repr

/-- A registered pattern. `operator` = the pattern is a parameter of the registering function
(`HttpServer.Handle`): operator-supplied. -/
inductive PatFact
  | pat (verb : Option String) (segs : List PSeg) (tail : PTail)
  | operator
  deriving DecidableEq, Repr

/-- An `if` condition (rendered Go source) guarding a registration, possibly negated
(`else`-side of a conditional re-assignment). -/
structure Cond where
  neg : Bool
  text : String
  deriving DecidableEq, Repr

structure RouteFact where
  registrar : String          -- function containing the HandleFunc call
  conds : List Cond
  pattern : PatFact
  handler : String            -- method name (`h.handleX`), or "<param>" for an operator handler
  wrapper : String            -- "" or the wrapping method (`h.wrapPageWithPkce(h.handleX)`)
  deriving DecidableEq, Repr

/-- Classification of a statement that runs before the first `h.authenticate(w, r)` call. -/
inductive StmtKind
  | configRead (field : String)      -- `x := h.field`
  | pathValueRead                    -- `x := r.PathValue("...")`
  | nilGuard (field : String)        -- `if h.field == nil { <write a refusal>; return }`
  | other
  deriving DecidableEq, Repr

structure HandlerFact where
  name : String
  hasAuth : Bool                 -- a top-level statement of the body calls `h.authenticate(w, r)`
  guarded : Bool                 -- ... and a nil result makes the handler return at once
  preAuth : List StmtKind        -- statements before it, in order (empty when `hasAuth = false`)
  preAuthText : List String      -- the same statements rendered (documentation only)
  deriving DecidableEq, Repr

/-- A handler method `ServeHTTP` itself calls before the mux. -/
structure DirectFact where
  conds : List String
  handler : String
  deriving DecidableEq, Repr

/-- A `return` of `HttpServer.authenticate` with the `if` conditions enclosing it. -/
structure ReturnFact where
  conds : List String
  expr : String
  deriving DecidableEq, Repr

/-- Shape of `HttpServer.authenticate`. -/
structure GateFact where
  ctxVar : String          -- `ctxVar, errVar := h.authenticateFunc(r)`
  errVar : String
  callTopLevel : Bool      -- that call is a top-level statement
  errBranchExit : Bool     -- followed by `if errVar != nil { ...; return nil }`
  returns : List ReturnFact
  deriving DecidableEq, Repr

structure Table where
  routes : List RouteFact
  handlers : List HandlerFact
  direct : List DirectFact
  gate : GateFact
  deriving Repr

end Vgi.RouteAuth
