import Vgi.Util
/-!
Model of `vgirpc/otel/otel.go` — `otelHook.OnDispatchStart` / `OnDispatchEnd`.

What the hook does is modelled as a function on a `World`: the spans the tracer has handed out
(with the part of the SDK's span semantics the hook relies on: `IsRecording`, `SetStatus`,
`RecordError`, `End`) and the `rpc.server.requests` counter. Not modelled: span names and
descriptive attributes, the duration histogram, clocks.

The W3C `traceparent` extraction (`propagation.TraceContext.Extract`, a library) is modelled
byte for byte because the property speaks about "the caller's traceparent"; the SDK sampler's
recording decision is an input (`rec`).
-/
namespace Vgi.Otel

/-! ### lower-case hex, `strings.Cut(h, "-")`, `extractPart` -/

def hexDigitB (n : Nat) : UInt8 := if n < 10 then UInt8.ofNat (48 + n) else UInt8.ofNat (87 + n)

def hexValB (c : UInt8) : Option Nat :=
  if 48 ≤ c.toNat ∧ c.toNat ≤ 57 then some (c.toNat - 48)
  else if 97 ≤ c.toNat ∧ c.toNat ≤ 102 then some (c.toNat - 87)
  else none

def encodeHex : Bytes → Bytes
  | [] => []
  | b :: r => hexDigitB (b.toNat / 16) :: hexDigitB (b.toNat % 16) :: encodeHex r

def decodeHex : Bytes → Option Bytes
  | [] => some []
  | [_] => none
  | a :: b :: r =>
    match hexValB a, hexValB b, decodeHex r with
    | some x, some y, some d => some (UInt8.ofNat (x * 16 + y) :: d)
    | _, _, _ => none

def dash : UInt8 := 45

/-- `part, left, _ := strings.Cut(h, "-")`. -/
def cut : Bytes → Bytes × Bytes
  | [] => ([], [])
  | c :: r => if c = dash then ([], r) else ((c :: (cut r).1), (cut r).2)

/-- `extractPart(dst, &h, n)`: the part before the next dash must be exactly `n` lower-case hex
digits; returns the decoded bytes and the rest. -/
def extractPart (h : Bytes) (n : Nat) : Option (Bytes × Bytes) :=
  if (cut h).1.length ≠ n then none
  else
    match decodeHex (cut h).1 with
    | some d => some (d, (cut h).2)
    | none => none

structure Remote where
  traceId : Bytes
  spanId : Bytes
  flags : Nat
  deriving Repr, DecidableEq

def allZero (b : Bytes) : Bool := b.all (· = 0)

/-- `TraceContext.extract` on the `traceparent` value (`""` = header absent). -/
def parseTraceparent (h : Bytes) : Option Remote :=
  if h = [] then none
  else
    match extractPart h 2 with
    | none => none
    | some (ver, h1) =>
      let version := (ver.headD 0).toNat
      if version > 254 then none
      else
        match extractPart h1 32 with
        | none => none
        | some (tid, h2) =>
          match extractPart h2 16 with
          | none => none
          | some (sid, h3) =>
            match extractPart h3 2 with
            | none => none
            | some (opts, h4) =>
              let o := (opts.headD 0).toNat
              if version = 0 ∧ (h4 ≠ [] ∨ o > 3) then none
              else if allZero tid ∨ allZero sid then none        -- `sc.IsValid()`
              else some { traceId := tid, spanId := sid, flags := o % 4 }

/-- Go map built from the pairs (a later duplicate key overwrites), then `MapCarrier.Get`. -/
def mapGet (k : Bytes) (m : List (Bytes × Bytes)) : Bytes :=
  m.foldl (fun acc kv => if kv.1 = k then kv.2 else acc) []

def traceparentKey : Bytes := [116, 114, 97, 99, 101, 112, 97, 114, 101, 110, 116]   -- "traceparent"

/-! ### Spans as the hook sees them -/

inductive Code | unset | ok | error
  deriving Repr, DecidableEq

structure Span where
  parent : Option Remote     -- remote parent the span was started under
  recording : Bool           -- the SDK sampler's decision at Start
  ended : Bool
  endCalls : Nat             -- calls of End()
  lateOps : Nat              -- SetStatus/SetAttributes/RecordError calls after End()
  status : Code
  excEvents : Nat            -- RecordError calls that took effect
  deriving Repr, DecidableEq

def fresh (parent : Option Remote) (rec : Bool) : Span :=
  { parent := parent, recording := rec, ended := false, endCalls := 0, lateOps := 0,
    status := .unset, excEvents := 0 }

/-- `span.IsRecording()`. -/
def Span.live (sp : Span) : Bool := sp.recording && !sp.ended

def Span.late (sp : Span) : Span := if sp.ended then { sp with lateOps := sp.lateOps + 1 } else sp

def Span.setAttrs (sp : Span) : Span := if sp.live then sp else sp.late
def Span.setStatus (sp : Span) (c : Code) : Span := if sp.live then { sp with status := c } else sp.late
def Span.recordError (sp : Span) : Span :=
  if sp.live then { sp with excEvents := sp.excEvents + 1 } else sp.late
def Span.finish (sp : Span) : Span := { sp with ended := true, endCalls := sp.endCalls + 1 }

structure Count where
  owner : Nat                -- GHOST: which dispatch this Add(ctx, 1, …) belongs to
  isError : Bool             -- the `status` attribute: "error" / "ok"
  deriving Repr, DecidableEq

structure World where
  spans : List Span
  counts : List Count        -- every `requestCounter.Add(ctx, 1, attrs)`
  deriving Repr

structure Cfg where
  tracing : Bool
  metrics : Bool
  recordExc : Bool
  propagate : Bool           -- a W3C TraceContext propagator is configured
  deriving Repr

structure Info where
  md : Option (List (Bytes × Bytes))    -- `TransportMetadata` (nil or a map)
  deriving Repr

structure Token where
  span : Option Nat          -- `spanToken.span` (nil when tracing is off): index of the span
  deriving Repr, DecidableEq

/-- The remote parent `OnDispatchStart` extracts into the context. -/
def parentOf (cfg : Cfg) (info : Info) : Option Remote :=
  if cfg.propagate then
    match info.md with
    | some m => parseTraceparent (mapGet traceparentKey m)
    | none => none
  else none

/-- `OnDispatchStart`. -/
def onStart (cfg : Cfg) (w : World) (info : Info) (rec : Bool) : World × Token :=
  if !cfg.tracing then (w, { span := none })
  else ({ w with spans := w.spans ++ [fresh (parentOf cfg info) rec] }, { span := some w.spans.length })

/-- The span part of `OnDispatchEnd` (inside `if st.span != nil && st.span.IsRecording()`). -/
def finishSpan (cfg : Cfg) (sp : Span) (hasStats err : Bool) : Span :=
  if sp.live then
    let sp := if hasStats then sp.setAttrs else sp
    let sp :=
      if err then
        let sp := sp.setStatus .error
        let sp := if cfg.recordExc then sp.recordError else sp
        sp.setAttrs                                   -- rpc.vgi_rpc.error_type
      else sp.setStatus .ok
    sp.finish
  else sp

/-- Span half of `OnDispatchEnd`: only the token's own span is touched. -/
def endSpans (cfg : Cfg) (spans : List Span) (t : Token) (hasStats err : Bool) : List Span :=
  match t.span with
  | none => spans
  | some i =>
    match spans[i]? with
    | none => spans
    | some sp => spans.set i (finishSpan cfg sp hasStats err)

/-- `OnDispatchEnd`; `tok = none` models a token that is not a `*spanToken` (early return). -/
def onEnd (cfg : Cfg) (w : World) (tok : Option Token) (owner : Nat) (hasStats err : Bool) : World :=
  match tok with
  | none => w
  | some t =>
    { spans := endSpans cfg w.spans t hasStats err,
      counts := if cfg.metrics then w.counts ++ [{ owner := owner, isError := err }] else w.counts }

/-! ### Call histories -/

structure Sys where
  w : World
  toks : List Token                       -- tokens returned by OnDispatchStart, in start order
  starts : List (Info × Bool)             -- GHOST: what each dispatch was started with
  fin : List (Nat × Bool × Bool)          -- GHOST: finished dispatches (index, hasStats, err)
  deriving Repr

def initSys : Sys := { w := { spans := [], counts := [] }, toks := [], starts := [], fin := [] }

inductive Ev
  | start (info : Info) (rec : Bool)
  | finish (k : Nat) (hasStats err : Bool)     -- OnDispatchEnd of the k-th started dispatch
  deriving Repr

def finOf (fin : List (Nat × Bool × Bool)) (k : Nat) : Option (Bool × Bool) :=
  (fin.find? (·.1 = k)).map (·.2)

/-- One framework event. `none` = the framework broke the hook contract (end without start, or
a second end for the same dispatch) — excluded by C37. -/
def stepEv (cfg : Cfg) (s : Sys) : Ev → Option Sys
  | .start info rec =>
    let r := onStart cfg s.w info rec
    some { s with w := r.1, toks := s.toks ++ [r.2], starts := s.starts ++ [(info, rec)] }
  | .finish k hasStats err =>
    match s.toks[k]? with
    | none => none
    | some t =>
      if (finOf s.fin k).isSome then none
      else some { s with w := onEnd cfg s.w (some t) k hasStats err, fin := s.fin ++ [(k, hasStats, err)] }

def runH (cfg : Cfg) (s : Sys) : List Ev → Option Sys
  | [] => some s
  | e :: es =>
    match stepEv cfg s e with
    | none => none
    | some s' => runH cfg s' es

end Vgi.Otel
