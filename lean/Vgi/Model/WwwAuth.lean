import Vgi.Util
/-!
Model of the WWW-Authenticate builder (`vgirpc/oauth.go: buildWWWAuthenticate`,
`OAuthResourceMetadata.Validate`) and of the client-side parameter parser
(`vgirpc/oauth_client.go: parseQuotedParam` and the six `Parse…` wrappers).

Go strings are byte strings; the model works on `Bytes` (`List UInt8`).

`parseQuotedParam` (after the F28 repair) walks the header once. Outside a quoted value a space
or comma starts a new parameter name, a double quote opens a value whose end is the next double
quote (`strings.IndexByte`); the bytes between the name start and the opening quote are compared
with `param + "="`. The model is the same walk as a two-state machine (`St.name tok` =
outside a value, `tok` = `header[nameStart:i]`; `St.quoted want acc` = inside a value, `want` =
the name matched, `acc` = the bytes of the value so far).
-/
namespace Vgi.WwwAuth

def dq : UInt8 := 34      -- '"'
def eq : UInt8 := 61      -- '='
def sp : UInt8 := 32      -- ' '
def comma : UInt8 := 44   -- ','

/-- Bytes that start a new parameter name outside a quoted value (`case ' ', ','`). -/
def isSep (c : UInt8) : Bool := c == sp || c == comma

inductive St
  | name (tok : Bytes)
  | quoted (want : Bool) (acc : Bytes)

/-- The scanning loop of `parseQuotedParam`; `key` is `param + "="`. -/
def scan (key : Bytes) : St → Bytes → Bytes
  | .name _, [] => []                         -- loop ends: not found
  | .name tok, c :: r =>
    if c = dq then scan key (.quoted (decide (tok = key)) []) r
    else if isSep c then scan key (.name []) r
    else scan key (.name (tok ++ [c])) r
  | .quoted _ _, [] => []                     -- IndexByte = -1: unterminated value
  | .quoted want acc, c :: r =>
    if c = dq then (if want then acc else scan key (.name []) r)
    else scan key (.quoted want (acc ++ [c])) r

/-- `parseQuotedParam(header, param)`. -/
def parseQuoted (hdr param : Bytes) : Bytes := scan (param ++ [eq]) (.name []) hdr

/-! ### Parameter names and literals (as bytes) -/

def nResourceMetadata : Bytes :=
  [114, 101, 115, 111, 117, 114, 99, 101, 95, 109, 101, 116, 97, 100, 97, 116, 97]
def nClientId : Bytes := [99, 108, 105, 101, 110, 116, 95, 105, 100]
def nUseIdToken : Bytes :=
  [117, 115, 101, 95, 105, 100, 95, 116, 111, 107, 101, 110, 95, 97, 115, 95, 98, 101, 97, 114, 101, 114]
def nClientSecret : Bytes := [99, 108, 105, 101, 110, 116, 95, 115, 101, 99, 114, 101, 116]
def nDcClientId : Bytes :=
  [100, 101, 118, 105, 99, 101, 95, 99, 111, 100, 101, 95, 99, 108, 105, 101, 110, 116, 95, 105, 100]
def nDcClientSecret : Bytes :=
  [100, 101, 118, 105, 99, 101, 95, 99, 111, 100, 101, 95, 99, 108, 105, 101, 110, 116, 95, 115, 101,
   99, 114, 101, 116]
def bearer : Bytes := [66, 101, 97, 114, 101, 114]
def litTrue : Bytes := [116, 114, 117, 101]

/-! ### The six client-side accessors -/

def parseResourceMetadataURL (h : Bytes) : Bytes := parseQuoted h nResourceMetadata
def parseClientID (h : Bytes) : Bytes := parseQuoted h nClientId
def parseUseIDTokenAsBearer (h : Bytes) : Bool := parseQuoted h nUseIdToken == litTrue
def parseClientSecret (h : Bytes) : Bytes := parseQuoted h nClientSecret
def parseDeviceCodeClientID (h : Bytes) : Bytes := parseQuoted h nDcClientId
def parseDeviceCodeClientSecret (h : Bytes) : Bytes := parseQuoted h nDcClientSecret

/-! ### Server side: metadata, validation, builder -/

structure Meta where
  resource       : Bytes
  nAuthServers   : Nat
  clientId       : Bytes
  useIdToken     : Bool
  clientSecret   : Bytes
  dcClientId     : Bytes
  dcClientSecret : Bytes
  deriving Repr, DecidableEq

/-- The character class of `clientIDPattern` = `^[A-Za-z0-9\-._~]+$`. -/
def idChar (c : UInt8) : Bool :=
  (65 ≤ c && c ≤ 90) || (97 ≤ c && c ≤ 122) || (48 ≤ c && c ≤ 57) ||
  c == 45 || c == 46 || c == 95 || c == 126

/-- `clientIDPattern.MatchString`. -/
def matchId (f : Bytes) : Bool := !f.isEmpty && f.all idChar

inductive VErr
  | resource | authServers | clientId | clientSecret | dcClientId | dcClientSecret
  deriving Repr, DecidableEq

/-- `OAuthResourceMetadata.Validate` (same order of checks); `none` = valid. -/
def validate (m : Meta) : Option VErr :=
  if m.resource.isEmpty then some .resource
  else if m.nAuthServers = 0 then some .authServers
  else if !m.clientId.isEmpty && !matchId m.clientId then some .clientId
  else if !m.clientSecret.isEmpty && !matchId m.clientSecret then some .clientSecret
  else if !m.dcClientId.isEmpty && !matchId m.dcClientId then some .dcClientId
  else if !m.dcClientSecret.isEmpty && !matchId m.dcClientSecret then some .dcClientSecret
  else none

/-- `name="value"`. -/
def param (n v : Bytes) : Bytes := n ++ [eq, dq] ++ v ++ [dq]

/-- `if v != "" { s += ", name=\"v\"" }`. -/
def opt (n v : Bytes) : Bytes := if v.isEmpty then [] else [comma, sp] ++ param n v

/-- `buildWWWAuthenticate(metadataURL, m)`: fixed parameter order, optional parameters omitted
when empty / false. -/
def build (url : Bytes) (m : Meta) : Bytes :=
  bearer ++ [sp] ++ param nResourceMetadata url
    ++ opt nClientId m.clientId
    ++ (if m.useIdToken then [comma, sp] ++ param nUseIdToken litTrue else [])
    ++ opt nClientSecret m.clientSecret
    ++ opt nDcClientId m.dcClientId
    ++ opt nDcClientSecret m.dcClientSecret


/-! ### Configuration histories (`HttpServer.SetOAuthResourceMetadata` called several times) -/

/-- What the server holds after a successful call: the derived well-known URL and the metadata. -/
structure Config where
  url : Bytes
  md : Meta
  deriving Repr, DecidableEq

/-- One `SetOAuthResourceMetadata(m)` call. `murl = none`: deriving the well-known URL from
`m.Resource` failed (net/url, not modelled). A refused call leaves the configuration untouched;
an accepted one replaces it and rebuilds the challenge. -/
def setMeta (st : Option Config) (murl : Option Bytes) (m : Meta) : Option Config :=
  match validate m with
  | some _ => st
  | none =>
    match murl with
    | none => st
    | some u => some { url := u, md := m }

def configure (calls : List (Option Bytes × Meta)) : Option Config :=
  calls.foldl (fun st c => setMeta st c.1 c.2) none


/-- Any configuration call that can follow `SetOAuthResourceMetadata`: the metadata setter itself,
or one of `SetOAuthPkce` / `SetPrefix` / `SetAuthenticate`, which do not touch the challenge. -/
inductive Setter
  | metadata (murl : Option Bytes) (m : Meta)
  | other

def applySetter (st : Option Config) : Setter → Option Config
  | .metadata u m => setMeta st u m
  | .other => st

/-- The WWW-Authenticate value put on 401 responses (`none`: header not set). -/
def challenge (st : Option Config) : Option Bytes := st.map fun c => build c.url c.md

/-! ### Generic header shape (used by the theorems and by the driver's canonical view) -/

/-- The parameters `build` emits, in order. -/
def params (url : Bytes) (m : Meta) : List (Bytes × Bytes) :=
  [(nResourceMetadata, url)]
    ++ (if m.clientId.isEmpty then [] else [(nClientId, m.clientId)])
    ++ (if m.useIdToken then [(nUseIdToken, litTrue)] else [])
    ++ (if m.clientSecret.isEmpty then [] else [(nClientSecret, m.clientSecret)])
    ++ (if m.dcClientId.isEmpty then [] else [(nDcClientId, m.dcClientId)])
    ++ (if m.dcClientSecret.isEmpty then [] else [(nDcClientSecret, m.dcClientSecret)])

/-- A challenge in general form: every parameter is preceded by its own run of separators. -/
def renderG : List (Bytes × Bytes × Bytes) → Bytes
  | [] => []
  | (s, n, v) :: r => s ++ param n v ++ renderG r

/-- Value of the first parameter called `n` ("" when absent). -/
def lookup (n : Bytes) : List (Bytes × Bytes) → Bytes
  | [] => []
  | p :: ps => if p.1 = n then p.2 else lookup n ps

end Vgi.WwwAuth
