import Vgi.Util
/-!
Model of the application-protocol-version gate:
`vgirpc/metadata.go: semverRegex, parseSemver`, `vgirpc/server.go: SetProtocolVersion,
checkProtocolVersion` and the guard `if s.protocolVersionSet { … }` placed after the
`__describe__` short-circuit in `server_serve.go: serveOne`, `http_unary.go: handleUnary`,
`http_stream.go: handleStreamInit`.

Strings are byte strings (`Bytes`). The regular expression
`^(0|[1-9]\d*)\.(0|[1-9]\d*)\.(0|[1-9]\d*)$` (Go RE2: `\d` = ASCII digit, `$` = end of text) is
modelled structurally: split on '.', exactly three components, each `0|[1-9]\d*`.
After the F10 repair the components are arbitrary-precision (`math/big`, as in the Python
reference): `new(big.Int).SetString(digits, 10)` is modelled as the decimal value `decVal` on
unbounded naturals, `Cmp` as the order on `Nat`.
-/
namespace Vgi.Semver

def dot : UInt8 := 46
def isDigit (c : UInt8) : Bool := 48 ≤ c && c ≤ 57

/-- `0|[1-9]\d*` (anchored). -/
def matchComp : Bytes → Bool
  | [] => false
  | c :: rest => if c = 48 then rest.isEmpty else (49 ≤ c && c ≤ 57) && rest.all isDigit

/-- Split at every '.' (always at least one component). -/
def splitDots : Bytes → List Bytes
  | [] => [[]]
  | c :: r =>
    match splitDots r with
    | [] => [[]]
    | h :: t => if c = dot then [] :: h :: t else (c :: h) :: t

/-- `semverRegex.FindStringSubmatch`: the three captured components. -/
def regexMatch (v : Bytes) : Option (Bytes × Bytes × Bytes) :=
  match splitDots v with
  | [a, b, c] => if matchComp a && matchComp b && matchComp c then some (a, b, c) else none
  | _ => none

def digitVal (c : UInt8) : Nat := c.toNat - 48

/-- `big.Int.SetString(ds, 10)` on a digit string: decimal value, most significant digit first. -/
def decVal (ds : Bytes) : Nat := ds.foldl (fun n d => n * 10 + digitVal d) 0

/-- `parseSemver`: `none` = the "Invalid protocol version" error. -/
def parseSemver (v : Bytes) : Option (Nat × Nat × Nat) :=
  match regexMatch v with
  | none => none
  | some (a, b, c) => some (decVal a, decVal b, decVal c)

/-- A server with a declared version (`protocolVersionSet = true`). -/
structure Server where
  text  : Bytes
  major : Nat
  minor : Nat
  patch : Nat
  deriving Repr, DecidableEq

inductive SetResult
  | unset                -- v == "": opted out
  | set (s : Server)
  | panic                -- not canonical semver
  deriving Repr, DecidableEq

/-- `Server.SetProtocolVersion(v)`. -/
def setVersion (v : Bytes) : SetResult :=
  if v.isEmpty then .unset
  else match parseSemver v with
    | none => .panic
    | some (x, y, z) => .set { text := v, major := x, minor := y, patch := z }

/-- Outcome of the gate. Every constructor but `allow` is a refusal carried by a
`ProtocolVersionError` (`error_kind = protocol_version_mismatch`); the constructor is the
"Direction:" sentence of its message. -/
inductive Verdict
  | allow
  | absent          -- "the client did not send a vgi_rpc.protocol_version metadata key"
  | malformed       -- "client sent a malformed protocol_version"
  | clientTooOld    -- "client is too old; upgrade the VGI extension/client …"
  | serverTooOld    -- "server is too old; upgrade the VGI worker …"
  deriving Repr, DecidableEq

/-- `checkProtocolVersion(clientVersion, present)`; `none` = metadata key absent. -/
def check (s : Server) (c : Option Bytes) : Verdict :=
  match c with
  | none => .absent
  | some v =>
    match parseSemver v with
    | none => .malformed
    | some (x, y, _) =>
      if x = s.major ∧ y = s.minor then .allow
      else if x < s.major ∨ (x = s.major ∧ y < s.minor) then .clientTooOld
      else .serverTooOld

/-- The dispatch-boundary guard shared by the three routes: `__describe__` is answered before the
guard is reached; without a declared version the guard is skipped. -/
def gate (srv : Option Server) (isDescribe : Bool) (c : Option Bytes) : Verdict :=
  if isDescribe then .allow
  else match srv with
    | none => .allow
    | some s => check s c


/-! ### Configuration histories and the rest of the dispatch boundary -/

/-- One `SetProtocolVersion(v)` call on a server in state `st` (`none` = no declared version).
A call that panics (non-canonical `v`) has not touched any field: the state stays as it was. -/
def setStep (st : Option Server) (v : Bytes) : Option Server :=
  match setVersion v with
  | .unset => none
  | .set s => some s
  | .panic => st

/-- The state after a whole history of `SetProtocolVersion` calls on a fresh server. -/
def configureSeq (vs : List Bytes) : Option Server := vs.foldl setStep none

/-- Some OTHER defect of the request, classified by where the code detects it relative to the
version guard: `early` = before it (framing: missing method key, request_version, row count;
unknown method; route/method mismatch; wrong route kind; content type), `late` = after it
(parameter binding). -/
inductive Stage
  | none | early | late
  deriving Repr, DecidableEq

inductive Outcome
  | dispatched
  | refused (v : Verdict)     -- ProtocolVersionError, `v ≠ allow`
  | otherError
  deriving Repr, DecidableEq

/-- What a route answers: early defects are reported first, then the version guard, then
parameter binding, then the handler. -/
def callOutcome (srv : Option Server) (isDescribe : Bool) (c : Option Bytes) (flaw : Stage) :
    Outcome :=
  match flaw with
  | .early => .otherError
  | f =>
    match gate srv isDescribe c with
    | .allow => if f = .late then .otherError else .dispatched
    | v => .refused v

/-! ### Canonical decimal numerals (specification vocabulary) -/

def digitChar (n : Nat) : UInt8 := UInt8.ofNat (48 + n % 10)

/-- The canonical decimal numeral of `n`. -/
def toDigits (n : Nat) : Bytes :=
  if n < 10 then [digitChar n] else toDigits (n / 10) ++ [digitChar n]
termination_by n
decreasing_by omega

/-- `MAJOR.MINOR.PATCH`. -/
def render (x y z : Nat) : Bytes := toDigits x ++ [dot] ++ toDigits y ++ [dot] ++ toDigits z

end Vgi.Semver
