/-!
Transition-system pattern shared by the concurrency properties (C29, C40, C42):
an action is enabled iff `step` answers `some`; a schedule is a list of actions; "all
interleavings" is the universal quantifier over `List α`. `run` is executable (the drivers
expose it), `Reachable` is what the theorems quantify over.
-/
namespace Vgi.TS

structure Sys (σ α : Type) where
  init : σ
  step : σ → α → Option σ

variable {σ α : Type}

/-- Execute a schedule; `none` as soon as a disabled action is met. -/
def run (S : Sys σ α) : σ → List α → Option σ
  | s, [] => some s
  | s, a :: as => match S.step s a with
    | none => none
    | some s' => run S s' as

def Reachable (S : Sys σ α) (s : σ) : Prop := ∃ as, run S S.init as = some s

theorem run_append (S : Sys σ α) : ∀ (as bs : List α) (s : σ),
    run S s (as ++ bs) = (run S s as).bind (fun s' => run S s' bs)
  | [], _, _ => rfl
  | a :: as, bs, s => by
    simp only [List.cons_append, run]
    cases S.step s a with
    | none => rfl
    | some s' => exact run_append S as bs s'

theorem reachable_init (S : Sys σ α) : Reachable S S.init := ⟨[], rfl⟩

theorem reachable_step (S : Sys σ α) {s s' : σ} {a : α} (hr : Reachable S s)
    (hs : S.step s a = some s') : Reachable S s' := by
  obtain ⟨as, h⟩ := hr
  refine ⟨as ++ [a], ?_⟩
  rw [run_append, h]
  simp [run, hs]

theorem invariant_of_run (S : Sys σ α) (Inv : σ → Prop)
    (hstep : ∀ s a s', Inv s → S.step s a = some s' → Inv s') :
    ∀ (as : List α) (s s' : σ), Inv s → run S s as = some s' → Inv s'
  | [], s, s', hi, h => by simp only [run] at h; cases h; exact hi
  | a :: as, s, s', hi, h => by
    simp only [run] at h
    cases hs : S.step s a with
    | none => rw [hs] at h; cases h
    | some s1 =>
      rw [hs] at h
      exact invariant_of_run S Inv hstep as s1 s' (hstep s a s1 hi hs) h

/-- An inductive invariant holds in every reachable state (all schedules). -/
theorem invariant_of_step (S : Sys σ α) (Inv : σ → Prop) (hinit : Inv S.init)
    (hstep : ∀ s a s', Inv s → S.step s a = some s' → Inv s') :
    ∀ s, Reachable S s → Inv s := by
  intro s ⟨as, h⟩
  exact invariant_of_run S Inv hstep as S.init s hinit h

/-- Invariants may use already-established invariants of reachable states. -/
theorem invariant_of_step_using (S : Sys σ α) (Aux Inv : σ → Prop)
    (haux : ∀ s, Reachable S s → Aux s) (hinit : Inv S.init)
    (hstep : ∀ s a s', Aux s → Inv s → S.step s a = some s' → Inv s') :
    ∀ s, Reachable S s → Inv s := by
  have : ∀ s, Reachable S s → Reachable S s ∧ Inv s := by
    apply invariant_of_step S (fun s => Reachable S s ∧ Inv s) ⟨reachable_init S, hinit⟩
    intro s a s' ⟨hr, hi⟩ hs
    exact ⟨reachable_step S hr hs, hstep s a s' (haux s hr) hi hs⟩
  intro s hr
  exact (this s hr).2

/-- A system whose every transition is a transition of `T` reaches only states `T` reaches. -/
theorem reachable_mono (S T : Sys σ α) (hinit : S.init = T.init)
    (h : ∀ s a s', S.step s a = some s' → T.step s a = some s') :
    ∀ s, Reachable S s → Reachable T s := by
  intro s hr
  have := invariant_of_step S (Reachable T) (hinit ▸ reachable_init T)
    (fun s a s' hi hs => reachable_step T hi (h s a s' hs))
  exact this s hr

end Vgi.TS
