import Vgi.Model.Wire
/-!
Model of one pipe / Unix / TCP session: `Server.ServeWithContext` / `serveUnixConn` /
`serveTcpConn` (the loop), `serveOne` (`server_serve.go`), `serveUnary` (`server_unary.go`),
`serveStream` (`server_stream.go`), `drainInputStream` (`server.go`).

The client's bytes are a list of IPC streams (`Vgi.Wire.Stream`); the server's answer is a list
of response streams. What is modelled is *framing*: which streams the server reads for a request,
how many response streams it writes and what kind of batches they hold. Handlers are arbitrary
functions in the configuration (`Cfg.unary`, `Cfg.stream`), so the theorems hold for every
handler behaviour (value, error, panic, nil result, wrong state type, any per-tick behaviour).

Reading a request consumes the head stream. Opening/draining the client's input stream consumes
the stream after it: `serveOne` therefore takes the request stream and the optional next stream
and says whether it consumed the latter (`One.resp _ consumedNext`).

Not modelled (documented in notes/built/C02.md): shared-memory segments (`shmConn.ensure` is
taken to return nil, i.e. no request advertises a segment, so every pointer batch is refused), external-location resolution
(`externalConfig = nil`), dispatch hooks, write errors on the transport, context cancellation,
the wrapped `request` column of `deserializeParams`, header serialization failure.
-/
namespace Vgi.Pipe
open Vgi Vgi.Wire

inductive MKind
  | unary | producer | exchange | dynamic
  deriving DecidableEq, Repr

/-- The part of `methodInfo` dispatch looks at. -/
structure MethodInfo where
  name : Bytes
  kind : MKind
  params : Schema               -- `describeStruct(ParamsType).Schema`
  hasResult : Bool              -- `ResultType != nil`
  hasHeader : Bool
  inputSchema : Option Schema   -- registered input schema (exchange)
  deriving DecidableEq, Repr

/-- One batch of a response stream, as far as framing is concerned. -/
inductive OutBatch
  | log (reqId : Bytes)                       -- zero-row log batch (level ≠ EXCEPTION)
  | exc (ty : String) (reqId : Bytes)         -- zero-row EXCEPTION batch
  | data (rows : Nat) (cells : List Bytes)    -- data / result / header batch
  | describe                                  -- the `__describe__` batch
  | topts                                     -- the `__transport_options__` batch
  deriving DecidableEq, Repr

structure RespStream where
  header : Bool                 -- written by `writeStreamHeader`
  batches : List OutBatch
  deriving DecidableEq, Repr

/-- What a unary handler does (`logs` = client log messages recorded before returning). -/
inductive UnaryOutcome
  | value (logs : Nat) (cells : List Bytes)
  | error (logs : Nat) (ty : String)
  | panic (logs : Nat)

/-- What one `Produce`/`Exchange` call leaves in its `OutputCollector`. -/
inductive Item
  | log
  | data (rows : Nat) (cells : List Bytes)
  deriving DecidableEq, Repr

inductive StepOutcome
  | error (ty : String)
  | panic
  | out (items : List Item) (finished : Bool)   -- `finished`: the call invoked `out.Finish()`

/-- The state object a stream handler returned. `produce`/`exchange` are present when the object
implements `ProducerState` / `ExchangeState`. `produce k` is the k-th `Produce` call (a producer
sees no input); `exchange seen` gets every input batch delivered so far (the current one last),
so both are arbitrary deterministic state machines. -/
structure StreamState where
  produce : Option (Nat → StepOutcome)
  exchange : Option (List Batch → StepOutcome)

/-- How the lockstep loop drives the state. -/
inductive Mode
  | prod (f : Nat → StepOutcome)
  | exch (g : List Batch → StepOutcome)

def Mode.isProd : Mode → Bool
  | .prod _ => true
  | .exch _ => false

inductive InitOutcome
  | error (ty : String)
  | panic
  | nilResult
  | ok (logs : Nat) (header : Bool) (inputSchema : Option Schema) (st : StreamState)

structure Cfg where
  methods : List MethodInfo
  /-- `none`: `SetProtocolVersion` not called. `some f`: `f clientVersion` = the gate admits. -/
  pvGate : Option (Option Bytes → Bool)
  unary : Bytes → List Bytes → UnaryOutcome
  stream : Bytes → List Bytes → InitOutcome
  /-- value-level binding of row 0 fails (`setFieldFromArrow` error or recovered panic), e.g. an
  embedded ArrowSerializable payload that is garbage, has no row, or whose inner column type
  differs from the Go field; decided by the cells, never by the handler -/
  bindFails : Bytes → List Bytes → Bool
  /-- arrow compute's safe cast of a column of the batch from the first type to the second
  succeeds (depends on the values, e.g. any empty column casts) -/
  canCast : Bytes → Bytes → Batch → Bool

/-- `"__describe__"` -/
def mDescribe : Bytes := [0x5f, 0x5f, 0x64, 0x65, 0x73, 0x63, 0x72, 0x69, 0x62, 0x65, 0x5f, 0x5f]
/-- `"__transport_options__"` -/
def mTransportOptions : Bytes := [0x5f, 0x5f, 0x74, 0x72, 0x61, 0x6e, 0x73, 0x70, 0x6f, 0x72, 0x74, 0x5f, 0x6f, 0x70, 0x74, 0x69, 0x6f, 0x6e, 0x73, 0x5f, 0x5f]

def lookup (cfg : Cfg) (m : Bytes) : Option MethodInfo := cfg.methods.find? (·.name = m)

def isStreamKind (k : MKind) : Bool := k != .unary

/-- the method is registered as a stream method (`drainRefusedStream`'s test) -/
def isStreamMethod (cfg : Cfg) (m : Bytes) : Bool :=
  match lookup cfg m with
  | some info => isStreamKind info.kind
  | none => false

def errStream (ty : String) (id : Bytes) : RespStream := ⟨false, [.exc ty id]⟩

def logsOf (n : Nat) (id : Bytes) : List OutBatch := List.replicate n (.log id)

/-- `"ERROR"`, `"WARN"` (with `Wire.levelException` the three levels more severe than INFO) -/
def levelError : Bytes := [0x45, 0x52, 0x52, 0x4f, 0x52]
def levelWarn : Bytes := [0x57, 0x41, 0x52, 0x4e]

/-- `CallContext.ClientLog`'s filter for an INFO message: it is recorded unless the request asked
for a more severe minimum level (`logLevelPriority`: EXCEPTION 0, ERROR 1, WARN 2, INFO 3, …;
an empty level means TRACE, an unknown string ranks below TRACE). Handler log counts in
`UnaryOutcome` / `InitOutcome` are INFO messages the handler tried to record. -/
def keepsInfo (lvl : Bytes) : Bool := lvl != levelException && lvl != levelError && lvl != levelWarn

def recorded (req : Request) (n : Nat) : Nat := if keepsInfo req.logLevel then n else 0

/-- `deserializeParams`' gate: `batch.Schema().Equal(desc.Schema)`. -/
def paramsMatch (info : MethodInfo) (req : Request) : Bool := req.schema == info.params

/-- `deserializeParams` succeeds: the schema gate, then "a batch with columns has a row 0" (a
zero-row pointer batch passes `ReadRequest`'s row-count check), then value-level binding (whose
panics are recovered into an error). A failure is a TypeError on every transport; the handler is
not called. -/
def bindOk (cfg : Cfg) (info : MethodInfo) (req : Request) : Bool :=
  paramsMatch info req && !(req.batch.rows == 0 && !info.params.isEmpty) &&
    !cfg.bindFails req.method req.batch.cells

/-- `serveUnary`: exactly one response stream, never touches the next stream. -/
def serveUnary (cfg : Cfg) (info : MethodInfo) (req : Request) : RespStream :=
  let id := req.requestId
  if !bindOk cfg info req then errStream "TypeError" id
  else match cfg.unary req.method req.batch.cells with
    | .error logs ty => ⟨false, logsOf (recorded req logs) id ++ [.exc ty id]⟩
    | .panic logs => ⟨false, logsOf (recorded req logs) id ++ [.exc "RuntimeError" id]⟩
    | .value logs cells =>
      if info.hasResult then ⟨false, logsOf (recorded req logs) id ++ [.data 1 cells]⟩
      else ⟨false, logsOf (recorded req logs) id ++ [.data 0 []]⟩

def hasData : List Item → Bool
  | [] => false
  | .data _ _ :: _ => true
  | .log :: r => hasData r

/-- The flush loop: collector log batches carry no request id. -/
def flush : List Item → List OutBatch
  | [] => []
  | .log :: r => .log [] :: flush r
  | .data n c :: r => .data n c :: flush r

def castCols (cfg : Cfg) (b : Batch) : Schema → Schema → Bool
  | [], [] => true
  | f :: fr, t :: tr => (f.ty == t.ty || cfg.canCast f.ty t.ty b) && castCols cfg b fr tr
  | _, _ => false

/-- `castRecordBatch` as a decision: same column count, same names, every column equal-typed or
castable. -/
def castOk (cfg : Cfg) (b : Batch) (src target : Schema) : Bool :=
  src == target ||
    (src.length == target.length && src.map (·.name) == target.map (·.name) && castCols cfg b src target)

/-- The lockstep loop of `serveStream` over the batches of the client's input stream. `seen` are
the inputs already delivered to the state (a producer only sees how many). The result is what is written to the output stream
after the init logs; the loop's exits all fall through to "close output, drain input". -/
def lockstep (cfg : Cfg) (mode : Mode) (inputSchema : Option Schema)
    (inSch : Schema) (id : Bytes) : List Batch → List Batch → List OutBatch
  | _, [] => []                                      -- client closed its stream
  | seen, b :: rest =>
    if (b.md.get kCancel).isSome then []           -- cancel batch: end without calling the state
    else if isShmPointer b then [.exc "IOError" id]  -- no segment is engaged: the pointer is refused
    else
      let castFails := match inputSchema with
        | some t => !castOk cfg b inSch t
        | none => false
      if castFails then [.exc "TypeError" id]
      else
        let outcome := match mode with
          | .prod f => f seen.length
          | .exch g => g (seen ++ [b])
        match outcome with
        | .error ty => [.exc ty id]
        | .panic => [.exc "RuntimeError" id]
        | .out items fin =>
          let finished := fin && mode.isProd         -- `Finish()` is refused on exchange streams
          if !finished && !hasData items then [.exc "RuntimeError" id]   -- `validate`
          else flush items ++ (if finished then [] else lockstep cfg mode inputSchema inSch id (seen ++ [b]) rest)

/-- Result of one `serveOne` call. `stop`: the serve loop returns (EOF / transport error).
`resp rs c`: `rs` was written and serving continues; `c` = the stream after the request was
consumed (opened as the input stream, or drained). -/
inductive One
  | stop
  | resp (rs : List RespStream) (consumedNext : Bool)
  deriving DecidableEq, Repr

/-- `serveStream`. `next` is the stream following the request on the connection (`none`: end of
input, `ipc.NewReader` fails). -/
def serveStream (cfg : Cfg) (info : MethodInfo) (req : Request) (next : Option Stream) : One :=
  let id := req.requestId
  -- parameter mismatch: error stream, then drain the client's input stream  [fix F02]
  if !bindOk cfg info req then .resp [errStream "TypeError" id] true
  else match cfg.stream req.method req.batch.cells with
    | .error ty => .resp [errStream ty id] true
    | .panic => .resp [errStream "RuntimeError" id] true
    | .nilResult => .resp [errStream "RuntimeError" id] true
    | .ok logs hdr stInput st =>
      -- which interface the state is driven through (dynamic: decided by the state's type)
      let mode : Option Mode :=
        match info.kind with
        | .dynamic =>
          (match st.produce with
           | some f => some (.prod f)
           | none => st.exchange.map .exch)
        | .producer => st.produce.map .prod
        | _ => st.exchange.map .exch
      match mode with
      | none => .resp [errStream "RuntimeError" id] true
      | some mode =>
        let withHeader := info.hasHeader && hdr
        -- header stream: the init logs (without request id) and the 1-row header batch
        let hdrStreams : List RespStream :=
          if withHeader then [⟨true, logsOf (recorded req logs) [] ++ [.data 1 []]⟩] else []
        let initLogs := if withHeader then 0 else recorded req logs
        match next with
        | none => .resp hdrStreams true          -- input reader cannot be opened: no output stream
        | some inp =>
          let inputSchema : Option Schema :=
            if mode.isProd then none
            else match info.inputSchema with
              | some s => some s
              | none => stInput
          .resp (hdrStreams ++
            [⟨false, logsOf initLogs id ++ lockstep cfg mode inputSchema inp.schema id [] inp.batches⟩]) true

/-- The application-protocol-version gate of `serveOne` (only when `SetProtocolVersion` was
called); the client's version is read from the request's metadata MAP (last duplicate wins). -/
def refused (cfg : Cfg) (req : Request) : Bool :=
  match cfg.pvGate with
  | some admits => !admits (req.metaMap kProtocolVersion)
  | none => false

/-- `serveOne` after the method lookup succeeded: version gate, then dispatch on the method type. -/
def dispatch (cfg : Cfg) (info : MethodInfo) (req : Request) (next : Option Stream) : One :=
  -- version refusal: error stream; a stream method's input stream is drained  [fix F02]
  if refused cfg req then .resp [errStream "ProtocolVersionError" req.requestId] (isStreamKind info.kind)
  else match info.kind with
    | .unary => .resp [serveUnary cfg info req] false
    | _ => serveStream cfg info req next

/-- `serveOne`: one request/response cycle. -/
def serveOne (cfg : Cfg) (s : Stream) (next : Option Stream) : One :=
  match readRequestStream s with
  | .error .eof => .stop
  | .error .transport => .stop
  | .error (.rpc ty) => .resp [errStream ty.name []] false
  | .ok req =>
    let id := req.requestId
    -- no segment is ever attached in this model: an shm pointer request is refused, and
    -- `drainRefusedStream` consumes the input stream when the method is a registered stream method
    if isShmPointer req.batch then .resp [errStream "IOError" id] (isStreamMethod cfg req.method)
    else if req.method = mDescribe then .resp [⟨false, [.describe]⟩] false
    else if req.method = mTransportOptions then .resp [⟨false, [.topts]⟩] false
    else match lookup cfg req.method with
      | none => .resp [errStream "AttributeError" id] false
      | some info => dispatch cfg info req next

/-- The serve loop on everything the client wrote. Second component: streams left unread when
the loop returned (0 when it ran into the end of input). -/
def serve (cfg : Cfg) : List Stream → List RespStream × Nat
  | [] => ([], 0)
  | [s] =>
    match serveOne cfg s none with
    | .stop => ([], 0)
    | .resp rs _ => (rs, 0)
  | s :: n :: rest =>
    match serveOne cfg s (some n) with
    | .stop => ([], rest.length + 1)
    | .resp rs false => let r := serve cfg (n :: rest); (rs ++ r.1, r.2)
    | .resp rs true => let r := serve cfg rest; (rs ++ r.1, r.2)

/-! ### The client side -/

/-- One call as the client frames it: the request stream and, for a stream call, the complete
input stream (schema, ticks / data batches, optionally a cancel batch, EOS) it writes after it. -/
structure ClientOp where
  request : Stream
  input : Option Stream
  deriving DecidableEq, Repr

def frames (op : ClientOp) : List Stream := op.request :: op.input.toList

/-- The request is a structurally valid call of a registered stream method — the situation in
which a client writes an input stream. (Parameter validity, the protocol-version stamp and
everything the handler does are NOT part of this: refusing or failing such a call is the server's
business and must keep the session in frame.) -/
def isStreamCall (cfg : Cfg) (op : ClientOp) : Bool :=
  match readRequestStream op.request with
  | .ok req =>
    if isShmPointer req.batch then isStreamMethod cfg req.method
    else req.method != mDescribe && req.method != mTransportOptions && isStreamMethod cfg req.method
  | .error _ => false

/-- A well-shaped call: the request stream holds a batch (anything else is not a request: the
server takes an empty stream for the end of the session), and the client writes an input stream
exactly for stream calls. -/
def WellShaped (cfg : Cfg) (op : ClientOp) : Prop :=
  op.request.batches ≠ [] ∧ op.input.isSome = isStreamCall cfg op

instance (cfg : Cfg) (op : ClientOp) : Decidable (WellShaped cfg op) := by
  unfold WellShaped; infer_instance

/-- The answer to `op` alone on a fresh connection. -/
def expected (cfg : Cfg) (op : ClientOp) : List RespStream :=
  match serveOne cfg op.request op.input with
  | .resp rs _ => rs
  | .stop => []

end Vgi.Pipe
