import Vgi.Util
/-!
Model of the error envelope of `vgirpc`:

* `vgirpc/errors.go`  — the error types, their `Error()` / `ErrorKind()` / `ErrorType()` methods and
  `buildErrorExtra` (type switch + fallback, debug gate for traceback/frames);
* `vgirpc/wire.go`    — `writeErrorBatch` (log level, log message, log_extra, optional error_kind);
* the `recover()` sites that turn a handler panic into an `*RpcError` before it reaches
  `writeErrorBatch`: `server_unary.go:serveUnary`, `server_stream.go:serveStream` (init and the
  per-turn dispatch), `http_unary.go`, `http_stream.go` (init, `runProduceLoop`,
  `handleExchangeCall`).

`GoErr` is the shape of a Go `error` value as far as this code can tell values apart: the typed
framework errors, `*RpcError`, and everything else (`errors.New`, `fmt.Errorf("%w")`,
`errors.Join`, user-defined types with or without `ErrorKind()` / `ErrorType()` methods). Every
value also carries `goTypeName`, what `fmt.Sprintf("%T", err)` prints for it: the model needs it
only to *state* that this name is never what goes out.
-/
namespace Vgi.Errors

/-- A Go `error` value. -/
inductive GoErr
  /-- `&RpcError{Type, Message, Kind, Traceback, RequestID}` — every exported field. `tb` is the
  value's OWN `Traceback` field (e.g. decoded by a client from an upstream server that had debug
  errors on), `rid` its `RequestID` field. -/
  | rpc (ty msg kind tb rid : String)
  /-- `&MethodNotImplementedError{Method, Message}` -/
  | notImpl (method msg : String)
  /-- `&ProtocolVersionError{Message}` -/
  | protoVersion (msg : String)
  /-- `&SessionLostError{Reason}` -/
  | sessionLost (reason : String)
  /-- `&ServerDrainingError{}` -/
  | draining
  /-- `&externalCapError{msg}` (http_response_cap.go) -/
  | extCap (msg : String)
  /-- `errors.New(msg)` / `fmt.Errorf` without `%w` -/
  | plain (msg : String)
  /-- `fmt.Errorf("%s%w", pfx, inner)` -/
  | wrapped (pfx : String) (inner : GoErr)
  /-- `errors.Join(a, b)` -/
  | joined (a b : GoErr)
  /-- a user-defined error type: its `%T` name, its `Error()` text, the result of its `ErrorKind()`
  method if it has one, the result of its `ErrorType()` method if it has one. -/
  | custom (goType msg : String) (kind : Option String) (errType : Option String)
  deriving Repr, DecidableEq

def drainingMessage : String := "server is draining — new sessions are rejected"
def sessionLostDefault : String := "session lost"

/-- `err.Error()`. -/
def GoErr.message : GoErr → String
  | .rpc ty msg _ _ _ => ty ++ ": " ++ msg
  | .notImpl method msg => if msg ≠ "" then msg else "Unknown method: '" ++ method ++ "'"
  | .protoVersion msg => msg
  | .sessionLost reason => if reason ≠ "" then reason else sessionLostDefault
  | .draining => drainingMessage
  | .extCap msg => msg
  | .plain msg => msg
  | .wrapped pfx inner => pfx ++ inner.message
  | .joined a b => a.message ++ "\n" ++ b.message
  | .custom _ msg _ _ => msg

/-- `fmt.Sprintf("%T", err)`: the Go-internal dynamic type name. -/
def GoErr.goTypeName : GoErr → String
  | .rpc .. => "*vgirpc.RpcError"
  | .notImpl .. => "*vgirpc.MethodNotImplementedError"
  | .protoVersion .. => "*vgirpc.ProtocolVersionError"
  | .sessionLost .. => "*vgirpc.SessionLostError"
  | .draining => "*vgirpc.ServerDrainingError"
  | .extCap .. => "*vgirpc.externalCapError"
  | .plain .. => "*errors.errorString"
  | .wrapped .. => "*fmt.wrapError"
  | .joined .. => "*errors.joinError"
  | .custom goType _ _ _ => goType

/-! ### `buildErrorExtra`: the type switch -/

def runtimeError : String := "RuntimeError"
def attributeError : String := "AttributeError"
def protocolVersionError : String := "ProtocolVersionError"
def sessionLostError : String := "SessionLostError"
def serverDrainingError : String := "ServerDrainingError"

/-- `errType` in `buildErrorExtra`: starts as the fallback `"RuntimeError"`, replaced by the case
of the type switch that matches the *dynamic type of the value itself* (no unwrapping). -/
def wireType : GoErr → String
  | .rpc ty _ _ _ _ => ty                              -- case *RpcError: e.Type
  | .notImpl .. => attributeError                  -- case *MethodNotImplementedError: e.ErrorType()
  | .sessionLost .. => sessionLostError            -- case *SessionLostError
  | .draining => serverDrainingError               -- case *ServerDrainingError
  | .protoVersion .. => protocolVersionError       -- case *ProtocolVersionError
  | .extCap .. => runtimeError                     -- case *externalCapError: e.ErrorType()
  | .plain .. => runtimeError                      -- fallback
  | .wrapped .. => runtimeError                    -- fallback (the switch does not unwrap)
  | .joined .. => runtimeError                     -- fallback
  | .custom .. => runtimeError                     -- fallback (a user ErrorType() is not consulted)

/-! ### `writeErrorBatch`: the optional `vgi_rpc.error_kind` -/

def kindNotImpl : String := "MethodNotImplementedError"
def kindProtoVersion : String := "protocol_version_mismatch"
def kindSessionLost : String := "session_lost"
def kindDraining : String := "server_draining"

/-- `err.(errorKindCarrier)`: does the value's own type have an `ErrorKind()` method, and what does
it return. -/
def carrierKind : GoErr → Option String
  | .rpc _ _ kind _ _ => some kind
  | .notImpl .. => some kindNotImpl
  | .protoVersion .. => some kindProtoVersion
  | .sessionLost .. => some kindSessionLost
  | .draining => some kindDraining
  | .extCap .. => none
  | .plain .. => none
  | .wrapped .. => none
  | .joined .. => none
  | .custom _ _ kind _ => kind

/-- The `vgi_rpc.error_kind` metadata value, `none` when the key is omitted. -/
def errorKind (e : GoErr) : Option String :=
  match carrierKind e with
  | some k => if k ≠ "" then some k else none
  | none => none

/-! ### Debug gate -/

structure Frame where
  file : String
  line : Nat
  function : String
  deriving Repr, DecidableEq

/-- What the Go runtime hands to `buildErrorExtra` (`runtime.Stack`, `runtime.Callers`): not
computable by the model, so it is a parameter. -/
structure Env where
  stack : String
  callers : List Frame
  deriving Repr

def maxFrames : Nat := 5

/-- `errorExtra`, the JSON object in `vgi_rpc.log_extra`. -/
structure Extra where
  exceptionType : String
  exceptionMessage : String
  traceback : String
  frames : List Frame
  deriving Repr, DecidableEq

/-- Traceback and frames come from THIS process's runtime and only when `debug`; an
`*RpcError`'s own `Traceback` / `RequestID` fields are never read. -/
def buildErrorExtra (env : Env) (e : GoErr) (debug : Bool) : Extra :=
  { exceptionType := wireType e
    exceptionMessage := e.message
    traceback := if debug then env.stack else ""
    frames := if debug then env.callers.take maxFrames else [] }

def levelException : String := "EXCEPTION"

/-- The property-relevant part of the EXCEPTION batch's custom metadata. -/
structure Envelope where
  level : String                 -- vgi_rpc.log_level
  logMessage : String            -- vgi_rpc.log_message
  extra : Extra                  -- vgi_rpc.log_extra (decoded)
  errorKind : Option String      -- vgi_rpc.error_kind
  deriving Repr, DecidableEq

def writeErrorBatch (env : Env) (e : GoErr) (debug : Bool) : Envelope :=
  { level := levelException
    logMessage := e.message
    extra := buildErrorExtra env e debug
    errorKind := errorKind e }

/-! ### Raise sites: handler returns an error, or panics and the site recovers -/

/-- A value handed to `panic(...)`. -/
inductive PanicVal
  | str (s : String)
  | int (n : Int)
  | err (e : GoErr)
  | nil
  deriving Repr, DecidableEq

def panicNilMessage : String := "panic called with nil argument"

/-- `fmt.Sprintf("%v", rv)` of the recovered value. -/
def PanicVal.render : PanicVal → String
  | .str s => s
  | .int n => toString n
  | .err e => e.message
  | .nil => panicNilMessage          -- Go ≥ 1.21: recover() yields *runtime.PanicNilError

inductive Outcome
  | ret (e : GoErr)
  | panic (v : PanicVal)
  deriving Repr, DecidableEq

/-- Where in a call the handler code runs. Pipe and HTTP use the same four kinds of site. -/
inductive Site
  | unary | streamInit | produce | exchange
  deriving Repr, DecidableEq

def panicPrefix : String := "handler panicked: "

/-- The error value each site passes to `writeErrorBatch`. A returned error is passed unchanged;
a panic is recovered into `&RpcError{Type: "RuntimeError", Message: …}` — with the
`"handler panicked: "` prefix in unary and stream-init handlers, bare `%v` in stream turns. -/
def raised : Site → Outcome → GoErr
  | _, .ret e => e
  | .unary, .panic v => .rpc runtimeError (panicPrefix ++ v.render) "" "" ""
  | .streamInit, .panic v => .rpc runtimeError (panicPrefix ++ v.render) "" "" ""
  | .produce, .panic v => .rpc runtimeError v.render "" "" ""
  | .exchange, .panic v => .rpc runtimeError v.render "" "" ""

/-- The EXCEPTION batch a call ends with. -/
def exceptionBatch (env : Env) (site : Site) (o : Outcome) (debug : Bool) : Envelope :=
  writeErrorBatch env (raised site o) debug

end Vgi.Errors
