import Vgi.Model.HttpStream
/-!
Model of one whole stream session as a CLIENT sees it, over the two transports:

* `pipeRun`  — `Server.serveStream` (`vgirpc/server_stream.go`): init handler, header stream, init
  logs, then the lockstep loop (cancel check, cast against the declared input schema, handler
  call, `validate`, flush) until the state finishes, a cycle fails, the client cancels or stops
  sending;
* `httpRun`  — a conformant HTTP client driving `handleInit` / `handleExchange` of
  `Vgi.HttpStream`: it echoes the cursor and the call token it was handed, sends one input per
  exchange request (lockstep), follows producer continuation tokens until the stream ends, and may
  send every request to a different server instance (`route`).

`View` is what the property compares: the header, the log messages and data batches (values and
user metadata) in order, and how the stream ended.
-/
namespace Vgi.StreamParity
open Vgi Vgi.HttpStream Vgi.Generated.C16

/-- schema of an input batch relative to the stream's input schema -/
inductive InKind | same | castable | bad
  deriving Repr, DecidableEq

structure InBatch where
  kind : InKind := .same
  vals : List Int := []
  cancel : Bool := false
  md : List (Bytes × Bytes) := []     -- the client's own custom metadata on the input batch
  deriving Repr, DecidableEq

inductive VItem
  | log (m : Nat)
  | data (vals : List Int) (md : List (Bytes × Bytes))
  deriving Repr, DecidableEq

inductive Term
  | finished                -- the state finished the stream
  | error (e : Err)         -- terminating error
  | cancelled               -- the client cancelled
  | idle                    -- the client stopped sending inputs; the stream is still open
  deriving Repr, DecidableEq

structure View where
  header : Option Nat
  items : List VItem
  term : Term
  deriving Repr, DecidableEq

/-- user metadata: everything except the two token keys the HTTP transport itself uses -/
def userKey (k : Bytes) : Bool := k != keyState && k != keyCall

def userMetaLit (md : List (Bytes × Bytes)) : List (Bytes × Bytes) := md.filter fun kv => userKey kv.1

def userMetaVal : Meta → List (Bytes × Bytes)
  | [] => []
  | (k, .lit b) :: r => if userKey k then (k, b) :: userMetaVal r else userMetaVal r
  | _ :: r => userMetaVal r

/-- what a client makes of the batches of an output stream -/
def viewItems : List RBatch → List VItem
  | [] => []
  | .log m :: r => .log m :: viewItems r
  | .data vs md :: r => .data vs (userMetaVal md) :: viewItems r
  | .token _ :: r => viewItems r          -- the zero-row token sentinel is not data
  | .exc _ :: r => viewItems r

def firstExc : List RBatch → Option Err
  | [] => none
  | .exc e :: _ => some e
  | _ :: r => firstExc r

def collItems : List OBatch → List VItem
  | [] => []
  | .log m :: r => .log m :: collItems r
  | .data vs md :: r => .data vs (userMetaLit md) :: collItems r

/-! ### Pipe -/

/-- the lockstep loop of `serveStream` for an exchange stream -/
def pipeExchange (declared : Bool) : SState → List InBatch → List VItem × Term
  | _, [] => ([], .idle)
  | st, b :: rest =>
    if b.cancel then ([], .cancelled)
    else if declared && b.kind = .bad then ([], .error .cast)
    else
      let typed := b.kind = .same || declared
      -- `iterCtx.InputMetadata` is the (cast) input batch's custom metadata: an echoing emit carries it
      let tick := if typed then instTick b.md ((tickAt st).getD defaultExchangeTick) else untypedTick
      match runActs b.vals (Coll.new false) tick with
      | (_, some e) => ([], .error e)
      | (c, none) =>
        if c.dataIdx.isNone then ([], .error .noData)
        else
          let r := pipeExchange declared { st with pos := st.pos + 1 } rest
          (collItems c.batches ++ r.1, r.2)

/-- the lockstep loop of `serveStream` for a producer stream whose client keeps sending ticks -/
def pipeProduce : List Tick → List VItem × Term
  | [] => ([], .finished)               -- the script is exhausted: the scripted state finishes
  | t :: rest =>
    match runActs [] (Coll.new true) t with
    | (_, some e) => ([], .error e)
    | (c, none) =>
      if !c.finished && c.dataIdx.isNone then ([], .error .noData)
      else if c.finished then (collItems c.batches, .finished)
      else
        let r := pipeProduce rest
        (collItems c.batches ++ r.1, r.2)

def headerOf (rq : InitReq) : Option Nat :=
  match rq.hasHeader, rq.header with
  | true, some h => some h
  | _, _ => none

/-- `serveStream`: the client keeps sending ticks to a producer until the stream ends. -/
def pipeRun (rq : InitReq) (inputs : List InBatch) : View :=
  match rq.outcome with
  | .fail k => { header := none, items := [], term := .error (.handler k) }
  | .panic k => { header := none, items := [], term := .error (.panic k) }
  | .ok =>
    let logs := rq.logs.map VItem.log
    if rq.st.producer then
      let r := pipeProduce (rq.st.prog.drop rq.st.pos)
      { header := headerOf rq, items := logs ++ r.1, term := r.2 }
    else
      let r := pipeExchange rq.declared rq.st inputs
      { header := headerOf rq, items := logs ++ r.1, term := r.2 }

/-! ### HTTP client -/

/-- the cursor a client finds in a response: the stream-state value of the first batch that has one -/
def nextCursor : List RBatch → Option Val
  | [] => none
  | .data _ md :: r => match getFirst keyState md with
    | some v => some v
    | none => nextCursor r
  | .token md :: r => match getFirst keyState md with
    | some v => some v
    | none => nextCursor r
  | _ :: r => nextCursor r

def continuationMeta (tok call : Val) (cancel : Bool) : Meta :=
  [(keyState, tok), (keyCall, call)] ++ (if cancel then [(keyCancel, .lit [49])] else [])

/-- the exchange request a conformant client sends for one input -/
def exchangeReq (inst : Nat) (dyn : Bool) (tok call : Val) (b : InBatch) : Req :=
  { inst := inst, routeProducer := false, dynamic := dyn, md := continuationMeta tok call b.cancel ++ litMeta b.md,
    vals := b.vals, schemaOk := b.kind != .bad, exact := b.kind = .same }

/-- the continuation request a conformant client sends to a producer stream -/
def produceReq (inst : Nat) (dyn : Bool) (tok call : Val) : Req :=
  { inst := inst, routeProducer := true, dynamic := dyn, md := continuationMeta tok call false }

/-- lockstep exchange over HTTP: one POST per input; request `n` goes to instance `route n` -/
def httpExchange (cfg : Cfg) (route : Nat → Nat) (dyn : Bool) :
    List InBatch → Nat → World → Val → Val → List VItem × Term
  | [], _, _, _, _ => ([], .idle)
  | b :: rest, n, w, tok, call =>
    let r := handleExchange cfg w (exchangeReq (route n) dyn tok call b)
    if b.cancel then ([], .cancelled)
    else match firstExc r.1.batches with
      | some e => ([], .error e)
      | none =>
        match nextCursor r.1.batches with
        | none => (viewItems r.1.batches, .idle)
        | some tok' =>
          let t := httpExchange cfg route dyn rest (n + 1) r.2.1 tok' call
          (viewItems r.1.batches ++ t.1, t.2)

/-- a producer over HTTP: follow the continuation tokens (at most `fuel` continuation requests) -/
def httpProduce (cfg : Cfg) (route : Nat → Nat) (dyn : Bool) :
    Nat → Nat → World → Val → Val → List VItem × Term
  | 0, _, _, _, _ => ([], .idle)
  | fuel + 1, n, w, tok, call =>
    let r := handleExchange cfg w (produceReq (route n) dyn tok call)
    match firstExc r.1.batches with
    | some e => (viewItems r.1.batches, .error e)
    | none =>
      match nextCursor r.1.batches with
      | none => (viewItems r.1.batches, .finished)
      | some tok' =>
        let t := httpProduce cfg route dyn fuel (n + 1) r.2.1 tok' call
        (viewItems r.1.batches ++ t.1, t.2)

def logItems : List RBatch → List VItem
  | [] => []
  | .log m :: r => .log m :: logItems r
  | _ :: r => logItems r

def headerValue : List RBatch → Option Nat
  | [] => none
  | .data [h] _ :: _ => some h.toNat
  | _ :: r => headerValue r

/-- a whole session over HTTP: `/init` on instance `route 0`, then the continuation requests -/
def httpRun (cfg : Cfg) (route : Nat → Nat) (fuel : Nat) (w : World) (rq : InitReq) (inputs : List InBatch) : View :=
  let r := handleInit cfg w { rq with inst := route 0 }
  let hdr := headerValue r.1.header
  let pre := logItems r.1.header ++ viewItems r.1.batches
  match firstExc r.1.batches with
  | some e => { header := hdr, items := pre, term := .error e }
  | none =>
    match nextCursor r.1.batches, getFirst keyCall (match r.1.batches.getLast? with
        | some (.token md) => md
        | _ => []) with
    | some tok, some call =>
      let t := if rq.st.producer then httpProduce cfg route rq.dynamic fuel 1 r.2.1 tok call
               else httpExchange cfg route rq.dynamic inputs 1 r.2.1 tok call
      { header := hdr, items := pre ++ t.1, term := t.2 }
    | _, _ => { header := hdr, items := pre, term := .finished }

end Vgi.StreamParity
