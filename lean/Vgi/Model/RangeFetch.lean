import Vgi.Util
/-!
Model of `FetchWithParallelRangeRequests` in `vgirpc/external.go` (after the F32 repair):
the probe decision, `fetchChunk`'s treatment of one answer, the receive loop with speculative
hedging as a transition system, and the final reassembly.

* The server is honest but arbitrary: an answer to a range request is `206` with a prefix of the
  requested range (possibly all of it), `200` with a prefix of the whole resource (the Range
  header ignored), or a failure (transport error / any other status).
* Time is abstracted. Which in-flight attempt's result is received next, whether enough
  completion times have been recorded (`len(completionTimes) >= 2`) and which pending chunks
  count as "slow" at that moment are all chosen by the environment in each action, so the
  action sequences over-approximate every timing and every goroutine interleaving. The
  semaphore (`MaxParallelRequests`) only delays attempts; an attempt waiting for it is simply an
  in-flight attempt that has not delivered yet.
-/
namespace Vgi.RangeFetch

/-! ### Probe decision -/

structure Cfg where
  threshold   : Int     -- ParallelThresholdBytes
  chunkSize   : Int     -- ChunkSizeBytes
  maxParallel : Int     -- MaxParallelRequests
  maxFetch    : Int     -- MaxFetchBytes
  hedging     : Bool    -- SpeculativeRetryMultiplier > 0
  maxHedges   : Int     -- MaxSpeculativeHedges
  deriving Repr

def defaultChunkSize : Nat := 8388608
def defaultMaxParallel : Nat := 8

/-- Non-positive `ChunkSizeBytes` falls back to the default. -/
def chunkSizeOf (c : Cfg) : Nat := if c.chunkSize ≤ 0 then defaultChunkSize else c.chunkSize.toNat

/-- Non-positive `MaxParallelRequests` falls back to the default (the semaphore capacity). -/
def parallelOf (c : Cfg) : Nat := if c.maxParallel ≤ 0 then defaultMaxParallel else c.maxParallel.toNat

/-- `ceil(contentLength / chunkSize)`. -/
def numChunks (len cs : Nat) : Nat := (len + cs - 1) / cs

inductive Plan
  | simple                       -- fall back to one plain GET
  | tooLarge                     -- refused: content larger than MaxFetchBytes
  | parallel (n cs : Nat)        -- n range requests of cs bytes (the last one shorter)
  deriving DecidableEq, Repr

/-- The decision after the HEAD probe. `headOk = false`: the HEAD request failed. -/
def plan (c : Cfg) (headOk : Bool) (contentLength : Int) (acceptRangesBytes : Bool) : Plan :=
  if !headOk then .simple
  else if contentLength < c.threshold ∨ !acceptRangesBytes ∨ contentLength ≤ 0 then .simple
  else if contentLength > c.maxFetch then .tooLarge
  else .parallel (numChunks contentLength.toNat (chunkSizeOf c)) (chunkSizeOf c)

/-- `fetchSimple` (the fallback): one GET; a non-200 status or a body larger than `MaxFetchBytes`
is an error, otherwise the body is returned as it is (no content encoding). -/
def fetchSimple (maxFetch : Int) (status : Nat) (body : Bytes) : Option Bytes :=
  if status ≠ 200 then none else if (body.length : Int) > maxFetch then none else some body

/-! ### One attempt -/

/-- The bytes chunk `i` asks for: `bytes=i*cs-(min((i+1)*cs, len)-1)`. -/
def chunkRange (res : Bytes) (cs i : Nat) : Bytes := (res.drop (i * cs)).take cs

inductive Resp
  | partial206 (k : Nat)   -- 206 Partial Content carrying the first k bytes of the requested range
  | whole200 (k : Nat)     -- 200 OK (Range ignored) carrying the first k bytes of the whole resource
  | fail                   -- transport error or any other status
  deriving DecidableEq, Repr

/-- `fetchChunk`: what is sent on `resultCh` (`none` = an error result). A body is accepted only
when it has exactly the requested length, and a `200` only when the range is the whole
resource. -/
def attemptResult (res : Bytes) (cs i : Nat) : Resp → Option Bytes
  | .fail => none
  | .partial206 k =>
    let data := (chunkRange res cs i).take k
    if data.length = (chunkRange res cs i).length then some data else none
  | .whole200 k =>
    let data := res.take k
    if (chunkRange res cs i).length ≠ res.length then none
    else if data.length = (chunkRange res cs i).length then some data else none

/-! ### The receive loop -/

structure Att where
  chunk : Nat
  hedge : Bool
  deriving DecidableEq, Repr

structure St where
  results   : List (Option Bytes)   -- results[i]
  remaining : Nat                  -- chunksRemaining
  expected  : Nat                  -- results still owed by launched goroutines (the Go counter)
  inflight  : List Att             -- the launched attempts that have not been received yet
  hedged    : List Bool            -- hedgedChunks[i]
  firstErr  : Bool                 -- firstErr != nil
  deriving DecidableEq, Repr

structure Params where
  res       : Bytes
  cs        : Nat
  n         : Nat
  hedging   : Bool
  maxHedges : Int

def init (n : Nat) : St :=
  { results := List.replicate n none, remaining := n, expected := n,
    inflight := (List.range n).map fun i => ⟨i, false⟩,
    hedged := List.replicate n false, firstErr := false }

/-- The loop condition `chunksRemaining > 0 && expected > 0`. -/
def running (s : St) : Bool := decide (s.remaining > 0) && decide (s.expected > 0)

def stored (s : St) (i : Nat) : Bool := (s.results.getD i none).isSome

/-- `len(hedgedChunks)`. -/
def hedgeCount (s : St) : Nat := s.hedged.countP id

def budgetSpent (maxHedges : Int) (s : St) : Bool :=
  decide (maxHedges > 0) && decide ((hedgeCount s : Int) ≥ maxHedges)

/-- The `for i := 0; i < numChunks; i++` scan inside `maybeHedge`. -/
def hedgeScan (maxHedges : Int) (slow : List Nat) : List Nat → St → St
  | [], s => s
  | i :: rest, s =>
    if stored s i || s.hedged.getD i false then hedgeScan maxHedges slow rest s
    else if budgetSpent maxHedges s then s
    else if slow.contains i then
      hedgeScan maxHedges slow rest
        { s with hedged := s.hedged.set i true, expected := s.expected + 1,
                 inflight := s.inflight ++ [⟨i, true⟩] }
    else hedgeScan maxHedges slow rest s

/-- `maybeHedge`. `enough` stands for `len(completionTimes) >= 2`, `slow` for the chunks whose
elapsed time exceeds the threshold. -/
def maybeHedge (p : Params) (enough : Bool) (slow : List Nat) (s : St) : St :=
  if !p.hedging then s
  else if budgetSpent p.maxHedges s then s
  else if !enough then s
  else hedgeScan p.maxHedges slow (List.range p.n) s

structure Act where
  j      : Nat          -- which in-flight attempt's result is received next
  resp   : Resp         -- what the server answered to that attempt
  enough : Bool
  slow   : List Nat
  deriving Repr

/-- One iteration of the receive loop; `none` when the loop is not waiting (it has ended) or
there is no such in-flight attempt. -/
def step (p : Params) (s : St) (a : Act) : Option St :=
  if !running s then none
  else match s.inflight[a.j]? with
    | none => none
    | some att =>
      let s1 : St := { s with inflight := s.inflight.eraseIdx a.j, expected := s.expected - 1 }
      match attemptResult p.res p.cs att.chunk a.resp with
      | none =>
        if stored s1 att.chunk then some s1            -- late failure of a duplicate: ignored
        else some { s1 with firstErr := true }
      | some data =>
        let s2 : St :=
          if stored s1 att.chunk then s1                -- a duplicate never replaces a stored chunk
          else { s1 with results := s1.results.set att.chunk (some data),
                         remaining := s1.remaining - 1 }
        if s2.remaining > 0 then some (maybeHedge p a.enough a.slow s2) else some s2

def run (p : Params) : St → List Act → Option St
  | s, [] => some s
  | s, a :: as => match step p s a with
    | some s' => run p s' as
    | none => none

/-- Reassembly: every chunk present, concatenated in order; otherwise an error. -/
def assemble : List (Option Bytes) → Option Bytes
  | [] => some []
  | none :: _ => none
  | some d :: r => (assemble r).map (d ++ ·)

/-- The function's result once the loop has ended (no content encoding). -/
def finish (s : St) : Option Bytes := assemble s.results

end Vgi.RangeFetch
