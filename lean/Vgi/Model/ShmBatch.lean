import Vgi.Model.Shm
/-!
Model of the shared-memory batch I/O of `vgirpc/shm.go`:

* `ResolveShmBatch` : `IsShmPointerBatch`, `strconv.ParseUint(offStr,10,64)`, `strconv.Atoi(lenStr)`,
  `ReadBatch`'s bounds arithmetic (`end := offset + uint64(length)` in `uint64` WITH wrap-around,
  `end > uint64(s.size)`, then the Go slice expression `s.data[offset:end]`, whose run-time check
  `offset ≤ end ≤ len` panics; the panic is turned into an error by the deferred `recover`),
  metadata rewrite (pointer keys dropped, `shm_source` appended);
* `AllocateAndWrite` / `MaybeWriteToShm` : storage-layout selection
  (`schemaHasTopLevelDictionary`, `schemaHasNestedDictionary`), capacity pre-check with the
  upper-bound estimate, first-fit allocation (the allocator itself is `Vgi.Shm`, property C34),
  the stored bytes (`serializeForShm` = full stream minus leading schema message minus trailing
  EOS; everything else = the full stream), `makeShmPointerBatch`;
* `ReadBatch`'s reconstruction `prefix ++ region ++ EOS` for top-level-dictionary schemas;
* `skipOneIPCMessage` / `readMessageBodyLength` byte arithmetic.

The Arrow IPC encoding of a batch (`full`, `schemaOnly`) is NOT modelled: those bytes are inputs.
The mapped data is modelled as a write log (`Mem`), zero-initialised like a fresh segment.
-/
namespace Vgi.ShmBatch
open Vgi Vgi.Shm

/-! ### strconv -/

def two63 : Nat := 9223372036854775808
def two64 : Nat := 18446744073709551616
def two31 : Nat := 2147483648
def two32 : Nat := 4294967296

def isDigit (b : UInt8) : Bool := decide (48 ≤ b.toNat ∧ b.toNat ≤ 57)

/-- base-10 accumulation; `none` on the first non-digit byte. -/
def digitsAcc : Nat → Bytes → Option Nat
  | acc, [] => some acc
  | acc, b :: r => if isDigit b then digitsAcc (acc * 10 + (b.toNat - 48)) r else none

/-- A non-empty all-digit byte string and its value (no size limit). -/
def digitsVal : Bytes → Option Nat
  | [] => none
  | b :: r => digitsAcc 0 (b :: r)

/-- `strconv.ParseUint(s, 10, 64)`: error for "", any non-digit (signs, spaces, `_`, hex) and
values above 2^64-1. -/
def parseUint64 (s : Bytes) : Option Nat :=
  match digitsVal s with
  | some v => if v < two64 then some v else none
  | none => none

/-- `strconv.Atoi(s)` on a 64-bit platform: optional single sign, digits, int64 range. -/
def atoi (s : Bytes) : Option Int :=
  match s with
  | 43 :: r => match digitsVal r with          -- '+'
    | some v => if v < two63 then some (Int.ofNat v) else none
    | none => none
  | 45 :: r => match digitsVal r with          -- '-'
    | some v => if v ≤ two63 then some (- Int.ofNat v) else none
    | none => none
  | _ => match digitsVal s with
    | some v => if v < two63 then some (Int.ofNat v) else none
    | none => none

/-- `strconv.FormatUint(n, 10)` / the digits of `strconv.Itoa`. -/
def fmtDec (n : Nat) : Bytes :=
  if n < 10 then [UInt8.ofNat (48 + n)] else fmtDec (n / 10) ++ [UInt8.ofNat (48 + n % 10)]
termination_by n
decreasing_by omega

/-- `strconv.Itoa`. -/
def fmtInt (i : Int) : Bytes :=
  if i < 0 then 45 :: fmtDec i.natAbs else fmtDec i.natAbs

/-! ### ReadBatch bounds -/

/-- Go's `uint64(x)` for an `int` `x`. -/
def toU64 (i : Int) : Nat := (i % (two64 : Int)).toNat

inductive Bounds
  | ok (lo hi : Nat)     -- region := s.data[lo:hi] taken
  | oob                  -- "shm region out of bounds" error
  | panic                -- slice bounds panic (recovered by ResolveShmBatch)
  deriving Repr, DecidableEq

/-- `ReadBatch(offset, length, _)` up to and including `region := s.data[offset:end]`;
`size = s.size = len(s.data)`. -/
def readBounds (size offset : Nat) (length : Int) : Bounds :=
  let e := (offset + toU64 length) % two64
  if e > size then .oob
  else if offset ≤ e then .ok offset e
  else .panic

/-! ### Metadata -/

abbrev Meta := List (Bytes × Bytes)

/-! Metadata keys as explicit UTF-8 byte lists (so that the kernel can decide equalities on them);
the `#guard`s tie them to the strings of `vgirpc/metadata.go`. -/
def kShmOffset : Bytes := [118, 103, 105, 95, 114, 112, 99, 46, 115, 104, 109, 95, 111, 102, 102, 115, 101, 116]
def kShmLength : Bytes := [118, 103, 105, 95, 114, 112, 99, 46, 115, 104, 109, 95, 108, 101, 110, 103, 116, 104]
def kShmSource : Bytes := [118, 103, 105, 95, 114, 112, 99, 46, 115, 104, 109, 95, 115, 111, 117, 114, 99, 101]
def kLogLevel : Bytes := [118, 103, 105, 95, 114, 112, 99, 46, 108, 111, 103, 95, 108, 101, 118, 101, 108]
#guard kShmOffset == bytesOfString "vgi_rpc.shm_offset"
#guard kShmLength == bytesOfString "vgi_rpc.shm_length"
#guard kShmSource == bytesOfString "vgi_rpc.shm_source"
#guard kLogLevel == bytesOfString "vgi_rpc.log_level"

/-- arrow `Metadata.GetValue`: first match. -/
def mget (k : Bytes) : Meta → Option Bytes
  | [] => none
  | e :: r => if e.1 = k then some e.2 else mget k r

def isPtrKey (k : Bytes) : Bool := k == kShmOffset || k == kShmLength

/-- `IsShmPointerBatch`. -/
def isPointer (rows : Nat) (md : Meta) : Bool :=
  rows == 0 && (mget kShmOffset md).isSome && !(mget kLogLevel md).isSome

/-- The metadata of the resolved batch: pointer keys stripped (all occurrences, order kept),
`shm_source = <segment name>` appended. -/
def resolveMeta (md : Meta) (segName : Bytes) : Meta :=
  md.filter (fun e => !isPtrKey e.1) ++ [(kShmSource, segName)]

inductive Resolve
  | notPointer                       -- batch returned unchanged
  | badOffset | badLength | oob | panic
  | ok (lo hi : Nat)
  deriving Repr, DecidableEq

/-- `ResolveShmBatch` up to the region slice, on a live non-nil segment of total size `size`. -/
def resolve (size rows : Nat) (md : Meta) : Resolve :=
  if !isPointer rows md then .notPointer
  else
    match parseUint64 ((mget kShmOffset md).getD []) with
    | none => .badOffset
    | some off =>
      match atoi ((mget kShmLength md).getD []) with
      | none => .badLength
      | some len =>
        match readBounds size off len with
        | .oob => .oob
        | .panic => .panic
        | .ok lo hi => .ok lo hi

/-- Last-wins deduplication (a Go `map[string]string` filled in order). -/
def mapOf : Meta → Meta
  | [] => []
  | e :: r => if (mget e.1 r).isSome then mapOf r else e :: mapOf r

def bytesLt : Bytes → Bytes → Bool
  | [], [] => false
  | [], _ :: _ => true
  | _ :: _, [] => false
  | a :: r, b :: s => a < b || (a == b && bytesLt r s)

def insertSorted (e : Bytes × Bytes) : Meta → Meta
  | [] => [e]
  | x :: r => if bytesLt e.1 x.1 then e :: x :: r else x :: insertSorted e r

def sortMeta : Meta → Meta
  | [] => []
  | e :: r => insertSorted e (sortMeta r)

/-- `MaybeWriteToShm` + `makeShmPointerBatch`: the two pointer keys first, then the batch's own
metadata as a map (pointer keys excluded). Go iterates the map in random order; the model lists
the extra keys sorted, and the harness sorts the observed tail the same way. -/
def pointerMeta (off : Nat) (len : Int) (existing : Meta) : Meta :=
  (kShmOffset, fmtDec off) :: (kShmLength, fmtInt len) ::
    sortMeta ((mapOf existing).filter fun e => !isPtrKey e.1)

/-! ### Storage layout -/

inductive Kind | plain | nested | top
  deriving Repr, DecidableEq

/-- A column type in preorder: the first token is the column's own type, later tokens are its
descendants (struct fields, list/map elements). -/
abbrev ColTy := List String

def isDictTok (t : String) : Bool := t.startsWith "dict"

/-- the column's own type is a dictionary -/
def colIsDict : ColTy → Bool
  | t :: _ => isDictTok t
  | [] => false

/-- a dictionary occurs anywhere in the column's type (`typeHasDictionary`) -/
def colHasDict (c : ColTy) : Bool := c.any isDictTok

/-- `schemaHasTopLevelDictionary` / `schemaHasNestedDictionary`. -/
def kindOf (cols : List ColTy) : Kind :=
  if cols.any colIsDict then .top
  else if cols.any colHasDict then .nested
  else .plain

def eos : Bytes := [0xFF, 0xFF, 0xFF, 0xFF, 0, 0, 0, 0]

def uAt (bs : Bytes) (pos width : Nat) : Nat := ofLE ((bs.drop pos).take width)

def toI32 (n : Nat) : Int := if n % two32 < two31 then Int.ofNat (n % two32) else Int.ofNat (n % two32) - two32
def toI64 (n : Nat) : Int := if n % two64 < two63 then Int.ofNat (n % two64) else Int.ofNat (n % two64) - two64
/-- Go `int` addition wraps. -/
def wrapI64 (x : Int) : Int := toI64 (x % (two64 : Int)).toNat

/-- `readMessageBodyLength`. -/
def readBodyLength (m : Bytes) : Option Int :=
  let n := m.length
  if n < 8 then none else
  let tablePos := uAt m 0 4
  if tablePos ≥ n then none else
  if tablePos + 4 > n then none else
  let vtablePos : Int := Int.ofNat tablePos - toI32 (uAt m tablePos 4)
  if vtablePos < 0 ∨ vtablePos + 6 > Int.ofNat n then none else
  let vp := vtablePos.toNat
  let vsize := uAt m vp 2
  if 12 > vsize then some 0 else
  if vp + 12 > n then none else
  let fieldOff := uAt m (vp + 10) 2
  if fieldOff = 0 then some 0 else
  let abs := tablePos + fieldOff
  if abs + 8 > n then none else
  some (toI64 (uAt m abs 8))

/-- `skipOneIPCMessage`: offset just after the first message. -/
def skipOne (buf : Bytes) : Option Int :=
  if buf.length < 8 then none else
  let pos := if buf.take 4 = [0xFF, 0xFF, 0xFF, 0xFF] then 4 else 0
  let metaLen := uAt buf pos 4
  let pos := pos + 4
  if metaLen = 0 then none else
  if pos + metaLen > buf.length then none else
  match readBodyLength ((buf.drop pos).take metaLen) with
  | none => none
  | some bl => some (wrapI64 (Int.ofNat (pos + metaLen) + bl))

def hasSuffix (s suf : Bytes) : Bool := suf.length ≤ s.length && s.drop (s.length - suf.length) == suf

/-- `serializeForShm` applied to the full stream: `full[afterSchema : len(full)-8]`
(`none` = error return or slice panic, both make the write fail). -/
def strip (full : Bytes) : Option Bytes :=
  match skipOne full with
  | none => none
  | some a =>
    if !hasSuffix full eos then none
    else if 0 ≤ a ∧ a ≤ Int.ofNat (full.length - 8) then
      some ((full.drop a.toNat).take (full.length - 8 - a.toNat))
    else none

/-- The bytes `AllocateAndWrite` stores for a batch whose complete IPC stream is `full`. -/
def storedOf (k : Kind) (full : Bytes) : Option Bytes :=
  match k with
  | .top => strip full
  | _ => some full

/-- The stream `ReadBatch` hands to the IPC reader (`schemaOnly` = `writeSchemaOnlyStream`). -/
def loadOf (k : Kind) (schemaOnly region : Bytes) : Option Bytes :=
  match k with
  | .top => if schemaOnly.length < 8 then none
            else some (schemaOnly.take (schemaOnly.length - 8) ++ region ++ eos)
  | _ => some region

/-! ### Mapped data as a write log -/

/-- Newest write first. Bytes never written are 0 (fresh `ftruncate`d object). -/
abbrev Mem := List (Nat × Bytes)

def Mem.get : Mem → Nat → UInt8
  | [], _ => 0
  | w :: r, i => if w.1 ≤ i ∧ i < w.1 + w.2.length then w.2.getD (i - w.1) 0 else Mem.get r i

def Mem.read (m : Mem) (lo hi : Nat) : Bytes := (List.range' lo (hi - lo)).map (Mem.get m)

/-! ### Segment state with contents -/

structure St where
  seg : Seg
  mem : Mem
  live : List (Nat × Bytes)      -- ghost: what was stored at each allocation still in the table
  deriving Repr

def St.create (dataSize : Nat) : St := { seg := Vgi.Shm.create dataSize, mem := [], live := [] }

/-- `canFitLocked(size)`: the same scan as allocation, without inserting. -/
def canFit (s : Seg) (size : Int) : Bool := (allocate s size).isSome

inductive WriteRes
  | noFit | failed
  | ok (off : Nat) (len : Nat)
  deriving Repr, DecidableEq

/-- `AllocateAndWrite` (all three layouts): pre-check with the estimate, serialize, allocate the
exact size, copy. -/
def write (st : St) (k : Kind) (est : Int) (full : Bytes) : St × WriteRes :=
  if !canFit st.seg est then (st, .noFit)
  else match storedOf k full with
    | none => (st, .failed)
    | some stored =>
      match allocate st.seg (Int.ofNat stored.length) with
      | none => (st, .noFit)
      | some (off, seg') =>
        ({ seg := seg', mem := (off, stored) :: st.mem, live := (off, stored) :: st.live },
         .ok off stored.length)

def freeAt (st : St) (off : Nat) : Option St :=
  match free st.seg off with
  | none => none
  | some seg' => some { st with seg := seg', live := st.live.filter fun e => e.1 != off }

def resetAll (st : St) : St := { st with seg := reset st.seg, live := [] }

/-- A peer overwriting mapped bytes. -/
def poke (st : St) (off : Nat) (bs : Bytes) : St := { st with mem := (off, bs) :: st.mem }

inductive Op
  | write (k : Kind) (est : Int) (full : Bytes)
  | free (off : Nat)
  | reset
  deriving Repr

def stepOp (st : St) : Op → St
  | .write k est full => (write st k est full).1
  | .free o => match freeAt st o with | some s => s | none => st
  | .reset => resetAll st

/-- FNV-1a 64 of a region (only used to keep protocol lines short). -/
def fnv (bs : Bytes) : UInt64 :=
  bs.foldl (fun h b => (h ^^^ b.toUInt64) * 1099511628211) 14695981039346656037

end Vgi.ShmBatch
