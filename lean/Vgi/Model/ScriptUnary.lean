import Vgi.Model.Script
/-!
Unary dispatch of the scripted family: model of

* `Server.serveUnary`          (vgirpc/server_unary.go)   — pipe / unix / tcp
* `HttpServer.handleUnary`     (vgirpc/http_unary.go)     — from the handler call on
* `WriteUnaryResponse`, `WriteVoidResponse` (vgirpc/wire.go)

for a registered method and parameters that deserialize (the scope of C04), on a server without
response caps, external storage, shared memory or sticky sessions (the defaults).
Both functions also return the `handlerErr` the dispatch hook is given (used by C37).
-/
namespace Vgi.Script

/-- What a scripted unary handler does after its logs. -/
inductive Outcome
  | ret (v : String)          -- return the value (token `v`; "void" handlers return nothing)
  | fail (e : ErrVal)         -- return (zero, err)
  | panic (p : PanicVal)
  deriving Repr, DecidableEq

structure UnaryScript where
  logs : List LogCall
  outcome : Outcome
  deriving Repr, DecidableEq

/-- Registration facts of a unary method (`methodInfo`): the canonical rendering of
`ResultSchema`, and whether `ResultType == nil` (registered with `UnaryVoid`). -/
structure UMethod where
  resultSchema : String
  isVoid : Bool
  deriving Repr, DecidableEq

/-- The canonical rendering of `arrow.NewSchema(nil, nil)`. -/
def emptySchema : String := "{}"

/-- Result of the `func() { defer recover…; info.Handler.Call(…) }()` block:
the context after the handler ran, the returned value and `callErr`. -/
structure HandlerRun where
  ctx : CallCtx
  value : String
  callErr : Option SrvErr
  deriving Repr, DecidableEq

/-- The scripted handler under the framework's `recover`: logs first, then the outcome. A panic
becomes `&RpcError{Type:"RuntimeError", Message: fmt.Sprintf("handler panicked: %v", rv)}`. -/
def runHandler (reqLevel : Bytes) (s : UnaryScript) : HandlerRun :=
  let ctx := (newCallCtx reqLevel).runLogs s.logs
  match s.outcome with
  | .ret v => { ctx := ctx, value := v, callErr := none }
  | .fail e => { ctx := ctx, value := "", callErr := some { msg := e.message } }
  | .panic p => { ctx := ctx, value := "", callErr := some (runtimeErr (panickedPrefix ++ p.fmtV)) }

/-- `WriteUnaryResponse(w, schema, logs, result, serverID, requestID)`: logs first, then the result. -/
def writeUnaryResponse (schema : String) (logs : List LogMessage) (result : Batch) (rid : Bytes) : IpcStream :=
  { schema := schema, batches := logs.map (writeLogBatch · rid) ++ [result] }

/-- `WriteVoidResponse`: empty schema, zero-row batch. -/
def writeVoidResponse (logs : List LogMessage) (rid : Bytes) : IpcStream :=
  writeUnaryResponse emptySchema logs .void rid

/-- The error branch shared by both transports: logs, then ONE error batch, in a stream with the
method's result schema. -/
def writeErrorWithLogs (schema : String) (logs : List LogMessage) (e : SrvErr) (rid : Bytes) : IpcStream :=
  { schema := schema, batches := logs.map (writeLogBatch · rid) ++ [writeErrorBatch e rid] }

/-- `Server.serveUnary` after successful parameter deserialization. Returns the response stream
and `handlerErr`. -/
def serveUnary (m : UMethod) (reqLevel rid : Bytes) (s : UnaryScript) : IpcStream × Option SrvErr :=
  let r := runHandler reqLevel s
  let logs := r.ctx.logs                       -- callCtx.drainLogs()
  match r.callErr with
  | some e => (writeErrorWithLogs m.resultSchema logs e rid, some e)
  | none =>
    if m.isVoid then (writeVoidResponse logs rid, none)
    else (writeUnaryResponse m.resultSchema logs (.data r.value []) rid, none)

/-- HTTP response of a unary call: status after `writeArrow`'s rewrite, the `X-VGI-RPC-Error`
header, and the body. -/
structure HttpUnaryResp where
  status : Nat
  errorHeader : Bool
  body : IpcStream
  deriving Repr, DecidableEq

/-- `h.writeArrow(w, statusCode, data)`: 500 is rewritten to 200 + `X-VGI-RPC-Error: true`. -/
def writeArrow (status : Nat) (body : IpcStream) : HttpUnaryResp :=
  if status = 500 then { status := 200, errorHeader := true, body := body }
  else { status := status, errorHeader := false, body := body }

/-- `HttpServer.handleUnary` from the handler call on (no caps / externalisation / sticky). -/
def handleUnary (m : UMethod) (reqLevel rid : Bytes) (s : UnaryScript) : HttpUnaryResp × Option SrvErr :=
  let r := runHandler reqLevel s
  let logs := r.ctx.logs
  match r.callErr with
  | some e => (writeArrow 500 (writeErrorWithLogs m.resultSchema logs e rid), some e)
  | none =>
    if m.isVoid then (writeArrow 200 (writeVoidResponse logs rid), none)
    else (writeArrow 200 (writeUnaryResponse m.resultSchema logs (.data r.value []) rid), none)

/-- Transport selector used by the driver and by the transport-agreement theorem. -/
inductive Transport | pipe | http
  deriving Repr, DecidableEq

def unaryResponse (t : Transport) (m : UMethod) (reqLevel rid : Bytes) (s : UnaryScript) : IpcStream :=
  match t with
  | .pipe => (serveUnary m reqLevel rid s).1
  | .http => (handleUnary m reqLevel rid s).1.body

end Vgi.Script
