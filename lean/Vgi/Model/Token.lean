import Vgi.Util
import Vgi.Model.TokenSha256
/-!
# Sealed state tokens (model of `vgirpc/http_state.go`, the continuation path of
`vgirpc/http_stream.go`, and the sticky-session token path of `vgirpc/sticky.go`,
`vgirpc/http_sticky.go`, `vgirpc/sticky_context.go`)

Two layers.

* **Concrete layer** (byte exact): Go's base64 decoders (`StdEncoding`, `RawURLEncoding`,
  `URLEncoding`, including their CR/LF tolerance and non-strict trailing bits), the token envelope
  `version | 24-byte nonce | ciphertext` (minimum 41 bytes), the version check, `normalizeTokenKey`
  (32 bytes pass through, anything else is SHA-256'd), the AAD builders `tokenAad`, the cache key
  `callStateIdentity`, `principalKeyFromAuth`, `strings.TrimSpace` on the session header.

* **Symbolic layer** (ideal AEAD): XChaCha20-Poly1305 is a table of sealed records
  `⟨key, nonce, aad, ciphertext, plaintext⟩`. `Seal` adds a record (nonce and ciphertext are the
  bytes the real server produced); `Open key nonce aad ct` succeeds iff exactly that tuple is in
  the table. What is inside the seal (gob + zstd of `cursorTokenData` / `callTokenData`, the binary
  layout of a session token) is the inductive `Plain`: its three constructors embody the
  assumption that a plaintext of one kind never parses as another kind (gob/zstd are not
  modelled).

Time is an explicit clock in **milliseconds**; `CreatedAt` is whole seconds as in the Go structs.
-/
namespace Vgi.Token

/-! ## base64 (encoding/base64, non-strict) -/

inductive Alpha | std | url
  deriving DecidableEq, Repr

def b64Val (a : Alpha) (c : UInt8) : Option Nat :=
  if 65 ≤ c ∧ c ≤ 90 then some (c.toNat - 65)
  else if 97 ≤ c ∧ c ≤ 122 then some (c.toNat - 71)
  else if 48 ≤ c ∧ c ≤ 57 then some (c.toNat + 4)
  else match a with
    | .std => if c = 43 then some 62 else if c = 47 then some 63 else none
    | .url => if c = 45 then some 62 else if c = 95 then some 63 else none

def quad (v0 v1 v2 v3 : Nat) : Nat := v0 * 262144 + v1 * 4096 + v2 * 64 + v3
def qb0 (q : Nat) : UInt8 := UInt8.ofNat (q / 65536 % 256)
def qb1 (q : Nat) : UInt8 := UInt8.ofNat (q / 256 % 256)
def qb2 (q : Nat) : UInt8 := UInt8.ofNat (q % 256)

def padChar : UInt8 := 61

/-- `decodeQuantum` iterated over input from which CR/LF were already removed. `padded = true` is
`StdEncoding`/`URLEncoding` (a final partial group must be `=`-padded, nothing may follow the
padding), `padded = false` is the `Raw…` variant (`=` is not in the alphabet). Trailing bits of a
final partial group are ignored (the decoders are not `Strict()`). -/
def decodeGroups (a : Alpha) (padded : Bool) : List UInt8 → Option Bytes
  | [] => some []
  | [_] => none
  | [c0, c1] =>
    if padded then none else
    match b64Val a c0, b64Val a c1 with
    | some v0, some v1 => some [qb0 (quad v0 v1 0 0)]
    | _, _ => none
  | [c0, c1, c2] =>
    if padded then none else
    match b64Val a c0, b64Val a c1, b64Val a c2 with
    | some v0, some v1, some v2 => some [qb0 (quad v0 v1 v2 0), qb1 (quad v0 v1 v2 0)]
    | _, _, _ => none
  | c0 :: c1 :: c2 :: c3 :: rest =>
    match b64Val a c0, b64Val a c1 with
    | some v0, some v1 =>
      if padded ∧ c2 = padChar then
        if c3 = padChar ∧ rest = [] then some [qb0 (quad v0 v1 0 0)] else none
      else match b64Val a c2 with
        | none => none
        | some v2 =>
          if padded ∧ c3 = padChar then
            if rest = [] then some [qb0 (quad v0 v1 v2 0), qb1 (quad v0 v1 v2 0)] else none
          else match b64Val a c3 with
            | none => none
            | some v3 =>
              match decodeGroups a padded rest with
              | some r => some (qb0 (quad v0 v1 v2 v3) :: qb1 (quad v0 v1 v2 v3) :: qb2 (quad v0 v1 v2 v3) :: r)
              | none => none
    | _, _ => none

def isNL (c : UInt8) : Bool := c = 10 || c = 13

/-- `enc.DecodeString`: `\r` and `\n` are skipped wherever they occur. -/
def b64Decode (a : Alpha) (padded : Bool) (s : Bytes) : Option Bytes :=
  decodeGroups a padded (s.filter fun c => !isNL c)

/-- `base64.StdEncoding.DecodeString` (stream tokens). -/
def b64Std (s : Bytes) : Option Bytes := b64Decode .std true s

/-- Session tokens: `RawURLEncoding`, falling back to padded `URLEncoding`. -/
def b64Session (s : Bytes) : Option Bytes :=
  match b64Decode .url false s with
  | some r => some r
  | none => b64Decode .url true s

/-! ## envelope, key normalisation -/

def nonceLen : Nat := 24
def tagLen : Nat := 16
def minLen : Nat := 1 + nonceLen + tagLen
def cursorVersion : UInt8 := 6
def callVersion : UInt8 := 1
def sessionVersion : UInt8 := 1

structure Envelope where
  version : UInt8
  nonce : Bytes
  ct : Bytes
  deriving DecidableEq, Repr

/-- `version | nonce | ciphertext`; anything shorter than 41 bytes is malformed. -/
def splitEnvelope (raw : Bytes) : Option Envelope :=
  match raw with
  | [] => none
  | v :: rest => if raw.length < minLen then none else some ⟨v, rest.take nonceLen, rest.drop nonceLen⟩

/-- `normalizeTokenKey`. -/
def normKey (key : Bytes) : Bytes := if key.length = 32 then key else Sha256.sha256 key

/-! ## identities and AAD -/

/-- Mirror of the three `AuthContext` fields the token code reads. A `nil` auth is
`authenticated = false`. -/
structure Ident where
  authenticated : Bool
  domain : Bytes
  principal : Bytes
  deriving DecidableEq, Repr

def anon : Ident := ⟨false, [], []⟩

/-- "vgi_rpc.state.v4\0" -/
def cursorPrefix : Bytes := [118, 103, 105, 95, 114, 112, 99, 46, 115, 116, 97, 116, 101, 46, 118, 52, 0]
/-- "vgi_rpc.call.v1\0" -/
def callPrefix : Bytes := [118, 103, 105, 95, 114, 112, 99, 46, 99, 97, 108, 108, 46, 118, 49, 0]
/-- "\0anonymous" -/
def anonTail : Bytes := [0, 97, 110, 111, 110, 121, 109, 111, 117, 115]

/-- The identity tail of `tokenAad`. -/
def Ident.tail (i : Ident) : Bytes :=
  if i.authenticated then 1 :: (i.domain ++ 0 :: i.principal) else anonTail

def tokenAad (pre : Bytes) (i : Ident) : Bytes := pre ++ i.tail
/-- `stateTokenAad` (cursor tokens and sticky-session tokens). -/
def cursorAad (i : Ident) : Bytes := tokenAad cursorPrefix i
/-- `callTokenAad`. -/
def callAad (i : Ident) : Bytes := tokenAad callPrefix i

/-- `callStateIdentity` and `principalKeyFromAuth` (the same function twice in the Go code). -/
def identKey (i : Ident) : Bytes :=
  if i.authenticated then i.domain ++ 0 :: i.principal else anonTail

/-- Two `AuthContext`s denote the same caller. -/
def Ident.same (i j : Ident) : Prop :=
  (i.authenticated = false ∧ j.authenticated = false) ∨
  (i.authenticated = true ∧ j.authenticated = true ∧ i.domain = j.domain ∧ i.principal = j.principal)

instance (i j : Ident) : Decidable (Ident.same i j) := by unfold Ident.same; exact inferInstance

/-! ## what is inside the seal -/

/-- Which stream interfaces the rehydrated state object implements. -/
inductive SKind | producer | exchange | both | neither
  deriving DecidableEq, Repr

/-- `cursorTokenData`. `kind/count/limit` describe the gob-encoded state (the harness family's
states carry a turn counter and, for producers, the turn after which they finish). -/
structure CursorData where
  created : Int
  callId : Bytes
  method : Bytes
  kind : SKind
  count : Nat
  limit : Nat
  deriving DecidableEq, Repr

/-- `callTokenData`. -/
structure CallData where
  created : Int
  callId : Bytes
  schema : Bytes
  streamId : Bytes
  inputSchema : Bytes    -- InputSchemaIPC: what a dynamic exchange stream declared at /init ([] = none)
  deriving DecidableEq, Repr

/-- The fields of a session-token plaintext the server reads (`created_at` and `expires_at` are
written but never consulted). -/
structure SessData where
  serverId : Bytes
  sid : Bytes
  deriving DecidableEq, Repr

inductive Plain
  | cursor (d : CursorData)
  | call (d : CallData)
  | session (d : SessData)
  deriving DecidableEq, Repr

/-- One `aead.Seal` event. -/
structure SealRec where
  key : Bytes      -- the normalised 32-byte key
  nonce : Bytes
  aad : Bytes
  ct : Bytes
  pt : Plain
  deriving DecidableEq, Repr

def SealRec.matches (r : SealRec) (key nonce aad ct : Bytes) : Bool :=
  decide (r.key = key ∧ r.nonce = nonce ∧ r.aad = aad ∧ r.ct = ct)

/-- Ideal `aead.Open`: succeeds iff this exact (key, nonce, aad, ciphertext) was sealed. -/
def aeadOpen (tbl : List SealRec) (key nonce aad ct : Bytes) : Option Plain :=
  (tbl.find? fun r => r.matches key nonce aad ct).map (·.pt)

/-! ## `openToken`, `openCursorToken` -/

inductive Err
  | notFound        -- 404 unknown method
  | unaryMethod     -- 400 a unary method at a stream route (init only)
  | missingState    -- "Missing state token in exchange request"
  | malformed       -- "Malformed state token" (also every post-authentication format failure)
  | version (got want : UInt8)  -- "Unsupported state token version g (expected w)"
  | signature       -- "State token signature verification failed"
  | expired         -- "State token expired (…)"
  | wrongMethod     -- "State token was not issued by this method"
  | missingCall     -- "Missing call token in exchange request"
  | sessionLost     -- SessionLostError (any reason)
  | badState        -- /init: "stream state … does not implement …" (handler result refused)
  deriving DecidableEq, Repr

/-- `(*HttpServer).openToken` up to and including `aead.Open`. -/
def openToken (tbl : List SealRec) (key : Bytes) (version : UInt8) (token aad : Bytes) :
    Except Err Plain :=
  match b64Std token with
  | none => .error .malformed
  | some raw =>
    match splitEnvelope raw with
    | none => .error .malformed
    | some env =>
      if env.version ≠ version then .error (.version env.version version)
      else match aeadOpen tbl (normKey key) env.nonce aad env.ct with
        | none => .error .signature
        | some pt => .ok pt

/-- `checkTokenAge`: `true` = refused. `now`, `ttl` in ms, `created` in whole seconds. -/
def tooOld (now ttl created : Int) : Bool := decide (now - created * 1000 > ttl)

/-- `openCursorToken`. -/
def openCursor (tbl : List SealRec) (key : Bytes) (ttl now : Int) (token : Bytes) (who : Ident) :
    Except Err CursorData :=
  match openToken tbl key cursorVersion token (cursorAad who) with
  | .error e => .error e
  | .ok (.cursor d) => if tooOld now ttl d.created then .error .expired else .ok d
  | .ok _ => .error .malformed

/-! ## call-state cache (`callStateCache`) -/

structure CacheEntry where
  key : Bytes
  exp : Int            -- ms
  schema : Bytes
  streamId : Bytes
  inputSchema : Bytes
  deriving DecidableEq, Repr

/-- `resolvedCall`. -/
structure Resolved where
  schema : Bytes
  streamId : Bytes
  inputSchema : Bytes
  deriving DecidableEq, Repr

def CacheEntry.resolved (e : CacheEntry) : Resolved := ⟨e.schema, e.streamId, e.inputSchema⟩
def CallData.resolved (d : CallData) : Resolved := ⟨d.schema, d.streamId, d.inputSchema⟩

/-- `callID + "\x00" + callStateIdentity(auth)`. -/
def cacheKey (callId : Bytes) (who : Ident) : Bytes := callId ++ 0 :: identKey who

/-- `newCallStateCache`'s defaulting of a non-positive ttl. -/
def cacheTtl (ttl : Int) : Int := if ttl ≤ 0 then 3600000 else ttl

/-- `callStateCache.get`: entries front = most recently used; an expired entry is dropped. -/
def cacheGet (max : Int) (entries : List CacheEntry) (now : Int) (k : Bytes) :
    Option Resolved × List CacheEntry :=
  if max ≤ 0 then (none, entries) else
  match entries.find? fun e => decide (e.key = k) with
  | none => (none, entries)
  | some e =>
    if now > e.exp then (none, entries.filter fun x => decide (x.key ≠ k))
    else (some e.resolved, e :: entries.filter fun x => decide (x.key ≠ k))

/-- `callStateCache.put` with the token's own expiry: the entry lives until
`min(now + cacheTtl, tokenExpiry)`; over capacity the least recently used entries go. -/
def cachePut (max ttl : Int) (entries : List CacheEntry) (now : Int) (k : Bytes) (r : Resolved)
    (tokenExpiry : Int) : List CacheEntry :=
  if max ≤ 0 then entries else
  let exp := if tokenExpiry < now + cacheTtl ttl then tokenExpiry else now + cacheTtl ttl
  (⟨k, exp, r.schema, r.streamId, r.inputSchema⟩ :: entries.filter fun x => decide (x.key ≠ k)).take max.toNat

/-- `(*HttpServer).tokenExpiry`. -/
def tokenExpiry (ttl created : Int) : Int := created * 1000 + ttl

/-! ## server instance -/

inductive MType | unary | producer | exchange | dynamic
  deriving DecidableEq, Repr

structure MethodInfo where
  name : Bytes
  type : MType
  mints : SKind      -- the state kind this method's init handler returns (harness family)
  input : Bytes := []  -- static exchange: registered input schema; dynamic: the input schema its /init declares ([] = none)
  deriving DecidableEq, Repr

structure Inst where
  key : Bytes
  ttl : Int                      -- tokenTTL, ms
  cacheMax : Int
  cache : List CacheEntry
  sticky : Bool
  serverId : Bytes
  sessions : List (Bytes × Bytes)   -- live registry entries: (session id, principal key)
  rehydrate : Bool               -- a RehydrateFunc is installed
  hook : Bool                    -- a DispatchHook is installed
  methods : List MethodInfo
  deriving DecidableEq, Repr

def Inst.method? (i : Inst) (name : Bytes) : Option MethodInfo :=
  i.methods.find? fun m => decide (m.name = name)

/-- `resolveCall`: cache first, then the client's call token. Returns the new cache. -/
def resolveCall (tbl : List SealRec) (inst : Inst) (now : Int) (cur : CursorData)
    (callTok : Option Bytes) (who : Ident) : List CacheEntry × Except Err Resolved :=
  match cacheGet inst.cacheMax inst.cache now (cacheKey cur.callId who) with
  | (some r, c) => (c, .ok r)
  | (none, c) =>
    match callTok with
    | none => (c, .error .missingCall)
    | some [] => (c, .error .missingCall)
    | some t =>
      match openToken tbl inst.key callVersion t (callAad who) with
      | .error e => (c, .error e)
      | .ok (.call d) =>
        if tooOld now inst.ttl d.created then (c, .error .expired)
        else if d.callId ≠ cur.callId then (c, .error .malformed)
        else
          let r : Resolved := d.resolved
          (cachePut inst.cacheMax inst.ttl c now (cacheKey cur.callId who) r
            (tokenExpiry inst.ttl d.created), .ok r)
      | .ok _ => (c, .error .malformed)

/-! ## sticky-session tokens -/

def isSpace (c : UInt8) : Bool := c = 32 || (9 ≤ c && c ≤ 13)

/-- `strings.TrimSpace` on ASCII input. -/
def trimSpace (b : Bytes) : Bytes :=
  ((b.dropWhile isSpace).reverse.dropWhile isSpace).reverse

/-- `openSessionToken`: every failure is a `SessionLostError`. -/
def openSession (tbl : List SealRec) (key : Bytes) (token aad : Bytes) : Option SessData :=
  match b64Session token with
  | none => none
  | some raw =>
    match splitEnvelope raw with
    | none => none
    | some env =>
      if env.version ≠ sessionVersion then none
      else match aeadOpen tbl (normKey key) env.nonce aad env.ct with
        | some (.session d) => some d
        | _ => none

/-- `installStickyOnRequestNoCtx`: `.ok none` no session, `.ok (some sid)` resumed, `.error` lost. -/
def stickyResolve (tbl : List SealRec) (inst : Inst) (who : Ident) (hdr : Option Bytes) :
    Except Unit (Option Bytes) :=
  if !inst.sticky then .ok none else
  match hdr with
  | none => .ok none
  | some h =>
    let t := trimSpace h
    if t = [] then .ok none else
    match openSession tbl inst.key t (cursorAad who) with
    | none => .error ()
    | some d =>
      if d.serverId ≠ inst.serverId then .error ()
      else match inst.sessions.find? fun s => decide (s.1 = d.sid) with
        | none => .error ()
        | some s => if s.2 ≠ identKey who then .error () else .ok (some d.sid)

/-! ## `handleStreamExchange` -/

structure Req where
  who : Ident
  method : Bytes
  cursor : Option Bytes      -- value of vgi_rpc.stream_state#b64, if the key is present
  call : Option Bytes        -- value of vgi_rpc.call_state#b64
  cancel : Bool
  session : Option Bytes     -- VGI-Session header
  now : Int
  input : Bytes := []        -- schema of the input batch that was sent
  deriving Repr

inductive Ev
  | rehydrate (method : Bytes)
  | hookStart (method streamId : Bytes)
  | hookEnd
  | produce
  | exchange (seen : Bytes)    -- the schema of the batch `Exchange` received
  | cancel
  deriving DecidableEq, Repr

structure Outcome where
  status : Nat               -- HTTP status
  rpcErr : Bool              -- X-VGI-RPC-Error: true
  err : Option Err
  events : List Ev           -- user code that ran, in order
  next : Option CursorData   -- payload of the cursor minted for the next turn (`created` is filled by the clock)
  deriving DecidableEq, Repr

def refuse (status : Nat) (e : Err) : Outcome := ⟨status, false, some e, [], none⟩

/-- `streamStateFits`. -/
def fits : MType → SKind → Bool
  | .producer, k => k = .producer || k = .both
  | .exchange, k => k = .exchange || k = .both
  | .dynamic, k => k != .neither
  | .unary, _ => false

/-- mode selection: dynamic methods look at the state, the others at the registration. -/
def producerMode (t : MType) (k : SKind) : Bool :=
  match t with
  | .dynamic => k = .producer || k = .both
  | t => t = .producer

/-- What schema the exchange handler receives. Static methods cast to their registered input schema
before the token is looked at; a dynamic exchange stream casts to the schema it declared at /init,
which travels in the call token / cache entry (`resolvedCall.InputSchemaIPC`). -/
def seenInput (mi : MethodInfo) (rc : Resolved) (sent : Bytes) : Bytes :=
  let afterStatic := if mi.type ≠ .dynamic ∧ mi.input ≠ [] ∧ sent ≠ mi.input then mi.input else sent
  if mi.type = .dynamic ∧ rc.inputSchema ≠ [] ∧ afterStatic ≠ rc.inputSchema then rc.inputSchema else afterStatic

def preEvents (inst : Inst) (method : Bytes) (r : Resolved) : List Ev :=
  (if inst.rehydrate then [Ev.rehydrate method] else []) ++
  (if inst.hook then [Ev.hookStart method r.streamId] else [])

def postEvents (inst : Inst) : List Ev := if inst.hook then [Ev.hookEnd] else []

/-- What happens once the cursor is authenticated, bound and its call resolved: rehydrate callback,
dispatch hook, sticky-session middleware, then cancel | produce | exchange. -/
def dispatch (tbl : List SealRec) (inst : Inst) (req : Req) (mi : MethodInfo) (cur : CursorData)
    (rc : Resolved) : Outcome :=
  match stickyResolve tbl inst req.who req.session with
  | .error _ =>
    ⟨200, true, some .sessionLost, preEvents inst req.method rc ++ postEvents inst, none⟩
  | .ok _ =>
    if req.cancel then
      ⟨200, false, none, preEvents inst req.method rc ++ [Ev.cancel] ++ postEvents inst, none⟩
    else if producerMode mi.type cur.kind then
      ⟨200, false, none, preEvents inst req.method rc ++ [Ev.produce] ++ postEvents inst,
        if cur.count + 1 > cur.limit then none else some { cur with count := cur.count + 1 }⟩
    else
      ⟨200, false, none, preEvents inst req.method rc ++ [Ev.exchange (seenInput mi rc req.input)] ++ postEvents inst,
        some { cur with count := cur.count + 1 }⟩

/-- One continuation request against one instance. Order as in the Go handler: method lookup →
cursor present → cursor opened (base64, length, version, AEAD, format, age) → method binding and
state interface → call resolved (cache, else call token) → `dispatch`. -/
def exchange (tbl : List SealRec) (inst : Inst) (req : Req) : Inst × Outcome :=
  match inst.method? req.method with
  | none => (inst, refuse 404 .notFound)
  | some mi =>
    match req.cursor with
    | none => (inst, refuse 400 .missingState)
    | some tok =>
      match openCursor tbl inst.key inst.ttl req.now tok req.who with
      | .error e => (inst, refuse 400 e)
      | .ok cur =>
        if cur.method ≠ req.method ∨ fits mi.type cur.kind = false then (inst, refuse 400 .wrongMethod)
        else
          match resolveCall tbl inst req.now cur req.call req.who with
          | (c, .error e) => ({ inst with cache := c }, refuse 400 e)
          | (c, .ok rc) => ({ inst with cache := c }, dispatch tbl { inst with cache := c } req mi cur rc)

/-- Which tokens `handleStreamExchange` works with when the posted batch is an external-location
pointer and the server has an external-location config (`ext`): the pointer batch's tokens are
read first; unless the request is a cancel, the uploaded batch is fetched and ITS cursor / call
token, when present, supersede the pointer's. Everything downstream (opening, method binding,
resolution) sees only the result. -/
def effectiveTokens (ext cancel : Bool) (cur call xcur xcall : Option Bytes) : Option Bytes × Option Bytes :=
  if ext && !cancel then
    (match xcur with | some t => some t | none => cur, match xcall with | some t => some t | none => call)
  else (cur, call)

/-- A request is *accepted* when the stream state was handed to dispatch. -/
def Outcome.accepted (o : Outcome) : Prop := o.err = none

/-! ## `/init` (what it mints) -/

structure InitOutcome where
  status : Nat
  rpcErr : Bool
  err : Option Err
  mint : Option (CursorData × CallData)   -- payloads minted (callId/streamId and the two CreatedAt values come from the environment)
  deriving DecidableEq, Repr

/-- `handleStreamInit` for the harness family: the handler returns a state of kind `mi.mints`
that finishes after `limit` turns; a producer's first turn is folded into `/init`. -/
def initStream (tbl : List SealRec) (inst : Inst) (who : Ident) (method : Bytes) (limit : Nat)
    (session : Option Bytes) (callId streamId schema : Bytes) (created callCreated : Int) : InitOutcome :=
  match inst.method? method with
  | none => ⟨404, false, some .notFound, none⟩
  | some mi =>
    if mi.type = .unary then ⟨400, false, some .unaryMethod, none⟩
    else match stickyResolve tbl inst who session with
      | .error _ => ⟨200, true, some .sessionLost, none⟩
      | .ok _ =>
        -- the state the handler returned must implement the interface of the method's type
        if fits mi.type mi.mints = false then ⟨200, true, some .badState, none⟩ else
        let prod := producerMode mi.type mi.mints
        let count := if prod then 1 else 0
        if prod ∧ count > limit then ⟨200, false, none, none⟩
        else ⟨200, false, none,
          some (⟨created, callId, method, mi.mints, count, limit⟩, ⟨callCreated, callId, schema, streamId, if mi.type = .dynamic then mi.input else []⟩)⟩

end Vgi.Token
