import Vgi.Util
/-!
Model of the proxy-proof gate in `vgirpc/proof.go`
(`VerifyProof`, `proofCanonicalString`, `nonceCache.checkAndAdd(At)`, `verifyRequestProof`,
`ProofAuthenticate`), as of the repaired code (`fix: remember proxy-proof nonces …`):
the nonce TTL is `2*skew+1` seconds and the window check and the cache use ONE clock reading.

Strings are byte lists (Go strings are byte strings; the five field regexes only admit ASCII, and
Go's regexp never lets a byte ≥ 0x80 match an ASCII class, so byte-wise matching is exact).
Instants are `Nat` nanoseconds since the Unix epoch (the harness only supplies non-negative wall
clock instants); `time.Time.Unix()` is `now / 10^9`.

HMAC-SHA256 and the unpadded URL-safe base64 decoder are implemented here in core Lean so the
driver computes the same MACs as `crypto/hmac`; the theorems treat them as uninterpreted functions
(cryptographic strength is an assumption, never a theorem).
-/
namespace Vgi.Proof

/-! ### SHA-256 / HMAC-SHA256 (FIPS 180-4, RFC 2104) on `Nat` words -/

def w32 : Nat := 4294967296

def add32 (a b : Nat) : Nat := (a + b) % w32
def rotr (x n : Nat) : Nat := ((x >>> n) ||| (x <<< (32 - n))) % w32
def not32 (x : Nat) : Nat := w32 - 1 - x

def shaK : List Nat := [
  0x428a2f98, 0x71374491, 0xb5c0fbcf, 0xe9b5dba5, 0x3956c25b, 0x59f111f1, 0x923f82a4, 0xab1c5ed5,
  0xd807aa98, 0x12835b01, 0x243185be, 0x550c7dc3, 0x72be5d74, 0x80deb1fe, 0x9bdc06a7, 0xc19bf174,
  0xe49b69c1, 0xefbe4786, 0x0fc19dc6, 0x240ca1cc, 0x2de92c6f, 0x4a7484aa, 0x5cb0a9dc, 0x76f988da,
  0x983e5152, 0xa831c66d, 0xb00327c8, 0xbf597fc7, 0xc6e00bf3, 0xd5a79147, 0x06ca6351, 0x14292967,
  0x27b70a85, 0x2e1b2138, 0x4d2c6dfc, 0x53380d13, 0x650a7354, 0x766a0abb, 0x81c2c92e, 0x92722c85,
  0xa2bfe8a1, 0xa81a664b, 0xc24b8b70, 0xc76c51a3, 0xd192e819, 0xd6990624, 0xf40e3585, 0x106aa070,
  0x19a4c116, 0x1e376c08, 0x2748774c, 0x34b0bcb5, 0x391c0cb3, 0x4ed8aa4a, 0x5b9cca4f, 0x682e6ff3,
  0x748f82ee, 0x78a5636f, 0x84c87814, 0x8cc70208, 0x90befffa, 0xa4506ceb, 0xbef9a3f7, 0xc67178f2]

def shaInit : List Nat :=
  [0x6a09e667, 0xbb67ae85, 0x3c6ef372, 0xa54ff53a, 0x510e527f, 0x9b05688c, 0x1f83d9ab, 0x5be0cd19]

def be (k : Nat) (n : Nat) : Bytes :=
  (List.range k).map fun i => UInt8.ofNat ((n >>> (8 * (k - 1 - i))) % 256)

def shaPad (msg : Bytes) : Bytes :=
  let l := msg.length
  msg ++ [0x80] ++ List.replicate ((64 - (l + 9) % 64) % 64) 0 ++ be 8 (8 * l)

/-- big-endian 32-bit words of a byte list (length a multiple of 4) -/
def wordsOf : Bytes → List Nat
  | a :: b :: c :: d :: r =>
    (a.toNat * 16777216 + b.toNat * 65536 + c.toNat * 256 + d.toNat) :: wordsOf r
  | _ => []

def chunks64 : Nat → Bytes → List Bytes
  | 0, _ => []
  | n + 1, bs => if bs.isEmpty then [] else bs.take 64 :: chunks64 n (bs.drop 64)

/-- Evaluate a number before continuing. Semantically `k n`; it only makes evaluation order strict
(the kernel reduces `n` to a literal first), which keeps `decide`-style evaluation of SHA-256 in
proofs cheap. -/
@[inline] def force {α : Type} (n : Nat) (k : Nat → α) : α :=
  match n with
  | 0 => k 0
  | m + 1 => k (m + 1)

/-- Message schedule, newest word first: from `[w(t-1), w(t-2), …]` compute `w(t)`. -/
def schedStep (ws : List Nat) : List Nat :=
  match ws with
  | _ :: w2 :: _ :: _ :: _ :: _ :: w7 :: _ :: _ :: _ :: _ :: _ :: _ :: _ :: w15 :: w16 :: _ =>
    let s0 := rotr w15 7 ^^^ rotr w15 18 ^^^ (w15 >>> 3)
    let s1 := rotr w2 17 ^^^ rotr w2 19 ^^^ (w2 >>> 10)
    force (add32 (add32 w16 s0) (add32 w7 s1)) fun v => v :: ws
  | _ => ws

def iter {α : Type} (f : α → α) : Nat → α → α
  | 0, x => x
  | n + 1, x => iter f n (f x)

/-- the 64 schedule words `w(0) … w(63)` of one block -/
def schedule (blk : List Nat) : List Nat := (iter schedStep 48 blk.reverse).reverse

structure ShaSt where
  (a b c d e f g h : Nat)

def shaRound (s : ShaSt) (kw : Nat × Nat) : ShaSt :=
  let S1 := rotr s.e 6 ^^^ rotr s.e 11 ^^^ rotr s.e 25
  let ch := (s.e &&& s.f) ^^^ (not32 s.e &&& s.g)
  force (add32 (add32 (add32 s.h S1) (add32 ch kw.1)) kw.2) fun t1 =>
  let S0 := rotr s.a 2 ^^^ rotr s.a 13 ^^^ rotr s.a 22
  let maj := (s.a &&& s.b) ^^^ (s.a &&& s.c) ^^^ (s.b &&& s.c)
  force (add32 t1 (add32 S0 maj)) fun a =>
  force (add32 s.d t1) fun e =>
  { a := a, b := s.a, c := s.b, d := s.c, e := e, f := s.e, g := s.f, h := s.g }

def compress (hs : List Nat) (blk : Bytes) : List Nat :=
  match hs with
  | [h0, h1, h2, h3, h4, h5, h6, h7] =>
    let s := (shaK.zip (schedule (wordsOf blk))).foldl shaRound ⟨h0, h1, h2, h3, h4, h5, h6, h7⟩
    force (add32 h0 s.a) fun a => force (add32 h1 s.b) fun b => force (add32 h2 s.c) fun c =>
    force (add32 h3 s.d) fun d => force (add32 h4 s.e) fun e => force (add32 h5 s.f) fun f =>
    force (add32 h6 s.g) fun g => force (add32 h7 s.h) fun h => [a, b, c, d, e, f, g, h]
  | _ => hs

def sha256 (msg : Bytes) : Bytes :=
  let p := shaPad msg
  ((chunks64 (p.length / 64 + 1) p).foldl compress shaInit).flatMap (be 4)

def hmacSha256 (key msg : Bytes) : Bytes :=
  let k := if key.length > 64 then sha256 key else key
  let k := k ++ List.replicate (64 - k.length) 0
  sha256 (k.map (· ^^^ 0x5c) ++ sha256 (k.map (· ^^^ 0x36) ++ msg))

/-! ### base64.RawURLEncoding.DecodeString (non-strict: trailing bits ignored) -/

def b64Val (c : UInt8) : Option Nat :=
  if 65 ≤ c ∧ c ≤ 90 then some (c.toNat - 65)
  else if 97 ≤ c ∧ c ≤ 122 then some (c.toNat - 71)
  else if 48 ≤ c ∧ c ≤ 57 then some (c.toNat + 4)
  else if c = 45 then some 62
  else if c = 95 then some 63
  else none

def b64Groups : List Nat → Option Bytes
  | a :: b :: c :: d :: r =>
    let n := a * 262144 + b * 4096 + c * 64 + d
    (b64Groups r).map fun t => UInt8.ofNat (n / 65536) :: UInt8.ofNat (n / 256 % 256) :: UInt8.ofNat (n % 256) :: t
  | [a, b, c] => let n := a * 4096 + b * 64 + c; some [UInt8.ofNat (n / 1024), UInt8.ofNat (n / 4 % 256)]
  | [a, b] => some [UInt8.ofNat ((a * 64 + b) / 16)]
  | [_] => none
  | [] => some []

def b64Decode (s : Bytes) : Option Bytes :=
  (s.mapM b64Val).bind b64Groups

/-! ### Field grammar (the five regexes of proof.go as structural matchers) -/

def isAlnum (c : UInt8) : Bool := (65 ≤ c && c ≤ 90) || (97 ≤ c && c ≤ 122) || (48 ≤ c && c ≤ 57)
/-- `[A-Za-z0-9_-]` -/
def isTokChar (c : UInt8) : Bool := isAlnum c || c == 95 || c == 45
/-- `[0-9]` -/
def isDigit (c : UInt8) : Bool := 48 ≤ c && c ≤ 57
/-- origin charset: alnum, dot, underscore, colon, slash, hyphen -/
def isOriginChar (c : UInt8) : Bool := isAlnum c || c == 46 || c == 95 || c == 58 || c == 47 || c == 45

/-- `\A[A-Za-z0-9_-]{1,64}\z` -/
def kidOK (s : Bytes) : Bool := 1 ≤ s.length && s.length ≤ 64 && s.all isTokChar
/-- `\A[0-9]{1,20}\z` -/
def tsOK (s : Bytes) : Bool := 1 ≤ s.length && s.length ≤ 20 && s.all isDigit
/-- `\A[A-Za-z0-9_-]{22}\z` -/
def nonceOK (s : Bytes) : Bool := s.length == 22 && s.all isTokChar
/-- 1 to 255 origin-charset bytes (regex `proofOriginRe`) -/
def originOK (s : Bytes) : Bool := 1 ≤ s.length && s.length ≤ 255 && s.all isOriginChar
/-- `\A[A-Za-z0-9_-]{43}\z` -/
def macOK (s : Bytes) : Bool := s.length == 43 && s.all isTokChar

def dot : UInt8 := 46
def comma : UInt8 := 44
def versionV1 : Bytes := [118, 49]            -- "v1"
/-- "vgi.proxy.proof.v1" -/
def domainPrefix : Bytes := [118, 103, 105, 46, 112, 114, 111, 120, 121, 46, 112, 114, 111, 111, 102, 46, 118, 49]
def maxHeaderLen : Nat := 512
def secretLen : Nat := 32
def maxInt64 : Nat := 9223372036854775807
def nsPerSec : Nat := 1000000000
def defaultReplayCapacity : Nat := 100000

/-- `strings.Split(s, sep)` for a one-byte separator. -/
def splitOn (sep : UInt8) : Bytes → List Bytes
  | [] => [[]]
  | b :: r =>
    if b = sep then [] :: splitOn sep r
    else match splitOn sep r with
      | [] => [[b]]
      | x :: xs => (b :: x) :: xs

/-- `strconv.ParseInt(ts, 10, 64)` on a string of decimal digits (value; range checked by caller). -/
def decVal (s : Bytes) : Nat := s.foldl (fun n c => 10 * n + (c.toNat - 48)) 0

/-- `proofCanonicalString`: domain prefix and the four fields, NUL-separated. -/
def canonical (kid ts nonce origin : Bytes) : Bytes :=
  domainPrefix ++ (0 :: (kid ++ (0 :: (ts ++ (0 :: (nonce ++ (0 :: origin)))))))

def lookup (kid : Bytes) : List (Bytes × Bytes) → Option Bytes
  | [] => none
  | (k, s) :: r => if k = kid then some s else lookup kid r

/-! ### VerifyProof -/

structure Cfg where
  origin : Bytes
  secrets : List (Bytes × Bytes)      -- kid ↦ secret (a Go map: kids distinct)
  skew : Nat                          -- SkewSeconds (validated positive by ProofAuthenticate)
  deriving Repr, DecidableEq

inductive Reason
  | noProof | malformed | unknownKid | expired | notYetValid | badMac | replayed
  deriving Repr, DecidableEq

/-- Two-sided window on `now.Unix() - ts` (no int64 wrap: both operands are in `[0, 2^63)`). -/
def inWindow (skew ts now : Nat) : Bool :=
  let age : Int := (now / nsPerSec : Nat) - (ts : Nat)
  !(age > skew) && !(-age > skew)

/-- Every check of `VerifyProof` that precedes the replay cache; returns the nonce. -/
def verifyPre (cfg : Cfg) (now : Nat) (token : Bytes) : Except Reason Bytes :=
  if token.length > maxHeaderLen then .error .malformed
  else match splitOn dot token with
    | [version, kid, ts, nonce, mac] =>
      if version ≠ versionV1 then .error .malformed
      else if !kidOK kid then .error .malformed
      else if !tsOK ts then .error .malformed
      else if !nonceOK nonce then .error .malformed
      else if !macOK mac then .error .malformed
      else match lookup kid cfg.secrets with
        | none => .error .unknownKid
        | some secret =>
          if decVal ts > maxInt64 then .error .malformed
          else
            let age : Int := (now / nsPerSec : Nat) - (decVal ts : Nat)
            if age > cfg.skew then .error .expired
            else if -age > cfg.skew then .error .notYetValid
            else match b64Decode mac with
              | none => .error .malformed
              | some received =>
                if received = hmacSha256 secret (canonical kid ts nonce cfg.origin) then .ok nonce
                else .error .badMac
    | _ => .error .malformed

/-! ### nonceCache -/

structure Entry where
  nonce : Bytes
  expires : Nat
  deriving Repr, DecidableEq

structure Cache where
  ttl : Nat            -- nanoseconds
  cap : Nat            -- capacity (≥ 1 wherever the code constructs one)
  order : List Entry   -- oldest first (container/list order; the map mirrors it)
  deriving Repr, DecidableEq

/-- `for front exists && !front.expiresAt.After(now) { remove front }` -/
def sweep (now : Nat) : List Entry → List Entry
  | [] => []
  | x :: r => if x.expires > now then x :: r else sweep now r

/-- `for order.Len() >= capacity { remove front }` -/
def evict (cap : Nat) : List Entry → List Entry
  | [] => []
  | x :: r => if (x :: r).length ≥ cap then evict cap r else x :: r

def seen (nonce : Bytes) (l : List Entry) : Bool := l.any (·.nonce == nonce)

/-- `checkAndAddAt(nonce, now)`: sweep, test, evict-oldest, push back. -/
def checkAndAdd (c : Cache) (nonce : Bytes) (now : Nat) : Bool × Cache :=
  let o := sweep now c.order
  if seen nonce o then (false, { c with order := o })
  else (true, { c with order := evict c.cap o ++ [⟨nonce, now + c.ttl⟩] })

/-- `VerifyProof(token, cfg, cache)` at clock reading `now`. -/
def verify (cfg : Cfg) (cache : Option Cache) (now : Nat) (token : Bytes) :
    Except Reason Unit × Option Cache :=
  match verifyPre cfg now token with
  | .error r => (.error r, cache)
  | .ok nonce =>
    match cache with
    | none => (.ok (), none)
    | some c =>
      let r := checkAndAdd c nonce now
      if r.1 then (.ok (), some r.2) else (.error .replayed, some r.2)

/-- `verifyRequestProof`: exactly one non-empty, comma-free header value. -/
def verifyRequest (cfg : Cfg) (cache : Option Cache) (now : Nat) (hdrs : List Bytes) :
    Except Reason Unit × Option Cache :=
  match hdrs with
  | [] => (.error .noProof, cache)
  | v :: rest =>
    if v = [] then (.error .noProof, cache)
    else if rest ≠ [] ∨ v.contains comma then (.error .malformed, cache)
    else verify cfg cache now v

/-! ### ProofAuthenticate -/

inductive Mode | allow | require
  deriving Repr, DecidableEq

structure Gate where
  mode : Mode
  cfg : Cfg
  hasInner : Bool
  cache : Option Cache
  deriving Repr, DecidableEq

/-- TTL given to the cache: `time.Duration(2*SkewSeconds+1) * time.Second`. -/
def ttlNs (skew : Nat) : Nat := (2 * skew + 1) * nsPerSec

/-- "allow" -/
def modeAllowStr : Bytes := [97, 108, 108, 111, 119]
/-- "require" -/
def modeRequireStr : Bytes := [114, 101, 113, 117, 105, 114, 101]

/-- Config validation + construction of `ProofAuthenticate`. `modeStr` is the raw mode string. -/
def mkGate (modeStr : Bytes) (origin : Bytes) (secrets : List (Bytes × Bytes)) (skew capacity : Int)
    (disableCache hasInner : Bool) : Option Gate :=
  let mode? : Option Mode :=
    if modeStr = modeAllowStr then some .allow else if modeStr = modeRequireStr then some .require else none
  match mode? with
  | none => none
  | some mode =>
    if !originOK origin then none
    else if secrets.isEmpty then none
    else if !secrets.all (fun e => kidOK e.1 && e.2.length == secretLen) then none
    else if skew ≤ 0 then none
    else
      let cap := if capacity ≤ 0 then defaultReplayCapacity else capacity.toNat
      some { mode := mode, cfg := ⟨origin, secrets, skew.toNat⟩, hasInner := hasInner,
             cache := if disableCache then none else some ⟨ttlNs skew.toNat, cap, []⟩ }

/-- What the returned `AuthenticateFunc` answers for one request. -/
structure Decision where
  pass : Bool
  reason : String        -- AuthFailure.Reason on refusal
  detail : String        -- AuthFailure.Detail on refusal
  innerCalls : Nat
  deriving Repr, DecidableEq

def proxyRequiredReason : String := "proxy_required"
def proxyRequiredDetail : String := "proxy proof required"

def refusal : Decision := ⟨false, proxyRequiredReason, proxyRequiredDetail, 0⟩
def passed (hasInner : Bool) : Decision := ⟨true, "", "", if hasInner then 1 else 0⟩

/-- One request through the gate at clock reading `now` with the given proof-header values. -/
def gateStep (g : Gate) (now : Nat) (hdrs : List Bytes) : Decision × Gate :=
  let r := verifyRequest g.cfg g.cache now hdrs
  let g' := { g with cache := r.2 }
  match r.1 with
  | .ok _ => (passed g.hasInner, g')
  | .error _ => if g.mode = .require then (refusal, g') else (passed g.hasInner, g')

/-- A history of presentations `(now, header values)`; returns the final gate and how many passed
the proof check (were admitted to the cache). -/
def admitted (g : Gate) (now : Nat) (hdrs : List Bytes) : Bool :=
  match (verifyRequest g.cfg g.cache now hdrs).1 with
  | .ok _ => true
  | .error _ => false

def runGate (g : Gate) : List (Nat × List Bytes) → Gate × Nat
  | [] => (g, 0)
  | (now, hdrs) :: ops =>
    let rest := runGate (gateStep g now hdrs).2 ops
    (rest.1, rest.2 + (if admitted g now hdrs then 1 else 0))

end Vgi.Proof
