import Vgi.Model.Shm
/-!
Model of a pipe session in which the client may advertise shared-memory segments
(`vgirpc/server_serve.go: shmConnState.ensure, serveOne`; `server_unary.go: serveUnary`;
`server_stream.go: serveStream`; `shm.go: MaybeWriteToShm, ResolveShmBatch, FreeOffset`).

What is modelled branch for branch is everything the server does *because of* shared memory:
segment caching per connection, request-pointer resolution and release, which requests expose the
segment to the dispatch (`req.Shm`), the refusal of pointer batches when no segment is attached,
per-input resolution in streams, shipping results through the segment, and the allocator
(`Vgi.Shm`, property C34) under all of it. Handlers are scripted: the outcome of every call/turn
is part of the history. A batch is abstract: an identity for its content plus the three numbers
the write path consults (`MaybeWriteToShm`'s size gate as a Boolean, the capacity estimate, the
stored length). That a region read back equals what was stored is property C35; here a live slot
simply holds the batch.

The client half of the model is the release discipline the property assumes: it writes a batch
into a segment only when the server has that segment attached, falls back to the pipe when the
segment is full, frees every pointer it receives (at once, or later when told to `release`), and
frees its own slots that a refused call never consumed.
-/
namespace Vgi.ShmSession
open Vgi Vgi.Shm

/-- An abstract data batch. -/
structure B where
  id : Nat        -- content identity (schema + values)
  rows : Nat
  big : Bool      -- `batchBufferSize(batch) ≥ shmMinBatchBytes()`
  est : Int       -- `estimateSerializedSize(batch)`
  len : Nat       -- bytes `AllocateAndWrite` stores
  deriving Repr, DecidableEq

/-- One client segment: allocator state + the batch each live slot holds. -/
structure SegSt where
  seg : Seg
  cont : List (Nat × B)
  deriving Repr

/-- The client's segments, by index (`n` of them). -/
structure Segs where
  n : Nat
  get : Nat → SegSt

def Segs.at? (s : Segs) (k : Nat) : Option SegSt := if k < s.n then some (s.get k) else none

def Segs.empty : Segs := { n := 0, get := fun _ => { seg := Vgi.Shm.create 0, cont := [] } }

def Segs.push (s : Segs) (x : SegSt) : Segs :=
  { n := s.n + 1, get := fun i => if i = s.n then x else s.get i }

def Segs.toList (s : Segs) : List SegSt := (List.range s.n).map s.get

def SegSt.create (dataSize : Nat) : SegSt := { seg := Vgi.Shm.create dataSize, cont := [] }

/-- `AllocateAndWrite`: capacity pre-check with the estimate, then first-fit allocation. -/
def segWrite (s : SegSt) (b : B) : Option (Nat × SegSt) :=
  if (allocate s.seg b.est).isSome then
    match allocate s.seg (Int.ofNat b.len) with
    | some (off, seg') => some (off, { seg := seg', cont := (off, b) :: s.cont })
    | none => none
  else none

/-- `FreeOffset` (errors ignored, as every caller does). -/
def segFree (s : SegSt) (off : Nat) : SegSt :=
  match free s.seg off with
  | some seg' => { seg := seg', cont := s.cont.filter fun e => e.1 != off }
  | none => s

def lookup (off : Nat) : List (Nat × B) → Option B
  | [] => none
  | e :: r => if e.1 = off then some e.2 else lookup off r

/-- `ReadBatch` on a pointer that addresses a live slot exactly. Anything else (stale or foreign
pointers) is outside the histories considered; it reads as a failure. -/
def segRead (s : SegSt) (off len : Nat) : Option B :=
  match lookup off s.cont with
  | some b => if b.len = len then some b else none
  | none => none

def updateAt (segs : Segs) (k : Nat) (f : SegSt → SegSt) : Segs :=
  { segs with get := fun i => if i = k then f (segs.get i) else segs.get i }

/-- What travels on the pipe in place of a batch. -/
inductive Wire
  | inline (b : B)
  | ptr (k off len : Nat)     -- pointer batch into client segment `k`
  | bad                       -- pointer batch whose offset/length never resolve (C35's error classes)
  deriving Repr, DecidableEq

def Wire.isPtr : Wire → Bool
  | .inline _ => false
  | _ => true

/-- The segment keys a request carries. -/
inductive Adv
  | none                      -- neither key
  | good (k : Nat)            -- name and size of client segment `k`
  | nameOnly (k : Nat)        -- name key without size key
  | badSize (k : Nat)         -- size not a number, or not above the header size
  | gone                      -- a name that cannot be attached
  deriving Repr, DecidableEq

def Adv.hasName : Adv → Bool
  | .none => false
  | _ => true

/-- `shmConnState.ensure`: (segment returned, segment cached afterwards). -/
def ensure (cached : Option Nat) : Adv → Option Nat × Option Nat
  | .none => (cached, cached)
  | .nameOnly _ => (cached, cached)
  | .badSize _ => (cached, cached)
  | .good k => (some k, some k)
  | .gone => (Option.none, Option.none)

inductive Item
  | ok (id : Nat) (viaShm : Bool)   -- a data batch the client decoded (and how it travelled)
  | done                            -- stream finished / void result
  | err (kind : String)
  deriving Repr, DecidableEq

/-- The view the property compares: results only, not how they travelled. -/
def Item.view : Item → Item
  | .ok id _ => .ok id false
  | i => i

def ioError : String := "IOError"

/-- `ResolveShmBatch(batch, seg)` for a pointer-shaped wire against attached segment `k`. -/
def resolveWire (segs : Segs) (k : Nat) : Wire → Option (B × Nat)
  | .ptr k' off len =>
    if k' = k then
      match segs.at? k with
      | some s => (segRead s off len).map fun b => (b, off)
      | none => none
    else none
  | _ => none

/-- What the server does with an incoming batch given the segment it may resolve pointers through
(`seg` = the connection's attached segment for a request, `req.Shm` for a stream input): an inline
batch is taken as is; a pointer is resolved and its slot freed (`ResolveShmBatch`, `FreeOffset`);
a pointer that cannot be resolved — no segment, or `ResolveShmBatch` fails — is refused (`none`). -/
def serverTake (segs : Segs) (seg : Option Nat) : Wire → Segs × Option B
  | .inline b => (segs, some b)
  | w =>
    match seg with
    | some k =>
      match resolveWire segs k w with
      | some (b, off) => (updateAt segs k (segFree · off), some b)
      | none => (segs, none)                                 -- "shm resolve failed"
    | none => (segs, none)                                   -- "no segment is attached"

/-- `req.Shm`: the attached segment, if this request engages shared memory — it carries the
segment name, or is itself a pointer batch. (The client can predict it before the server answers.) -/
def engaged (cached : Option Nat) (adv : Adv) (reqWire : Wire) : Option Nat :=
  match (ensure cached adv).1 with
  | some k => if adv.hasName || reqWire.isPtr then some k else none
  | none => none

/-- The shared-memory prologue of `serveOne`: attach/reuse the segment, resolve a request pointer
and free its slot, decide `req.Shm`, refuse a pointer that cannot be resolved. Result: segments,
cached segment, and either the refusal or (resolved parameter batch, `req.Shm`). -/
def serveShm (segs : Segs) (cached : Option Nat) (adv : Adv) (param : Wire) :
    Segs × Option Nat × Option (B × Option Nat) :=
  let (seg, cached') := ensure cached adv
  match serverTake segs seg param with
  | (segs', none) => (segs', cached', none)
  | (segs', some b) => (segs', cached', some (b, engaged cached adv param))

/-- `AllocateAndWrite` into segment `k` and build the pointer batch; the batch itself when the
segment does not exist or has no room. Used by the server for results (`MaybeWriteToShm`) and by
the client for requests and inputs. -/
def writeTo (segs : Segs) (k : Nat) (b : B) : Segs × Wire :=
  match segs.at? k with
  | none => (segs, .inline b)
  | some s =>
    match segWrite s b with
    | some (off, s') => (updateAt segs k (fun _ => s'), .ptr k off b.len)
    | none => (segs, .inline b)

/-- `MaybeWriteToShm(batch, req.Shm)` as used for results (`rows > 0` is also the stream path's
own guard; `big` is the size gate). -/
def maybeWrite (segs : Segs) (shm : Option Nat) (b : B) : Segs × Wire :=
  match shm with
  | none => (segs, .inline b)
  | some k => if b.rows = 0 ∨ b.big = false then (segs, .inline b) else writeTo segs k b

/-! ### Client -/

/-- How the client wants to send a batch. -/
inductive Via
  | inline
  | shm (k : Nat)      -- through segment `k` if the server has it attached and it fits
  | force (k : Nat)    -- through segment `k` even though the server never attached it (misuse)
  | raw                -- a pointer batch with unresolvable offset/length strings (misuse)
  deriving Repr, DecidableEq

def Via.wellBehaved : Via → Bool
  | .inline => true
  | .shm _ => true
  | _ => false

/-- `attached` = the segment the server will have attached when it reads this batch. -/
def clientSend (segs : Segs) (attached : Option Nat) (b : B) : Via → Segs × Wire
  | .inline => (segs, .inline b)
  | .shm k => if attached = some k then writeTo segs k b else (segs, .inline b)
  | .force k => writeTo segs k b
  | .raw => (segs, .bad)

/-- The client frees one of its own slots that the server did not consume. -/
def clientReclaim (segs : Segs) : Wire → Segs
  | .ptr k off _ => updateAt segs k (segFree · off)
  | _ => segs

/-- Pointers the client has received and not yet released. -/
abbrev Held := List (Nat × Nat)

/-- The client receives a result: resolves a pointer, then frees it now or holds it. -/
def clientRecv (segs : Segs) (held : Held) (hold : Bool) : Wire → Segs × Held × Item
  | .inline b => (segs, held, .ok b.id false)
  | .bad => (segs, held, .err "client:bad-pointer")
  | .ptr k off len =>
    match segs.at? k with
    | none => (segs, held, .err "client:no-segment")
    | some s =>
      match segRead s off len with
      | none => (segs, held, .err "client:unresolvable")
      | some b =>
        if hold then (segs, (k, off) :: held, .ok b.id true)
        else (updateAt segs k (segFree · off), held, .ok b.id true)

def releaseAll (segs : Segs) : Held → Segs
  | [] => segs
  | (k, off) :: r => releaseAll (updateAt segs k (segFree · off)) r

/-! ### Calls -/

/-- Scripted handler outcome of a unary call or of one stream turn. -/
inductive Outcome
  | result (b : B)
  | finish                 -- producer: `out.Finish()` / unary void
  | error (kind : String)
  deriving Repr, DecidableEq

structure Turn where
  input : B
  via : Via
  outcome : Outcome
  deriving Repr

inductive Call
  | unary (adv : Adv) (param : B) (via : Via) (outcome : Outcome) (hold : Bool)
  | stream (adv : Adv) (param : B) (via : Via) (initErr : Option String) (turns : List Turn) (hold : Bool)
  | release                -- the client releases every pointer it still holds
  | releaseOne (i : Nat)   -- the client releases the i-th most recently received pointer it holds
  deriving Repr

structure World where
  segs : Segs
  cached : Option Nat
  held : Held

/-- The client sends the next input, if there is one (it writes before it reads). -/
def sendNext (shm : Option Nat) (segs : Segs) : List Turn → Segs × Option Wire
  | [] => (segs, none)
  | t :: _ => let (s, w) := clientSend segs shm t.input t.via; (s, some w)

/-- The lockstep loop of `serveStream`. `wire` is the input of the head turn, already sent; after
reading the answer the client sends the next input. -/
def runTurns (shm : Option Nat) (hold : Bool) :
    Segs → Held → List Turn → Option Wire → Segs × Held × List Item
  | segs, held, [], _ => (segs, held, [])
  | segs, held, _ :: _, none => (segs, held, [])
  | segs, held, t :: rest, some wire =>
    -- server: resolve a pointer input through req.Shm; refuse it when there is none
    let resolved := serverTake segs shm wire
    match resolved with
    | (segs2, none) =>
      -- error batch ends the stream; the client takes back a slot the server never read
      (clientReclaim segs2 wire, held, [.err ioError])
    | (segs2, some _) =>
      match t.outcome with
      | .error kind => (segs2, held, [.err kind])
      | .finish => (segs2, held, [.done])
      | .result out =>
        let (segs3, w) := maybeWrite segs2 shm out
        let (segs4, held', item) := clientRecv segs3 held hold w
        let (segs5, next) := sendNext shm segs4 rest
        let (segs6, held'', items) := runTurns shm hold segs5 held' rest next
        (segs6, held'', item :: items)

def reclaimOpt (segs : Segs) : Option Wire → Segs
  | some w => clientReclaim segs w
  | none => segs

/-- One call through `serveOne`, client side included. -/
def runCall (w : World) : Call → World × List Item
  | .release => ({ w with segs := releaseAll w.segs w.held, held := [] }, [])
  | .releaseOne i =>
    match w.held[i]? with
    | none => (w, [])
    | some p =>
      ({ w with segs := updateAt w.segs p.1 (segFree · p.2), held := w.held.filter fun q => q != p }, [])
  | .unary adv param via outcome hold =>
    let attached := (ensure w.cached adv).1
    let (segs1, wire) := clientSend w.segs attached param via
    match serveShm segs1 w.cached adv wire with
    | (segs2, cached', none) =>
      ({ w with segs := clientReclaim segs2 wire, cached := cached' }, [.err ioError])
    | (segs2, cached', some (_, shm)) =>
      match outcome with
      | .error kind => ({ w with segs := segs2, cached := cached' }, [.err kind])
      | .finish => ({ w with segs := segs2, cached := cached' }, [.done])
      | .result out =>
        let (segs3, rw) := maybeWrite segs2 shm out
        let (segs4, held', item) := clientRecv segs3 w.held hold rw
        ({ segs := segs4, cached := cached', held := held' }, [item])
  | .stream adv param via initErr turns hold =>
    let attached := (ensure w.cached adv).1
    let (segs1, wire) := clientSend w.segs attached param via
    -- the client opens its input stream and sends the first input before reading anything
    let (segs1', first) := sendNext (engaged w.cached adv wire) segs1 turns
    match serveShm segs1' w.cached adv wire with
    | (segs2, cached', none) =>
      -- refused before dispatch; the input stream is drained unread, so the client takes back
      -- its request slot and the slot of the input it had already sent
      ({ w with segs := reclaimOpt (clientReclaim segs2 wire) first, cached := cached' }, [.err ioError])
    | (segs2, cached', some (_, shm)) =>
      match initErr with
      | some kind => ({ w with segs := reclaimOpt segs2 first, cached := cached' }, [.err kind])
      | none =>
        let (segs3, held', items) := runTurns shm hold segs2 w.held turns first
        ({ segs := segs3, cached := cached', held := held' }, items)

def runAll : World → List Call → World × List Item
  | w, [] => (w, [])
  | w, c :: rest =>
    let (w1, i1) := runCall w c
    let (w2, i2) := runAll w1 rest
    (w2, i1 ++ i2)

/-- The same call as a client without shared memory issues it. -/
def Turn.plain (t : Turn) : Turn := { t with via := .inline }

def Call.plain : Call → Call
  | .unary _ param _ outcome hold => .unary .none param .inline outcome hold
  | .stream _ param _ initErr turns hold => .stream .none param .inline initErr (turns.map Turn.plain) hold
  | .release => .release
  | .releaseOne i => .releaseOne i

def Call.wellBehaved : Call → Bool
  | .unary _ _ via _ _ => via.wellBehaved
  | .stream _ _ via _ turns _ => via.wellBehaved && turns.all fun t => t.via.wellBehaved
  | .release => true
  | .releaseOne _ => true

end Vgi.ShmSession
