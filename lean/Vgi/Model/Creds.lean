import Vgi.Util
/-!
Model of the credential extractors:

* `vgirpc/bearer.go`: `BearerAuthenticate` + `BearerAuthenticateStatic` (first Authorization
  value, case-sensitive `"Bearer "` prefix, full scan of the configured tokens).
* `vgirpc/mtls.go`: `ParseXfcc`, `splitRespectingQuotes`, `unescapeQuoted`, `extractCN` and the
  default identity of `MtlsAuthenticateXfcc`.

Go strings are byte strings (`Bytes`). Library behaviour is modelled at byte level and validated by
the correspondence run: `strings.TrimSpace` (Unicode White_Space, UTF-8 encoded), `strings.ToLower`
(only its effect on whether a key equals one of the six ASCII key words), `strings.EqualFold` on
three bytes against `"CN="`, `url.QueryUnescape`, and the regular expressions `\\(.)` and
`(?:\\.|[^,])+` (RE2: `.` does not match a newline; it matches one rune, which at byte level only
matters in that the byte after a backslash is kept).
-/
namespace Vgi.Creds

/-! ## Static bearer -/

/-- `"Bearer "`. -/
def bearerPrefix : Bytes := [66, 101, 97, 114, 101, 114, 32]

/-- `strings.HasPrefix` + `strings.TrimPrefix`. -/
def stripPrefix : Bytes → Bytes → Option Bytes
  | [], s => some s
  | _ :: _, [] => none
  | p :: ps, c :: cs => if p = c then stripPrefix ps cs else none

/-- The scan of `BearerAuthenticateStatic`: the first entry whose key equals the token (the Go
loop keeps the first match and keeps comparing). Keys of a Go map are distinct. -/
def lookupToken (tok : Bytes) : List (Bytes × Nat) → Option Nat
  | [] => none
  | e :: r => if tok = e.1 then some e.2 else lookupToken tok r

inductive BearerResult
  | ok (identity : Nat)
  | missing        -- "Missing Authorization header"
  | notBearer      -- "Authorization header must use Bearer scheme"
  | unknown        -- "Unknown bearer token"
  deriving Repr, DecidableEq

/-- `BearerAuthenticateStatic(tokens)(r)`; `hdrs` = the request's Authorization values in order
(`Header.Get` reads the first, "" when there is none). -/
def authStatic (tokens : List (Bytes × Nat)) (hdrs : List Bytes) : BearerResult :=
  let h := hdrs.headD []
  if h.isEmpty then .missing
  else match stripPrefix bearerPrefix h with
    | none => .notBearer
    | some t =>
      match lookupToken t tokens with
      | some i => .ok i
      | none => .unknown

/-! ## XFCC -/

def dq : UInt8 := 34      -- '"'
def bs : UInt8 := 92      -- '\\'
def comma : UInt8 := 44
def semi : UInt8 := 59
def eqc : UInt8 := 61     -- '='
def nl : UInt8 := 10
def pct : UInt8 := 37     -- '%'
def plus : UInt8 := 43

/-- `splitRespectingQuotes(text, d)`: `q` = inQuotes, `cur` = the part being built. -/
def splitQ (d : UInt8) : Bool → Bytes → Bytes → List Bytes
  | _, cur, [] => [cur]
  | q, cur, c :: r =>
    if c = dq then splitQ d (!q) (cur ++ [c]) r
    else if c = bs ∧ q = true then
      match r with
      | [] => [cur ++ [c]]                 -- `i+1 < len(text)` fails: the default branch writes it
      | e :: r' => splitQ d q (cur ++ [c, e]) r'
    else if c = d ∧ q = false then cur :: splitQ d false [] r
    else splitQ d q (cur ++ [c]) r

def splitRespectingQuotes (text : Bytes) (d : UInt8) : List Bytes := splitQ d false [] text

/-- ASCII white space of `strings.TrimSpace`'s fast path. -/
def asciiSpace (c : UInt8) : Bool := c == 32 || (9 ≤ c && c ≤ 13)

/-- Third byte of the E2 80 xx White_Space runes: U+2000–U+200A, U+2028, U+2029, U+202F. -/
def e280Space (b : UInt8) : Bool := (0x80 ≤ b && b ≤ 0x8A) || b == 0xA8 || b == 0xA9 || b == 0xAF

/-- Strip leading Unicode white space (UTF-8): ASCII, U+0085, U+00A0, U+1680, U+2000–200A,
U+2028/9, U+202F, U+205F, U+3000. -/
def trimLeft : Bytes → Bytes
  | [] => []
  | [a] => if asciiSpace a then [] else [a]
  | [a, b] =>
    if asciiSpace a then trimLeft [b]
    else if a = 0xC2 ∧ (b = 0x85 ∨ b = 0xA0) then []
    else [a, b]
  | a :: b :: c :: r =>
    if asciiSpace a then trimLeft (b :: c :: r)
    else if a = 0xC2 ∧ (b = 0x85 ∨ b = 0xA0) then trimLeft (c :: r)
    else if a = 0xE1 ∧ b = 0x9A ∧ c = 0x80 then trimLeft r
    else if a = 0xE2 ∧ b = 0x80 ∧ e280Space c then trimLeft r
    else if a = 0xE2 ∧ b = 0x81 ∧ c = 0x9F then trimLeft r
    else if a = 0xE3 ∧ b = 0x80 ∧ c = 0x80 then trimLeft r
    else a :: b :: c :: r

/-- The same on the reversed string (last rune first). -/
def trimLeftRev : Bytes → Bytes
  | [] => []
  | [a] => if asciiSpace a then [] else [a]
  | [a, b] =>
    if asciiSpace a then trimLeftRev [b]
    else if b = 0xC2 ∧ (a = 0x85 ∨ a = 0xA0) then []
    else [a, b]
  | a :: b :: c :: r =>
    if asciiSpace a then trimLeftRev (b :: c :: r)
    else if b = 0xC2 ∧ (a = 0x85 ∨ a = 0xA0) then trimLeftRev (c :: r)
    else if c = 0xE1 ∧ b = 0x9A ∧ a = 0x80 then trimLeftRev r
    else if c = 0xE2 ∧ b = 0x80 ∧ e280Space a then trimLeftRev r
    else if c = 0xE2 ∧ b = 0x81 ∧ a = 0x9F then trimLeftRev r
    else if c = 0xE3 ∧ b = 0x80 ∧ a = 0x80 then trimLeftRev r
    else a :: b :: c :: r

/-- `strings.TrimSpace`. -/
def trimSpace (s : Bytes) : Bytes := (trimLeftRev (trimLeft s).reverse).reverse

/-- `strings.IndexByte(s, '=')` split: (before, after). -/
def splitAtEq : Bytes → Option (Bytes × Bytes)
  | [] => none
  | c :: r => if c = eqc then some ([], r) else (splitAtEq r).map fun p => (c :: p.1, p.2)

/-- `strings.ToLower`, as far as equality with an ASCII word is concerned: A–Z ↦ a–z, and
U+0130 (C4 B0) ↦ 'i'; every other non-ASCII rune stays non-ASCII. -/
def lowerKey : Bytes → Bytes
  | [] => []
  | [a] => [if 65 ≤ a ∧ a ≤ 90 then a + 32 else a]
  | a :: b :: r =>
    if a = 0xC4 ∧ b = 0xB0 then 105 :: lowerKey r
    else (if 65 ≤ a ∧ a ≤ 90 then a + 32 else a) :: lowerKey (b :: r)

inductive Key
  | hash | cert | subject | uri | dns | by_
  deriving Repr, DecidableEq

def kHash : Bytes := [104, 97, 115, 104]
def kCert : Bytes := [99, 101, 114, 116]
def kSubject : Bytes := [115, 117, 98, 106, 101, 99, 116]
def kUri : Bytes := [117, 114, 105]
def kDns : Bytes := [100, 110, 115]
def kBy : Bytes := [98, 121]

def keyOf (k : Bytes) : Option Key :=
  if k = kHash then some .hash else if k = kCert then some .cert
  else if k = kSubject then some .subject else if k = kUri then some .uri
  else if k = kDns then some .dns else if k = kBy then some .by_ else none

/-- `backslashEscape.ReplaceAllString(text, "$1")` with `backslashEscape = \\(.)`: a backslash
followed by anything but a newline is dropped and the next byte kept. -/
def unescapeQuoted : Bytes → Bytes
  | [] => []
  | c :: r =>
    if c = bs then
      match r with
      | [] => [c]
      | e :: r' => if e = nl then c :: unescapeQuoted (e :: r') else e :: unescapeQuoted r'
    else c :: unescapeQuoted r

/-- Surrounding quotes stripped and the inside unescaped, when the value is at least `""`. -/
def stripQuotes (v : Bytes) : Bytes :=
  if v.length ≥ 2 ∧ v.head? = some dq ∧ v.getLast? = some dq then
    unescapeQuoted ((v.drop 1).dropLast)
  else v

def isHex (c : UInt8) : Bool :=
  (48 ≤ c && c ≤ 57) || (97 ≤ c && c ≤ 102) || (65 ≤ c && c ≤ 70)

def unhex (c : UInt8) : UInt8 :=
  if 48 ≤ c ∧ c ≤ 57 then c - 48 else if 97 ≤ c ∧ c ≤ 102 then c - 87 else c - 55

/-- `url.QueryUnescape`: `none` = EscapeError (a '%' not followed by two hex digits). -/
def queryUnescape : Bytes → Option Bytes
  | [] => some []
  | c :: r =>
    if c = pct then
      match r with
      | h :: l :: r' =>
        if isHex h ∧ isHex l then (queryUnescape r').map fun t => (unhex h * 16 + unhex l) :: t
        else none
      | _ => none
    else (queryUnescape r).map fun t => (if c = plus then 32 else c) :: t

/-- One XFCC element, as `XfccElement`. -/
structure Elem where
  hash : Bytes := []
  cert : Bytes := []
  subject : Bytes := []
  uri : Bytes := []
  dns : List Bytes := []
  by_ : Bytes := []
  deriving Repr, DecidableEq

def assign (e : Elem) (k : Key) (v : Bytes) : Elem :=
  match k with
  | .hash => { e with hash := v }
  | .cert => { e with cert := v }
  | .subject => { e with subject := v }
  | .uri => { e with uri := v }
  | .dns => { e with dns := e.dns ++ [v] }
  | .by_ => { e with by_ := v }

/-- cert / uri / by are URL-decoded, "left as is" on a decoding error. -/
def decodeFor (k : Key) (v : Bytes) : Bytes :=
  match k with
  | .cert | .uri | .by_ => (queryUnescape v).getD v
  | _ => v

/-- One `key=value` pair of an element (the body of the inner loop). -/
def parsePair (e : Elem) (pair : Bytes) : Elem :=
  let p := trimSpace pair
  if p.isEmpty then e
  else match splitAtEq p with
    | none => e
    | some (k, v) =>
      let value := stripQuotes (trimSpace v)
      match keyOf (lowerKey (trimSpace k)) with
      | none => e
      | some key => assign e key (decodeFor key value)

def parseElement (raw : Bytes) : Elem :=
  (splitRespectingQuotes raw semi).foldl parsePair {}

/-- `ParseXfcc`. -/
def parseXfcc (h : Bytes) : List Elem :=
  (splitRespectingQuotes h comma).filterMap fun raw =>
    let t := trimSpace raw
    if t.isEmpty then none else some (parseElement t)

/-- A finished non-empty match of `unescapedComma`. -/
def flush (cur : Bytes) : List Bytes := if cur.isEmpty then [] else [cur]

/-- `unescapedComma.FindAllString(subject, -1)` with `unescapedComma = (?:\\.|[^,])+`:
maximal runs of (backslash + non-newline | non-comma). -/
def dnParts : Bytes → Bytes → List Bytes
  | cur, [] => flush cur
  | cur, c :: r =>
    if c = comma then flush cur ++ dnParts [] r
    else if c = bs then
      match r with
      | [] => [cur ++ [c]]
      | e :: r' => if e = nl then dnParts (cur ++ [c]) (e :: r') else dnParts (cur ++ [c, e]) r'
    else dnParts (cur ++ [c]) r

/-- `len(part) > 3 && strings.EqualFold(part[:3], "CN=")` → `part[3:]`. -/
def cnOfPart (part : Bytes) : Option Bytes :=
  match part with
  | a :: b :: c :: d :: r =>
    if (a = 67 ∨ a = 99) ∧ (b = 78 ∨ b = 110) ∧ c = eqc then some (d :: r) else none
  | _ => none

/-- `extractCN`. -/
def extractCN (subject : Bytes) : Bytes :=
  ((dnParts [] subject).findSome? fun p => cnOfPart (trimSpace p)).getD []

inductive XfccResult
  | ok (principal : Bytes) (e : Elem)
  | missing       -- "Missing x-forwarded-client-cert header"
  | empty         -- "Empty x-forwarded-client-cert header"
  deriving Repr, DecidableEq

/-- `MtlsAuthenticateXfcc` with `Validate == nil`; `last` = SelectElement "last". -/
def xfccAuth (last : Bool) (hdrs : List Bytes) : XfccResult :=
  let h := hdrs.headD []
  if h.isEmpty then .missing
  else
    let es := parseXfcc h
    match (if last then es.getLast? else es.head?) with
    | none => .empty
    | some e => .ok (extractCN e.subject) e

end Vgi.Creds
