import Vgi.Model.Values
/-!
Model of parameter binding (`vgirpc/types_deserialize.go: deserializeParams`, C07):

* a batch without rows binds nothing: after the gate only a struct without tagged fields runs,
* the wrapped-request unwrapping (a batch whose only column is a binary `request` holding an IPC
  stream is replaced by the first batch of that stream, recursively),
* the `Schema.Equal` gate against the declared schema (`describeStruct(target).Schema`),
* row 0 into the struct: a null cell takes the field's `default=` through `setFieldFromString`
  (as repaired for F07a/F07b), otherwise the field's zero value; a non-null cell goes through
  `setFieldFromArrow` (`Vgi.Values.decode`).

`Schema.Equal` is arrow-go's; the model compares what the modelled type language can express:
field count and order, names, nullability and types, recursively (struct children by name,
nullability and type). Any other Arrow type a peer may send is `ATy.other`, equal to nothing the
derivation produces. (List/map element nullability and field metadata are fixed by the derivation
and by the harness's batch builder, and are outside the model.)
-/
namespace Vgi.Params
open Vgi Vgi.Values

/-! ## Schema equality -/

mutual
def typeEq : ATy → ATy → Bool
  | .int a, .int b => a.signed == b.signed && a.bits == b.bits
  | .f32, .f32 => true
  | .f64, .f64 => true
  | .bool, .bool => true
  | .utf8, .utf8 => true
  | .largeUtf8, .largeUtf8 => true
  | .binary, .binary => true
  | .largeBinary, .largeBinary => true
  | .fixed a, .fixed b => a == b
  | .date32, .date32 => true
  | .ts a, .ts b => a == b
  | .time64, .time64 => true
  | .dur, .dur => true
  | .dec, .dec => true
  | .dict, .dict => true
  | .list a, .list b => typeEq a b
  | .map k v, .map k' v' => typeEq k k' && typeEq v v'
  | .struct fs, .struct gs => fieldsEq fs gs
  | .other a, .other b => a == b
  | _, _ => false
/-- `Schema.Equal` / the struct case of `TypeEqual`: same number of fields, and pairwise the same
name, nullability and type, in order. -/
def fieldsEq : AFields → AFields → Bool
  | .nil, .nil => true
  | .cons n a nl r, .cons n' a' nl' r' => n == n' && nl == nl' && typeEq a a' && fieldsEq r r'
  | _, _ => false
end

/-! ## Batches a peer can send -/

/-- A parameter batch: an ordinary one (schema + the cells of row 0), or the wrapped-request
shape — a single binary column named `request` whose row-0 value is a non-empty byte string:
`inner` is the first batch of the IPC stream those bytes hold (`none`: they are not a readable
stream). A `request`-shaped batch whose value is null, empty, or a stream without batches is an
ordinary batch for the decoder and is written as `plain`. -/
inductive PBatch
  | plain (schema : AFields) (row : CFields)
  | wrapped (inner : Option PBatch)
  | empty (schema : AFields)      -- a batch with this schema and NO rows

/-! ## Defaults (`setFieldFromString`) -/

/-- What `strconv.ParseFloat` returns for the default strings of a type (library behaviour the
model takes as given): the bits at 64 and at 32 bits of precision, or nothing on a syntax error. -/
structure FloatEnv where
  f64 : BStr → Option Nat
  f32 : BStr → Option Nat

/-- `strconv.ParseInt(s, 10, bits)` / `strconv.ParseUint(s, 10, bits)`: optional sign (signed
only), at least one digit, no other character, and the value inside the type's range. -/
def parseIntBody (t : ITy) (neg : Bool) (body : BStr) : Except Err Int :=
  if body.isEmpty then .error .decode
  else match parseDigits body with
    | none => .error .decode
    | some m =>
      if t.lo ≤ (if neg then -(m : Int) else (m : Int)) ∧ (if neg then -(m : Int) else (m : Int)) < t.hi
      then .ok (if neg then -(m : Int) else (m : Int)) else .error .decode

def parseIntDefault (t : ITy) (s : BStr) : Except Err Int :=
  parseIntBody t (t.signed && s.head? = some '-')
    (if t.signed && (s.head? = some '-' || s.head? = some '+') then s.drop 1 else s)

def bstr (x : String) : BStr := x.toList

/-- `strconv.ParseBool`. -/
def parseBoolDefault (s : BStr) : Except Err Bool :=
  if s = ['1'] ∨ s = ['t'] ∨ s = ['T'] ∨ s = ['T', 'R', 'U', 'E'] ∨ s = ['t', 'r', 'u', 'e'] ∨ s = ['T', 'r', 'u', 'e'] then .ok true
  else if s = ['0'] ∨ s = ['f'] ∨ s = ['F'] ∨ s = ['F', 'A', 'L', 'S', 'E'] ∨ s = ['f', 'a', 'l', 's', 'e'] ∨ s = ['F', 'a', 'l', 's', 'e'] then .ok false
  else .error .decode

/-- `setFieldFromString(field, fieldType, s)`: a pointer field gets a new pointee; the value is
parsed by the KIND of the (dereferenced) Go type. -/
def defaultVal (env : FloatEnv) (t : GoTy) (s : BStr) : Except Err Val :=
  match derefTy t with
  | .prim .str => .ok (.str s)
  | .prim (.int it) => match parseIntDefault it s with
    | .ok v => .ok (.int v)
    | .error e => .error e
  | .prim .dur => match parseIntDefault i64 s with      -- kind Int64
    | .ok v => .ok (.dur v)
    | .error e => .error e
  | .prim .f64 => match env.f64 s with
    | some b => .ok (.f64 b)
    | none => .error .decode
  | .prim .f32 => match env.f32 s with
    | some b => .ok (.f32 b)
    | none => .error .decode
  | .prim .bool => match parseBoolDefault s with
    | .ok b => .ok (.bool b)
    | .error e => .error e
  | _ => .error .decode     -- slices, maps, structs (time.Time), a second pointer level

/-! ## Row 0 into the struct -/

/-- The field loop of `deserializeParams` after the gate (so column `i` is tagged field `i`):
null → default or zero, otherwise `setFieldFromArrow`. Untagged fields keep their zero value. -/
def bindFields (env : FloatEnv) : GoFields → CFields → Except Err SFields
  | .nil, _ => .ok .nil
  | .cons tag atag t r, cfs =>
    if tagged tag then
      match cfs with
      | .nil => .error .decode
      | .cons _ c cr =>
        match (if c.isNull then
            (match (parseTag tag).dflt with
              | some d => defaultVal env t d
              | none => .ok (zeroVal t))
          else decode t c) with
        | .error e => .error e
        | .ok v => match bindFields env r cr with
          | .error e => .error e
          | .ok vs => .ok (.cons tag atag v vs)
    else match bindFields env r cfs with
      | .error e => .error e
      | .ok vs => .ok (.cons tag atag (zeroVal t) vs)

inductive Outcome
  | typeError                  -- deserializeParams returned an error: answered with a TypeError, no handler
  | handler (params : SFields) -- the handler is invoked with this struct
  | unmodelled

/-- `deserializeParams(batch, target)` as the dispatch sees it. `decl` is the memoized
description of the target type (an error description is returned as is). -/
def bind (env : FloatEnv) (fs : GoFields) (decl : Except Err AFields) : PBatch → Outcome
  | .wrapped none => .typeError
  | .wrapped (some b) => bind env fs decl b
  | .plain schema row =>
    match decl with
    | .error _ => .typeError
    | .ok d =>
      if fieldsEq schema d then
        match bindFields env fs row with
        | .ok vals => .handler vals
        | .error .unmodelled => .unmodelled
        | .error _ => .typeError
      else .typeError
  | .empty schema =>
    -- the gate comes first; then "row 0 is what gets bound": without a row only a struct with no
    -- tagged field (nothing to bind) reaches the handler
    match decl with
    | .error _ => .typeError
    | .ok d =>
      if fieldsEq schema d then
        match d with
        | .nil => match bindFields env fs .nil with
          | .ok vals => .handler vals
          | .error .unmodelled => .unmodelled
          | .error _ => .typeError
        | .cons _ _ _ _ => .typeError
      else .typeError

end Vgi.Params
