import Vgi.Util
/-!
Model of the access-log emission path of `vgirpc`:

* `accesslog_sample.go` — `newAccessLogSampler`, `(*accessLogSampler).keep`, `.key`
  (FNV-1a 32 of the key compared with a 32-bit threshold);
* `accesslog_async.go` — `newAsyncEmitter`, `(*asyncEmitter).enqueue`, `.close`, and the writer
  goroutine `for record := range a.ch { a.write(record) }; close(a.done)`;
* `accesslog.go` — `(*AccessLogHook).emit`, `SetSampleRate`, `SetAsync`, `Close`.

A record is abstracted to the fields this code reads or writes: `status`, `stream_id`,
`request_id` (each absent / a string / a non-string value), `sample_rate` (the float64 bit
pattern stamped by the sampler) and `dropped_records`; all other keys are `extra`. `id` is a
label carried in a field the code never looks at.

The sample rate is a float64 given by its IEEE-754 bit pattern; the range checks
(`math.IsNaN(rate) || rate < 0.0 || rate > 1.0`, `rate >= 1.0`) are done on the bits. The
threshold `uint32(rate * float64(math.MaxUint32))` is NOT computed here (float multiply): it is
an input, read back from the implementation by the correspondence harness.
-/
namespace Vgi.AccessLogEmit

/-! ### Records -/

/-- A map entry as the sampler's type assertions see it. -/
inductive Field
  | absent
  | str (b : Bytes)
  | other                    -- present, but not a Go `string`
  deriving Repr, DecidableEq

structure Rec where
  id : Nat
  status : Field
  streamId : Field
  requestId : Field
  sampleRate : Option Nat    -- `sample_rate` (float64 bits), stamped by `keep`
  dropped : Nat              -- `dropped_records`; 0 = absent
  extra : List (Bytes × Field) := []   -- every other key of the record (trace_id, span_id, method, …):
                                       -- carried along, never read by the sampler or the emitter
  deriving Repr, DecidableEq

def errorBytes : Bytes := [101, 114, 114, 111, 114]   -- "error"

/-- `record["status"] == "error"` (interface comparison: dynamic type string and equal). -/
def isError (r : Rec) : Bool := r.status = .str errorBytes

/-! ### FNV-1a (32 bit), `hash/fnv.New32a` -/

def fnvOffset : Nat := 2166136261
def fnvPrime : Nat := 16777619
def fnvStep (h : Nat) (b : UInt8) : Nat := ((Nat.xor h b.toNat) * fnvPrime) % 4294967296
def fnv1a32 (bs : Bytes) : Nat := bs.foldl fnvStep fnvOffset

/-! ### float64 range checks on the bit pattern -/

def f64Exp (b : Nat) : Nat := b / 4503599627370496 % 2048          -- bits 52..62
def f64Mant (b : Nat) : Nat := b % 4503599627370496                 -- bits 0..51
def f64Neg (b : Nat) : Bool := b / 9223372036854775808 % 2 = 1      -- bit 63
def f64Abs (b : Nat) : Nat := b % 9223372036854775808
def f64One : Nat := 4607182418800017408                             -- 0x3FF0000000000000
def f64IsNaN (b : Nat) : Bool := f64Exp b = 2047 && f64Mant b ≠ 0
/-- `rate < 0.0` -/
def f64LtZero (b : Nat) : Bool := !f64IsNaN b && f64Neg b && f64Abs b ≠ 0
/-- `rate > 1.0` -/
def f64GtOne (b : Nat) : Bool := !f64IsNaN b && !f64Neg b && f64Abs b > f64One
/-- `rate >= 1.0` -/
def f64GeOne (b : Nat) : Bool := !f64IsNaN b && !f64Neg b && f64Abs b ≥ f64One

/-! ### Sampler -/

structure Sampler where
  rateBits : Nat
  threshold : Nat
  fallback : Nat             -- `fallback atomic.Uint64`
  deriving Repr, DecidableEq

/-- `newAccessLogSampler(rate)`; `thr` is the implementation's `uint32(rate * MaxUint32)`. -/
def newSampler (bits thr : Nat) : Option Sampler :=
  if f64IsNaN bits || f64LtZero bits || f64GtOne bits then none
  else some { rateBits := bits, threshold := thr, fallback := 0 }

def digit36 (d : Nat) : UInt8 := if d < 10 then UInt8.ofNat (48 + d) else UInt8.ofNat (87 + d)

/-- `strconv.FormatUint(n, 36)` (fuel 14 ≥ number of base-36 digits of any uint64). -/
def base36Aux : Nat → Nat → Bytes → Bytes
  | 0, _, acc => acc
  | fuel + 1, n, acc =>
    if n < 36 then digit36 n :: acc else base36Aux fuel (n / 36) (digit36 (n % 36) :: acc)
def base36 (n : Nat) : Bytes := base36Aux 14 n []

/-- The stable identifier of a record: a non-empty string `stream_id`, else a non-empty string
`request_id`. -/
def identOf (r : Rec) : Option Bytes :=
  match r.streamId with
  | .str (b :: bs) => some (b :: bs)
  | _ =>
    match r.requestId with
    | .str (b :: bs) => some (b :: bs)
    | _ => none

/-- `(*accessLogSampler).key`. -/
def key (s : Sampler) (r : Rec) : Bytes × Sampler :=
  match identOf r with
  | some k => (k, s)
  | none =>
    let n := (s.fallback + 1) % 18446744073709551616
    (base36 n, { s with fallback := n })

/-- `(*accessLogSampler).keep`: (kept?, sampler afterwards, record afterwards). -/
def keep (s : Sampler) (r : Rec) : Bool × Sampler × Rec :=
  if f64GeOne s.rateBits then (true, s, r)
  else if isError r then (true, s, r)
  else
    let ks := key s r
    if fnv1a32 ks.1 > s.threshold then (false, ks.2, r)
    else (true, ks.2, { r with sampleRate := some s.rateBits })

/-! ### Async emitter + writer goroutine as a transition system -/

structure Sys where
  cap : Nat
  queue : List Rec           -- contents of `a.ch`, oldest first
  pending : Nat              -- `a.dropped`
  closed : Bool              -- `a.closed` (channel closed)
  hand : Option Rec          -- writer goroutine: received, `a.write` not yet returned
  written : List Rec         -- records `a.write` has completed, in order
  done : Bool                -- `a.done` closed: writer left its loop
  hist : List (Rec × Bool)   -- GHOST: every enqueue before close, in order, with "accepted?"
  deriving Repr, DecidableEq

def initSys (cap : Nat) : Sys :=
  { cap := cap, queue := [], pending := 0, closed := false, hand := none, written := [],
    done := false, hist := [] }

/-- `newAsyncEmitter(queueSize, write)`. -/
def newEmitter (queueSize : Int) : Option Sys :=
  if queueSize ≤ 0 then none else some (initSys queueSize.toNat)

/-- `if a.dropped > 0 { record["dropped_records"] = a.dropped }`. -/
def stamp (p : Nat) (r : Rec) : Rec := if p > 0 then { r with dropped := p } else r

/-- `(*asyncEmitter).enqueue` — one atomic step under `a.mu`; the non-blocking `select` either
appends to the channel or takes the `default` arm. -/
def enqueue (s : Sys) (r : Rec) : Sys :=
  if s.closed then s
  else if s.queue.length < s.cap then
    { s with queue := s.queue ++ [stamp s.pending r], pending := 0, hist := s.hist ++ [(r, true)] }
  else
    { s with pending := s.pending + 1, hist := s.hist ++ [(r, false)] }

inductive Act
  | enqueue (r : Rec)
  | recv        -- writer: `record := <-a.ch`
  | wrote       -- writer: `a.write(record)` returned
  | exit        -- writer: channel closed and empty, loop ends, `close(a.done)`
  | close       -- `(*asyncEmitter).close` up to releasing `a.mu` (the caller then waits on done)
  deriving Repr

/-- One scheduler step; `none` = that actor is blocked / not enabled in this state. -/
def step (s : Sys) : Act → Option Sys
  | .enqueue r => some (enqueue s r)
  | .recv =>
    match s.hand, s.queue with
    | none, r :: q => if s.done then none else some { s with hand := some r, queue := q }
    | _, _ => none
  | .wrote =>
    match s.hand with
    | some r => some { s with hand := none, written := s.written ++ [r] }
    | none => none
  | .exit =>
    if s.closed && s.queue.isEmpty && s.hand.isNone && !s.done then some { s with done := true }
    else none
  | .close => some { s with closed := true }

def run (s : Sys) : List Act → Option Sys
  | [] => some s
  | a :: as =>
    match step s a with
    | none => none
    | some s' => run s' as

/-! ### The hook: sampler, then async or direct write (`AccessLogHook.emit`) -/

structure Hook where
  sampler : Option Sampler
  async : Option Sys
  direct : List Rec          -- records written synchronously by `emit`
  deriving Repr

def initHook : Hook := { sampler := none, async := none, direct := [] }

/-- `SetSampleRate(rate)`: `none` = error returned (hook unchanged). -/
def setSampleRate (h : Hook) (bits thr : Nat) : Option Hook :=
  match newSampler bits thr with
  | none => none
  | some s => if f64GeOne bits then some { h with sampler := none } else some { h with sampler := some s }

def defaultQueueSize : Int := 10000

/-- `SetAsync(queueSize)` on a hook that has no emitter yet. -/
def setAsync (h : Hook) (queueSize : Int) : Option Hook :=
  let q := if queueSize ≤ 0 then defaultQueueSize else queueSize
  match newEmitter q with
  | none => none
  | some e => some { h with async := some e }

/-- `(*AccessLogHook).emit`. -/
def emit (h : Hook) (r : Rec) : Hook :=
  match h.sampler with
  | some s =>
    let k := keep s r
    if k.1 then
      match h.async with
      | some a => { h with sampler := some k.2.1, async := some (enqueue a k.2.2) }
      | none => { h with sampler := some k.2.1, direct := h.direct ++ [k.2.2] }
    else { h with sampler := some k.2.1 }
  | none =>
    match h.async with
    | some a => { h with async := some (enqueue a r) }
    | none => { h with direct := h.direct ++ [r] }

end Vgi.AccessLogEmit
