import Vgi.Model.Sha256
/-!
Model of `__describe__` (`vgirpc/describe.go`: `buildDescribeBatch`, `computeProtocolHash`;
`vgirpc/server.go`: the `methods` map, `availableMethods`, `ProtocolHash`;
`vgirpc/server_register.go`: what each registration function stores).

Strings are byte lists (Go strings; `sort.Strings` compares bytes). Arrow schemas are opaque:
the model sees the IPC bytes of each registered schema (`serializeSchema`), never their structure.
-/
namespace Vgi.Describe
open Vgi

abbrev Name := Bytes

/-- The registration function used (server_register.go). -/
inductive Api
  | unary            -- Unary[P, R]
  | unaryVoid        -- UnaryVoid[P]
  | producer         -- Producer
  | producerH        -- ProducerWithHeader
  | exchange         -- Exchange
  | exchangeH        -- ExchangeWithHeader
  | dynamicH         -- DynamicStreamWithHeader
  deriving Repr, DecidableEq

inductive MethodType
  | unary | producer | exchange | dynamic
  deriving Repr, DecidableEq

/-- `methodInfo`, the fields describe reads. Schemas as IPC bytes; `none` = nil pointer. -/
structure Info where
  type : MethodType
  hasResultType : Bool          -- info.ResultType != nil
  params : Bytes                -- serializeSchema(info.ParamsSchema)
  result : Bytes                -- serializeSchema(info.ResultSchema)
  output : Option Bytes         -- info.OutputSchema
  hasHeader : Bool
  header : Option Bytes         -- info.HeaderSchema
  deriving Repr, DecidableEq

/-- IPC bytes of the empty schema are an input (the Arrow serializer is not modelled). -/
structure Reg where
  api : Api
  name : Name
  params : Bytes                -- params schema derived from P
  result : Bytes                -- result schema derived from R (unary only)
  empty : Bytes                 -- serializeSchema(arrow.NewSchema(nil, nil))
  output : Option Bytes         -- outputSchema argument
  header : Option Bytes         -- headerSchema argument (may be nil)
  deriving Repr, DecidableEq

/-- What the registration function stores in `s.methods[name]`. -/
def Reg.info (r : Reg) : Info :=
  match r.api with
  | .unary => ⟨.unary, true, r.params, r.result, none, false, none⟩
  | .unaryVoid => ⟨.unary, false, r.params, r.empty, none, false, none⟩
  | .producer => ⟨.producer, false, r.params, r.empty, r.output, false, none⟩
  | .producerH => ⟨.producer, false, r.params, r.empty, r.output, true, r.header⟩
  | .exchange => ⟨.exchange, false, r.params, r.empty, r.output, false, none⟩
  | .exchangeH => ⟨.exchange, false, r.params, r.empty, r.output, true, r.header⟩
  | .dynamicH => ⟨.dynamic, false, r.params, r.empty, none, true, r.header⟩

/-- The `methods` map as an association list with unique keys; the list order stands for Go's
(unspecified) map iteration order. -/
abbrev Methods := List (Name × Info)

def lookup (m : Methods) (n : Name) : Option Info :=
  match m with
  | [] => none
  | e :: rest => if e.1 = n then some e.2 else lookup rest n

/-- `s.methods[name] = info`. -/
def set (m : Methods) (n : Name) (i : Info) : Methods :=
  match m with
  | [] => [(n, i)]
  | e :: rest => if e.1 = n then (n, i) :: rest else e :: set rest n i

def registerAll (regs : List Reg) : Methods :=
  regs.foldl (fun m r => set m r.name r.info) []

def keys (m : Methods) : List Name := m.map (·.1)

/-! ### `sort.Strings`: byte-wise lexicographic order -/

def bytesLe : Bytes → Bytes → Bool
  | [], _ => true
  | _ :: _, [] => false
  | a :: as, b :: bs => if a < b then true else if a = b then bytesLe as bs else false

def sortNames (l : List Name) : List Name := l.mergeSort bytesLe

/-! ### Rows -/

structure Row where
  name : Name
  methodType : String            -- "unary" | "stream"
  hasReturn : Bool
  params : Bytes
  result : Bytes
  hasHeader : Bool
  header : Option Bytes          -- null when absent
  isExchange : Option Bool       -- always null on the wire (describe v4)
  deriving Repr, DecidableEq

def methodTypeStr : MethodType → String
  | .unary => "unary"
  | _ => "stream"

def mkRow (n : Name) (i : Info) : Row :=
  { name := n
    methodType := methodTypeStr i.type
    hasReturn := i.type == .unary && i.hasResultType
    params := i.params
    result := match i.output with | some o => o | none => i.result
    hasHeader := i.hasHeader
    header := if i.hasHeader then i.header else none
    isExchange := none }

/-- `names := availableMethods(); sort.Strings(names); for name in names { info := methods[name] … }` -/
def rows (m : Methods) : List Row :=
  (sortNames (keys m)).filterMap fun n => (lookup m n).map (mkRow n)

/-! ### Protocol hash: canonical framing + SHA-256 -/

def describeVersion : String := "4"
def requestVersion : String := "1"
def defaultProtocolName : String := "GoRpcServer"

def bit (b : Bool) : Bytes := bytesOfString (if b then "1" else "0")

def triState : Option Bool → Bytes
  | some true => bytesOfString "1"
  | some false => bytesOfString "0"
  | none => bytesOfString "-"

def rowPayload (r : Row) : Bytes :=
  [0x1f] ++ r.name ++ [0x1e] ++ bytesOfString r.methodType ++ [0x1e] ++ bit r.hasReturn ++ [0x1e] ++
  bit r.hasHeader ++ [0x1e] ++ triState r.isExchange ++ [0x1e] ++ r.params ++ [0x1e] ++ r.result ++
  [0x1e] ++ (match r.header with | some h => h | none => [])

def hashPayload (protocolName : Bytes) (rs : List Row) : Bytes :=
  bytesOfString "vgi_rpc.describe.v" ++ bytesOfString describeVersion ++ bytesOfString "|" ++
  bytesOfString requestVersion ++ bytesOfString "|" ++ protocolName ++ bytesOfString "|" ++
  rs.flatMap rowPayload

def protocolHashOf (protocolName : Bytes) (rs : List Row) : String :=
  Sha256.hexDigest (hashPayload protocolName rs)

/-! ### The response -/

structure Config where
  serviceName : Bytes
  serverID : Bytes
  pvSet : Bool
  pv : Bytes
  deriving Repr, DecidableEq

def Config.protocolName (c : Config) : Bytes :=
  if c.serviceName = [] then bytesOfString defaultProtocolName else c.serviceName

structure Describe where
  rows : List Row
  protocolName : Bytes           -- vgi_rpc.protocol_name
  requestVersion : String        -- vgi_rpc.request_version
  describeVersion : String       -- vgi_rpc.describe_version
  protocolHash : String          -- vgi_rpc.protocol_hash
  serverID : Option Bytes        -- vgi_rpc.server_id, omitted when empty
  protocolVersion : Option Bytes -- vgi_rpc.protocol_version, only when set
  deriving Repr, DecidableEq

/-- `buildDescribeBatch` — served unchanged by `serveDescribe` (pipe) and `handleDescribe` (HTTP). -/
def describe (c : Config) (m : Methods) : Describe :=
  let rs := rows m
  { rows := rs
    protocolName := c.protocolName
    requestVersion := requestVersion
    describeVersion := describeVersion
    protocolHash := protocolHashOf c.protocolName rs
    serverID := if c.serverID = [] then none else some c.serverID
    protocolVersion := if c.pvSet then some c.pv else none }

/-- `Server.ProtocolHash()`. -/
def protocolHash (c : Config) (m : Methods) : String := (describe c m).protocolHash

end Vgi.Describe
