import Vgi.Util
/-!
Ownership ledger of the Arrow memory the framework allocates on its dispatch paths
(`vgirpc/server_unary.go: serveUnary`, `server_stream.go: serveStream`, `http_unary.go: handleUnary`,
`http_stream.go: handleExchangeCall / runProduceLoopSized`, `stream.go: OutputCollector`).

This is a hand abstraction — the weakest tie in the design — of WHERE the code acquires and
releases the three kinds of record batches that are built with `defaultAllocator()` and are
visible to the checked allocator:

* `result`   — `serializeResult` in a unary call (released by the deferred closure, also on the
               response-cap refusal);
* `emit i j` — the j-th `EmitMap`/`EmitArrays` batch of turn `i`: the first is taken by the
               collector (released by the flush loop after it is written, or by
               `out.releaseBatches()` on every error exit), a later one is refused by `Emit` and
               released by the emitter that built it;
* `cast i`   — `castRecordBatch` of turn `i`'s input (released by `releaseInput()` / the deferred
               `castBatch.Release()` on every exit of the turn).

The same sequence describes the pipe loop and both HTTP loops (three copies of the flush code in
the source); transport and shared-memory engagement do not change it — zero-length wrappers
(pointer batches, error/log batches) hold no bytes and are not in the ledger.
-/
namespace Vgi.Ledger

inductive Res
  | result
  | emit (turn j : Nat)
  | cast (turn : Nat)
  | wrapper                   -- the external-location pointer batch that replaces an uploaded result
  | extin (turn : Nat)        -- the batch `ResolveExternalLocation` decoded with the framework allocator
  deriving DecidableEq, Repr

inductive Ev
  | acq (r : Res) (bytes : Nat)
  | rel (r : Res)
  | sample                      -- a handler starts; the outstanding byte count is read here
  deriving Repr

abbrev Ledger := List (Res × Nat)

def outstanding : Ledger → Nat
  | [] => 0
  | e :: r => e.2 + outstanding r

/-- Drop the first entry for `r`; `none` when `r` is not held (a release too many). -/
def release (r : Res) : Ledger → Option Ledger
  | [] => none
  | e :: rest => if e.1 = r then some rest else (release r rest).map (e :: ·)

/-- Run events: final ledger and the samples taken, `none` on a release of something not held. -/
def run : Ledger → List Ev → Option (Ledger × List Nat)
  | l, [] => some (l, [])
  | l, .acq r b :: evs => run ((r, b) :: l) evs
  | l, .rel r :: evs =>
    match release r l with
    | some l' => run l' evs
    | none => none
  | l, .sample :: evs =>
    match run l evs with
    | some (l', s) => some (l', outstanding l :: s)
    | none => none

/-! ### Scripts -/

inductive Wire
  | i64 | i32 | f64 | str
  | two        -- two columns: the first needs and passes a cast, the second fails it when `bad`
  deriving DecidableEq, Repr

inductive End | ok | err | panic | fin | cancel
  deriving DecidableEq, Repr

/-- How an external-location input pointer resolves: there is none; the fetched object yields a
data batch (good object, good batch followed by a damaged tail, log + data, several data batches:
the last one, the earlier ones released); the resolution fails (checksum mismatch, nested pointer,
no data batch) with nothing kept. -/
inductive ExtIn | none | ok | err
  deriving DecidableEq, Repr

structure Turn where
  emits : Nat          -- EmitMap calls the handler makes
  «end» : End
  bad : Bool           -- the f64 input of this turn is fractional
  brk : Bool := false     -- the peer goes away: writing this turn's output fails (pipe)
  capped : Bool := false  -- the external-storage cap refuses this turn's upload before the flush (HTTP)
  unenc : Bool := false   -- the stream state cannot be serialized into the next cursor after this turn (HTTP exchange)
  extIn : ExtIn := .none  -- this turn's input is an external-location pointer
  both : Bool := false    -- HTTP exchange: the resolved batch is kept (deferred release) when a cast replaces it
  deriving Repr

inductive Kind | prod | xch
  deriving DecidableEq, Repr

inductive UMethod | echo | fail | boom | void | badparams
  deriving DecidableEq, Repr

structure Sizes where
  r : Nat    -- bytes of the unary result batch
  e : Nat    -- bytes of one EmitMap batch
  c : Nat    -- bytes of one cast batch
  w : Nat := 0   -- bytes of an external-location pointer wrapper (zero-length columns)
  x : Nat := 0   -- bytes of an externally resolved input batch
  deriving Repr

/-- What happens to a unary result on a server with external storage (`handleUnary`,
`serveUnary`): sent inline; uploaded and replaced by the pointer wrapper; refused by the pre-flight
`max_externalized_response_bytes` check before any upload; uploaded and then refused by the
post-flush check (`enforceResponseBudgets`). -/
inductive ExtMode | inline | uploaded | refusedPre | refusedPost
  deriving DecidableEq, Repr

inductive CastOutcome | none | ok | fail
  deriving DecidableEq, Repr

/-- `castRecordBatch` of the turn's input (exchange only; producers receive ticks). -/
def castOf (k : Kind) (w : Wire) (bad : Bool) : CastOutcome :=
  match k with
  | .prod => .none
  | .xch =>
    match w with
    | .i64 => .none
    | .i32 => .ok
    | .f64 => if bad then .fail else .ok
    | .str => .fail
    | .two => if bad then .fail else .ok

/-- the refused emits `j = from, …, from+n-1`: built, refused by `Emit`, released by the emitter -/
def refused (i : Nat) (e : Nat) : Nat → Nat → List Ev
  | _, 0 => []
  | j, n + 1 => .acq (.emit i j) e :: .rel (.emit i j) :: refused i e (j + 1) n

/-- what the handler's `EmitMap` calls do: the first batch stays with the collector -/
def emitEvents (i e : Nat) : Nat → List Ev
  | 0 => []
  | n + 1 => .acq (.emit i 0) e :: refused i e 1 n

/-- Does the handler of this turn end in an error (returned or panicked)? A second `EmitMap`
returns an error which the scripted handler hands back; `Finish` is an error on an exchange. -/
def turnFails (k : Kind) (t : Turn) : Bool :=
  decide (t.emits ≥ 2) || t.end == .err || t.end == .panic || (t.end == .fin && k == .xch)

/-- the external cap refuses the cycle (`checkExternalBudget`): only when there is a data batch -/
def turnCapped (t : Turn) : Bool := (t.capped || t.unenc) && decide (t.emits ≥ 1)

/-- The replacement input(s) a turn owns while its handler runs. Pipe loop: the cast batch if the
input was cast (`releaseInput()` dropped the resolved batch when the cast replaced it), else the
externally resolved batch, else nothing. HTTP exchange (`both`): every replacement has its own
deferred release, so a resolved AND cast input keeps both until the turn returns. -/
def ownedInput (c : CastOutcome) (ei : ExtIn) (both : Bool) (sz : Sizes) (i : Nat) : Ledger :=
  if c = .ok then (.cast i, sz.c) :: (if both && ei = .ok then [(.extin i, sz.x)] else [])
  else if ei = .ok then [(.extin i, sz.x)] else []

def preEvents (c : CastOutcome) (ei : ExtIn) (both : Bool) (sz : Sizes) (i : Nat) : List Ev :=
  (if ei = .ok then [Ev.acq (.extin i) sz.x] else []) ++
  (if c = .ok then Ev.acq (.cast i) sz.c :: (if ei = .ok && !both then [Ev.rel (.extin i)] else []) else [])

def postEvents (c : CastOutcome) (ei : ExtIn) (both : Bool) (i : Nat) : List Ev :=
  if c = .ok then Ev.rel (.cast i) :: (if both && ei = .ok then [Ev.rel (.extin i)] else [])
  else if ei = .ok then [Ev.rel (.extin i)] else []

def turnEvents (k : Kind) (w : Wire) (sz : Sizes) (i : Nat) (t : Turn) : List Ev × Bool :=
  if t.end = .cancel then ([], false)                     -- cancel batch: break before anything
  else if t.extIn = .err then ([], false)                 -- external resolve error batch, nothing kept
  else
    match castOf k w t.bad with
    | .fail =>
      -- cast error batch; a resolved external input is released by releaseInput()
      (if t.extIn = .ok then [Ev.acq (.extin i) sz.x, Ev.rel (.extin i)] else [], false)
    | c =>
      let pre := preEvents c t.extIn t.both sz i
      let post := postEvents c t.extIn t.both i
      let handler := Ev.sample :: emitEvents i sz.e t.emits
      let held := if t.emits ≥ 1 then [Ev.rel (.emit i 0)] else []
      if turnFails k t then
        -- streamErr: out.releaseBatches(); releaseInput(); break
        (pre ++ handler ++ held ++ post, false)
      else if turnCapped t then
        -- cap refusal / cursor not serializable, before the flush: out.releaseBatches(); stop
        (pre ++ handler ++ held ++ post, false)
      else if t.end = .fin then
        -- finished producer: flush what was emitted; break
        (pre ++ handler ++ held ++ post, false)
      else if t.emits = 0 then
        -- validate(): "No data batch was emitted"; releaseBatches(); releaseInput(); break
        (pre ++ handler ++ post, false)
      else
        -- flush loop writes and releases the batch (also when the write fails: the batch and the
        -- rest of the cycle are released, then releaseInput()); next turn unless the pipe broke
        (pre ++ handler ++ held ++ post, !t.brk)

def streamEvents (k : Kind) (w : Wire) (sz : Sizes) : Nat → List Turn → List Ev
  | _, [] => []
  | i, t :: rest =>
    let (evs, go) := turnEvents k w sz i t
    if go then evs ++ streamEvents k w sz (i + 1) rest else evs

inductive Call
  | unary (m : UMethod) (sz : Sizes)
  /-- a unary call that returns a value on a server with external storage -/
  | unaryExt (mode : ExtMode) (sz : Sizes)
  | stream (k : Kind) (w : Wire) (sz : Sizes) (turns : List Turn)
  /-- `castRecordBatch` applied to an input whose buffers the framework allocated itself (what an
  externally resolved stream input is), then everything released: `sz.e` = the input batch. -/
  | castInput (w : Wire) (bad : Bool) (sz : Sizes)
  /-- a unary call (on a server with external storage, the result is uploaded) whose REQUEST is an
  external-location pointer: resolved (`ok`) or refused -/
  | unaryIn (ok : Bool) (sz : Sizes)
  deriving Repr

def callEvents : Call → List Ev
  | .unary .echo sz => [.sample, .acq .result sz.r, .rel .result]
  | .unary .badparams _ => []                -- refused before the handler, nothing built
  | .unary _ _ => [.sample]                  -- error / panic / void: no result batch
  | .unaryExt .inline sz => [.sample, .acq .result sz.r, .rel .result]
  | .unaryExt .refusedPre sz => [.sample, .acq .result sz.r, .rel .result]
  -- upload, wrap the pointer, release the result at the swap; the deferred release then frees the
  -- wrapper — also when the post-flush check replaces the response by the cap error
  | .unaryExt _ sz => [.sample, .acq .result sz.r, .acq .wrapper sz.w, .rel .result, .rel .wrapper]
  | .stream k w sz turns => streamEvents k w sz 0 turns
  | .unaryIn true sz =>
    -- req.Batch is replaced by the resolved batch; the deferred release frees it after the result
    [.acq (.extin 0) sz.x, .sample, .acq .result sz.r, .acq .wrapper sz.w, .rel .result, .rel .wrapper,
     .rel (.extin 0)]
  | .unaryIn false _ => []
  | .castInput w bad sz =>
    -- a failed cast releases the columns it had already cast; the input datum never outlives the call
    match castOf .xch w bad with
    | .ok => [.acq (.emit 0 0) sz.e, .acq (.cast 0) sz.c, .sample, .rel (.cast 0), .rel (.emit 0 0)]
    | _ => [.acq (.emit 0 0) sz.e, .sample, .rel (.emit 0 0)]

end Vgi.Ledger
