import Vgi.Model.PipeSession
/-!
Pre-dispatch classification of the HTTP RPC routes: `HttpServer.handleUnary` (`http_unary.go`,
`POST {prefix}/{method}`), `handleDescribe` (`http_helpers.go`) and the part of
`handleStreamInit` (`http_stream.go`, `POST {prefix}/{method}/init`) up to the call of the stream
handler. The outcome is the response's status class; `writeArrow` rewrites a 500 to
200 + `X-VGI-RPC-Error: true`, so a failed handler is `s200err`.

Assumptions of the modelled family (C03 harness): no authenticator installed, no body-size caps,
no external-location config, no sticky sessions, Content-Encoding either identity or unsupported
(compressed bodies are C18's). The `/exchange` route (continuation tokens) is not modelled here.
-/
namespace Vgi.Http
open Vgi Vgi.Wire Vgi.Pipe

inductive Route
  | unary | init
  deriving DecidableEq, Repr

structure HttpReq where
  route : Route
  pathMethod : Bytes          -- the `{method}` path value
  contentTypeOk : Bool        -- Content-Type is exactly application/vnd.apache.arrow.stream
  encodingOk : Bool           -- Content-Encoding absent or identity (else: unsupported ⇒ 415)
  body : Body

inductive Outcome
  | s415 | s404 | s400
  | s200                      -- 200, no error header
  | s200err                   -- 200 + X-VGI-RPC-Error (handler error / panic: the rewritten 500)
  | dispatched                -- /init: the stream handler was called (200 with or without the header)
  deriving DecidableEq, Repr

/-- every status class the RPC routes can answer with; there is no "no response" outcome -/
def Outcome.status : Outcome → Nat
  | .s415 => 415 | .s404 => 404 | .s400 => 400
  | .s200 => 200 | .s200err => 200 | .dispatched => 200

/-- the checks shared by both routes once the method is known and of the right kind:
body encoding, `ReadRequest`, route/metadata method agreement, version gate, parameter binding -/
def checkedRequest (cfg : Cfg) (info : MethodInfo) (r : HttpReq) : Except Outcome Request :=
  if !r.encodingOk then .error .s415
  else match readRequest r.body with
    | .error _ => .error .s400           -- eof / transport / ProtocolError / VersionError alike
    | .ok req =>
      if req.method ≠ r.pathMethod then .error .s400
      else if refused cfg req then .error .s400
      else if !bindOk cfg info req then .error .s400
      else .ok req

def handleUnary (cfg : Cfg) (r : HttpReq) : Outcome :=
  if !r.contentTypeOk then .s415
  else if r.pathMethod = mDescribe then
    -- handleDescribe: body must decode and parse as a request; nothing else is looked at
    if !r.encodingOk then .s415
    else match readRequest r.body with
      | .error _ => .s400
      | .ok _ => .s200
  else match lookup cfg r.pathMethod with
    | none => .s404
    | some info =>
      if info.kind ≠ .unary then .s400
      else match checkedRequest cfg info r with
        | .error o => o
        | .ok req =>
          match cfg.unary req.method req.batch.cells with
          | .value _ _ => .s200
          | .error _ _ => .s200err
          | .panic _ => .s200err

def handleInit (cfg : Cfg) (r : HttpReq) : Outcome :=
  if !r.contentTypeOk then .s415
  else match lookup cfg r.pathMethod with
    | none => .s404
    | some info =>
      if info.kind = .unary then .s400
      else match checkedRequest cfg info r with
        | .error o => o
        | .ok _ => .dispatched

def handle (cfg : Cfg) (r : HttpReq) : Outcome :=
  match r.route with
  | .unary => handleUnary cfg r
  | .init => handleInit cfg r

end Vgi.Http
