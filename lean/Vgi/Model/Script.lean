import Vgi.Util
/-!
Scripted handler family — the Lean counterpart of `harness/c04_family.go`.

One generic registered server interprets a *script* carried in the call parameters, so a single
registration covers every generated program. This file holds what the scripted handlers and the
framework code around them share:

* `levelPriority`            — `logLevelPriority` (vgirpc/log.go)
* `CallCtx.clientLog`        — `CallContext.ClientLog` + `drainLogs` (vgirpc/context.go)
* `mapOfKVs`                 — the Go `map[string]string` a `LogMessage.Extras` is, in the order
                               `encoding/json` marshals it (keys ascending bytewise, last write wins)
* wire batches (`Batch`)     — what `writeLogBatch` / `writeErrorBatch` / `ipc.Writer.Write` put on
                               the wire, reduced to what properties C04/C06/C37 talk about
* scripted errors and panic values and how Go renders them (`err.Error()`, `%v`).

Byte strings are `Bytes` (hex on the line protocol); nothing here assumes UTF-8.
-/
namespace Vgi.Script

/-! ### Log levels (vgirpc/log.go) -/

def lvlException : Bytes := [0x45, 0x58, 0x43, 0x45, 0x50, 0x54, 0x49, 0x4f, 0x4e]  -- "EXCEPTION"
def lvlError : Bytes := [0x45, 0x52, 0x52, 0x4f, 0x52]                              -- "ERROR"
def lvlWarn : Bytes := [0x57, 0x41, 0x52, 0x4e]                                     -- "WARN"
def lvlInfo : Bytes := [0x49, 0x4e, 0x46, 0x4f]                                     -- "INFO"
def lvlDebug : Bytes := [0x44, 0x45, 0x42, 0x55, 0x47]                              -- "DEBUG"
def lvlTrace : Bytes := [0x54, 0x52, 0x41, 0x43, 0x45]                              -- "TRACE"

/-- `logLevelPriority`: lower = more severe; every unknown string (including "") is 6. -/
def levelPriority (l : Bytes) : Nat :=
  if l = lvlException then 0
  else if l = lvlError then 1
  else if l = lvlWarn then 2
  else if l = lvlInfo then 3
  else if l = lvlDebug then 4
  else if l = lvlTrace then 5
  else 6

/-! ### `map[string]string` as `encoding/json` renders it -/

/-- Bytewise lexicographic `<` (Go string comparison). -/
def bytesLt : Bytes → Bytes → Bool
  | [], [] => false
  | [], _ :: _ => true
  | _ :: _, [] => false
  | a :: as, b :: bs => if a < b then true else if b < a then false else bytesLt as bs

abbrev KVs := List (Bytes × Bytes)

/-- `m[k] = v` on the canonical (sorted, duplicate-free) representation. -/
def mapInsert (k v : Bytes) : KVs → KVs
  | [] => [(k, v)]
  | (k', v') :: r =>
    if k = k' then (k, v) :: r
    else if bytesLt k k' then (k, v) :: (k', v') :: r
    else (k', v') :: mapInsert k v r

/-- `for _, kv := range extras { m[kv.Key] = kv.Value }`. -/
def mapOfKVs (kvs : KVs) : KVs := kvs.foldl (fun m kv => mapInsert kv.1 kv.2 m) []

/-! ### What a string becomes on its way through `json.Marshal` and a JSON decoder

`vgi_rpc.log_extra` is `json.Marshal(map[string]string)`. Every rune — control characters,
quotes, backslashes, `<>&`, U+2028/2029 — is escaped reversibly; bytes that are not valid UTF-8
are each replaced by U+FFFD (documented behaviour of encoding/json). -/

def replacementChar : Bytes := [0xef, 0xbf, 0xbd]

def isCont (b : UInt8) : Bool := 0x80 ≤ b && b ≤ 0xbf

/-- Length of the valid UTF-8 sequence at the head of the list (Go's `utf8.DecodeRune` acceptance
table: no overlong forms, no surrogates, nothing above U+10FFFF), or 0. -/
def utf8SeqLen : Bytes → Nat
  | [] => 0
  | b0 :: rest =>
    if b0 < 0x80 then 1
    else if 0xc2 ≤ b0 && b0 ≤ 0xdf then
      match rest with
      | b1 :: _ => if isCont b1 then 2 else 0
      | _ => 0
    else if 0xe0 ≤ b0 && b0 ≤ 0xef then
      match rest with
      | b1 :: b2 :: _ =>
        let lo : UInt8 := if b0 = 0xe0 then 0xa0 else 0x80
        let hi : UInt8 := if b0 = 0xed then 0x9f else 0xbf
        if lo ≤ b1 && b1 ≤ hi && isCont b2 then 3 else 0
      | _ => 0
    else if 0xf0 ≤ b0 && b0 ≤ 0xf4 then
      match rest with
      | b1 :: b2 :: b3 :: _ =>
        let lo : UInt8 := if b0 = 0xf0 then 0x90 else 0x80
        let hi : UInt8 := if b0 = 0xf4 then 0x8f else 0xbf
        if lo ≤ b1 && b1 ≤ hi && isCont b2 && isCont b3 then 4 else 0
      | _ => 0
    else 0

def jsonCoerceAux : Nat → Bytes → Bytes
  | 0, _ => []
  | _, [] => []
  | fuel + 1, b :: rest =>
    match utf8SeqLen (b :: rest) with
    | 0 => replacementChar ++ jsonCoerceAux fuel rest            -- one bad byte → one U+FFFD
    | n => (b :: rest).take n ++ jsonCoerceAux fuel ((b :: rest).drop n)

/-- A Go string after `json.Marshal` + JSON decoding. -/
def jsonCoerce (s : Bytes) : Bytes := jsonCoerceAux s.length s

/-- A `map[string]string` after the JSON round trip (keys are assumed to stay distinct). -/
def wireExtras (m : KVs) : KVs := m.map fun kv => (jsonCoerce kv.1, jsonCoerce kv.2)

/-! ### CallContext logging (vgirpc/context.go) -/

/-- One `ctx.ClientLog(level, msg, extras...)` call made by a handler. -/
structure LogCall where
  level : Bytes
  msg : Bytes
  extras : KVs
  deriving Repr, DecidableEq

/-- `LogMessage` (log.go). `extras = []` is the nil map (no `vgi_rpc.log_extra` key written). -/
structure LogMessage where
  level : Bytes
  msg : Bytes
  extras : KVs
  deriving Repr, DecidableEq

structure CallCtx where
  logLevel : Bytes
  logs : List LogMessage        -- emission order
  deriving Repr, DecidableEq

/-- The server builds the context with `LogLevel(req.LogLevel)` and replaces "" by TRACE. -/
def newCallCtx (reqLevel : Bytes) : CallCtx :=
  { logLevel := if reqLevel = [] then lvlTrace else reqLevel, logs := [] }

/-- `CallContext.ClientLog`. -/
def CallCtx.clientLog (c : CallCtx) (lc : LogCall) : CallCtx :=
  if levelPriority lc.level > levelPriority c.logLevel then c
  else { c with logs := c.logs ++ [{ level := lc.level, msg := lc.msg, extras := mapOfKVs lc.extras }] }

/-- The handler's logging prefix: every `ClientLog` call of the script, in order. -/
def CallCtx.runLogs (c : CallCtx) (ls : List LogCall) : CallCtx := ls.foldl CallCtx.clientLog c

/-! ### Scripted errors and panic values -/

def colonSpace : Bytes := [0x3a, 0x20]                                   -- ": "
def wrapPrefix : Bytes := [0x77, 0x72, 0x61, 0x70, 0x70, 0x65, 0x64, 0x3a, 0x20]  -- "wrapped: "
/-- "handler panicked: " -/
def panickedPrefix : Bytes :=
  [0x68, 0x61, 0x6e, 0x64, 0x6c, 0x65, 0x72, 0x20, 0x70, 0x61, 0x6e, 0x69, 0x63, 0x6b, 0x65, 0x64, 0x3a, 0x20]
/-- "RuntimeError" -/
def runtimeError : Bytes := [0x52, 0x75, 0x6e, 0x74, 0x69, 0x6d, 0x65, 0x45, 0x72, 0x72, 0x6f, 0x72]

/-- Errors a scripted handler can return. -/
inductive ErrVal
  | rpc (typ msg : Bytes)      -- `&vgirpc.RpcError{Type: typ, Message: msg}`
  | plain (msg : Bytes)        -- `errors.New(msg)`
  | wrapped (msg : Bytes)      -- `fmt.Errorf("wrapped: %w", errors.New(msg))`
  /-- `&vgirpc.RpcError{Type, Message, RequestID, Kind, Traceback}` with every exported field
  pre-populated by the handler (e.g. an error relayed from a downstream call). -/
  | rpcFull (typ msg rid kind tb : Bytes)
  /-- the SAME package-level `*vgirpc.RpcError` value (sentinel number `slot`) on every call. -/
  | shared (slot : Nat)
  deriving Repr, DecidableEq

/-- `Error()` of the family's sentinel errors. -/
def sharedMessage : Nat → Bytes
  | 0 => [0x4c, 0x6f, 0x6f, 0x6b, 0x75, 0x70, 0x45, 0x72, 0x72, 0x6f, 0x72, 0x3a, 0x20, 0x6e, 0x6f, 0x74, 0x20, 0x66,
          0x6f, 0x75, 0x6e, 0x64]                                   -- "LookupError: not found"
  | 1 => [0x56, 0x61, 0x6c, 0x75, 0x65, 0x45, 0x72, 0x72, 0x6f, 0x72, 0x3a, 0x20, 0x73, 0x68, 0x61, 0x72, 0x65, 0x64,
          0x20, 0x73, 0x65, 0x6e, 0x74, 0x69, 0x6e, 0x65, 0x6c]     -- "ValueError: shared sentinel"
  | _ => [0x3a, 0x20]                                                -- &RpcError{} : ": "

/-- `err.Error()`. -/
def ErrVal.message : ErrVal → Bytes
  | .rpc t m => t ++ colonSpace ++ m
  | .plain m => m
  | .wrapped m => wrapPrefix ++ m
  -- whatever else the error value carries (a request id of its own, a kind, a traceback), and
  -- however often the same value was returned before, `Error()` is "Type: Message" …
  | .rpcFull t m _ _ _ => t ++ colonSpace ++ m
  | .shared slot => sharedMessage slot

/-- Values a scripted handler can panic with. -/
inductive PanicVal
  | str (s : Bytes)            -- `panic(s)`
  | err (m : Bytes)            -- `panic(errors.New(m))`
  | int (n : Int)              -- `panic(n)` (an `int`)
  deriving Repr, DecidableEq

def natDigits : Nat → Nat → List UInt8
  | 0, _ => []
  | fuel + 1, n => if n < 10 then [UInt8.ofNat (48 + n)] else natDigits fuel (n / 10) ++ [UInt8.ofNat (48 + n % 10)]

def intDecimal (n : Int) : Bytes :=
  if n < 0 then 0x2d :: natDigits (n.natAbs + 1) n.natAbs else natDigits (n.natAbs + 1) n.natAbs

/-- `fmt.Sprintf("%v", rv)`. -/
def PanicVal.fmtV : PanicVal → Bytes
  | .str s => s
  | .err m => m
  | .int n => intDecimal n

/-- An error value as the framework holds it: only `Error()` is ever observed by C04/C06/C37. -/
structure SrvErr where
  msg : Bytes
  deriving Repr, DecidableEq

/-- `&RpcError{Type: "RuntimeError", Message: m}` seen through `Error()`. -/
def runtimeErr (m : Bytes) : SrvErr := { msg := runtimeError ++ colonSpace ++ m }

/-! ### Wire batches -/

/-- What one IPC record batch of a response is, as far as the properties are concerned. -/
inductive Batch
  /-- zero-row batch written by `writeLogBatch` / `OutputCollector.ClientLog`; `extras` is the
  DECODED `vgi_rpc.log_extra` object. -/
  | log (level msg : Bytes) (extras : KVs) (rid : Option Bytes)
  /-- zero-row EXCEPTION batch written by `writeErrorBatch`. -/
  | exc (msg : Bytes) (rid : Option Bytes)
  /-- a batch without log metadata carrying the value token `v` (+ custom metadata `md`). -/
  | data (v : String) (md : KVs)
  /-- the zero-row, zero-column batch of a void response. -/
  | void
  deriving Repr, DecidableEq

/-- One complete IPC stream (schema message, batches, EOS). `schema` is a canonical rendering. -/
structure IpcStream where
  schema : String
  batches : List Batch
  deriving Repr, DecidableEq

/-- `if requestID != "" { keys = append(keys, MetaRequestID) … }` -/
def ridOpt (rid : Bytes) : Option Bytes := if rid = [] then none else some rid

/-- `writeLogBatch(w, schema, msg, serverID, requestID)`. -/
def writeLogBatch (m : LogMessage) (rid : Bytes) : Batch := .log m.level m.msg (wireExtras m.extras) (ridOpt rid)

/-- `writeErrorBatch(w, schema, err, serverID, requestID, debug)`: the request id written is the
one of the call being answered — never one the error value carries or was given by an earlier call. -/
def writeErrorBatch (e : SrvErr) (rid : Bytes) : Batch := .exc e.msg (ridOpt rid)

def Batch.isLog : Batch → Bool
  | .log .. => true
  | _ => false

def Batch.isExc : Batch → Bool
  | .exc .. => true
  | _ => false

def Batch.isData : Batch → Bool
  | .data .. => true
  | .void => true
  | _ => false

/-- The request id a log / exception batch carries (`none` for data batches). -/
def Batch.rid? : Batch → Option (Option Bytes)
  | .log _ _ _ r => some r
  | .exc _ r => some r
  | _ => none

end Vgi.Script
