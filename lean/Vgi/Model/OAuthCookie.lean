import Vgi.Util
/-!
Model of `vgirpc/oauth_pkce_cookie.go`: `packOAuthCookie` / `unpackOAuthCookie` (wire format v4),
byte for byte, and of the two `encoding/base64` codecs they use (`URLEncoding`, padded, and
`RawURLEncoding`, unpadded; Go's non-strict decoder: CR/LF skipped anywhere, unused trailing
bits ignored, nothing may follow the padding).

The keyed MAC is a parameter `mac : Bytes → Bytes → Bytes` (key, message); the driver
instantiates it with `Vgi.OAuth.Sha256.hmac`.
-/
namespace Vgi.OAuth
open Vgi

/-! ### base64 (URL alphabet) -/

def encChar (n : Nat) : UInt8 :=
  if n < 26 then UInt8.ofNat (65 + n)
  else if n < 52 then UInt8.ofNat (97 + (n - 26))
  else if n < 62 then UInt8.ofNat (48 + (n - 52))
  else if n = 62 then 45      -- '-'
  else 95                     -- '_'

def decChar (c : UInt8) : Option Nat :=
  let n := c.toNat
  if 65 ≤ n ∧ n ≤ 90 then some (n - 65)
  else if 97 ≤ n ∧ n ≤ 122 then some (n - 97 + 26)
  else if 48 ≤ n ∧ n ≤ 57 then some (n - 48 + 52)
  else if n = 45 then some 62
  else if n = 95 then some 63
  else none

def padCh : UInt8 := 61   -- '='

/-- `base64.URLEncoding.EncodeToString` (with padding). -/
def b64encode : Bytes → Bytes
  | a :: b :: c :: rest =>
    encChar (a.toNat / 4) :: encChar (a.toNat % 4 * 16 + b.toNat / 16) ::
      encChar (b.toNat % 16 * 4 + c.toNat / 64) :: encChar (c.toNat % 64) :: b64encode rest
  | [a, b] =>
    [encChar (a.toNat / 4), encChar (a.toNat % 4 * 16 + b.toNat / 16), encChar (b.toNat % 16 * 4), padCh]
  | [a] => [encChar (a.toNat / 4), encChar (a.toNat % 4 * 16), padCh, padCh]
  | [] => []

def byte1 (a b : Nat) : UInt8 := UInt8.ofNat (a * 4 + b / 16)
def byte2 (b c : Nat) : UInt8 := UInt8.ofNat (b % 16 * 16 + c / 4)
def byte3 (c d : Nat) : UInt8 := UInt8.ofNat (c % 4 * 64 + d)

/-- Quantum decoder on input with CR/LF already removed. `padded = true` is `URLEncoding`
(a short final quantum must be completed with `=`), `false` is `RawURLEncoding` (`=` is an
invalid character, a final quantum of 2 or 3 characters is accepted). -/
def decodeQ (padded : Bool) : Bytes → Option Bytes
  | [] => some []
  | c0 :: c1 :: c2 :: c3 :: rest =>
    match decChar c0, decChar c1, decChar c2, decChar c3 with
    | some a, some b, some c, some d =>
      match decodeQ padded rest with
      | some r => some (byte1 a b :: byte2 b c :: byte3 c d :: r)
      | none => none
    | some a, some b, some c, none =>
      if padded ∧ c3 = padCh ∧ rest = [] then some [byte1 a b, byte2 b c] else none
    | some a, some b, none, _ =>
      if padded ∧ c2 = padCh ∧ c3 = padCh ∧ rest = [] then some [byte1 a b] else none
    | _, _, _, _ => none
  | [c0, c1, c2] =>
    if padded then none else
    match decChar c0, decChar c1, decChar c2 with
    | some a, some b, some c => some [byte1 a b, byte2 b c]
    | _, _, _ => none
  | [c0, c1] =>
    if padded then none else
    match decChar c0, decChar c1 with
    | some a, some b => some [byte1 a b]
    | _, _ => none
  | [_] => none

def isNL (c : UInt8) : Bool := c == 10 || c == 13

/-- `DecodeString`: newlines are ignored wherever they occur. -/
def b64decode (padded : Bool) (s : Bytes) : Option Bytes :=
  decodeQ padded (s.filter fun c => !isNL c)

/-! ### integers on the wire -/

def le16 (n : Nat) : Bytes := [UInt8.ofNat (n % 256), UInt8.ofNat (n / 256 % 256)]

def leN : Nat → Nat → Bytes
  | 0, _ => []
  | k + 1, n => UInt8.ofNat (n % 256) :: leN k (n / 256)

def ofLE : Bytes → Nat
  | [] => 0
  | b :: r => b.toNat + 256 * ofLE r

def two63 : Int := 9223372036854775808
def two64 : Int := 18446744073709551616

/-- `uint64(x)` of an `int64` / wrap of an unbounded integer to 64 bits. -/
def toU64 (x : Int) : Nat := (x % two64).toNat

/-- `int64(x)` of a `uint64` (two's complement reinterpretation; also int64 wrap-around). -/
def toI64 (x : Int) : Int :=
  let m := x % two64
  if m < two63 then m else m - two64

/-! ### pack -/

def cookieVersion : UInt8 := 4
def macLen : Nat := 32
def minLen : Nat := 49

/-- `uint16(len(b))` LE, then the bytes (the cast truncates: lengths ≥ 65536 are NOT
representable; `cookie_roundtrip` carries the hypothesis, `Flow` shows the server never packs
such a field). -/
def field (b : Bytes) : Bytes := le16 b.length ++ b

def payloadV (ver : UInt8) (v s u r : Bytes) (createdAt : Int) : Bytes :=
  ver :: (leN 8 (toU64 createdAt) ++ (field v ++ (field s ++ (field u ++ field r))))

def payload (v s u r : Bytes) (createdAt : Int) : Bytes := payloadV cookieVersion v s u r createdAt

/-- `packOAuthCookie`. -/
def pack (mac : Bytes → Bytes → Bytes) (v s u r key : Bytes) (createdAt : Int) : Bytes :=
  let p := payload v s u r createdAt
  b64encode (p ++ mac key p)

/-! ### unpack -/

inductive UErr
  | malformed | tooShort | sig | version | expired | truncated
  deriving Repr, DecidableEq

structure Fields where
  verifier : Bytes
  state : Bytes
  originalURL : Bytes
  returnTo : Bytes
  deriving Repr, DecidableEq

/-- One length-prefixed field at the current position: `(field, rest)`. -/
def readField : Bytes → Option (Bytes × Bytes)
  | b0 :: b1 :: rest =>
    let n := b0.toNat + 256 * b1.toNat
    if n ≤ rest.length then some (rest.take n, rest.drop n) else none
  | _ => none

/-- The field walk of `unpackOAuthCookie` from `pos = 9`. Bytes after the fourth field are
ignored, as in the Go code (they are covered by the MAC). -/
def parseFields (p : Bytes) : Option Fields :=
  match readField p with
  | none => none
  | some (v, p1) =>
    match readField p1 with
    | none => none
    | some (s, p2) =>
      match readField p2 with
      | none => none
      | some (u, p3) =>
        match readField p3 with
        | none => none
        | some (r, _) => some ⟨v, s, u, r⟩

/-- `base64.URLEncoding.DecodeString`, then on error `RawURLEncoding`. -/
def decodeCookie (cookie : Bytes) : Option Bytes :=
  match b64decode true cookie with
  | some raw => some raw
  | none => b64decode false cookie

/-- Checks on the decoded bytes (everything after the base64 step). -/
def unpackRaw (mac : Bytes → Bytes → Bytes) (raw key : Bytes) (maxAge now : Int) : Except UErr Fields :=
  if raw.length < minLen then .error .tooShort
  else
    let p := raw.take (raw.length - macLen)
    let tag := raw.drop (raw.length - macLen)
    if tag ≠ mac key p then .error .sig
    else if p.head? ≠ some cookieVersion then .error .version
    else
      let created := ofLE ((p.drop 1).take 8)
      let age := toI64 (now - toI64 created)
      if maxAge > 0 ∧ (age < 0 ∨ age > maxAge) then .error .expired
      else match parseFields (p.drop 9) with
        | some f => .ok f
        | none => .error .truncated

/-- `unpackOAuthCookie(cookieValue, sessionKey, maxAge)` at clock `now` (Unix seconds). -/
def unpack (mac : Bytes → Bytes → Bytes) (cookie key : Bytes) (maxAge now : Int) : Except UErr Fields :=
  match decodeCookie cookie with
  | none => .error .malformed
  | some raw => unpackRaw mac raw key maxAge now

end Vgi.OAuth
