import Vgi.Model.ScriptUnary
/-!
Pipe stream dispatch of the scripted family: model of

* `Server.serveStream`            (vgirpc/server_stream.go) — init call, state-interface checks,
                                   header stream, init logs, the lockstep loop and its exit paths
* `OutputCollector`               (vgirpc/stream.go) — `Emit/EmitWithMetadata`, `Finish`,
                                   `ClientLog`, `validate`
* `castRecordBatch`               (vgirpc/wire.go) — the decisions it takes itself (schema equality,
                                   column count, field names, per-column type equality); what
                                   `compute.CastDatum` answers for a column is an input (`lib`)
* `Server.writeStreamHeader`      (vgirpc/server_serve.go)

for a registered stream method whose parameters deserialize, a conforming client (a complete
input IPC stream follows the request), no external storage and no shared memory.

A stream state of the family *is* its script plus a cursor: turn `k` runs `script.turnAt k`.
Messages the framework words itself (cast failure, "No data batch was emitted", …) are carried
as opaque tags (`fw*`): C06 is not about their text and the driver never prints it.
-/
namespace Vgi.Script

/-! ### Schemas (only what `Schema.Equal` / `castRecordBatch` look at) -/

structure Field where
  name : String
  typ : String
  nullable : Bool
  deriving Repr, DecidableEq

abbrev Schema := List Field

/-! ### Framework-worded errors (opaque tags, invalid UTF-8 so no script message equals one) -/

def fwEmitTwice : SrvErr := ⟨[0xff, 0xfe, 1]⟩        -- "OutputCollector: only one data batch may be emitted per call"
def fwFinishExchange : SrvErr := ⟨[0xff, 0xfe, 2]⟩   -- "OutputCollector: finish() is not allowed on exchange streams"
def fwNoData : SrvErr := ⟨[0xff, 0xfe, 3]⟩           -- RuntimeError "No data batch was emitted"
def fwNilResult : SrvErr := ⟨[0xff, 0xfe, 4]⟩        -- RuntimeError "stream handler returned a nil result"
def fwBadState : SrvErr := ⟨[0xff, 0xfe, 5]⟩         -- RuntimeError "… does not implement ProducerState/ExchangeState"
def fwCast : SrvErr := ⟨[0xff, 0xfe, 6]⟩             -- TypeError "Input schema mismatch: …"

/-! ### OutputCollector (vgirpc/stream.go) -/

structure Collector where
  batches : List Batch          -- accumulation order = wire order
  hasData : Bool                -- `dataBatchIdx >= 0`
  finished : Bool
  producerMode : Bool
  deriving Repr, DecidableEq

def newCollector (producerMode : Bool) : Collector :=
  { batches := [], hasData := false, finished := false, producerMode := producerMode }

/-- `EmitWithMetadata(batch, meta)` (and `Emit` = no metadata). -/
def Collector.emit (c : Collector) (v : String) (md : KVs) : Collector × Option SrvErr :=
  if c.hasData then (c, some fwEmitTwice)
  else ({ c with batches := c.batches ++ [.data v (mapOfKVs md)], hasData := true }, none)

/-- `Finish()`: refused on exchange streams. -/
def Collector.finish (c : Collector) : Collector × Option SrvErr :=
  if !c.producerMode then (c, some fwFinishExchange)
  else ({ c with finished := true }, none)

/-- `OutputCollector.ClientLog`: no level filter, no request id. -/
def Collector.clientLog (c : Collector) (lc : LogCall) : Collector :=
  { c with batches := c.batches ++ [.log lc.level lc.msg (wireExtras (mapOfKVs lc.extras)) none] }

/-! ### Turn scripts -/

/-- One statement of a scripted `Produce` / `Exchange`. `prop` = the handler returns the error
the collector gave it (otherwise it ignores it and goes on). -/
inductive TurnOp
  | log (lc : LogCall)
  | emit (v : String) (md : KVs) (prop : Bool)
  | echo (prop : Bool)            -- emit the (cast) input batch; a producer emits `i:<turn index>`
  | finish (prop : Bool)
  deriving Repr, DecidableEq

inductive TurnEnd
  | ok
  | fail (e : ErrVal)
  | panic (p : PanicVal)
  deriving Repr, DecidableEq

structure Turn where
  ops : List TurnOp
  fin : TurnEnd
  deriving Repr, DecidableEq

/-- The statements of a turn, until one returns an error. -/
def runOps (echoVal : String) : Collector → List TurnOp → Collector × Option SrvErr
  | c, [] => (c, none)
  | c, .log lc :: r => runOps echoVal (c.clientLog lc) r
  | c, .emit v md p :: r =>
    match c.emit v md with
    | (c', some e) => if p then (c', some e) else runOps echoVal c' r
    | (c', none) => runOps echoVal c' r
  | c, .echo p :: r =>
    match c.emit echoVal [] with
    | (c', some e) => if p then (c', some e) else runOps echoVal c' r
    | (c', none) => runOps echoVal c' r
  | c, .finish p :: r =>
    match c.finish with
    | (c', some e) => if p then (c', some e) else runOps echoVal c' r
    | (c', none) => runOps echoVal c' r

/-- One `Produce` / `Exchange` call under the loop's `recover`: the collector afterwards and
`streamErr`. A panic becomes `&RpcError{Type: "RuntimeError", Message: fmt.Sprintf("%v", rv)}`. -/
def runTurn (producerMode : Bool) (echoVal : String) (t : Turn) : Collector × Option SrvErr :=
  match runOps echoVal (newCollector producerMode) t.ops with
  | (c, some e) => (c, some e)
  | (c, none) =>
    match t.fin with
    | .ok => (c, none)
    | .fail e => (c, some { msg := e.message })
    | .panic p => (c, some (runtimeErr p.fmtV))

/-! ### Stream scripts -/

/-- Which of `ProducerState` / `ExchangeState` the state object returned by init implements. -/
inductive StateKind | prod | exch | both | neither
  deriving Repr, DecidableEq

def StateKind.isProducerState : StateKind → Bool
  | .prod => true | .both => true | _ => false
def StateKind.isExchangeState : StateKind → Bool
  | .exch => true | .both => true | _ => false

/-- The optional `StreamCanceller.OnCancel` of the state and what it does. -/
inductive CancelHook | absent | ok | err | panic
  deriving Repr, DecidableEq

inductive InitOutcome
  /-- `return &StreamResult{OutputSchema, State, InputSchema, Header}, nil` -/
  | ok (state : StateKind) (hook : CancelHook) (header : Option String) (inputSchema : Option Schema)
  | fail (e : ErrVal)
  | panic (p : PanicVal)
  | nilResult                    -- `return nil, nil`
  deriving Repr, DecidableEq

structure StreamScript where
  initLogs : List LogCall
  init : InitOutcome
  turns : List Turn
  rest : Turn                    -- every turn after the listed ones
  deriving Repr, DecidableEq

def StreamScript.turnAt (s : StreamScript) (k : Nat) : Turn := s.turns.getD k s.rest

/-! ### Methods and inputs -/

inductive StreamType | producer | exchange | dynamic
  deriving Repr, DecidableEq

/-- Registration record (`methodInfo`) of a stream method. `outputSchema` is what the scripted
init returns as `StreamResult.OutputSchema` (for non-dynamic methods the registered one). -/
structure SMethod where
  typ : StreamType
  outputSchema : String
  registeredOutput : Bool        -- `info.OutputSchema != nil`
  inputSchema : Option Schema    -- `info.InputSchema`
  hasHeader : Bool
  headerSchema : String
  deriving Repr, DecidableEq

/-- One batch of the client's input stream. -/
inductive InBatch
  /-- a data / tick batch: its value token, and the value token `compute.CastDatum` yields for it
  column by column against the target types (`none`: some column does not cast). -/
  | data (v : String) (lib : Option String)
  /-- a batch carrying `vgi_rpc.cancel`. -/
  | cancel
  deriving Repr, DecidableEq

structure InputStream where
  schema : Schema
  batches : List InBatch
  deriving Repr, DecidableEq

/-- `castRecordBatch(batch, target)` guarded by `!batch.Schema().Equal(inputSchema)`. -/
def castInput (src tgt : Schema) (v : String) (lib : Option String) : Except SrvErr String :=
  if src = tgt then .ok v
  else if src.length ≠ tgt.length then .error fwCast
  else if src.map (·.name) ≠ tgt.map (·.name) then .error fwCast
  else if src.map (·.typ) = tgt.map (·.typ) then .ok v      -- every column retained as is
  else match lib with
    | some v' => .ok v'
    | none => .error fwCast

/-- Calls the state object observes. -/
inductive Callback
  | produce (k : Nat)
  | exchange (k : Nat) (input : String)
  | cancel
  deriving Repr, DecidableEq

def natToken (k : Nat) : String := "i:" ++ toString k

def InBatch.isData : InBatch → Bool
  | .data .. => true
  | .cancel => false

/-- `Produce` / `Exchange` (as opposed to `OnCancel`). -/
def Callback.isTurn : Callback → Bool
  | .cancel => false
  | _ => true

/-- The turn number of a `Produce` / `Exchange` call. -/
def Callback.index? : Callback → Option Nat
  | .produce k => some k
  | .exchange k _ => some k
  | .cancel => none

/-- Environment of the lockstep loop. -/
structure LoopEnv where
  script : StreamScript
  isProducer : Bool
  hook : CancelHook
  srcSchema : Schema
  inputSchema : Option Schema    -- exchange only
  rid : Bytes

/-- Which exit of the lockstep loop was taken. -/
inductive Stop
  | eos          -- `!inputReader.Next()`: the client closed its input stream
  | cancelled    -- a `vgi_rpc.cancel` batch
  | finished     -- `out.Finished()` after the flush
  | failed       -- cast / handler / validate error: one error batch, `break`
  deriving Repr, DecidableEq

structure LoopOut where
  batches : List Batch
  calls : List Callback
  err : Option SrvErr
  stop : Stop
  deriving Repr, DecidableEq

/-- The input value the state sees for a data batch: `castRecordBatch` when the stream has an input
schema the batch's schema is not `Equal` to (exchange only), the batch itself otherwise. -/
def casted (env : LoopEnv) (v : String) (lib : Option String) : Except SrvErr String :=
  match env.inputSchema with
  | some tgt => castInput env.srcSchema tgt v lib
  | none => .ok v

/-- The callback the state object receives for turn `k`. -/
def callOf (env : LoopEnv) (k : Nat) (inVal : String) : Callback :=
  if env.isProducer then .produce k else .exchange k inVal

/-- What an `echo` statement emits in turn `k`. -/
def echoOf (env : LoopEnv) (k : Nat) (inVal : String) : String :=
  if env.isProducer then natToken k else inVal

/-- Turn `k` of the stream on input value `inVal`: the collector afterwards and `streamErr`. -/
def turnOf (env : LoopEnv) (k : Nat) (inVal : String) : Collector × Option SrvErr :=
  runTurn env.isProducer (echoOf env k inVal) (env.script.turnAt k)

/-- The lockstep loop of `serveStream` from turn `k` on, over the remaining input batches. -/
def loop (env : LoopEnv) : Nat → List InBatch → LoopOut
  | _, [] => { batches := [], calls := [], err := none, stop := .eos }   -- `!inputReader.Next()`
  | _, .cancel :: _ =>
    -- OnCancel (if implemented) runs once, errors and panics are swallowed; then `break`
    { batches := [], calls := if env.hook = .absent then [] else [.cancel], err := none, stop := .cancelled }
  | k, .data v lib :: rest =>
    match casted env v lib with
    | .error e => { batches := [writeErrorBatch e env.rid], calls := [], err := some e, stop := .failed }
    | .ok inVal =>
      match turnOf env k inVal with
      | (_, some e) =>
        -- stream-error-batch; the collector's batches are released, not written
        { batches := [writeErrorBatch e env.rid], calls := [callOf env k inVal], err := some e, stop := .failed }
      | (c, none) =>
        if !c.finished && !c.hasData then
          -- validate(): "No data batch was emitted"
          { batches := [writeErrorBatch fwNoData env.rid], calls := [callOf env k inVal],
            err := some fwNoData, stop := .failed }
        else if c.finished then
          { batches := c.batches, calls := [callOf env k inVal], err := none, stop := .finished }
        else
          let r := loop env (k + 1) rest
          { batches := c.batches ++ r.batches, calls := callOf env k inVal :: r.calls, err := r.err, stop := r.stop }

structure StreamOut where
  streams : List IpcStream       -- everything written for this call, in order
  calls : List Callback
  handlerErr : Option SrvErr
  deriving Repr, DecidableEq

/-- `writeErrorResponse(w, schema, err, …)`: a complete stream holding one error batch. -/
def errorStream (schema : String) (e : SrvErr) (rid : Bytes) : IpcStream :=
  { schema := schema, batches := [writeErrorBatch e rid] }

/-- The mode decision of `serveStream` (`none` = the state does not fit the method). -/
def decideMode (t : StreamType) (st : StateKind) : Option Bool :=
  match t with
  | .dynamic => if st.isProducerState then some true else if st.isExchangeState then some false else none
  | .producer => if st.isProducerState then some true else none
  | .exchange => if st.isExchangeState then some false else none

/-- `writeStreamHeader`: the header is its own complete IPC stream (header schema); the init logs
collected so far are drained into it, written with request id "". -/
def headerStream (m : SMethod) (logs : List LogMessage) (h : String) : IpcStream :=
  { schema := m.headerSchema, batches := logs.map (writeLogBatch · []) ++ [.data h []] }

/-- `if info.HasHeader && streamResult.Header != nil { … }` -/
def headerStreams (m : SMethod) (logs : List LogMessage) (header : Option String) : List IpcStream :=
  match header with
  | some h => if m.hasHeader then [headerStream m logs h] else []
  | none => []

/-- The input schema used for casting (exchange only): the registered one, else the one the
`StreamResult` carries. -/
def effectiveInputSchema (m : SMethod) (isProducer : Bool) (resInput : Option Schema) : Option Schema :=
  if isProducer then none
  else match m.inputSchema with
    | some sc => some sc
    | none => resInput

def mkEnv (m : SMethod) (rid : Bytes) (s : StreamScript) (input : InputStream)
    (isProducer : Bool) (hook : CancelHook) (resInput : Option Schema) : LoopEnv :=
  { script := s, isProducer := isProducer, hook := hook, srcSchema := input.schema,
    inputSchema := effectiveInputSchema m isProducer resInput, rid := rid }

/-- `Server.serveStream` after successful parameter deserialization. -/
def serveStream (m : SMethod) (lvl rid : Bytes) (s : StreamScript) (input : InputStream) : StreamOut :=
  let ctx := (newCallCtx lvl).runLogs s.initLogs
  -- error before a StreamResult exists: `info.OutputSchema`, or the empty schema when nil
  let earlySchema := if m.registeredOutput then m.outputSchema else emptySchema
  match s.init with
  | .fail e =>
    let e' : SrvErr := { msg := e.message }
    { streams := [errorStream earlySchema e' rid], calls := [], handlerErr := some e' }
  | .panic p =>
    let e' := runtimeErr (panickedPrefix ++ p.fmtV)
    { streams := [errorStream earlySchema e' rid], calls := [], handlerErr := some e' }
  | .nilResult =>
    { streams := [errorStream earlySchema fwNilResult rid], calls := [], handlerErr := some fwNilResult }
  | .ok st hook header resInput =>
    match decideMode m.typ st with
    | none =>
      { streams := [errorStream m.outputSchema fwBadState rid], calls := [], handlerErr := some fwBadState }
    | some isProducer =>
      -- the header stream drains the init logs; otherwise they open the output stream
      let writesHeader := m.hasHeader && header.isSome
      let initLogs : List LogMessage := if writesHeader then [] else ctx.logs
      let r := loop (mkEnv m rid s input isProducer hook resInput) 0 input.batches
      { streams := headerStreams m ctx.logs header ++
          [{ schema := m.outputSchema, batches := initLogs.map (writeLogBatch · rid) ++ r.batches }],
        calls := r.calls, handlerErr := r.err }

end Vgi.Script
