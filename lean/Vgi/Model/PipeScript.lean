import Vgi.Model.PipeSession
/-!
Script language, scripted handlers and renderer shared by the C02 and C03 drivers (the Lean
counterpart of `harness/c02.go`: `c02ParseStreams`, `c02Unary`, `c02Init`, `c02State`,
`c02Decode`). Core Lean only; nothing here is a proof obligation — the theorems quantify over
every `Pipe.Cfg`, `scriptCfg` is just the configuration the harness' server has.
-/
namespace Vgi.PipeScript
open Vgi Vgi.Wire Vgi.Pipe

/-! ### parsing -/

def asciiBytes (s : String) : Bytes := s.toList.map (fun c => UInt8.ofNat c.toNat)

def bytesToString (b : Bytes) : String := String.ofList (b.map (fun x => Char.ofNat x.toNat))

def parseField (s : String) : Option Field :=
  match s.splitOn ":" with
  | [n, t, "0"] => some ⟨asciiBytes n, asciiBytes t, false⟩
  | [n, t, "1"] => some ⟨asciiBytes n, asciiBytes t, true⟩
  | _ => none

def parseSchema (s : String) : Option Schema :=
  if s = "-" then some [] else (s.splitOn ",").mapM parseField

def parseCells (s : String) : Option (List Bytes) :=
  if s = "-" then some [] else some ((s.splitOn ",").map asciiBytes)

def parseHex (s : String) : Option Bytes := bytesOfHexAux s.toList

def parseKV (s : String) : Option (Bytes × Bytes) :=
  match s.splitOn "=" with
  | [k, v] => do
    let kb ← parseHex k
    let vb ← parseHex v
    pure (kb, vb)
  | _ => none

def parseMeta (s : String) : Option Meta :=
  if s = "-" then some [] else (s.splitOn ",").mapM parseKV

/-- `{B rows cells meta}` … up to the next `S` or the end. -/
def parseBatches : List String → Option (List Batch × List String)
  | "B" :: r :: c :: m :: rest => do
    let rows ← r.toNat?
    let cells ← parseCells c
    let md ← parseMeta m
    let (bs, rest') ← parseBatches rest
    -- a zero-row batch has no row 0: its cells are ignored
    pure (⟨rows, md, if rows = 0 then [] else cells⟩ :: bs, rest')
  | ws => some ([], ws)
termination_by ws => ws.length
decreasing_by simp_wf; omega

def parseStreams : Nat → List String → Option (List Stream)
  | _, [] => some []
  | 0, _ => none
  | fuel + 1, "S" :: sch :: rest => do
    let schema ← parseSchema sch
    let (bs, rest') ← parseBatches rest
    let more ← parseStreams fuel rest'
    pure (⟨schema, bs, false⟩ :: more)
  | _, _ => none

def parseOp (ws : List String) : Option ClientOp :=
  match parseStreams 3 ws with
  | some [rq] => some ⟨rq, none⟩
  | some [rq, inp] => some ⟨rq, some inp⟩
  | _ => none

def parseKind : String → Option MKind
  | "unary" => some .unary
  | "producer" => some .producer
  | "exchange" => some .exchange
  | "dynamic" => some .dynamic
  | _ => none

def parseBool : String → Option Bool
  | "0" => some false
  | "1" => some true
  | _ => none

/-! ### the scripted handlers (mirror of `c02Unary`, `c02Init`, `c02State` in harness/c02.go) -/

/-- a cell as the script integer it was built from: decimal text; the harness renders utf8 cells
as `s<int>` (so that they never cast to a number), which is stripped here -/
def cellInt (c : Bytes) : Int :=
  let s := bytesToString c
  let s := if s.startsWith "s" then s.drop 1 else s
  (s.toInt?).getD 0

def intCell (i : Int) : Bytes := asciiBytes (toString i)

def nth (l : List Int) (i : Nat) : Int := (l[i]?).getD 0

def scriptUnary (_ : Bytes) (cells : List Bytes) : UnaryOutcome :=
  let v := cells.map cellInt
  let a := nth v 0; let b := nth v 1; let c := nth v 2
  if a = 0 then .value 0 [intCell (2 * b + c)]
  else if a = 1 then .error 0 "ValueError"
  else if a = 2 then .panic 0
  else if a = 3 then .value (c.toNat % 4) [intCell b]
  else if a = 4 then .error 1 "KeyError"
  else if a = 5 then .panic 2
  else .value 0 [intCell (a + b + c)]

/-- what the state does at call `k` when `k = failAt` and `a` is a failure mode -/
def failOutcome (a : Int) : Option StepOutcome :=
  if a = 11 then some (.error "ValueError")
  else if a = 12 then some .panic
  else if a = 13 then some (.out [] false)
  else if a = 14 then some (.out [.log] false)
  else if a = 15 then some (.error "RuntimeError")
  else if a = 16 then some (.out [] true)
  else none

def scriptProduce (a b c : Int) (k : Nat) : StepOutcome :=
  match (if (k : Int) = c then failOutcome a else none) with
  | some o => o
  | none =>
    if (k : Int) ≥ b ∨ k ≥ 50 then .out [] true
    else
      let d := Item.data 1 [intCell ((k : Int) + 10 * b)]
      if a = 17 then .out [.log, d] false
      else if a = 18 then .out [d] true
      else .out [d] false

def scriptExchange (a b c : Int) (seen : List Batch) : StepOutcome :=
  let k := seen.length - 1
  match (if (k : Int) = c then failOutcome a else none) with
  | some o => o
  | none =>
    let v := match seen.getLast? with
      | some x => (match x.cells with | c0 :: _ => cellInt c0 | [] => 0)
      | none => 0
    let d := Item.data 1 [intCell (v + b)]
    if a = 17 then .out [.log, d] false else .out [d] false

def vSchema : Schema := [⟨asciiBytes "v", asciiBytes "int64", false⟩]

def scriptInit (_ : Bytes) (cells : List Bytes) : InitOutcome :=
  let v := cells.map cellInt
  let a := nth v 0; let b := nth v 1; let c := nth v 2
  if a = 1 then .error "ValueError"
  else if a = 2 then .panic
  else if a = 3 then .nilResult
  else
    let logs := if a = 9 then 2 else 0
    let header := a != 10
    let inSch := if a = 21 then some vSchema else none
    let prod := some (scriptProduce a b c)
    let exch := some (scriptExchange a b c)
    if a = 4 then .ok logs header inSch ⟨none, none⟩
    else if a = 5 then .ok logs header inSch ⟨prod, none⟩
    else if a = 6 ∨ (20 ≤ a ∧ a ≤ 29) then .ok logs header inSch ⟨none, exch⟩
    else .ok logs header inSch ⟨prod, exch⟩

/-- "MAJOR.MINOR.PATCH", digits only, no leading zeros: major and minor. -/
def semverPart (s : String) : Option Nat :=
  if s.isEmpty then none
  else if !s.toList.all Char.isDigit then none
  else if s.length > 1 && s.toList.head? == some '0' then none
  else s.toNat?

def semverMM (b : Bytes) : Option (Nat × Nat) :=
  match (bytesToString b).splitOn "." with
  | [x, y, z] => do
    let mj ← semverPart x
    let mn ← semverPart y
    let _ ← semverPart z
    pure (mj, mn)
  | _ => none

/-- server version "1.2.0": admits exactly clients with major.minor = 1.2 -/
def admits (v : Option Bytes) : Bool :=
  match v with
  | some b => semverMM b == some (1, 2)
  | none => false

def scriptCfg (methods : List MethodInfo) (pvOn : Bool) : Cfg :=
  { methods := methods,
    pvGate := if pvOn then some admits else none,
    unary := scriptUnary,
    stream := scriptInit,
    -- method `n1` takes an embedded ArrowSerializable payload; the script cell names its shape
    -- and only cells >= 0 bind (see `c02Payload` in harness/c02.go)
    bindFails := fun m cells =>
      m == asciiBytes "n1" && (match cells with
        | [c] => cellInt c < 0
        | _ => true),
    -- int32 → int64 always casts; the harness' utf8 cells ("s<int>") never parse, so a utf8
    -- column casts only when it is empty
    canCast := fun f t b =>
      t == asciiBytes "int64" && (f == asciiBytes "int32" || (f == asciiBytes "utf8" && b.rows == 0)) }

/-! ### rendering -/

def hex (b : Bytes) : String := hexOfBytes b

def renderBatch : OutBatch → String
  | .log id => "L:" ++ hex id
  | .exc ty id => "E:" ++ ty ++ ":" ++ hex id
  | .data n cells => s!"D:{n}:" ++ (if cells.isEmpty then "-" else ";".intercalate (cells.map hex))
  | .describe => "DESC"
  | .topts => "TOPT"

def renderStream (s : RespStream) : String :=
  (if s.header then "H" else "D") ++ "[" ++ ",".intercalate (s.batches.map renderBatch) ++ "]"

def render (rs : List RespStream) : String :=
  if rs.isEmpty then "-" else " ".intercalate (rs.map renderStream)


/-- `method <name> <kind> <schema> <hasResult> <hasHeader> <inputSchema|none>` -/
def parseMethod (ws : List String) : Option MethodInfo :=
  match ws with
  | [name, kind, sch, hasRes, hasHdr, inSch] =>
    match parseHex name, parseKind kind, parseSchema sch, parseBool hasRes, parseBool hasHdr with
    | some n, some k, some s, some r, some h =>
      let inp : Option (Option Schema) := if inSch = "none" then some none else (parseSchema inSch).map some
      inp.map fun i => ⟨n, k, s, r, h, i⟩
    | _, _, _, _, _ => none
  | _ => none

end Vgi.PipeScript
