import Vgi.Util
/-!
Model of `vgirpc/introspect_token.go`: `EnableTokenIntrospection` (what "enabled" means),
`introspectRateLimiter.allow` (fixed window, whole-map reset, explicit clock),
`readIntrospectToken` (8 KiB / 4096-character caps), the JWS-shape test and the decision order
of `handleIntrospectToken`, with its fixed refusal bodies and its log records.

From outside the handler and therefore explicit inputs: the authenticator's outcome, the clock,
the JSON decoder (`decode : body ↦ token`, `encoding/json`), the resolver, the digest function.
-/
namespace Vgi.Introspect
open Vgi

def maxBodyBytes : Nat := 8192
def maxTokenChars : Nat := 4096
def defaultTTL : Int := 300
def defaultRate : Int := 20
def defaultRetryAfter : Int := 5

/-! ### JWS shape: `\A[A-Za-z0-9_-]+\.[A-Za-z0-9_-]+\.[A-Za-z0-9_-]*\z` -/

def isB64url (c : UInt8) : Bool :=
  (65 ≤ c && c ≤ 90) || (97 ≤ c && c ≤ 122) || (48 ≤ c && c ≤ 57) || c == 95 || c == 45

/-- Split at every `.` (46). -/
def splitDots : Bytes → List Bytes
  | [] => [[]]
  | c :: r =>
    match splitDots r with
    | [] => [[c]]            -- unreachable: `splitDots` never returns `[]`
    | seg :: segs => if c = 46 then [] :: seg :: segs else (c :: seg) :: segs

def jwsShaped (s : Bytes) : Bool :=
  match splitDots s with
  | [a, b, c] => !a.isEmpty && !b.isEmpty && a.all isB64url && b.all isB64url && c.all isB64url
  | _ => false

/-! ### configuration -/

structure Cfg where
  principals : List Bytes      -- non-empty strings only
  perWindow : Nat
  defaultTTL : Int
  deriving Repr, DecidableEq

/-- `EnableTokenIntrospection` (a resolver being given): `none` = refused at boot, the route
stays disabled. -/
def enable (principals : List Bytes) (ttl rate : Int) : Option Cfg :=
  let ps := principals.filter (· ≠ [])
  if ps = [] then none
  else some ⟨ps, (if rate ≤ 0 then defaultRate else rate).toNat, if ttl ≤ 0 then defaultTTL else ttl⟩

/-! ### rate limiter -/

/-- `counts` is the Go map read with its zero default: a total function. -/
structure Limiter where
  window : Int                    -- nanoseconds
  windowStart : Option Int        -- `none` = the zero `time.Time` of a fresh limiter
  counts : Bytes → Nat

def Limiter.fresh (window : Int) : Limiter := ⟨window, none, fun _ => 0⟩

def bump (counts : Bytes → Nat) (k : Bytes) : Bytes → Nat :=
  fun k' => if k' = k then counts k + 1 else counts k'

/-- Did this call start a new window? -/
def resets (l : Limiter) (now : Int) : Bool :=
  match l.windowStart with
  | none => true
  | some s => now - s ≥ l.window

/-- `introspectRateLimiter.allow(key)` at clock `now`. -/
def allow (perWindow : Nat) (l : Limiter) (now : Int) (key : Bytes) : Limiter × Bool :=
  let l1 : Limiter := if resets l now then { l with windowStart := some now, counts := fun _ => 0 } else l
  if l1.counts key ≥ perWindow then (l1, false)
  else ({ l1 with counts := bump l1.counts key }, true)

/-! ### the handler -/

inductive Auth
  /-- `authenticate` answered the request itself (401 / 503 / 500). -/
  | failed
  | ctx (authenticated : Bool) (principal : Bytes)
  deriving Repr, DecidableEq

/-- What the resolver returns, `(identity, ok, err)`, by the way the handler reads it: an error
first (whatever identity came with it), then `ok`. -/
inductive Res
  /-- `ok = true`, `err = nil` -/
  | identity (principal tokenName : Bytes) (ttl : Int)
  /-- `ok = false`, `err = nil` — WHATEVER identity the resolver filled in alongside (an expired or
  revoked row may still name its owner) -/
  | unknown (principal tokenName : Bytes) (ttl : Int)
  /-- the resolver returned an error: an `AuthUnavailableError` with that `RetryAfter` field
  (`some n`), or any other error (`none`) -/
  | unavailable (hint : Option Int) (errText : Bytes)
  deriving Repr, DecidableEq

inductive Code | notEnabled | notAnIntrospector | rateLimited | unresolved | unavailable
  deriving Repr, DecidableEq

def Code.status : Code → Nat
  | .notEnabled => 404 | .notAnIntrospector => 403 | .rateLimited => 429
  | .unresolved => 404 | .unavailable => 503

def Code.text : Code → String
  | .notEnabled => "not_enabled" | .notAnIntrospector => "not_an_introspector"
  | .rateLimited => "rate_limited" | .unresolved => "unresolved" | .unavailable => "unavailable"

/-- `writeIntrospectRefusal`: the body is a function of the code alone. -/
def Code.body (c : Code) : String := "{\"error\":\"" ++ c.text ++ "\"}"

inductive Resp
  | authAnswered
  | refusal (code : Code) (retryAfter : Option Int)
  | ok (principal tokenName : Bytes) (ttl : Int)
  deriving Repr, DecidableEq

inductive Msg | refusedCaller | rateLimited | jwsRefused | unavailable | unresolved | resolved
  deriving Repr, DecidableEq

structure LogRec where
  msg : Msg
  principal : Bytes
  digest : Option Bytes := none
  resolvedPrincipal : Option Bytes := none
  err : Option Bytes := none
  deriving Repr, DecidableEq

structure Out where
  resp : Resp
  /-- was the request body touched -/
  bodyRead : Bool := false
  /-- credentials handed to the resolver, in order -/
  resolverCalls : List Bytes := []
  log : List LogRec := []
  deriving Repr, DecidableEq

/-- The `Retry-After` a 503 advertises: the error's own hint when positive, else the default. -/
def retryAfterOf : Option Int → Int
  | some n => if n > 0 then n else defaultRetryAfter
  | none => defaultRetryAfter

/-- `readIntrospectToken`: `(credential?, body was read)`. -/
def readToken (decode : Bytes → Option Bytes) (contentLength : Int) (body : Bytes) : Option Bytes × Bool :=
  if contentLength > maxBodyBytes then (none, false)
  else if body.length > maxBodyBytes then (none, true)
  else match decode body with
    | none => (none, true)
    | some tok => if tok = [] ∨ tok.length > maxTokenChars then (none, true) else (some tok, true)

/-- May this caller introspect: authenticated AND on the allowlist. -/
def callerOK (cfg : Cfg) (authenticated : Bool) (caller : Bytes) : Bool :=
  authenticated && cfg.principals.contains caller

/-- `handleIntrospectToken` from the point where the limiter has admitted the call: read the
subject, refuse JWS-shaped ones, ask the resolver. -/
def serve (cfg : Cfg) (caller : Bytes) (contentLength : Int) (body : Bytes)
    (decode : Bytes → Option Bytes) (resolver : Bytes → Res) (digest : Bytes → Bytes) : Out :=
  match readToken decode contentLength body with
  | (none, read) => { resp := .refusal .unresolved none, bodyRead := read }
  | (some cred, read) =>
    if jwsShaped cred then
      { resp := .refusal .unresolved none, bodyRead := read,
        log := [{ msg := .jwsRefused, principal := caller, digest := some (digest cred) }] }
    else match resolver cred with
      | .unavailable ra e =>
        { resp := .refusal .unavailable (some (retryAfterOf ra)), bodyRead := read, resolverCalls := [cred],
          log := [{ msg := .unavailable, principal := caller, digest := some (digest cred), err := some e }] }
      | .unknown _ _ _ =>
        { resp := .refusal .unresolved none, bodyRead := read, resolverCalls := [cred],
          log := [{ msg := .unresolved, principal := caller, digest := some (digest cred) }] }
      | .identity p n ttl =>
        { resp := .ok p n (if ttl ≤ 0 then cfg.defaultTTL else ttl), bodyRead := read,
          resolverCalls := [cred],
          log := [{ msg := .resolved, principal := caller, digest := some (digest cred),
                    resolvedPrincipal := some p }] }

/-- `handleIntrospectToken`. -/
def handle (cfg : Option Cfg) (lim : Limiter) (now : Int) (auth : Auth) (contentLength : Int)
    (body : Bytes) (decode : Bytes → Option Bytes) (resolver : Bytes → Res)
    (digest : Bytes → Bytes) : Limiter × Out :=
  match cfg with
  | none => (lim, { resp := .refusal .notEnabled none })
  | some cfg =>
    match auth with
    | .failed => (lim, { resp := .authAnswered })
    | .ctx authenticated caller =>
      if callerOK cfg authenticated caller = false then
        (lim, { resp := .refusal .notAnIntrospector none, log := [{ msg := .refusedCaller, principal := caller }] })
      else if (allow cfg.perWindow lim now caller).2 = false then
        ((allow cfg.perWindow lim now caller).1,
          { resp := .refusal .rateLimited (some 1), log := [{ msg := .rateLimited, principal := caller }] })
      else
        ((allow cfg.perWindow lim now caller).1, serve cfg caller contentLength body decode resolver digest)

end Vgi.Introspect
