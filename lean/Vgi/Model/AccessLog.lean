import Vgi.Util
/-!
Model of the access-log record assembly of `vgirpc`:

* `accesslog.go` — `(*AccessLogHook).OnDispatchEnd` (the record map), `RandomStreamID`,
  `authPrincipal/authDomain/authAuthenticated/authClaims`;
* `accesslog_egress.go` — `egressRecorder.flush` (stamps `response_bytes`);
* `accesslog_redact.go` — `RedactClaims` (key-based, case-insensitive pattern),
  `applyClaimRedaction` (fail closed);
* `accesslog_trace.go` — `currentTraceContext`, `isLowerHex`;
* `http_stream.go` — how the stream id travels: minted at init, sealed in the call token,
  read back on every continuation.

Strings are byte lists. The record is a list of (key, value); `timestamp` and `duration_ms`
carry no value here (clock) — only their presence and type are modelled. Values the model cannot
know are inputs: the 16 random bytes of a freshly minted stream id, the trace provider's answer,
a custom redactor's answer, and the byte counts the recorder saw on the wire.
-/
namespace Vgi.AccessLog

/-! ### JSON values of a record -/

/-- A claim value: strings, integers, booleans, or anything else (nested object, array, null,
float), carried through verbatim and identified by a tag. -/
inductive CV
  | str (b : Bytes) | int (n : Int) | bool (b : Bool) | opaque (tag : Nat)
  deriving Repr, DecidableEq

inductive JV
  | str (b : Bytes)
  | int (n : Int)
  | bool (b : Bool)
  | num                                   -- a JSON number whose value is clock-dependent
  | ts                                    -- the timestamp string
  | claims (kvs : List (Bytes × CV))
  deriving Repr, DecidableEq

abbrev Record := List (String × JV)

def get? (r : Record) (k : String) : Option JV := (r.find? (·.1 = k)).map (·.2)
def has (r : Record) (k : String) : Bool := (get? r k).isSome

/-! ### lower-case hex (`hex.EncodeToString`, `isLowerHex`) -/

def hexDigitB (n : Nat) : UInt8 := if n < 10 then UInt8.ofNat (48 + n) else UInt8.ofNat (87 + n)

def encodeHex : Bytes → Bytes
  | [] => []
  | b :: r => hexDigitB (b.toNat / 16) :: hexDigitB (b.toNat % 16) :: encodeHex r

def isLowerHexByte (c : UInt8) : Bool := (48 ≤ c.toNat && c.toNat ≤ 57) || (97 ≤ c.toNat && c.toNat ≤ 102)

/-- `isLowerHex(s, n)`. -/
def isLowerHex (s : Bytes) (n : Nat) : Bool := s.length = n && s.all isLowerHexByte

/-! ### base64.StdEncoding -/

def b64Char (n : Nat) : UInt8 :=
  if n < 26 then UInt8.ofNat (65 + n)
  else if n < 52 then UInt8.ofNat (71 + n)
  else if n < 62 then UInt8.ofNat (n - 4)
  else if n = 62 then 43 else 47

def b64Pad : UInt8 := 61

def base64 : Bytes → Bytes
  | [] => []
  | [a] =>
    let n := a.toNat * 65536
    [b64Char (n / 262144 % 64), b64Char (n / 4096 % 64), b64Pad, b64Pad]
  | [a, b] =>
    let n := a.toNat * 65536 + b.toNat * 256
    [b64Char (n / 262144 % 64), b64Char (n / 4096 % 64), b64Char (n / 64 % 64), b64Pad]
  | a :: b :: c :: r =>
    let n := a.toNat * 65536 + b.toNat * 256 + c.toNat
    b64Char (n / 262144 % 64) :: b64Char (n / 4096 % 64) :: b64Char (n / 64 % 64) ::
      b64Char (n % 64) :: base64 r

/-! ### Claim redaction (`RedactClaims`) -/

def redactedClaim : Bytes := [91, 114, 101, 100, 97, 99, 116, 101, 100, 93]   -- "[redacted]"

def asciiLower (c : UInt8) : UInt8 := if 65 ≤ c.toNat ∧ c.toNat ≤ 90 then c + 32 else c

/-- One pattern letter against the text under Go's `(?i)` (Unicode simple case folding): the
ASCII letter in either case, and for `k` / `s` also KELVIN SIGN (E2 84 AA) / LONG S (C5 BF). -/
def stepFold (p : UInt8) (s : Bytes) : Option Bytes :=
  match s with
  | [] => none
  | c :: r =>
    if asciiLower c = p then some r
    else if p = 107 then                       -- 'k'
      match s with
      | 0xE2 :: 0x84 :: 0xAA :: r3 => some r3
      | _ => none
    else if p = 115 then                       -- 's'
      match s with
      | 0xC5 :: 0xBF :: r2 => some r2
      | _ => none
    else none

/-- The word (lower-case ASCII pattern literal) matches a prefix of the text; returns the rest. -/
def matchWord : Bytes → Bytes → Option Bytes
  | [], s => some s
  | p :: ps, s =>
    match stepFold p s with
    | some s' => matchWord ps s'
    | none => none

/-- Unanchored alternative: the word occurs somewhere in the text. -/
def containsWord (w : Bytes) : Bytes → Bool
  | [] => (matchWord w []).isSome
  | c :: r => (matchWord w (c :: r)).isSome || containsWord w r

/-- `^word$`: the whole text is the word. -/
def equalsWord (w s : Bytes) : Bool := matchWord w s = some []

structure Pattern where
  words : List Bytes         -- unanchored alternatives
  anchored : List Bytes      -- `^…$` alternatives
  deriving Repr

/-- `defaultClaimRedactPattern.MatchString(k)`. -/
def sensitiveKey (p : Pattern) (k : Bytes) : Bool :=
  p.words.any (fun w => containsWord w k) || p.anchored.any (fun w => equalsWord w k)

/-- `RedactClaims`. -/
def redactClaims (p : Pattern) (claims : List (Bytes × CV)) : List (Bytes × CV) :=
  claims.map fun kv => if sensitiveKey p kv.1 then (kv.1, CV.str redactedClaim) else kv

/-- The installed claim policy. A custom policy is user code: its answer is an input. -/
inductive Redactor
  | default
  | custom (out : List (Bytes × CV))    -- what the policy returned (nil map = [])
  | panics
  deriving Repr

/-- `applyClaimRedaction`: `none`/empty ⇒ no `claims` field. -/
def applyClaimRedaction (p : Pattern) (r : Redactor) (claims : List (Bytes × CV)) : List (Bytes × CV) :=
  match r with
  | .default => redactClaims p claims
  | .custom out => out
  | .panics => []

/-! ### Trace correlation (`currentTraceContext`) -/

inductive TraceProv
  | notInstalled
  | panics
  | answers (traceId spanId : Bytes)
  deriving Repr

def currentTraceContext : TraceProv → Option (Bytes × Bytes)
  | .notInstalled => none
  | .panics => none
  | .answers t s => if isLowerHex t 32 && isLowerHex s 16 then some (t, s) else none

/-! ### Inputs of `OnDispatchEnd` -/

structure Auth where
  principal : Bytes
  domain : Bytes
  authenticated : Bool
  claims : List (Bytes × CV)
  deriving Repr

inductive Err
  | none
  | rpc (type msg : Bytes)       -- *RpcError
  | plain (msg : Bytes)          -- any other error
  deriving Repr

structure Stats where
  inputBatches : Int
  outputBatches : Int
  inputRows : Int
  outputRows : Int
  inputBytes : Int
  outputBytes : Int
  deriving Repr

/-- The request's `egressRecorder` (HTTP only). -/
structure Egress where
  requestId : Bytes
  requestBytes : Int
  externalized : Int
  responseBytes : Int            -- `rec.responseBytes` when `flush` runs
  deriving Repr

structure Info where
  protocol : Bytes
  method : Bytes
  methodType : Bytes
  serverId : Bytes
  protocolHash : Bytes
  requestId : Bytes
  auth : Option Auth
  remoteAddr : Bytes
  httpStatus : Int
  requestData : Bytes
  streamId : Bytes
  cancelled : Bool
  deriving Repr

structure Cfg where
  serverVersion : Bytes
  debug : Bool
  deriving Repr

def sOk : Bytes := [111, 107]                                   -- "ok"
def sError : Bytes := [101, 114, 114, 111, 114]                 -- "error"
def sErrorCap : Bytes := [69, 114, 114, 111, 114]               -- "Error"
def sInfo : Bytes := [73, 78, 70, 79]                           -- "INFO"
def sLogger : Bytes := [118, 103, 105, 95, 114, 112, 99, 46, 97, 99, 99, 101, 115, 115]  -- "vgi_rpc.access"
def sStream : Bytes := [115, 116, 114, 101, 97, 109]            -- DispatchMethodStream = "stream"
def sUnary : Bytes := [117, 110, 97, 114, 121]                  -- DispatchMethodUnary = "unary"
def sPayloadOmitted : Bytes :=
  [112, 97, 121, 108, 111, 97, 100, 95, 111, 109, 105, 116, 116, 101, 100]   -- "payload_omitted"

/-- `RandomStreamID()` for the 16 bytes `crypto/rand` returned. -/
def randomStreamId (rnd : Bytes) : Bytes := encodeHex rnd

def ifSome (c : Bool) (v : JV) : Option JV := if c then some v else none

def Err.failed : Err → Bool | .none => false | _ => true
def Err.typ : Err → Bytes | .none => [] | .rpc t _ => t | .plain _ => sErrorCap
def Err.msg : Err → Bytes | .none => [] | .rpc _ m => m | .plain m => m
def Err.status (e : Err) : Bytes := if e.failed then sError else sOk

def authPrincipal : Option Auth → Bytes | some a => a.principal | none => []
def authDomain : Option Auth → Bytes | some a => a.domain | none => []
def authAuthenticated : Option Auth → Bool | some a => a.authenticated | none => false
def authClaims : Option Auth → List (Bytes × CV) | some a => a.claims | none => []

def egressRequestId : Option Egress → Bytes | some e => e.requestId | none => []

/-- `request_id`: the batch's own id wins, the transport's id is the fallback. -/
def requestIdOf (info : Info) (eg : Option Egress) : Bytes :=
  if info.requestId ≠ [] then info.requestId else egressRequestId eg

def streamIdOf (info : Info) (mint : Bytes) : Bytes :=
  if info.streamId = [] then randomStreamId mint else info.streamId

def redactedOf (pat : Pattern) (red : Redactor) (a : Option Auth) : List (Bytes × CV) :=
  if (authClaims a).length > 0 then applyClaimRedaction pat red (authClaims a) else []

def statsOn : Option Stats → Bool
  | some s => decide (s.inputBatches + s.outputBatches + s.inputRows + s.outputRows + s.inputBytes + s.outputBytes ≠ 0)
  | none => false

def statField (stats : Option Stats) (f : Stats → Int) : Option JV :=
  match stats with
  | some s => ifSome (statsOn stats) (.int (f s))
  | none => none

/-- Every key the emitter can write, with the value it gets for this call (`none` = the key is
not written). `mint` = the 16 random bytes used if a stream id has to be minted; over HTTP
`response_bytes` is stamped by `egressRecorder.flush` before the record is emitted. -/
def entries (pat : Pattern) (cfg : Cfg) (info : Info) (stats : Option Stats) (err : Err)
    (eg : Option Egress) (tp : TraceProv) (red : Redactor) (mint : Bytes) :
    List (String × Option JV) :=
  [("timestamp", some .ts), ("level", some (.str sInfo)), ("logger", some (.str sLogger)),
   ("message", some (.str (info.protocol ++ [46] ++ info.method ++ [32] ++ err.status))),
   ("server_id", some (.str info.serverId)), ("protocol", some (.str info.protocol)),
   ("protocol_hash", some (.str info.protocolHash)), ("method", some (.str info.method)),
   ("method_type", some (.str info.methodType)), ("principal", some (.str (authPrincipal info.auth))),
   ("auth_domain", some (.str (authDomain info.auth))),
   ("authenticated", some (.bool (authAuthenticated info.auth))),
   ("remote_addr", some (.str info.remoteAddr)), ("duration_ms", some .num),
   ("status", some (.str err.status)), ("error_type", some (.str err.typ)),
   ("error_message", ifSome (err.msg ≠ []) (.str err.msg)),
   ("server_version", ifSome (cfg.serverVersion ≠ []) (.str cfg.serverVersion)),
   ("request_id", ifSome (requestIdOf info eg ≠ []) (.str (requestIdOf info eg))),
   ("trace_id", (currentTraceContext tp).map (fun p => .str p.1)),
   ("span_id", (currentTraceContext tp).map (fun p => .str p.2)),
   ("http_status", ifSome (info.httpStatus > 0) (.int info.httpStatus)),
   ("request_data", ifSome (decide (info.requestData.length > 0) && cfg.debug) (.str (base64 info.requestData))),
   ("original_request_bytes",
      ifSome (decide (info.requestData.length > 0) && !cfg.debug) (.int (base64 info.requestData).length)),
   ("truncated", ifSome (decide (info.requestData.length > 0) && !cfg.debug) (.str sPayloadOmitted)),
   ("stream_id", ifSome (info.methodType = sStream) (.str (streamIdOf info mint))),
   ("cancelled", ifSome info.cancelled (.bool true)),
   ("claims", ifSome ((redactedOf pat red info.auth).length > 0) (.claims (redactedOf pat red info.auth))),
   ("request_bytes", eg.map (fun e => .int e.requestBytes)),
   ("externalized_bytes", eg.bind (fun e => ifSome (e.externalized > 0) (.int e.externalized))),
   ("response_bytes", eg.map (fun e => .int e.responseBytes)),
   ("input_batches", statField stats (·.inputBatches)), ("output_batches", statField stats (·.outputBatches)),
   ("input_rows", statField stats (·.inputRows)), ("output_rows", statField stats (·.outputRows)),
   ("input_bytes", statField stats (·.inputBytes)), ("output_bytes", statField stats (·.outputBytes))]

def compact (es : List (String × Option JV)) : Record :=
  es.filterMap fun e => e.2.map fun v => (e.1, v)

/-- The record that is written for the call. -/
def written (pat : Pattern) (cfg : Cfg) (info : Info) (stats : Option Stats) (err : Err)
    (eg : Option Egress) (tp : TraceProv) (red : Redactor) (mint : Bytes) : Record :=
  compact (entries pat cfg info stats err eg tp red mint)

/-! ### Stream id across an HTTP stream -/

/-- `/init` mints the id and seals it in the call token (`packCallToken(…, streamID)`). -/
def initStreamId (rnd : Bytes) : Bytes := randomStreamId rnd
/-- A continuation reads `call.StreamID`; an empty one (token from before the field existed) is
replaced by a fresh id. -/
def contStreamId (sealed rnd : Bytes) : Bytes := if sealed = [] then randomStreamId rnd else sealed

end Vgi.AccessLog
