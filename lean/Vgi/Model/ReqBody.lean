import Vgi.Model.Compress
/-!
# Model of request-body reading and decoding (`vgirpc/http_helpers.go:readHTTPBody`,
`writeBodyReadError`, the `max_request_bytes` fast path of `HttpServer.ServeHTTP`,
`vgirpc/http_compression.go:decompressBounded` and `DecodeContentEncoding`)

The zstd / gzip codecs are **not** modelled. What the codec library does with a given compressed
byte string is abstracted by `Facts` (declared content size of the first frame, the frames with
their effective window and decoded length, whether the stream ends cleanly); the harness measures
these facts with the library itself and passes them to the model. Everything the Go code decides
on top of the library — cap derivation, `LimitReader(cap+1)`, comparison directions, error
classes, HTTP status, order of a coding stack — is modelled branch for branch.
-/
namespace Vgi.ReqBody
open Vgi Vgi.Compress

/-- The three size knobs of `HttpServer` (`int64`; ≤ 0 means "not set"). -/
structure Cfg where
  maxBody : Int   -- maxBodySize
  maxReq : Int    -- maxRequestBytes (advertised as VGI-Max-Request-Bytes)
  maxDec : Int    -- maxDecompressedBodySize (0 = derive ×16, < 0 = no cap)
  deriving DecidableEq, Repr

/-- One zstd frame / gzip member as the decoder sees it: effective window (zstd: declared
`Window_Size`, or `max(Frame_Content_Size, 1 KiB)` for single-segment frames; gzip: 0) and the
number of bytes it decodes to. -/
structure Frame where
  window : Nat
  len : Nat
  deriving DecidableEq, Repr

/-- What the codec library does with the compressed bytes. -/
structure Facts where
  /-- `zstd.Header.Decode(data)` succeeds and `HasFCS`: the declared content size. -/
  fcs : Option Nat
  /-- the reader constructor fails (`gzip.NewReader` on a bad header) -/
  initErr : Bool
  frames : List Frame
  /-- the stream ends with a decode error (truncated / corrupt) after the listed frames -/
  tailErr : Bool
  /-- the library hands that terminal error over in the same `Read` as the last decoded bytes
  (measured: `io.ReadAll(io.LimitReader(r, avail))` already fails) -/
  errWithData : Bool
  deriving DecidableEq, Repr

/-- klauspost/compress `MaxWindowSize` default: 512 MiB. -/
def zstdDefaultMaxWindow : Nat := 536870912

/-- Window limit of a zstd reader built with `WithDecoderMaxMemory(maxOutput)` when
`maxOutput > 0` (the library lowers its window limit to the memory limit). -/
def windowLimit (maxOutput : Int) : Nat :=
  if maxOutput > 0 then min maxOutput.toNat zstdDefaultMaxWindow else zstdDefaultMaxWindow

/-- How a stream stops. -/
inductive Stop | clean | window | tail
  deriving DecidableEq, Repr

/-- Bytes the stream delivers before it stops, and how it stops: a frame whose window exceeds the
limit fails before delivering any of its bytes. -/
def streamAvail (wlim : Nat) (tailErr : Bool) : List Frame → Nat × Stop
  | [] => (0, if tailErr then .tail else .clean)
  | f :: rest =>
    if f.window > wlim then (0, .window)
    else let r := streamAvail wlim tailErr rest; (f.len + r.1, r.2)

/-- `header.HasFCS && header.FrameContentSize > uint64(maxOutput)` -/
def fcsOver (fcs : Option Nat) (maxOutput : Int) : Bool :=
  match fcs with
  | some f => decide ((f : Int) > maxOutput)
  | none => false

/-- Result of `decompressBounded`. -/
inductive DOut
  | ok (len : Nat)
  | tooLarge (limit : Int)      -- *requestBodyTooLargeError{Limit}
  | decodeErr                   -- fmt.Errorf("… decompression …")
  | unsupported                 -- *unsupportedEncodingError
  deriving DecidableEq, Repr

inductive Codec | zstd | gzip
  deriving DecidableEq, Repr

/-- `decompressBounded(encoding, data, maxOutput)`: result and the number of decoded bytes pulled
out of the decoder (`io.ReadAll(io.LimitReader(reader, maxOutput+1))`). -/
def decompressBounded (codec : Option Codec) (facts : Facts) (maxOutput : Int) : DOut × Nat :=
  match codec with
  | none => (.unsupported, 0)
  | some c =>
    -- zstd: declared frame content size is checked before anything is decoded
    if c = .zstd ∧ maxOutput > 0 ∧ fcsOver facts.fcs maxOutput = true then
      (.tooLarge maxOutput, 0)
    else if facts.initErr then (.decodeErr, 0)
    else
      let wlim := if c = .zstd then windowLimit maxOutput else zstdDefaultMaxWindow
      let frames := if c = .zstd then facts.frames else facts.frames.map (fun f => { f with window := 0 })
      let (avail, stop) := streamAvail wlim facts.tailErr frames
      if maxOutput > 0 then
        let pulled := min avail (maxOutput.toNat + 1)
        -- io.ReadAll(io.LimitReader(reader, maxOutput+1)): the reader's error is seen only if it
        -- arrives before, or together with, byte number maxOutput+1
        if avail ≥ maxOutput.toNat + 2 then (.tooLarge maxOutput, pulled)
        else if avail = maxOutput.toNat + 1 then
          (if stop = .tail ∧ facts.errWithData then .decodeErr else .tooLarge maxOutput, pulled)
        else if stop ≠ .clean then (.decodeErr, pulled)
        else (.ok avail, pulled)
      else if stop ≠ .clean then (.decodeErr, avail) else (.ok avail, avail)

/-! ## readHTTPBody -/

/-- "/health" -/
def pHealth : Bytes := [0x2F, 0x68, 0x65, 0x61, 0x6C, 0x74, 0x68]
def cSlash : UInt8 := 0x2F

def hasPrefix : Bytes → Bytes → Bool
  | _, [] => true
  | [], _ :: _ => false
  | a :: as, b :: bs => a == b && hasPrefix as bs

/-- `isMaxBytesExempt(path)`. -/
def isExempt (pfx path : Bytes) : Bool :=
  let one (base : Bytes) : Bool := path == base || hasPrefix path (base ++ [cSlash])
  one (pfx ++ pHealth) || one pHealth

/-- Outcome of `readHTTPBody` as `writeBodyReadError` classifies it. -/
inductive ROut
  | body (len : Nat)
  | tooLarge (limit : Int)     -- requestBodyTooLargeError → 413
  | valueErr                   -- RpcError ValueError → 400
  | decodeErr                  -- decompression error → 400
  | unsupported                -- → 415
  deriving DecidableEq, Repr

/-- `strings.ToLower(strings.TrimSpace(header))` classified: `none` = unknown coding. -/
inductive Enc | identity | codec (c : Codec) | unknown
  deriving DecidableEq, Repr

def tEmpty : Bytes := []

def classify (hdr : Bytes) : Enc :=
  let e := lowerTok (trimSpace hdr)
  if e = [] ∨ e = tIdentity then .identity
  else if e = tZstd then .codec .zstd
  else if e = tGzip then .codec .gzip
  else .unknown

/-- The raw-size limit and whether it is the advertised request cap. -/
def rawLimit (cfg : Cfg) (exempt : Bool) : Int × Bool :=
  if cfg.maxReq > 0 ∧ exempt = false ∧ (cfg.maxBody ≤ 0 ∨ cfg.maxReq ≤ cfg.maxBody) then (cfg.maxReq, true)
  else (cfg.maxBody, false)

/-- The decompressed-size cap handed to `decompressBounded`. -/
def decCap (cfg : Cfg) (exempt : Bool) : Int :=
  let (limit, applied) := rawLimit cfg exempt
  if applied ∧ (cfg.maxDec ≤ 0 ∨ limit < cfg.maxDec) then limit
  else if cfg.maxDec = 0 ∧ limit > 0 then limit * 16
  else cfg.maxDec

/-- `readHTTPBody`: outcome, raw bytes pulled from the request body, decoded bytes pulled. -/
def readBody (cfg : Cfg) (exempt : Bool) (rawLen : Nat) (hdr : Bytes) (facts : Facts) : ROut × Nat × Nat :=
  let limit := (rawLimit cfg exempt).1
  let applied := (rawLimit cfg exempt).2
  let pulledRaw := if limit > 0 then min rawLen (limit.toNat + 1) else rawLen
  if limit > 0 ∧ (pulledRaw : Int) > limit then
    (if applied then .tooLarge limit else .valueErr, pulledRaw, 0)
  else
    match classify hdr with
    | .identity => (.body rawLen, pulledRaw, 0)
    | .unknown => (.unsupported, pulledRaw, 0)
    | .codec c =>
      let cap := decCap cfg exempt
      let d := (decompressBounded (some c) facts cap).1
      let pulled := (decompressBounded (some c) facts cap).2
      let out := match d with
        | .ok n => ROut.body n
        | .tooLarge l =>
          -- only the advertised request cap answers 413; any other decoded-size cap is a 400
          if applied ∧ cap = limit then .tooLarge l else .valueErr
        | .decodeErr => .decodeErr
        | .unsupported => .unsupported
      (out, pulledRaw, pulled)

/-- `writeBodyReadError`. -/
def status : ROut → Nat
  | .body _ => 200
  | .tooLarge _ => 413
  | .unsupported => 415
  | .valueErr => 400
  | .decodeErr => 400

/-- The request as `ServeHTTP` + a body-reading handler treat it: the `Content-Length` fast path
(413 before the body is touched; `cl = -1` for chunked), then `readHTTPBody`. -/
def serve (cfg : Cfg) (exempt : Bool) (cl : Int) (rawLen : Nat) (hdr : Bytes) (facts : Facts) : ROut × Nat × Nat :=
  if cfg.maxReq > 0 ∧ cl > cfg.maxReq ∧ exempt = false then (.tooLarge cfg.maxReq, 0, 0)
  else readBody cfg exempt rawLen hdr facts

/-! ## DecodeContentEncoding (intermediary) -/

/-- One coding name of the comma list: `strings.ToLower(strings.TrimSpace(name))`. -/
def codingOf (raw : Bytes) : Option Codec :=
  let e := lowerTok (trimSpace raw)
  if e = tZstd then some .zstd else if e = tGzip then some .gzip else none

/-- The loop `for i := len(codings)-1; i >= 0; i--` over the already reversed list: every
recognised coding consumes the facts of the current data (its outermost layer). Returns the
result and the per-layer outputs. -/
def decodeLoop (maxOut : Int) : List Bytes → List Facts → Nat → DOut
  | [], _, cur => .ok cur
  | raw :: rest, layers, cur =>
    match codingOf raw with
    | none => decodeLoop maxOut rest layers cur
    | some c =>
      match layers with
      | [] => .decodeErr   -- (harness always supplies one layer per recognised coding)
      | f :: more =>
        match (decompressBounded (some c) f maxOut).1 with
        | .ok n => decodeLoop maxOut rest more n
        | e => e

/-- `DecodeContentEncoding(data, contentEncoding, maxOutputSize)` on lengths. -/
def decodeContentEncoding (dataLen : Nat) (hdr : Bytes) (maxOut : Int) (layers : List Facts) : DOut :=
  if hdr = [] then .ok dataLen
  else decodeLoop maxOut (splitOn cComma hdr).reverse layers dataLen

end Vgi.ReqBody
