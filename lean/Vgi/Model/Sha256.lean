import Vgi.Util
/-!
SHA-256 (FIPS 180-4) over byte lists, written on `Nat` with explicit reduction modulo 2^32 so
that both the compiled driver and the kernel (GMP-accelerated `Nat` operations) evaluate it.
Used by the C09 model to recompute the protocol hash from the describe payload; the FIPS test
vectors are checked in `Vgi.Props.C09`.
-/
namespace Vgi.Sha256

def two32 : Nat := 4294967296

def add32 (a b : Nat) : Nat := (a + b) % two32
def not32 (x : Nat) : Nat := two32 - 1 - x % two32
def rotr (x n : Nat) : Nat := ((x >>> n) ||| (x <<< (32 - n))) % two32

def ch (x y z : Nat) : Nat := (x &&& y) ^^^ (not32 x &&& z)
def maj (x y z : Nat) : Nat := (x &&& y) ^^^ (x &&& z) ^^^ (y &&& z)
def bsig0 (x : Nat) : Nat := rotr x 2 ^^^ rotr x 13 ^^^ rotr x 22
def bsig1 (x : Nat) : Nat := rotr x 6 ^^^ rotr x 11 ^^^ rotr x 25
def ssig0 (x : Nat) : Nat := rotr x 7 ^^^ rotr x 18 ^^^ (x >>> 3)
def ssig1 (x : Nat) : Nat := rotr x 17 ^^^ rotr x 19 ^^^ (x >>> 10)

def K : List Nat := [
  0x428a2f98, 0x71374491, 0xb5c0fbcf, 0xe9b5dba5, 0x3956c25b, 0x59f111f1, 0x923f82a4, 0xab1c5ed5,
  0xd807aa98, 0x12835b01, 0x243185be, 0x550c7dc3, 0x72be5d74, 0x80deb1fe, 0x9bdc06a7, 0xc19bf174,
  0xe49b69c1, 0xefbe4786, 0x0fc19dc6, 0x240ca1cc, 0x2de92c6f, 0x4a7484aa, 0x5cb0a9dc, 0x76f988da,
  0x983e5152, 0xa831c66d, 0xb00327c8, 0xbf597fc7, 0xc6e00bf3, 0xd5a79147, 0x06ca6351, 0x14292967,
  0x27b70a85, 0x2e1b2138, 0x4d2c6dfc, 0x53380d13, 0x650a7354, 0x766a0abb, 0x81c2c92e, 0x92722c85,
  0xa2bfe8a1, 0xa81a664b, 0xc24b8b70, 0xc76c51a3, 0xd192e819, 0xd6990624, 0xf40e3585, 0x106aa070,
  0x19a4c116, 0x1e376c08, 0x2748774c, 0x34b0bcb5, 0x391c0cb3, 0x4ed8aa4a, 0x5b9cca4f, 0x682e6ff3,
  0x748f82ee, 0x78a5636f, 0x84c87814, 0x8cc70208, 0x90befffa, 0xa4506ceb, 0xbef9a3f7, 0xc67178f2]

structure State where
  a : Nat
  b : Nat
  c : Nat
  d : Nat
  e : Nat
  f : Nat
  g : Nat
  h : Nat
  deriving Repr, DecidableEq

def init : State :=
  ⟨0x6a09e667, 0xbb67ae85, 0x3c6ef372, 0xa54ff53a, 0x510e527f, 0x9b05688c, 0x1f83d9ab, 0x5be0cd19⟩

/-- Big-endian 32-bit words of a block (any trailing partial word is dropped; blocks are 64 bytes). -/
def words : Bytes → List Nat
  | a :: b :: c :: d :: rest =>
    (a.toNat * 16777216 + b.toNat * 65536 + c.toNat * 256 + d.toNat) :: words rest
  | _ => []

/-- One compression round with schedule word `w` and constant `k`. -/
def round (s : State) (k w : Nat) : State :=
  let t1 := add32 (add32 (add32 (add32 s.h (bsig1 s.e)) (ch s.e s.f s.g)) k) w
  let t2 := add32 (bsig0 s.a) (maj s.a s.b s.c)
  ⟨add32 t1 t2, s.a, s.b, s.c, add32 s.d t1, s.e, s.f, s.g⟩

/-- Next schedule word from the sliding window of the previous 16 words. -/
def nextW (win : List Nat) : Nat :=
  add32 (add32 (add32 (ssig1 (win.getD 14 0)) (win.getD 9 0)) (ssig0 (win.getD 1 0))) (win.getD 0 0)

/-- Run the rounds for the remaining constants; `win` holds the 16 most recent schedule words,
its head being the word for the current round. -/
def rounds : List Nat → List Nat → State → State
  | [], _, s => s
  | k :: ks, win, s =>
    let w := win.getD 0 0
    rounds ks (win.drop 1 ++ [nextW win]) (round s k w)

def compress (s : State) (block : Bytes) : State :=
  let r := rounds K (words block) s
  ⟨add32 s.a r.a, add32 s.b r.b, add32 s.c r.c, add32 s.d r.d,
   add32 s.e r.e, add32 s.f r.f, add32 s.g r.g, add32 s.h r.h⟩

def be : Nat → Nat → Bytes
  | 0, _ => []
  | n + 1, v => UInt8.ofNat ((v >>> (8 * n)) % 256) :: be n v

/-- `msg ++ 0x80 ++ 0…0 ++ bitlen64`, a multiple of 64 bytes. -/
def pad (msg : Bytes) : Bytes :=
  let l := msg.length
  let z := (119 - l % 64) % 64
  msg ++ [0x80] ++ List.replicate z 0 ++ be 8 (8 * l)

/-- Fold the 64-byte blocks (fuel = number of blocks). -/
def blocks : Nat → Bytes → State → State
  | 0, _, s => s
  | n + 1, bs, s => blocks n (bs.drop 64) (compress s (bs.take 64))

def digest (msg : Bytes) : Bytes :=
  let p := pad msg
  let s := blocks (p.length / 64) p init
  be 4 s.a ++ be 4 s.b ++ be 4 s.c ++ be 4 s.d ++ be 4 s.e ++ be 4 s.f ++ be 4 s.g ++ be 4 s.h

/-- Lower-case hex of the digest (Go: `hex.EncodeToString(h.Sum(nil))`). -/
def hexDigest (msg : Bytes) : String := hexOfBytes (digest msg)

end Vgi.Sha256
