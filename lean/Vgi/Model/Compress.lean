import Vgi.Util
/-!
# Model of response-compression negotiation (`vgirpc/http_compression.go`, `vgirpc/http.go`)

Everything works on **bytes** (`List UInt8`), exactly as the Go code works on Go strings:

* `splitOn`            — `strings.Split(header, ",")`
* `decodeRune` / `decodeLastRuneRev` — `utf8.DecodeRuneInString` / `utf8.DecodeLastRuneInString`
* `isSpaceRune`        — `unicode.IsSpace` (25 code points)
* `trimSpace`          — `strings.TrimSpace` (= `TrimRightFunc (TrimLeftFunc s IsSpace) IsSpace`)
* `lowerTok`           — `strings.ToLower`, exact on every rune whose lower case is ASCII (ASCII
                         letters, U+0130 → `i`, U+212A → `k`); every other rune is kept as its
                         own bytes (it can never become part of a codec name, which is pure ASCII)
* `normTok`, `parseLoop`, `parseAccept` — `parseAcceptEncoding`
* `choose`, `walk`     — `chooseResponseEncoding`
* `Srv`, `applyLevel`, `setLevel`, `producible` — `HttpServer.{applyCompressionLevel,
                         SetCompressionLevel, producibleResponseEncodings}`
* `negotiate`, `respond` — the compression block of `HttpServer.ServeHTTP` +
                         `compressResponseWriter.finish`
-/
namespace Vgi.Compress
open Vgi

/-! ## byte constants -/
def cComma : UInt8 := 0x2C
def cSemi : UInt8 := 0x3B
def cSpace : UInt8 := 0x20

/-- "zstd" -/
def tZstd : Bytes := [0x7A, 0x73, 0x74, 0x64]
/-- "gzip" -/
def tGzip : Bytes := [0x67, 0x7A, 0x69, 0x70]
/-- "identity" -/
def tIdentity : Bytes := [0x69, 0x64, 0x65, 0x6E, 0x74, 0x69, 0x74, 0x79]
/-- "application/vnd.apache.arrow.stream" -/
def arrowCT : Bytes :=
  [0x61,0x70,0x70,0x6C,0x69,0x63,0x61,0x74,0x69,0x6F,0x6E,0x2F,0x76,0x6E,0x64,0x2E,0x61,0x70,
   0x61,0x63,0x68,0x65,0x2E,0x61,0x72,0x72,0x6F,0x77,0x2E,0x73,0x74,0x72,0x65,0x61,0x6D]

/-! ## strings.Split -/

/-- `strings.Split(s, sep)` for a one-byte separator: always at least one segment. -/
def splitOn (sep : UInt8) : Bytes → List Bytes
  | [] => [[]]
  | b :: rest =>
    if b = sep then [] :: splitOn sep rest
    else match splitOn sep rest with
      | s :: ss => (b :: s) :: ss
      | [] => [[b]]

/-! ## UTF-8 decoding as Go does it -/

def runeError : Nat := 0xFFFD

/-- `unicode.IsSpace`. -/
def isSpaceRune (r : Nat) : Bool :=
  r == 0x09 || r == 0x0A || r == 0x0B || r == 0x0C || r == 0x0D || r == 0x20 ||
  r == 0x85 || r == 0xA0 || r == 0x1680 || (0x2000 ≤ r && r ≤ 0x200A) ||
  r == 0x2028 || r == 0x2029 || r == 0x202F || r == 0x205F || r == 0x3000

/-- `utf8.DecodeRune`: (rune, width). Invalid or short encodings give `(RuneError, 1)`. -/
def decodeRune (p : Bytes) : Nat × Nat :=
  match p with
  | [] => (runeError, 0)
  | b0 :: rest =>
    let p0 := b0.toNat
    if p0 < 0x80 then (p0, 1)
    else if p0 < 0xC2 ∨ 0xF4 < p0 then (runeError, 1)
    else
      let sz : Nat := if p0 < 0xE0 then 2 else if p0 < 0xF0 then 3 else 4
      let lo : Nat := if p0 = 0xE0 then 0xA0 else if p0 = 0xF0 then 0x90 else 0x80
      let hi : Nat := if p0 = 0xED then 0x9F else if p0 = 0xF4 then 0x8F else 0xBF
      match rest with
      | [] => (runeError, 1)
      | b1 :: r1 =>
        let c1 := b1.toNat
        if c1 < lo ∨ hi < c1 then (runeError, 1)
        else if sz = 2 then ((p0 % 32) * 64 + c1 % 64, 2)
        else match r1 with
          | [] => (runeError, 1)
          | b2 :: r2 =>
            let c2 := b2.toNat
            if c2 < 0x80 ∨ 0xBF < c2 then (runeError, 1)
            else if sz = 3 then ((p0 % 16) * 4096 + (c1 % 64) * 64 + c2 % 64, 3)
            else match r2 with
              | [] => (runeError, 1)
              | b3 :: _ =>
                let c3 := b3.toNat
                if c3 < 0x80 ∨ 0xBF < c3 then (runeError, 1)
                else ((p0 % 8) * 262144 + (c1 % 64) * 4096 + (c2 % 64) * 64 + c3 % 64, 4)

/-- `utf8.RuneStart`. -/
def runeStart (b : UInt8) : Bool := b.toNat / 64 != 2

/-- `utf8.DecodeLastRune` on the REVERSED string `rp` (head = last byte). Go walks back at most
`UTFMax-1` bytes looking for a rune-start byte, decodes forward from there and accepts the rune
only if it ends exactly at the end of the string. `cand` is `end - start` of the Go code. -/
def decodeLastRuneRev (rp : Bytes) : Nat × Nat :=
  match rp with
  | [] => (runeError, 0)
  | l :: revRest =>
    if l.toNat < 0x80 then (l.toNat, 1) else
    let cand : Nat :=
      match revRest with
      | [] => 1
      | a :: more =>
        if runeStart a then 2 else
        match more with
        | [] => 2
        | b :: more2 =>
          if runeStart b then 3 else
          match more2 with
          | [] => 3
          | c :: more3 => if runeStart c then 4 else if more3.isEmpty then 4 else 5
    let (r, size) := decodeRune (rp.take cand).reverse
    if size = cand then (r, size) else (runeError, 1)

/-- `strings.TrimLeftFunc(s, unicode.IsSpace)`; `fuel` ≥ length. -/
def trimLeftAux : Nat → Bytes → Bytes
  | 0, p => p
  | fuel + 1, p =>
    match p with
    | [] => []
    | _ :: _ =>
      let (r, size) := decodeRune p
      if isSpaceRune r then trimLeftAux fuel (p.drop size) else p

/-- `strings.TrimRightFunc(s, unicode.IsSpace)` on the reversed string. -/
def trimRightRevAux : Nat → Bytes → Bytes
  | 0, rp => rp
  | fuel + 1, rp =>
    match rp with
    | [] => []
    | _ :: _ =>
      let (r, size) := decodeLastRuneRev rp
      if isSpaceRune r then trimRightRevAux fuel (rp.drop size) else rp

def trimLeft (p : Bytes) : Bytes := trimLeftAux p.length p
def trimRight (p : Bytes) : Bytes := (trimRightRevAux p.length p.reverse).reverse

/-- `strings.TrimSpace`. -/
def trimSpace (p : Bytes) : Bytes := trimRight (trimLeft p)

/-- ASCII lower-casing of one byte. -/
def asciiLower (b : UInt8) : UInt8 :=
  if 0x41 ≤ b.toNat ∧ b.toNat ≤ 0x5A then UInt8.ofNat (b.toNat + 32) else b

/-- `strings.ToLower`, exact wherever the result can contain an ASCII byte that the input did
not: ASCII letters, U+0130 (→ `i`) and U+212A (→ `k`). Other runes (and invalid bytes) are kept
verbatim: their lower case is never ASCII. `fuel` ≥ length. -/
def lowerAux : Nat → Bytes → Bytes
  | 0, p => p
  | fuel + 1, p =>
    match p with
    | [] => []
    | b :: rest =>
      let (r, size) := decodeRune p
      if b.toNat < 0x80 then asciiLower b :: lowerAux fuel rest
      else if r = 0x212A ∧ size = 3 then 0x6B :: lowerAux fuel (p.drop 3)
      else if r = 0x130 ∧ size = 2 then 0x69 :: lowerAux fuel (p.drop 2)
      else p.take size ++ lowerAux fuel (p.drop size)

def lowerTok (p : Bytes) : Bytes := lowerAux p.length p

/-- `strings.IndexByte(tok, ';')` then `tok[:i]`: the part before the first `;` (whole token when
there is none). -/
def cutSemi : Bytes → Option Bytes
  | [] => none
  | b :: rest =>
    if b = cSemi then some []
    else match cutSemi rest with
      | some pre => some (b :: pre)
      | none => none

/-- One element of the comma list → its normalised token (loop body of `parseAcceptEncoding`). -/
def normTok (raw : Bytes) : Bytes :=
  let tok := trimSpace raw
  let tok := match cutSemi tok with
    | some pre => trimSpace pre
    | none => tok
  lowerTok tok

/-- The `for … range strings.Split` loop with its `seen` map (first occurrence wins). -/
def parseLoop (seen : List Bytes) : List Bytes → List Bytes
  | [] => []
  | raw :: rest =>
    let tok := normTok raw
    if tok = [] then parseLoop seen rest
    else if seen.contains tok then parseLoop seen rest
    else tok :: parseLoop (tok :: seen) rest

/-- `parseAcceptEncoding`. -/
def parseAccept (header : Bytes) : List Bytes :=
  if header = [] then [] else parseLoop [] (splitOn cComma header)

/-- The final `for _, enc := range merged` loop of `chooseResponseEncoding`. -/
def walk (inCustom inStandard producible : List Bytes) : List Bytes → Bytes × Bool
  | [] => ([], false)
  | enc :: rest =>
    if enc = tIdentity then ([], false)
    else if !producible.contains enc then walk inCustom inStandard producible rest
    else (enc, inCustom.contains enc && !inStandard.contains enc)

/-- The merged client order: the whole custom header, then what the standard header adds. -/
def mergeTokens (customTokens standardTokens : List Bytes) : List Bytes :=
  customTokens ++ standardTokens.filter (fun t => !customTokens.contains t)

/-- `chooseResponseEncoding(custom, standard, producible)`: (codec or `[]`, usedCustomOnly). -/
def choose (custom standard : Bytes) (producible : List Bytes) : Bytes × Bool :=
  let customTokens := parseAccept custom
  let standardTokens := parseAccept standard
  if customTokens.isEmpty ∧ standardTokens.isEmpty then ([], false)
  else walk customTokens standardTokens producible (mergeTokens customTokens standardTokens)

/-! ## server configuration -/

/-- `supportedEncodings`. -/
def supported : List Bytes := [tZstd, tGzip]

/-- The two `HttpServer` fields involved: `zstdEncoderLevel`, `supportedEncodingsValue`. -/
structure Srv where
  level : Int
  advert : Bytes
  deriving DecidableEq, Repr

/-- `producibleResponseEncodings`. -/
def producible (s : Srv) : List Bytes := if s.level ≤ 0 then [] else supported

/-- `strings.Join(xs, ", ")`. -/
def joinCommaSpace : List Bytes → Bytes
  | [] => []
  | [x] => x
  | x :: y :: rest => x ++ [cComma, cSpace] ++ joinCommaSpace (y :: rest)

/-- `applyCompressionLevel`. -/
def applyLevel (s : Srv) (level : Int) : Srv :=
  let level := if level < 0 then 0 else level
  let s1 : Srv := { s with level := level }
  { s1 with advert := joinCommaSpace (producible s1) }

/-- klauspost/compress zstd accepts `EncoderLevel` 1…4 (`speedNotSet < l < speedLast`).
Library fact, modelled-not-verified; tied by the correspondence run. -/
def zstdLevelValid (l : Int) : Bool := decide (1 ≤ l) && decide (l ≤ 4)

/-- `SetCompressionLevel`: (new state, ok). An invalid level leaves the server unchanged. -/
def setLevel (s : Srv) (level : Int) : Srv × Bool :=
  if level ≤ 0 then (applyLevel s 0, true)
  else if zstdLevelValid level then (applyLevel s level, true)
  else (s, false)

/-- `NewHttpServer`: `applyCompressionLevel(DefaultCompressionLevel)`. -/
def defaultLevel : Int := 1
def initSrv : Srv := applyLevel { level := 0, advert := [] } defaultLevel

/-- `NewHttpServerWithKey`: the keyed constructor ends with the same
`applyCompressionLevel(DefaultCompressionLevel)` on a freshly zeroed struct. -/
def initSrvWithKey : Srv := applyLevel { level := 0, advert := [] } defaultLevel

/-! ## one response -/

/-- Which response header carries the codec. -/
inductive Hdr | none | contentEncoding | customContentEncoding
  deriving DecidableEq, Repr

/-- The negotiation block of `ServeHTTP`: `some (enc, useCustomHeader)` when a
`compressResponseWriter` is installed. -/
def negotiate (s : Srv) (custom standard : Bytes) : Option (Bytes × Bool) :=
  let p := producible s
  if p.length > 0 then
    let r := choose custom standard p
    if r.1 ≠ [] then some r else none
  else none

/-- `compressResponseWriter.finish`: which codec the body is compressed with (`[]` = sent as is)
and which header is stamped, given the handler's `Content-Type` and body length. -/
def finish (enc : Bytes) (useCustom : Bool) (ctype : Bytes) (bodyLen : Nat) : Bytes × Hdr :=
  let canCompress := enc ≠ [] ∧ ctype = arrowCT ∧ bodyLen > 0
  if canCompress then (enc, if useCustom then Hdr.customContentEncoding else Hdr.contentEncoding)
  else ([], Hdr.none)

/-- A whole response: negotiation + finish. -/
def respond (s : Srv) (custom standard ctype : Bytes) (bodyLen : Nat) : Bytes × Hdr :=
  match negotiate s custom standard with
  | some (enc, uc) => finish enc uc ctype bodyLen
  | none => ([], Hdr.none)

end Vgi.Compress
