import Vgi.Util
/-!
Model of authenticator-error handling in `vgirpc`:

* `HttpServer.authenticate` (http.go): `errors.As(err, *AuthUnavailableError)` → 503 + Retry-After;
  `asAuthFailure(err)` or a directly returned `*RpcError` of type ValueError/PermissionError → 401
  through `classifyAuthError` + `writeUnauthorized` (unauthorized.go); anything else → 500.
* `ChainAuthenticate` (bearer.go).

Go `error` values are modelled as trees: the leaves are the three vgirpc error types and "any
other error"; `wrap` is a value with `Unwrap() error` (fmt.Errorf("%w")), `join` a value with
`Unwrap() []error` (errors.Join, fmt.Errorf with several %w). `errors.As` walks the whole tree
depth-first; `asAuthFailure` follows single-`Unwrap` links only; the `*RpcError` test is a direct
type assertion on the returned value.
-/
namespace Vgi.Auth

inductive AErr
  | unavailable (retryAfter : Int)                     -- *AuthUnavailableError{RetryAfter}
  | authFailure (reason : Bytes) (detail : Bytes)      -- *AuthFailure{Reason, Detail}
  | rpc (ty : Bytes) (msg : Bytes)                     -- *RpcError{Type, Message}
  | other                                              -- any other error value without Unwrap
  | wrap (inner : AErr)                                -- Unwrap() error
  | join (inner : List AErr)                           -- Unwrap() []error
  deriving Repr

def defaultRetryAfter : Int := 5

/-- `(*AuthUnavailableError).retryAfterSeconds` -/
def retryAfterSeconds (n : Int) : Int := if n > 0 then n else defaultRetryAfter

mutual
/-- `errors.As(err, &unavailable)`: the first `*AuthUnavailableError` in depth-first order. -/
def firstUnavailable : AErr → Option Int
  | .unavailable n => some n
  | .wrap e => firstUnavailable e
  | .join es => firstUnavailableL es
  | _ => none
def firstUnavailableL : List AErr → Option Int
  | [] => none
  | e :: es => match firstUnavailable e with
    | some n => some n
    | none => firstUnavailableL es
end

/-- `asAuthFailure`: follow `Unwrap() error` links only (a `join` has no such method). -/
def asAuthFailure : AErr → Option (Bytes × Bytes)
  | .authFailure r d => some (r, d)
  | .wrap e => asAuthFailure e
  | _ => none

def tyValueError : Bytes := [86, 97, 108, 117, 101, 69, 114, 114, 111, 114]                                  -- "ValueError"
def tyPermissionError : Bytes := [80, 101, 114, 109, 105, 115, 115, 105, 111, 110, 69, 114, 114, 111, 114]   -- "PermissionError"

def reasonMissingCredential : Bytes := [109, 105, 115, 115, 105, 110, 103, 95, 99, 114, 101, 100, 101, 110, 116, 105, 97, 108]
def reasonInvalidCredential : Bytes := [105, 110, 118, 97, 108, 105, 100, 95, 99, 114, 101, 100, 101, 110, 116, 105, 97, 108]
def reasonExpiredCredential : Bytes := [101, 120, 112, 105, 114, 101, 100, 95, 99, 114, 101, 100, 101, 110, 116, 105, 97, 108]
def reasonInsufficientScope : Bytes := [105, 110, 115, 117, 102, 102, 105, 99, 105, 101, 110, 116, 95, 115, 99, 111, 112, 101]
def reasonProxyRequired : Bytes := [112, 114, 111, 120, 121, 95, 114, 101, 113, 117, 105, 114, 101, 100]
def reasonUnauthorized : Bytes := [117, 110, 97, 117, 116, 104, 111, 114, 105, 122, 101, 100]

/-- the closed set of docs/unauthorized-spec.md §3 (the `AuthReason` constants) -/
def closedReasons : List Bytes :=
  [reasonMissingCredential, reasonInvalidCredential, reasonExpiredCredential, reasonInsufficientScope,
   reasonProxyRequired, reasonUnauthorized]

/-- `err.(*RpcError)` on the returned value itself, with Type ValueError or PermissionError -/
def directRejection : AErr → Bool
  | .rpc ty _ => ty == tyValueError || ty == tyPermissionError
  | _ => false

/-- `classifyAuthError` restricted to the two shapes `authenticate` sends to it, followed by the
empty-reason default of `writeUnauthorized`. -/
def classify (e : AErr) : Bytes :=
  match asAuthFailure e with
  | some (r, _) => if r = [] then reasonUnauthorized else r
  | none => match e with
    | .rpc ty _ => if ty = tyPermissionError then reasonInsufficientScope else reasonUnauthorized
    | _ => reasonUnauthorized

def noStore : Bytes := [110, 111, 45, 115, 116, 111, 114, 101]   -- "no-store"

/-- what the client sees -/
structure Resp where
  status : Nat
  retryAfter : Option Int := none      -- Retry-After header
  reason : Option Bytes := none        -- VGI-Auth-Reason header
  cacheControl : Option Bytes := none  -- Cache-Control header
  wwwAuth : Option Bytes := none       -- WWW-Authenticate header
  deriving Repr, DecidableEq

/-- `HttpServer.authenticate` on an authenticator error; `www` is the configured
WWW-Authenticate value ("" = none configured). -/
def respond (www : Bytes) (e : AErr) : Resp :=
  match firstUnavailable e with
  | some n => { status := 503, retryAfter := some (retryAfterSeconds n) }
  | none =>
    if (asAuthFailure e).isSome || directRejection e then
      { status := 401, reason := some (classify e), cacheControl := some noStore,
        wwwAuth := if www = [] then none else some www }
    else { status := 500 }

/-! ### ChainAuthenticate -/

/-- What one authenticator returns: `(ctx, nil)`, `(nil, err)`, or — the `return ctx, err` shape of a
validate callback that parses claims before checking them — a non-nil context TOGETHER with an
error. (`(nil, nil)` is outside the family.) -/
inductive Outcome
  | ok                      -- (ctx, nil)
  | err (e : AErr)          -- (nil, e)
  | ctxErr (e : AErr)       -- (ctx, e): the error wins, the context is ignored
  deriving Repr

/-- the `err` component: `ChainAuthenticate` and `authenticate` test `err == nil` / `err != nil`
and never look at the context when an error is present -/
def Outcome.errOf : Outcome → Option AErr
  | .ok => none
  | .err e => some e
  | .ctxErr e => some e

def isDirectValueError : AErr → Bool
  | .rpc ty _ => ty == tyValueError
  | _ => false

/-- What the chain returns: the success or error of authenticator number `i` (0-based), or its own
final ValueError after every authenticator declined. -/
inductive ChainResult
  | okAt (i : Nat)
  | errAt (i : Nat) (e : AErr)
  | exhausted
  deriving Repr

def msgNoAuthenticator : Bytes :=
  [78, 111, 32, 97, 117, 116, 104, 101, 110, 116, 105, 99, 97, 116, 111, 114, 32, 97, 99, 99, 101, 112, 116, 101,
   100, 32, 116, 104, 101, 32, 114, 101, 113, 117, 101, 115, 116]   -- "No authenticator accepted the request"

/-- the loop of `ChainAuthenticate`, starting at authenticator number `i`; also returns how many
authenticators were called from here on -/
def chainFrom (i : Nat) : List Outcome → ChainResult × Nat
  | [] => (.exhausted, 0)
  | o :: rest =>
    match o.errOf with
    | none => (.okAt i, 1)
    | some e =>
      if (firstUnavailable e).isSome then (.errAt i e, 1)
      else if isDirectValueError e then
        let r := chainFrom (i + 1) rest
        (r.1, r.2 + 1)
      else (.errAt i e, 1)

def chain (os : List Outcome) : ChainResult × Nat := chainFrom 0 os

/-- the error value the chain hands to `authenticate` -/
def chainError : ChainResult → Option AErr
  | .okAt _ => none
  | .errAt _ e => some e
  | .exhausted => some (.rpc tyValueError msgNoAuthenticator)

/-- the HTTP answer when the chain is installed as the server's authenticator (`none` = the
request proceeds to the handler) -/
def serveChain (www : Bytes) (os : List Outcome) : Option Resp :=
  (chainError (chain os).1).map (respond www)

end Vgi.Auth
