import Vgi.Util
import Vgi.Generated.C16
/-!
Model of the HTTP stream dispatch in `vgirpc/http_stream.go` (+ the `OutputCollector` of
`vgirpc/stream.go` and the call resolution of `vgirpc/http_state.go`), for a *scripted* family of
stream states (the Lean counterpart of `harness/c16_script.go`).

What is mirrored, branch for branch:

* `stripFrameworkTickMetadata`            → `stripFramework`  (key set = `frameworkTickMetadataKeys`,
                                             regenerated from the source by `tools/factgen/c16`)
* `OutputCollector.EmitWithMetadata/ClientLog/Finish/validate` → `runActs`, `Coll`
* `handleStreamExchange` (token extraction with `GetValue` = first match, cast gate, cursor
  opening, `resolveCall`, cancel / producer / exchange dispatch)            → `handleExchange`
* `handleExchangeCall` (handler call, `validate`, external pre-flight, flush with the cursor merged
  into the data batch, post-flush `enforceResponseBudgets`)                 → `exchangeCall`
* `handleStreamCancel`                                                      → `cancelTurn`
* `handleProducerContinuation` + `runProduceLoop`                           → `producerContinuation`, `produceLoop`
* `handleStreamInit` (the part after the method handler returned its `StreamResult`) → `handleInit`

Tokens are symbolic (`Val.cursor i` = the i-th cursor the servers sharing the token key handed to a
client, `Val.call c` = the call token of call id `c`): sealing/opening, gob and base64 are not
modelled (C12–C15). Serialized sizes are *environment* inputs (`Env`): the model decides with them,
it does not compute them.
-/
namespace Vgi.HttpStream
open Vgi Vgi.Generated.C16

/-! ### Metadata -/

inductive Val
  | lit (b : Bytes)
  | cursor (i : Nat)
  | call (c : Nat)
  deriving Repr, DecidableEq

abbrev Meta := List (Bytes × Val)

/-- arrow-go `Metadata.GetValue`: the FIRST entry with that key. -/
def getFirst (k : Bytes) : Meta → Option Val
  | [] => none
  | kv :: r => if kv.1 = k then some kv.2 else getFirst k r

/-- membership in `frameworkTickMetadataKeys`. -/
def isFramework (k : Bytes) : Bool := frameworkKeys.contains k

/-- `stripFrameworkTickMetadata`: drop every entry whose key is a framework key, keep the order. -/
def stripFramework (m : Meta) : Meta := m.filter fun kv => !isFramework kv.1

def litMeta (m : List (Bytes × Bytes)) : Meta := m.map fun kv => (kv.1, Val.lit kv.2)

/-! ### The scripted stream state -/

inductive Src
  | const (vs : List Int)      -- emit these values
  | input (add : Int)          -- emit the input column with `add` added to every value
  | rep (n : Nat) (v : Int)    -- emit `n` rows of `v`
  deriving Repr, DecidableEq

/-- One handler action inside a `Produce`/`Exchange` call. `prop`: the handler returns the error
the collector gave it (otherwise it ignores it and carries on). -/
inductive Act
  | log (m : Nat)
  | emit (src : Src) (md : List (Bytes × Bytes)) (prop : Bool)
  | emitEcho (src : Src) (prop : Bool)   -- exchange: emit with the handler's own InputMetadata as the batch's metadata
  | finish (prop : Bool)
  | fail (code : Nat)
  | panic (code : Nat)
  deriving Repr, DecidableEq

abbrev Tick := List Act

/-- What the state's `OnCancel` does; `absent` = the state type has no `OnCancel` method. -/
inductive CancelAct | absent | ok | err | panic
  deriving Repr, DecidableEq

structure SState where
  prog : List Tick
  pos : Nat
  producer : Bool
  cancel : CancelAct
  deriving Repr, DecidableEq

inductive Err
  | handler (code : Nat) | panic (code : Nat)
  | noData | secondEmit | finishExchange
  | capWire | capExt
  | missingToken | badToken | wrongMethod | missingCall | badCall | cast | resolve
  deriving Repr, DecidableEq

/-! ### OutputCollector -/

inductive OBatch
  | log (m : Nat)
  | data (vals : List Int) (md : List (Bytes × Bytes))
  deriving Repr, DecidableEq

structure Coll where
  batches : List OBatch
  dataIdx : Option Nat
  finished : Bool
  producer : Bool
  deriving Repr, DecidableEq

def Coll.new (producer : Bool) : Coll := { batches := [], dataIdx := none, finished := false, producer := producer }

def srcVals (input : List Int) : Src → List Int
  | .const vs => vs
  | .input add => input.map (· + add)
  | .rep n v => List.replicate n v

/-- Run one scripted handler call against a collector. `some e` = the handler returned / panicked
with `e` (what it already put into the collector is discarded by the caller). -/
def runActs (input : List Int) : Coll → List Act → Coll × Option Err
  | c, [] => (c, none)
  | c, .log m :: r => runActs input { c with batches := c.batches ++ [.log m] } r
  | c, .emit src md prop :: r =>
    match c.dataIdx with
    | some _ => if prop then (c, some .secondEmit) else runActs input c r
    | none =>
      runActs input { c with dataIdx := some c.batches.length,
                             batches := c.batches ++ [.data (srcVals input src) md] } r
  | c, .emitEcho src prop :: r =>
    -- (an exchange turn replaces this act by an `emit` carrying what the handler saw before it runs:
    -- `instTick`; a producer's echo emits no metadata)
    match c.dataIdx with
    | some _ => if prop then (c, some .secondEmit) else runActs input c r
    | none =>
      runActs input { c with dataIdx := some c.batches.length,
                             batches := c.batches ++ [.data (srcVals input src) []] } r
  | c, .finish prop :: r =>
    if c.producer then runActs input { c with finished := true } r
    else if prop then (c, some .finishExchange) else runActs input c r
  | c, .fail k :: _ => (c, some (.handler k))
  | c, .panic k :: _ => (c, some (.panic k))

/-! ### Responses, world, requests -/

inductive RBatch
  | log (m : Nat)
  | exc (e : Err)
  | data (vals : List Int) (md : Meta)
  | token (md : Meta)          -- zero-row state-token batch
  deriving Repr, DecidableEq

structure Resp where
  status : Nat
  rpcErr : Bool                  -- X-VGI-RPC-Error: true
  batches : List RBatch
  header : List RBatch := []     -- the header IPC stream of an /init answer (logs, then the header batch)
  deriving Repr, DecidableEq

/-- `dyn`: minted by the dynamic method; `declared`: the call declared an input schema that the
transport can see at turn time (static exchange methods: always, from the registration; dynamic
ones: when `StreamResult.InputSchema` was set — carried in the call token). -/
structure Cursor where
  call : Nat
  st : SState
  dyn : Bool := false
  declared : Bool := true
  deriving Repr, DecidableEq

/-- `minted`: the cursors handed out so far (all remain openable: the servers are stateless);
`calls`: number of call ids minted; `cache`: (instance, call id) pairs present in a call cache. -/
structure World where
  minted : List Cursor
  calls : Nat
  cache : List (Nat × Nat)
  deriving Repr, DecidableEq

def World.empty : World := { minted := [], calls := 0, cache := [] }

structure Cfg where
  cacheOn : Bool
  maxResp : Nat          -- max_response_bytes, 0 = off
  maxExt : Nat           -- max_externalized_response_bytes, 0 = off
  extOn : Bool           -- an external storage is configured
  extIn : Bool := false  -- an external-location config is present: pointer inputs are resolved
  threshold : Nat := 1048576   -- `ExternalLocationConfig.threshold()`
  batchLimit : Nat       -- producer batch limit, 0 = unlimited
  deriving Repr, DecidableEq

/-- Sizes of the data batch of one produce/exchange cycle (environment). -/
structure TickEnv where
  buf : Nat := 0         -- `batchBufferSize` of the emitted data batch (in-memory Arrow buffers)
  raw : Nat := 0         -- raw IPC bytes of its upload (what the external cap is charged), if uploaded
  deriving Repr, DecidableEq

/-- Serialized sizes (environment). `wire`: the whole flushed body of a unary / exchange response.
For producer turns: `body0` bytes are in the buffer before the loop starts (header stream) and
`sizes` are the wire sizes of the successive batches the loop writes (the first one includes the
schema message the IPC writer emits with it). -/
structure Env where
  wire : Nat := 0
  ticks : List TickEnv := []
  body0 : Nat := 0
  sizes : List Nat := []
  deriving Repr, DecidableEq

/-- the batch an external-location pointer resolves to (fetched from the URL it names) -/
structure Fetched where
  md : Meta := []
  vals : List Int := []
  schemaOk : Bool := true
  exact : Bool := true
  deriving Repr, DecidableEq

structure Req where
  inst : Nat := 0                -- which server instance receives the request
  routeProducer : Bool := false  -- the method named by the URL is a producer method
  md : Meta
  vals : List Int := []
  schemaOk : Bool := true        -- input batch schema equal / castable to the declared one
  exact : Bool := true           -- input batch schema EQUAL to the stream's input schema
  dynamic : Bool := false        -- the method named by the URL is the dynamic one (no registered schemas)
  /-- the request batch is a zero-row batch whose URL fetches to this batch (`none`: the fetch fails);
  `md` is then the POINTER batch's metadata and `vals`/`schemaOk`/`exact` describe the pointer batch -/
  fetch : Option (Option Fetched) := none
  env : Env := {}
  deriving Repr, DecidableEq

inductive Event
  | exchange (pos : Nat) (seen : Meta) (input : List Int)
  | produce (pos : Nat) (seen : Meta)
  | cancel
  deriving Repr, DecidableEq

def errResp (status : Nat) (rpcErr : Bool) (e : Err) : Resp :=
  { status := status, rpcErr := rpcErr, batches := [.exc e] }

/-! ### Exchange turn -/

/-- rows of the collector's data batch (0 when there is none) -/
def dataRows (c : Coll) : Nat :=
  match c.dataIdx with
  | none => 0
  | some i => match c.batches[i]? with
    | some (.data vs _) => vs.length
    | _ => 0

/-- `predictExternalizeBytes`: the buffer size when the batch would be uploaded (storage
configured, rows > 0, at or over the threshold), else 0. The same three conditions decide in
`externalizeBatchCtx` whether the upload happens. -/
def predictExt (cfg : Cfg) (rows buf : Nat) : Nat :=
  if !cfg.extOn then 0 else if rows = 0 then 0 else if buf < cfg.threshold then 0 else buf

/-- raw bytes charged for this cycle's data batch: its upload's raw IPC size when it is uploaded -/
def chargedExt (cfg : Cfg) (c : Coll) (te : TickEnv) : Nat :=
  if c.dataIdx.isSome && decide (predictExt cfg (dataRows c) te.buf > 0) then te.raw else 0

/-- the data batch of this cycle is uploaded -/
def chargedExtFlag (cfg : Cfg) (c : Coll) (te : TickEnv) : Bool :=
  c.dataIdx.isSome && decide (predictExt cfg (dataRows c) te.buf > 0)

/-- `checkExternalBudget(out, method, alreadyUploaded)`: `true` = refuse. -/
def extPreflight (cfg : Cfg) (c : Coll) (te : TickEnv) (already : Nat) : Bool :=
  if !cfg.extOn || cfg.maxExt = 0 || c.dataIdx.isNone then false
  else if predictExt cfg (dataRows c) te.buf = 0 then false
  else decide (already + predictExt cfg (dataRows c) te.buf > cfg.maxExt)

/-- `enforceResponseBudgets`. -/
def enforceBudgets (cfg : Cfg) (wire ext : Nat) : Option Err :=
  if cfg.maxResp > 0 ∧ wire > cfg.maxResp then some .capWire
  else if cfg.maxExt > 0 ∧ ext > cfg.maxExt then some .capExt
  else none

/-- `stripTokenKeysFromEmitMetadata`: a data batch's per-emit metadata without the transport's two
token keys (order kept). -/
def emitUserMeta (md : List (Bytes × Bytes)) : List (Bytes × Bytes) :=
  md.filter fun kv => kv.1 != keyState && kv.1 != keyCall

/-- The token merge of `handleExchangeCall`: the per-emit entries except the token keys, then the
cursor (so the cursor is the only entry with that key). -/
def mergeToken (tok : Val) (md : List (Bytes × Bytes)) : Meta :=
  litMeta (emitUserMeta md) ++ [(keyState, tok)]

/-- The flush loop of `handleExchangeCall`: the batch at `dataIdx` gets the cursor merged on top of
its own metadata; everything else is written as it is. -/
def flushExchange (tok : Val) (di : Nat) : Nat → List OBatch → List RBatch
  | _, [] => []
  | i, .log m :: r => .log m :: flushExchange tok di (i + 1) r
  | i, .data vs md :: r =>
    (if i = di then .data vs (mergeToken tok md) else .data vs (litMeta md))
      :: flushExchange tok di (i + 1) r

def defaultExchangeTick : Tick := [.emit (.input 0) [] true]

def tickAt (st : SState) : Option Tick := st.prog[st.pos]?

/-- the scripted `Exchange` refuses an input column that is not of its declared type -/
def untypedTick : Tick := [.fail 77]

/-- does the handler get an input of its declared type: the batch already has it, or the transport
cast it (it casts whenever it knows an input schema) -/
def inputTyped (cur : Cursor) (req : Req) : Bool := req.exact || cur.declared

/-- a later entry with this key carries a token value (the client put a token under a user key) -/
def tokenLater (k : Bytes) (r : Meta) : Bool :=
  r.any fun e => e.1 == k && (match e.2 with | .lit _ => false | _ => true)

/-- The literal entries of a metadata list, as far as an echo can return them: the handler hands the
metadata on as a map (the last entry of a key wins), so a literal whose key a LATER token-valued entry
overrides is gone (that later entry is not a literal and is not listed either). -/
def litEntries : Meta → List (Bytes × Bytes)
  | [] => []
  | (k, .lit b) :: r => if tokenLater k r then litEntries r else (k, b) :: litEntries r
  | _ :: r => litEntries r

/-- what the exchange handler saw as `InputMetadata`, as literals (it echoes these) -/
def seenLit (req : Req) : List (Bytes × Bytes) := litEntries (stripFramework req.md)

/-- The public emit API takes a `map[string]string`: of several entries with one key the last wins. -/
def lastWins : List (Bytes × Bytes) → List (Bytes × Bytes)
  | [] => []
  | kv :: r => if r.any (fun e => e.1 == kv.1) then lastWins r else kv :: lastWins r

/-- an echoing emit becomes an emit carrying the metadata the handler saw (handed over as a map) -/
def instAct (seen : List (Bytes × Bytes)) : Act → Act
  | .emitEcho src prop => .emit src (lastWins seen) prop
  | a => a

def instTick (seen : List (Bytes × Bytes)) (t : Tick) : Tick := t.map (instAct seen)

/-- the program the `Exchange` call of this turn runs -/
def turnTick (cur : Cursor) (req : Req) : Tick :=
  if inputTyped cur req then instTick (seenLit req) ((tickAt cur.st).getD defaultExchangeTick) else untypedTick

def advance (cur : Cursor) (pos : Nat) : Cursor := { cur with st := { cur.st with pos := pos } }

/-- `handleExchangeCall`. -/
def exchangeCall (cfg : Cfg) (w : World) (cur : Cursor) (req : Req) : Resp × World × List Event :=
  let ev := Event.exchange cur.st.pos (stripFramework req.md) req.vals
  let tick := turnTick cur req
  let te := req.env.ticks.headD {}
  match runActs req.vals (Coll.new false) tick with
  | (_, some e) => (errResp 200 true e, w, [ev])
  | (c, none) =>
    match c.dataIdx with
    | none => (errResp 200 true .noData, w, [ev])
    | some di =>
      if extPreflight cfg c te 0 then (errResp 200 true .capExt, w, [ev])
      else match enforceBudgets cfg req.env.wire (chargedExt cfg c te) with
        | some e => (errResp 200 true e, w, [ev])
        | none =>
          let tok := Val.cursor w.minted.length
          ({ status := 200, rpcErr := false, batches := flushExchange tok di 0 c.batches },
           { w with minted := w.minted ++ [advance cur (cur.st.pos + 1)] }, [ev])

/-! ### Cancel -/

/-- `handleStreamCancel`: the hook (if the state has one) runs, whatever it returns or panics with
is swallowed; the answer is an empty stream. -/
def cancelTurn (w : World) (cur : Cursor) : Resp × World × List Event :=
  ({ status := 200, rpcErr := false, batches := [] }, w,
   match cur.st.cancel with
   | .absent => []
   | _ => [Event.cancel])

/-! ### Producer loop -/

structure LoopOut where
  out : List RBatch
  finished : Bool
  err : Option Err
  pos : Nat
  events : List Event
  body : Nat := 0           -- bytes in the response buffer when the loop returns
  uploads : List Nat := []  -- predicted (buffer) sizes of the data batches this turn uploaded
  lastStart : Nat := 0      -- bytes in the buffer when the last cycle of this turn started
  nData : Nat := 0          -- data batches written in this turn
  deriving Repr, DecidableEq

def flushProducer : List OBatch → List RBatch
  | [] => []
  | .log m :: r => .log m :: flushProducer r
  | .data vs md :: r => .data vs (litMeta (emitUserMeta md)) :: flushProducer r

def sumList : List Nat → Nat
  | [] => 0
  | a :: r => a + sumList r

/-- `runProduceLoopSized`, iterating over the ticks the script still has (`[]` = the script is
exhausted: the scripted state finishes the stream). `first` is the metadata the first `Produce`
call of this HTTP turn sees (`none` afterwards); `nData` data batches and `ext` raw upload bytes
so far in this turn; `body` bytes already in the response buffer, `sizes` the wire sizes of the
batches still to be written. -/
def produceLoop (cfg : Cfg) : List Tick → Nat → Option Meta → Nat → Nat → List TickEnv → Nat → List Nat → LoopOut
  | [], pos, first, nData, _, _, body, _ =>
    { out := [], finished := true, err := none, pos := pos + 1, events := [.produce pos (first.getD [])],
      body := body, lastStart := body, nData := nData }
  | t :: rest, pos, first, nData, ext, envs, body, sizes =>
    let ev := Event.produce pos (first.getD [])
    let te := envs.headD {}
    match runActs [] (Coll.new true) t with
    | (_, some e) =>
      { out := [.exc e], finished := false, err := some e, pos := pos + 1, events := [ev],
        body := body + sumList (sizes.take 1), lastStart := body, nData := nData }
    | (c, none) =>
      if !c.finished && c.dataIdx.isNone then
        { out := [.exc .noData], finished := false, err := some .noData, pos := pos + 1, events := [ev],
          body := body + sumList (sizes.take 1), lastStart := body, nData := nData }
      else if extPreflight cfg c te ext then
        { out := [.exc .capExt], finished := false, err := some .capExt, pos := pos + 1, events := [ev],
          body := body + sumList (sizes.take 1), lastStart := body, nData := nData }
      else
        let flushed := flushProducer c.batches
        let nData' := nData + (if c.dataIdx.isSome then 1 else 0)
        let body' := body + sumList (sizes.take c.batches.length)
        let up := if chargedExtFlag cfg c te then [predictExt cfg (dataRows c) te.buf] else []
        if c.finished then
          { out := flushed, finished := true, err := none, pos := pos + 1, events := [ev], body := body', uploads := up,
            lastStart := body, nData := nData' }
        else if cfg.batchLimit > 0 ∧ nData' ≥ cfg.batchLimit then
          { out := flushed, finished := false, err := none, pos := pos + 1, events := [ev], body := body', uploads := up,
            lastStart := body, nData := nData' }
        else if cfg.maxResp > 0 ∧ body' ≥ cfg.maxResp then
          { out := flushed, finished := false, err := none, pos := pos + 1, events := [ev], body := body', uploads := up,
            lastStart := body, nData := nData' }
        else
          let r := produceLoop cfg rest (pos + 1) none nData' (ext + chargedExt cfg c te) envs.tail body'
            (sizes.drop c.batches.length)
          { r with out := flushed ++ r.out, events := ev :: r.events, uploads := up ++ r.uploads }

/-- `streamResponseStatus`: only an external-cap refusal flips the error header. -/
def producerRpcErr : Option Err → Bool
  | some .capExt => true
  | _ => false

/-- `handleProducerContinuation`. -/
def producerContinuation (cfg : Cfg) (w : World) (cur : Cursor) (req : Req) : Resp × World × List Event :=
  let r := produceLoop cfg (cur.st.prog.drop cur.st.pos) cur.st.pos (some (stripFramework req.md)) 0 0 req.env.ticks
    req.env.body0 req.env.sizes
  if r.err.isNone && !r.finished then
    ({ status := 200, rpcErr := false,
       batches := r.out ++ [.token [(keyState, .cursor w.minted.length)]] },
     { w with minted := w.minted ++ [advance cur r.pos] }, r.events)
  else
    ({ status := 200, rpcErr := producerRpcErr r.err, batches := r.out }, w, r.events)

/-! ### Continuation request (`POST /{method}/exchange`) -/

/-- `openCursorToken` on a symbolic value: only a cursor the servers minted opens. -/
def openCursor (w : World) : Val → Option Cursor
  | .cursor i => w.minted[i]?
  | _ => none

/-- `resolveCall`: cache hit, or the echoed call token must be this call's. -/
def resolveCall (cfg : Cfg) (w : World) (inst : Nat) (cur : Cursor) (callTok : Option Val) :
    Except Err World :=
  if cfg.cacheOn && w.cache.contains (inst, cur.call) then .ok w
  else match callTok with
    | none => .error .missingCall
    | some (.lit []) => .error .missingCall
    | some (.call c) =>
      if c = cur.call then
        .ok (if cfg.cacheOn then { w with cache := (inst, cur.call) :: w.cache } else w)
      else .error .badCall
    | some _ => .error .badCall

/-- `handleStreamExchange` after authentication, routing and body decoding.

* static exchange methods cast against the registered input schema before any token is looked at
  (skipped on cancel); producer methods never cast;
* a cursor resumes only the method that minted it (`tokenData.Method != method ||
  !streamStateFits(...)` → 400): the scripted family has one static method per stream kind plus
  one dynamic method;
* dynamic exchange streams cast against the input schema the call declared (carried in the call
  token), once the call is resolved. -/
def handleExchange (cfg : Cfg) (w : World) (req : Req) : Resp × World × List Event :=
  let tok := getFirst keyState req.md
  let callTok := getFirst keyCall req.md
  let cancelled := (getFirst keyCancel req.md).isSome
  if !cancelled && !req.dynamic && !req.routeProducer && !req.schemaOk then (errResp 400 false .cast, w, [])
  else match tok with
    | none => (errResp 400 false .missingToken, w, [])
    | some tv =>
      match openCursor w tv with
      | none => (errResp 400 false .badToken, w, [])
      | some cur =>
        if req.dynamic != cur.dyn || req.routeProducer != cur.st.producer then
          (errResp 400 false .wrongMethod, w, [])
        else match resolveCall cfg w req.inst cur callTok with
        | .error e => (errResp 400 false e, w, [])
        | .ok w1 =>
          if cancelled then cancelTurn w1 cur
          else if req.routeProducer then producerContinuation cfg w1 cur req
          else if req.dynamic && cur.declared && !req.exact && !req.schemaOk then
            (errResp 400 false .cast, w1, [])
          else exchangeCall cfg w1 cur req

/-! ### External-location inputs -/

/-- `MetaLocation` = "vgi_rpc.location" -/
def keyLocation : Bytes := [118, 103, 105, 95, 114, 112, 99, 46, 108, 111, 99, 97, 116, 105, 111, 110]
/-- `MetaLogLevel` = "vgi_rpc.log_level" -/
def keyLogLevel : Bytes := [118, 103, 105, 95, 114, 112, 99, 46, 108, 111, 103, 95, 108, 101, 118, 101, 108]

/-- `IsExternalLocationBatch` for a zero-row batch: it names a location and is not a log batch -/
def isPointerMeta (md : Meta) : Bool := (getFirst keyLocation md).isSome && (getFirst keyLogLevel md).isNone

/-- what the rest of `handleStreamExchange` works with once a pointer input has been resolved: the
fetched batch's metadata becomes the input metadata; the cursor / call token found on the fetched
batch override the ones read from the pointer, which stay as the fallback; the cancel flag was read
from the pointer only (a cancel key on the fetched batch is inert) -/
def resolvedMeta (pointerMd : Meta) (f : Fetched) : Meta :=
  f.md.filter (fun kv => kv.1 != keyCancel) ++
    (match getFirst keyState pointerMd with
     | some v => [(keyState, v)]
     | none => []) ++
    (match getFirst keyCall pointerMd with
     | some v => [(keyCall, v)]
     | none => [])

/-- the external-location block of `handleStreamExchange`: only for a non-cancel request on a
server with an external-location config whose batch is a pointer batch -/
def resolveInput (cfg : Cfg) (req : Req) : Except Err Req :=
  match req.fetch with
  | none => .ok req
  | some p =>
    if !cfg.extIn || (getFirst keyCancel req.md).isSome || !isPointerMeta req.md then .ok req
    else match p with
      | none => .error .resolve
      | some f => .ok { req with md := resolvedMeta req.md f, vals := f.vals, schemaOk := f.schemaOk, exact := f.exact }

/-- `handleStreamExchange` including the resolution of an external-location input -/
def handleExchangeX (cfg : Cfg) (w : World) (req : Req) : Resp × World × List Event :=
  match resolveInput cfg req with
  | .error e => (errResp 200 true e, w, [])
  | .ok r => handleExchange cfg w r

/-! ### Stream init (`POST /{method}/init`), after the method handler returned its state -/

inductive InitOutcome
  | ok | fail (code : Nat) | panic (code : Nat)
  deriving Repr, DecidableEq

/-- One `/init` call of a scripted stream method: what the method handler logs and returns, and how
the method was registered. -/
structure InitReq where
  inst : Nat := 0
  st : SState
  md : Meta := []              -- the init request's custom metadata rendered in key order
  env : Env := {}
  logs : List Nat := []        -- `callCtx.ClientLog` calls of the method handler
  outcome : InitOutcome := .ok
  hasHeader : Bool := false    -- the method was registered with a header type
  header : Option Nat := none  -- `StreamResult.Header` (nil or a value)
  dynamic : Bool := false      -- the dynamic method (kind decided by the returned state)
  declared : Bool := true      -- an input schema is declared (static exchange: always)
  deriving Repr, DecidableEq

def cachePut (cfg : Cfg) (w : World) (inst call : Nat) : World :=
  if cfg.cacheOn then { w with cache := (inst, call) :: w.cache } else w

/-- the header stream `writeStreamHeader` writes: the init logs, then the header batch -/
def headerStream (rq : InitReq) : List RBatch :=
  match rq.hasHeader, rq.header with
  | true, some h => rq.logs.map RBatch.log ++ [.data [h] []]
  | _, _ => []

/-- the init logs still buffered when the data stream opens (the header stream drained them) -/
def initLogs (rq : InitReq) : List RBatch :=
  match rq.hasHeader, rq.header with
  | true, some _ => []
  | _, _ => rq.logs.map RBatch.log

/-- `handleStreamInit` from the call of the method handler on. -/
def handleInit (cfg : Cfg) (w : World) (rq : InitReq) : Resp × World × List Event :=
  match rq.outcome with
  | .fail k => (errResp 200 true (.handler k), w, [])
  | .panic k => (errResp 200 true (.panic k), w, [])
  | .ok =>
    let c := w.calls
    let w0 := { w with calls := w.calls + 1 }   -- used only when the call id leaves the server
    let cur : Cursor := { call := c, st := rq.st, dyn := rq.dynamic, declared := rq.declared }
    let tokMeta : Meta := [(keyState, .cursor w.minted.length), (keyCall, .call c)]
    if rq.st.producer then
      let r := produceLoop cfg (rq.st.prog.drop rq.st.pos) rq.st.pos (some rq.md) 0 0 rq.env.ticks
        rq.env.body0 rq.env.sizes
      if r.err.isNone && !r.finished then
        ({ status := 200, rpcErr := false, batches := initLogs rq ++ r.out ++ [.token tokMeta], header := headerStream rq },
         cachePut cfg { w0 with minted := w0.minted ++ [advance cur r.pos] } rq.inst c, r.events)
      else
        ({ status := 200, rpcErr := producerRpcErr r.err, batches := initLogs rq ++ r.out, header := headerStream rq },
         w, r.events)
    else
      ({ status := 200, rpcErr := false, batches := initLogs rq ++ [.token tokMeta], header := headerStream rq },
       cachePut cfg { w0 with minted := w0.minted ++ [cur] } rq.inst c, [])

/-! ### What a turn uploads; the whole stream of a producer state -/

/-- number of uploads an exchange turn makes: the data batch is uploaded during the flush, i.e.
when the handler succeeded, the pre-flight passed and the batch qualifies (the post-flush check
comes after the upload) -/
def exchangeUploads (cfg : Cfg) (cur : Cursor) (req : Req) : Nat :=
  let tick := turnTick cur req
  let te := req.env.ticks.headD {}
  match runActs req.vals (Coll.new false) tick with
  | (_, some _) => 0
  | (c, none) =>
    if c.dataIdx.isNone then 0
    else if extPreflight cfg c te 0 then 0
    else if chargedExtFlag cfg c te then 1 else 0

/-- raw bytes an exchange turn uploads -/
def exchangeCharged (cfg : Cfg) (cur : Cursor) (req : Req) : Nat :=
  let tick := turnTick cur req
  let te := req.env.ticks.headD {}
  match runActs req.vals (Coll.new false) tick with
  | (_, some _) => 0
  | (c, none) =>
    if c.dataIdx.isNone then 0
    else if extPreflight cfg c te 0 then 0
    else chargedExt cfg c te

/-- The stream a scripted producer state delivers when nothing ends a turn early: the batches of
every cycle until the state finishes or fails (this is also what a pipe transport delivers). -/
def fullRun : List Tick → List RBatch × Bool × Option Err
  | [] => ([], true, none)
  | t :: rest =>
    match runActs [] (Coll.new true) t with
    | (_, some e) => ([.exc e], false, some e)
    | (c, none) =>
      if !c.finished && c.dataIdx.isNone then ([.exc .noData], false, some .noData)
      else if c.finished then (flushProducer c.batches, true, none)
      else
        let r := fullRun rest
        (flushProducer c.batches ++ r.1, r.2.1, r.2.2)

/-! ### Unary call (`handleUnary`), the part after the method handler returned -/

inductive UOutcome
  | value (size : Nat)        -- the handler returned a value (a string of `size` bytes)
  | fail (code : Nat)
  | panic (code : Nat)
  deriving Repr, DecidableEq

structure UReq where
  logs : List Nat             -- `callCtx.ClientLog` calls made by the handler
  outcome : UOutcome
  env : Env := {}             -- `wire`: the body `WriteUnaryResponse` produced; `ticks.head`: result batch sizes
  deriving Repr, DecidableEq

/-- `handleUnary` from the handler's return on: an error answers logs + exception; a value is
pre-flighted against the external cap (refusal keeps the logs), possibly uploaded, written, and the
flushed body / the raw upload are checked against both caps (refusal drops the logs). -/
def handleUnary (cfg : Cfg) (rq : UReq) : Resp :=
  let logs := rq.logs.map RBatch.log
  let te := rq.env.ticks.headD {}
  match rq.outcome with
  | .fail k => { status := 200, rpcErr := true, batches := logs ++ [.exc (.handler k)] }
  | .panic k => { status := 200, rpcErr := true, batches := logs ++ [.exc (.panic k)] }
  | .value size =>
    let predicted := predictExt cfg 1 te.buf
    if cfg.extOn && decide (cfg.maxExt > 0 ∧ predicted > cfg.maxExt) then
      { status := 200, rpcErr := true, batches := logs ++ [.exc .capExt] }
    else
      let ext := if predicted > 0 then te.raw else 0
      match enforceBudgets cfg rq.env.wire ext with
      | some e => { status := 200, rpcErr := true, batches := [.exc e] }
      | none => { status := 200, rpcErr := false, batches := logs ++ [.data [size] []] }

/-- number of uploads a unary call makes -/
def unaryUploads (cfg : Cfg) (rq : UReq) : Nat :=
  let te := rq.env.ticks.headD {}
  match rq.outcome with
  | .value _ =>
    let predicted := predictExt cfg 1 te.buf
    if cfg.extOn && decide (cfg.maxExt > 0 ∧ predicted > cfg.maxExt) then 0
    else if predicted > 0 then 1 else 0
  | _ => 0

/-- raw bytes a unary call uploads -/
def unaryCharged (cfg : Cfg) (rq : UReq) : Nat :=
  let te := rq.env.ticks.headD {}
  match rq.outcome with
  | .value _ =>
    let predicted := predictExt cfg 1 te.buf
    if cfg.extOn && decide (cfg.maxExt > 0 ∧ predicted > cfg.maxExt) then 0
    else if predicted > 0 then te.raw else 0
  | _ => 0

end Vgi.HttpStream
