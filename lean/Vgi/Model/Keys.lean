import Vgi.Util
/-!
Model of the object-key derivation of the storage backends:

* `vgirpc/s3/s3.go`: `Upload` uses `s.prefix + generateUUID()`; `generateUUID` (after the F33
  repair) draws 16 bytes from `crypto/rand`, sets the RFC 4122 version-4 / variant bits and
  formats them with `formatUUID` (`%x-%x-%x-%x-%x` over 4-2-2-2-6 bytes).
* `vgirpc/gcs/gcs.go`: `Upload` uses `s.prefix + uuid.New().String() + ext` with
  `ext = ".arrow"` or `".arrow.zst"`; `uuid.UUID.String` is the same canonical format.

The random draw is the function's only input besides the configured prefix: there is no clock,
counter or other shared state, so the key of an upload is a function of that upload's own draw.
-/
namespace Vgi.Keys

def hexByte (b : UInt8) : List Char := [hexDigit (b.toNat / 16), hexDigit (b.toNat % 16)]

def hexStr (bs : Bytes) : List Char := bs.flatMap hexByte

/-- `formatUUID` / `uuid.UUID.String`: groups of 4-2-2-2-6 bytes in lower-case hex. -/
def formatUUID (b : Bytes) : List Char :=
  hexStr (b.take 4) ++ '-' :: hexStr ((b.drop 4).take 2) ++ '-' :: hexStr ((b.drop 6).take 2) ++
    '-' :: hexStr ((b.drop 8).take 2) ++ '-' :: hexStr (b.drop 10)

/-- Apply `f` to the byte at index `i` (no-op when the list is shorter). -/
def mapAt (i : Nat) (f : UInt8 → UInt8) : Bytes → Bytes
  | [] => []
  | x :: r => match i with
    | 0 => f x :: r
    | i + 1 => x :: mapAt i f r

/-- `b[6] = (b[6] & 0x0f) | 0x40; b[8] = (b[8] & 0x3f) | 0x80`. -/
def setV4 (b : Bytes) : Bytes :=
  mapAt 8 (fun x => (x &&& 0x3f) ||| 0x80) (mapAt 6 (fun x => (x &&& 0x0f) ||| 0x40) b)

/-- The 122 bits of a draw that survive `setV4` (the other six are overwritten). -/
def freeBits (b : Bytes) : Bytes :=
  mapAt 8 (fun x => x &&& 0x3f) (mapAt 6 (fun x => x &&& 0x0f) b)

/-- `generateUUID()` as a function of the 16 bytes read from `crypto/rand`. -/
def generateUUID (draw : Bytes) : List Char := formatUUID (setV4 draw)

/-- The S3 object key of one upload. -/
def s3Key (pfx : List Char) (draw : Bytes) : List Char := pfx ++ generateUUID draw

def extArrow : List Char := ".arrow".toList
def extArrowZst : List Char := ".arrow.zst".toList

/-- The GCS object key of one upload; `u` is the 16-byte value of `uuid.New()`. -/
def gcsKey (pfx : List Char) (u : Bytes) (zstd : Bool) : List Char :=
  pfx ++ formatUUID u ++ (if zstd then extArrowZst else extArrow)

/-! ### The entropy source may fail

`draw = none`: the read from the entropy source reported an error. `uuid.New()` panics in that
case and `crypto/rand.Read` aborts the process, so no object is written: the upload fails. -/

/-- One S3 upload: the key it writes to, or `none` when the upload fails for lack of randomness. -/
def s3Upload (pfx : List Char) (draw : Option Bytes) : Option (List Char) :=
  match draw with
  | some d => some (s3Key pfx d)
  | none => none

/-- One GCS upload (`uuid.New()` = `Must(NewRandom())`). -/
def gcsUpload (pfx : List Char) (u : Option Bytes) (zstd : Bool) : Option (List Char) :=
  match u with
  | some x => some (gcsKey pfx x zstd)
  | none => none

/-! ### Reading the draw from a source that may return short reads

`crypto/rand.Read` is `io.ReadFull` over `rand.Reader`: it keeps calling `Read` until the buffer is
full. `chunks` are the byte strings successive `Read` calls deliver (any sizes ≥ 0). -/

/-- `io.ReadFull(reader, buf[:n])` over the successive read results; `none` = the source ran dry. -/
def readFull : List Bytes → Nat → Option Bytes
  | [], n => if n = 0 then some [] else none
  | c :: rest, n =>
    if n ≤ c.length then some (c.take n)
    else (readFull rest (n - c.length)).map (c ++ ·)

/-- `generateUUID()` over a chunked entropy source. -/
def generateUUIDFrom (chunks : List Bytes) : Option (List Char) :=
  (readFull chunks 16).map generateUUID

/-- Decoder used to state that formatting loses nothing: drop the dashes, read hex pairs. -/
def unformat (s : List Char) : Option Bytes := bytesOfHexAux (s.filter (· != '-'))

/-! ### The generator before the repair (kept to state finding F33) -/

/-- Decimal digits (ASCII) of `n`, most significant first; `fuel` bounds the number of digits. -/
def decDigits : Nat → Nat → List UInt8
  | 0, _ => []
  | fuel + 1, n => if n < 10 then [UInt8.ofNat (48 + n)] else decDigits fuel (n / 10) ++ [UInt8.ofNat (48 + n % 10)]

/-- The old `generateUUID`: the first 16 bytes of `fmt.Sprintf("%d", time.Now().UnixNano())`. -/
def oldGenerateUUID (unixNano : Nat) : List Char := formatUUID ((decDigits 40 unixNano).take 16)

end Vgi.Keys
