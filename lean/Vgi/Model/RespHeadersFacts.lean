import Vgi.Util
/-!
# C20 — datatypes of the facts regenerated from `/repo/vgirpc` by `tools/factgen/c20`
-/
namespace Vgi.RespHeaders

/-- The header-name argument of a `.Header().Set/Add/Del` call (lower-cased). -/
inductive NameFact
  | const (s : String)        -- a constant / literal
  | prefixed (p : String)     -- `constant + <variable>`
  | unknown (src : String)    -- anything else (rendered source)
  deriving DecidableEq, Repr

structure WriteFact where
  fn : String     -- enclosing function
  op : String     -- "Set" | "Add" | "Del"
  name : NameFact
  deriving DecidableEq, Repr

structure Facts where
  writes : List WriteFact
  ridFirst : Bool
  capsAfterHook : Bool
  corsBeforeDispatch : Bool
  deriving Repr

end Vgi.RespHeaders
