import Vgi.Model.Token
/-!
World state and line-protocol interpreter shared by the drivers of C12–C15 (one symbolic-token
world, four properties). Every decision is computed by the functions of `Vgi.Token`
(`exchange`, `initStream`, `stickyResolve`, `tokenAad`, …); this file only parses lines, threads
the world, and records the seal events the environment reports (the random nonce / ciphertext /
call id / clock values the real server produced).
-/
namespace Vgi.Token

/-! ## world -/

structure World where
  sealed : List SealRec
  insts : List (String × Inst)
  deriving Repr

def World.empty : World := ⟨[], []⟩

def World.inst? (w : World) (n : String) : Option Inst := (w.insts.find? fun p => p.1 == n).map (·.2)

def World.setInst (w : World) (n : String) (i : Inst) : World :=
  { w with insts := (n, i) :: w.insts.filter fun p => p.1 != n }

/-- A nonce is never reused under one key (192-bit random nonces). The world refuses to record a
seal event that would break this, so `NoncesUnique` is an invariant of every reachable world. -/
def nonceFresh (tbl : List SealRec) (key nonce : Bytes) : Bool :=
  tbl.all fun r => !(decide (r.key = key ∧ r.nonce = nonce))

/-- A call id names one call token per key (128-bit random call ids). -/
def callIdFresh (tbl : List SealRec) (key callId : Bytes) : Bool :=
  tbl.all fun r => match r.pt with
    | .call d => !(decide (r.key = key ∧ d.callId = callId))
    | _ => true

/-- Record a seal event: the envelope is taken from the token text the server produced. -/
def recordSeal (tbl : List SealRec) (key aad : Bytes) (session : Bool) (token : Bytes) (pt : Plain) :
    Option (List SealRec) :=
  match (if session then b64Session token else b64Std token) with
  | none => none
  | some raw =>
    match splitEnvelope raw with
    | none => none
    | some env =>
      if nonceFresh tbl (normKey key) env.nonce then
        some (⟨normKey key, env.nonce, aad, env.ct, pt⟩ :: tbl)
      else none

/-! ## parsing helpers -/

def field (ws : List String) (k : String) : Option String :=
  ws.findSome? fun w => if w.startsWith (k ++ "=") then some (String.ofList (w.toList.drop (k.length + 1))) else none

/-- `-` is "absent", `x<hex>` is a byte string. -/
def optBytes (s : String) : Option (Option Bytes) :=
  if s == "-" then some none else (parseHexArg s).map some

def fOptBytes (ws : List String) (k : String) : Option (Option Bytes) := (field ws k).bind optBytes
def fBytes (ws : List String) (k : String) : Option Bytes := (field ws k).bind parseHexArg
def fInt (ws : List String) (k : String) : Option Int := (field ws k).bind String.toInt?
def fNat (ws : List String) (k : String) : Option Nat := (field ws k).bind String.toNat?
def fBool (ws : List String) (k : String) : Option Bool :=
  match field ws k with | some "1" => some true | some "0" => some false | _ => none

/-- `anon` | `a/x<domain>/x<principal>` (authenticated) | `n/x<domain>/x<principal>` (fields set,
`Authenticated == false`). -/
def parseIdent (s : String) : Option Ident :=
  if s == "anon" then some anon else
  match s.splitOn "/" with
  | [t, d, p] =>
    match parseHexArg d, parseHexArg p with
    | some db, some pb =>
      if t == "a" then some ⟨true, db, pb⟩ else if t == "n" then some ⟨false, db, pb⟩ else none
    | _, _ => none
  | _ => none

def parseKind (s : String) : Option SKind :=
  match s with | "P" => some .producer | "E" => some .exchange | "B" => some .both | "N" => some .neither | _ => none

def showKind : SKind → String
  | .producer => "P" | .exchange => "E" | .both => "B" | .neither => "N"

def parseMType (s : String) : Option MType :=
  match s with | "u" => some .unary | "p" => some .producer | "e" => some .exchange | "d" => some .dynamic | _ => none

def parseMethods (s : String) : Option (List MethodInfo) :=
  (s.splitOn ",").mapM fun m =>
    match m.splitOn ":" with
    | [n, t, k] => match parseMType t, parseKind k with
      | some ty, some kd => some ⟨bytesOfString n, ty, kd⟩
      | _, _ => none
    | _ => none

def showErr : Err → String
  | .notFound => "not-found" | .unaryMethod => "unary" | .missingState => "missing-state"
  | .malformed => "malformed" | .version g w => s!"version:{g.toNat}:{w.toNat}"
  | .signature => "signature" | .expired => "expired" | .wrongMethod => "wrong-method"
  | .missingCall => "missing-call" | .sessionLost => "session-lost"

def showStatus (status : Nat) (rpcErr : Bool) : String := s!"{status}" ++ (if rpcErr then "e" else "")

def showEv : Ev → String
  | .rehydrate m => "rh:" ++ hexOfBytes m
  | .hookStart m s => "hs:" ++ hexOfBytes m ++ ":" ++ (if s.isEmpty then "rnd" else hexOfBytes s)
  | .hookEnd => "he" | .produce => "produce" | .exchange => "exchange" | .cancel => "cancel"

def showEvents (es : List Ev) : String := if es.isEmpty then "-" else ",".intercalate (es.map showEv)

def showNext : Option CursorData → String
  | none => "-"
  | some d => s!"{hexOfBytes d.callId}:{hexOfBytes d.method}:{showKind d.kind}:{d.count}:{d.limit}"

/-- The compared observation is the DECISION (status, accepted / refused / session lost, the user
code that ran, what was minted) — not the wording or the fine class of a refusal, which the
property does not speak about (so a reworded message is not a difference). -/
def showDecision : Option Err → String
  | none => "ok"
  | some .sessionLost => "session-lost"
  | some _ => "refused"

def showOutcome (o : Outcome) : String :=
  s!"{showStatus o.status o.rpcErr} {showDecision o.err} ev={showEvents o.events} next={showNext o.next}"

/-! ## unary sticky family (`open`, `who`, `close`) and `DELETE /__session__` -/

inductive UOutcome
  | lost                       -- SessionLostError envelope, handler not run
  | session (sid : Option Bytes)   -- `who`: what ctx.SessionID() reports
  | opened                     -- `open`: OpenSession succeeded, VGI-Session minted
  | openRefused                -- `open`: OpenSession returned an error
  | closed (hit : Bool)        -- `close`: CloseSession result
  deriving DecidableEq, Repr

def showU : UOutcome → String
  | .lost => "lost" | .session none => "session -" | .session (some s) => "session " ++ hexOfBytes s
  | .opened => "opened" | .openRefused => "open-refused" | .closed h => if h then "closed 1" else "closed 0"

/-- `who`: the handler reports the session the middleware resumed. -/
def unaryWho (tbl : List SealRec) (inst : Inst) (who : Ident) (hdr : Option Bytes) : UOutcome :=
  match stickyResolve tbl inst who hdr with
  | .error _ => .lost
  | .ok s => .session s

/-- `open`: `CallContext.OpenSession`. `sid` is the id the registry drew. -/
def unaryOpen (tbl : List SealRec) (inst : Inst) (who : Ident) (hdr : Option Bytes) (accept : Bool)
    (sid : Bytes) : Inst × UOutcome :=
  match stickyResolve tbl inst who hdr with
  | .error _ => (inst, .lost)
  | .ok resumed =>
    if !inst.sticky then (inst, .openRefused)
    else if !accept then (inst, .openRefused)
    else if resumed.isSome then (inst, .openRefused)
    else ({ inst with sessions := (sid, identKey who) :: inst.sessions }, .opened)

/-- `close`: `CallContext.CloseSession` on the resumed session. -/
def unaryClose (tbl : List SealRec) (inst : Inst) (who : Ident) (hdr : Option Bytes) : Inst × UOutcome :=
  match stickyResolve tbl inst who hdr with
  | .error _ => (inst, .lost)
  | .ok none => (inst, .closed false)
  | .ok (some sid) =>
    ({ inst with sessions := inst.sessions.filter fun s => decide (s.1 ≠ sid) }, .closed true)

/-- `handleStickyDelete`: 204 on a hit, 200 on every failure. -/
def stickyDelete (tbl : List SealRec) (inst : Inst) (who : Ident) (hdr : Option Bytes) : Inst × Nat :=
  match stickyResolve tbl inst who hdr with
  | .ok (some sid) => ({ inst with sessions := inst.sessions.filter fun s => decide (s.1 ≠ sid) }, 204)
  | _ => (inst, 200)

/-! ## the interpreter -/

def stepInst (w : World) (name : String) (ws : List String) : World × String :=
  match fBytes ws "key", fInt ws "ttl", fInt ws "cache", fBool ws "sticky", fBytes ws "sid",
        fBool ws "rehydrate", fBool ws "hook", (field ws "methods").bind parseMethods with
  | some key, some ttl, some cache, some sticky, some sid, some rh, some hook, some ms =>
    let i : Inst := ⟨key, ttl, cache, [], sticky, sid, [], rh, hook, ms⟩
    (w.setInst name i, "ok normkey=" ++ hexOfBytes (normKey key))
  | _, _, _, _, _, _, _, _ => (w, "bad-op")

def stepInit (w : World) (iname ident method : String) (ws : List String) : World × String :=
  match w.inst? iname, parseIdent ident with
  | some inst, some who =>
    match fNat ws "limit", fOptBytes ws "sess", fInt ws "now" with
    | some limit, some sess, some now =>
      let callId := (fBytes ws "callid").getD []
      let streamId := (fBytes ws "streamid").getD []
      let schema := (fBytes ws "schema").getD []
      let created := (fInt ws "created").getD 0
      let o := initStream w.sealed inst who (bytesOfString method) limit sess callId streamId schema created
      let line := s!"{showStatus o.status o.rpcErr} {match o.err with | none => (if o.mint.isSome then "ok" else "finished") | some e => showDecision (some e)}"
      match o.mint with
      | none => (w, line)
      | some (cd, kd) =>
        -- the environment must report the two tokens the server minted
        match fBytes ws "cur", fBytes ws "call", fBytes ws "callid", fInt ws "created" with
        | some curTok, some callTok, some _, some _ =>
          if !callIdFresh w.sealed (normKey inst.key) cd.callId then (w, "err:callid-reuse") else
          match recordSeal w.sealed inst.key (cursorAad who) false curTok (.cursor cd) with
          | none => (w, "err:seal-cursor")
          | some t1 =>
            match recordSeal t1 inst.key (callAad who) false callTok (.call kd) with
            | none => (w, "err:seal-call")
            | some t2 =>
              -- packCallToken warms the cache
              let c := cachePut inst.cacheMax inst.ttl inst.cache now (cacheKey cd.callId who)
                ⟨kd.schema, kd.streamId⟩ (tokenExpiry inst.ttl kd.created)
              (({ w with sealed := t2 }).setInst iname { inst with cache := c }, line)
        | _, _, _, _ => (w, "bad-op")
    | _, _, _ => (w, "bad-op")
  | _, _ => (w, "bad-op")

def stepCont (w : World) (iname ident method : String) (ws : List String) : World × String :=
  match w.inst? iname, parseIdent ident with
  | some inst, some who =>
    match fOptBytes ws "cur", fOptBytes ws "call", fBool ws "cancel", fOptBytes ws "sess", fInt ws "now" with
    | some cur, some call, some cancel, some sess, some now =>
      let req : Req := ⟨who, bytesOfString method, cur, call, cancel, sess, now⟩
      let (inst', o) := exchange w.sealed inst req
      let w1 := w.setInst iname inst'
      match o.next with
      | none => (w1, showOutcome o)
      | some nd =>
        match fBytes ws "new", fInt ws "ncreated" with
        | some newTok, some ncreated =>
          match recordSeal w1.sealed inst.key (cursorAad who) false newTok (.cursor { nd with created := ncreated }) with
          | some t => ({ w1 with sealed := t }, showOutcome o)
          | none => (w1, "err:seal-next")
        | _, _ => (w1, showOutcome o)     -- the server minted nothing: the outputs will differ
    | _, _, _, _, _ => (w, "bad-op")
  | _, _ => (w, "bad-op")

def stepSeal (w : World) (kind iname ident : String) (ws : List String) : World × String :=
  match w.inst? iname, parseIdent ident, fBytes ws "tok" with
  | some inst, some who, some tok =>
    match kind with
    | "cursor" =>
      match fInt ws "created", fBytes ws "callid", fBytes ws "method", (field ws "skind").bind parseKind,
            fNat ws "count", fNat ws "limit" with
      | some cr, some cid, some m, some k, some cnt, some lim =>
        match recordSeal w.sealed inst.key (cursorAad who) false tok (.cursor ⟨cr, cid, m, k, cnt, lim⟩) with
        | some t => ({ w with sealed := t }, "ok")
        | none => (w, "err:seal")
      | _, _, _, _, _, _ => (w, "bad-op")
    | "call" =>
      match fInt ws "created", fBytes ws "callid", fBytes ws "schema", fBytes ws "streamid" with
      | some cr, some cid, some sc, some sid =>
        match recordSeal w.sealed inst.key (callAad who) false tok (.call ⟨cr, cid, sc, sid⟩) with
        | some t => ({ w with sealed := t }, "ok")
        | none => (w, "err:seal")
      | _, _, _, _ => (w, "bad-op")
    | "session" =>
      match fBytes ws "serverid", fBytes ws "sid" with
      | some srv, some sid =>
        match recordSeal w.sealed inst.key (cursorAad who) true tok (.session ⟨srv, sid⟩) with
        | some t => ({ w with sealed := t }, "ok")
        | none => (w, "err:seal")
      | _, _ => (w, "bad-op")
    | _ => (w, "bad-op")
  | _, _, _ => (w, "bad-op")

def stepSticky (w : World) (op iname ident : String) (ws : List String) : World × String :=
  match w.inst? iname, parseIdent ident, fOptBytes ws "sess" with
  | some inst, some who, some sess =>
    match op with
    | "suse" => (w, showU (unaryWho w.sealed inst who sess))
    | "sclose" =>
      let (i', o) := unaryClose w.sealed inst who sess
      (w.setInst iname i', showU o)
    | "sdel" =>
      let (i', st) := stickyDelete w.sealed inst who sess
      (w.setInst iname i', s!"{st}")
    | "sopen" =>
      match fBool ws "accept" with
      | none => (w, "bad-op")
      | some accept =>
        let sid := (fBytes ws "sid").getD []
        let (i', o) := unaryOpen w.sealed inst who sess accept sid
        match o with
        | .opened =>
          match fBytes ws "tok", fBytes ws "sid" with
          | some tok, some _ =>
            match recordSeal w.sealed inst.key (cursorAad who) true tok (.session ⟨inst.serverId, sid⟩) with
            | some t => (({ w with sealed := t }).setInst iname i', showU o)
            | none => (w, "err:seal-session")
          | _, _ => (w, showU o)      -- the server minted nothing: the outputs will differ
        | _ => (w.setInst iname i', showU o)
    | _ => (w, "bad-op")
  | _, _, _ => (w, "bad-op")

def step (w : World) (ws : List String) : World × String :=
  match ws with
  | "inst" :: name :: rest => stepInst w name rest
  | ["aad", kind, ident] =>
    match parseIdent ident with
    | some who =>
      if kind == "cursor" then (w, hexArg (cursorAad who))
      else if kind == "call" then (w, hexArg (callAad who)) else (w, "bad-op")
    | none => (w, "bad-op")
  | ["ikey", ident] =>
    match parseIdent ident with
    | some who => (w, hexArg (identKey who) ++ " " ++ hexArg (identKey who))
    | none => (w, "bad-op")
  | ["norm", k] =>
    match parseHexArg k with
    | some key => (w, hexArg (normKey key))
    | none => (w, "bad-op")
  | ["advance", n] => if n.toNat?.isSome then (w, "ok") else (w, "bad-op")
  | "init" :: iname :: ident :: method :: rest => stepInit w iname ident method rest
  | "cont" :: iname :: ident :: method :: rest => stepCont w iname ident method rest
  | "seal" :: kind :: iname :: ident :: rest => stepSeal w kind iname ident rest
  | "sopen" :: iname :: ident :: rest => stepSticky w "sopen" iname ident rest
  | "suse" :: iname :: ident :: rest => stepSticky w "suse" iname ident rest
  | "sclose" :: iname :: ident :: rest => stepSticky w "sclose" iname ident rest
  | "sdel" :: iname :: ident :: rest => stepSticky w "sdel" iname ident rest
  | _ => (w, "bad-op")

end Vgi.Token
