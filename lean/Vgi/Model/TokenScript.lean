import Vgi.Model.Token
/-!
World state and line-protocol interpreter shared by the drivers of C12–C15 (one symbolic-token
world, four properties). Every decision is computed by the functions of `Vgi.Token`
(`exchange`, `initStream`, `stickyResolve`, `tokenAad`, …); this file only parses lines, threads
the world, and records the seal events the environment reports (the random nonce / ciphertext /
call id / clock values the real server produced).
-/
namespace Vgi.Token

/-! ## world -/

structure World where
  sealed : List SealRec
  insts : List (String × Inst)
  deriving Repr

def World.empty : World := ⟨[], []⟩

def World.inst? (w : World) (n : String) : Option Inst := (w.insts.find? fun p => p.1 == n).map (·.2)

def World.setInst (w : World) (n : String) (i : Inst) : World :=
  { w with insts := (n, i) :: w.insts.filter fun p => p.1 != n }

/-- A nonce is never reused under one key (192-bit random nonces). The world refuses to record a
seal event that would break this, so `NoncesUnique` is an invariant of every reachable world. -/
def nonceFresh (tbl : List SealRec) (key nonce : Bytes) : Bool :=
  tbl.all fun r => !(decide (r.key = key ∧ r.nonce = nonce))

/-- A call id names one call token per key (128-bit random call ids). -/
def callIdFresh (tbl : List SealRec) (key callId : Bytes) : Bool :=
  tbl.all fun r => match r.pt with
    | .call d => !(decide (r.key = key ∧ d.callId = callId))
    | _ => true

/-- All call tokens sealed under one key for one call id carry the same contents (a call token is
minted once per call; the harness's re-sealing keeps the contents and only draws a new nonce). -/
def callConsistent (tbl : List SealRec) (key : Bytes) (d : CallData) : Bool :=
  tbl.all fun r => match r.pt with
    | .call d' => !(decide (r.key = key ∧ d'.callId = d.callId)) || decide (d' = d)
    | _ => true

/-- Call ids are NUL-free (the server mints 32 hex characters), so the cache key
`callId ‖ 0 ‖ identity` splits unambiguously. -/
def plainOk (tbl : List SealRec) (key : Bytes) : Plain → Bool
  | .cursor d => decide ((0 : UInt8) ∉ d.callId)
  | .call d => decide ((0 : UInt8) ∉ d.callId) && callConsistent tbl key d
  | .session _ => true

/-- Record a seal event: the envelope is taken from the token text the server produced. The
world refuses events that contradict what randomness guarantees (nonce reuse, a second call token
with different contents for the same call id, a call id containing NUL). -/
def recordSeal (tbl : List SealRec) (key aad : Bytes) (session : Bool) (token : Bytes) (pt : Plain) :
    Option (List SealRec) :=
  match (if session then b64Session token else b64Std token) with
  | none => none
  | some raw =>
    match splitEnvelope raw with
    | none => none
    | some env =>
      if nonceFresh tbl (normKey key) env.nonce && plainOk tbl (normKey key) pt then
        some (⟨normKey key, env.nonce, aad, env.ct, pt⟩ :: tbl)
      else none

/-! ## parsing helpers -/

def field (ws : List String) (k : String) : Option String :=
  ws.findSome? fun w => if w.startsWith (k ++ "=") then some (String.ofList (w.toList.drop (k.length + 1))) else none

/-- `-` is "absent", `x<hex>` is a byte string. -/
def optBytes (s : String) : Option (Option Bytes) :=
  if s == "-" then some none else (parseHexArg s).map some

def fOptBytes (ws : List String) (k : String) : Option (Option Bytes) := (field ws k).bind optBytes
def fBytes (ws : List String) (k : String) : Option Bytes := (field ws k).bind parseHexArg
def fInt (ws : List String) (k : String) : Option Int := (field ws k).bind String.toInt?
def fNat (ws : List String) (k : String) : Option Nat := (field ws k).bind String.toNat?
def fBool (ws : List String) (k : String) : Option Bool :=
  match field ws k with | some "1" => some true | some "0" => some false | _ => none

/-- `anon` | `a/x<domain>/x<principal>` (authenticated) | `n/x<domain>/x<principal>` (fields set,
`Authenticated == false`). -/
def parseIdent (s : String) : Option Ident :=
  if s == "anon" then some anon else
  match s.splitOn "/" with
  | [t, d, p] =>
    match parseHexArg d, parseHexArg p with
    | some db, some pb =>
      if t == "a" then some ⟨true, db, pb⟩ else if t == "n" then some ⟨false, db, pb⟩ else none
    | _, _ => none
  | _ => none

def parseKind (s : String) : Option SKind :=
  match s with | "P" => some .producer | "E" => some .exchange | "B" => some .both | "N" => some .neither | _ => none

def showKind : SKind → String
  | .producer => "P" | .exchange => "E" | .both => "B" | .neither => "N"

def parseMType (s : String) : Option MType :=
  match s with | "u" => some .unary | "p" => some .producer | "e" => some .exchange | "d" => some .dynamic | _ => none

def parseMethods (s : String) : Option (List MethodInfo) :=
  (s.splitOn ",").mapM fun m =>
    match m.splitOn ":" with
    | [n, t, k] => match parseMType t, parseKind k with
      | some ty, some kd => some ⟨bytesOfString n, ty, kd, []⟩
      | _, _ => none
    | [n, t, k, i] => match parseMType t, parseKind k with
      | some ty, some kd => some ⟨bytesOfString n, ty, kd, if i == "-" then [] else bytesOfString i⟩
      | _, _ => none
    | _ => none

def showErr : Err → String
  | .notFound => "not-found" | .unaryMethod => "unary" | .missingState => "missing-state"
  | .malformed => "malformed" | .version g w => s!"version:{g.toNat}:{w.toNat}"
  | .signature => "signature" | .expired => "expired" | .wrongMethod => "wrong-method"
  | .missingCall => "missing-call" | .sessionLost => "session-lost" | .badState => "bad-state"

def showStatus (status : Nat) (rpcErr : Bool) : String := s!"{status}" ++ (if rpcErr then "e" else "")

def showEv : Ev → String
  | .rehydrate m => "rh:" ++ hexOfBytes m
  | .hookStart m s => "hs:" ++ hexOfBytes m ++ ":" ++ (if s.isEmpty then "rnd" else hexOfBytes s)
  | .hookEnd => "he" | .produce => "produce" | .exchange seen => "exchange:" ++ String.ofList (seen.map fun b => Char.ofNat b.toNat)
  | .cancel => "cancel"

def showEvents (es : List Ev) : String := if es.isEmpty then "-" else ",".intercalate (es.map showEv)

def showNext : Option CursorData → String
  | none => "-"
  | some d => s!"{hexOfBytes d.callId}:{hexOfBytes d.method}:{showKind d.kind}:{d.count}:{d.limit}"

/-- The compared observation is the DECISION (status, accepted / refused / session lost, the user
code that ran, what was minted) — not the wording or the fine class of a refusal, which the
property does not speak about (so a reworded message is not a difference). -/
def showDecision : Option Err → String
  | none => "ok"
  | some .sessionLost => "session-lost"
  | some _ => "refused"

def showOutcome (o : Outcome) : String :=
  s!"{showStatus o.status o.rpcErr} {showDecision o.err} ev={showEvents o.events} next={showNext o.next}"

/-! ## unary sticky family (`open`, `who`, `close`) and `DELETE /__session__` -/

inductive UOutcome
  | lost                       -- SessionLostError envelope, handler not run
  | session (sid : Option Bytes)   -- `who`: what ctx.SessionID() reports
  | opened                     -- `open`: OpenSession succeeded, VGI-Session minted
  | openRefused                -- `open`: OpenSession returned an error
  | closed (hit : Bool)        -- `close`: CloseSession result
  deriving DecidableEq, Repr

def showU : UOutcome → String
  | .lost => "lost" | .session none => "session -" | .session (some s) => "session " ++ hexOfBytes s
  | .opened => "opened" | .openRefused => "open-refused" | .closed h => if h then "closed 1" else "closed 0"

/-- `who`: the handler reports the session the middleware resumed. -/
def unaryWho (tbl : List SealRec) (inst : Inst) (who : Ident) (hdr : Option Bytes) : UOutcome :=
  match stickyResolve tbl inst who hdr with
  | .error _ => .lost
  | .ok s => .session s

/-- `open`: `CallContext.OpenSession`. `sid` is the id the registry drew. -/
def unaryOpen (tbl : List SealRec) (inst : Inst) (who : Ident) (hdr : Option Bytes) (accept : Bool)
    (sid : Bytes) : Inst × UOutcome :=
  match stickyResolve tbl inst who hdr with
  | .error _ => (inst, .lost)
  | .ok resumed =>
    if !inst.sticky then (inst, .openRefused)
    else if !accept then (inst, .openRefused)
    else if resumed.isSome then (inst, .openRefused)
    else ({ inst with sessions := (sid, identKey who) :: inst.sessions }, .opened)

/-- `close`: `CallContext.CloseSession` on the resumed session. -/
def unaryClose (tbl : List SealRec) (inst : Inst) (who : Ident) (hdr : Option Bytes) : Inst × UOutcome :=
  match stickyResolve tbl inst who hdr with
  | .error _ => (inst, .lost)
  | .ok none => (inst, .closed false)
  | .ok (some sid) =>
    ({ inst with sessions := inst.sessions.filter fun s => decide (s.1 ≠ sid) }, .closed true)

/-- `handleStickyDelete`: 204 on a hit, 200 on every failure. -/
def stickyDelete (tbl : List SealRec) (inst : Inst) (who : Ident) (hdr : Option Bytes) : Inst × Nat :=
  match stickyResolve tbl inst who hdr with
  | .ok (some sid) => ({ inst with sessions := inst.sessions.filter fun s => decide (s.1 ≠ sid) }, 204)
  | _ => (inst, 200)

/-! ## typed commands (what a script line means) and their effect on the world -/

/-- Values the environment reports for an `/init` that minted tokens. -/
structure InitEnv where
  callId : Bytes
  streamId : Bytes
  schema : Bytes
  created : Int
  callCreated : Int
  curTok : Bytes
  callTok : Bytes
  deriving Repr

inductive StickyOp | suse | sclose | sdel | sopen
  deriving DecidableEq, Repr

inductive Cmd
  /-- create / replace a server instance -/
  | inst (name : String) (i : Inst)
  /-- `SetTokenTTL(d)`: new TTL, and the call-state cache is REBUILT at the default size (entries
  dropped), so no entry cached under the old TTL can outlive a token under the new one -/
  | setTtl (name : String) (ttl : Int)
  /-- `SetCallStateCacheEntries(n)`: a fresh, empty cache of capacity `n` -/
  | setCache (name : String) (max : Int)
  /-- a pure question about the byte-level functions (answer computed while parsing) -/
  | query (answer : String)
  /-- POST /{method}/init -/
  | init (iname : String) (who : Ident) (method : Bytes) (limit : Nat) (sess : Option Bytes) (now : Int)
      (env : Option InitEnv)
  /-- POST /{method}/exchange; `env` = (text of the cursor the server minted, its CreatedAt) -/
  | cont (iname : String) (req : Req) (env : Option (Bytes × Int))
  /-- a seal event reported by the environment (hook-minted or re-sealed token) -/
  | seal (iname : String) (aad : Bytes) (session : Bool) (tok : Bytes) (pt : Plain)
  /-- the unary sticky family and DELETE /__session__; `env` = (session id drawn, token text minted) -/
  | sticky (op : StickyOp) (iname : String) (who : Ident) (sess : Option Bytes) (accept : Bool)
      (env : Option (Bytes × Bytes))
  deriving Repr

def applyInit (w : World) (iname : String) (who : Ident) (method : Bytes) (limit : Nat)
    (sess : Option Bytes) (now : Int) (env : Option InitEnv) : World × String :=
  match w.inst? iname with
  | none => (w, "bad-op")
  | some inst =>
    let e : InitEnv := env.getD ⟨[], [], [], 0, 0, [], []⟩
    let o := initStream w.sealed inst who method limit sess e.callId e.streamId e.schema e.created e.callCreated
    let line := s!"{showStatus o.status o.rpcErr} {match o.err with | none => (if o.mint.isSome then "ok" else "finished") | some er => showDecision (some er)}"
    match o.mint with
    | none => (w, line)
    | some (cd, kd) =>
      match env with
      | none => (w, "bad-op")      -- the model mints but the environment reported no tokens
      | some e =>
        if !callIdFresh w.sealed (normKey inst.key) cd.callId then (w, "err:callid-reuse") else
        match recordSeal w.sealed inst.key (cursorAad who) false e.curTok (.cursor cd) with
        | none => (w, "err:seal-cursor")
        | some t1 =>
          match recordSeal t1 inst.key (callAad who) false e.callTok (.call kd) with
          | none => (w, "err:seal-call")
          | some t2 =>
            -- packCallToken warms the cache
            let c := cachePut inst.cacheMax inst.ttl inst.cache now (cacheKey cd.callId who)
              kd.resolved (tokenExpiry inst.ttl kd.created)
            (({ w with sealed := t2 }).setInst iname { inst with cache := c }, line)

def applyCont (w : World) (iname : String) (req : Req) (env : Option (Bytes × Int)) : World × String :=
  match w.inst? iname with
  | none => (w, "bad-op")
  | some inst =>
    let r := exchange w.sealed inst req
    let w1 := w.setInst iname r.1
    match r.2.next, env with
    | some nd, some (newTok, ncreated) =>
      match recordSeal w.sealed inst.key (cursorAad req.who) false newTok (.cursor { nd with created := ncreated }) with
      | some t => ({ w1 with sealed := t }, showOutcome r.2)
      | none => (w1, "err:seal-next")
    | _, _ => (w1, showOutcome r.2)     -- nothing minted (if only one side thinks so, the outputs differ)

def applySeal (w : World) (iname : String) (aad : Bytes) (session : Bool) (tok : Bytes) (pt : Plain) :
    World × String :=
  match w.inst? iname with
  | none => (w, "bad-op")
  | some inst =>
    match recordSeal w.sealed inst.key aad session tok pt with
    | some t => ({ w with sealed := t }, "ok")
    | none => (w, "err:seal")

def applySticky (w : World) (op : StickyOp) (iname : String) (who : Ident) (sess : Option Bytes)
    (accept : Bool) (env : Option (Bytes × Bytes)) : World × String :=
  match w.inst? iname with
  | none => (w, "bad-op")
  | some inst =>
    match op with
    | .suse => (w, showU (unaryWho w.sealed inst who sess))
    | .sclose =>
      let r := unaryClose w.sealed inst who sess
      (w.setInst iname r.1, showU r.2)
    | .sdel =>
      let r := stickyDelete w.sealed inst who sess
      (w.setInst iname r.1, s!"{r.2}")
    | .sopen =>
      let sid := (env.map (·.1)).getD []
      let r := unaryOpen w.sealed inst who sess accept sid
      match r.2, env with
      | .opened, some (_, tok) =>
        match recordSeal w.sealed inst.key (cursorAad who) true tok (.session ⟨inst.serverId, sid⟩) with
        | some t => (({ w with sealed := t }).setInst iname r.1, showU r.2)
        | none => (w, "err:seal-session")
      | .opened, none => (w, showU r.2)      -- the server minted nothing: the outputs will differ
      | _, _ => (w.setInst iname r.1, showU r.2)

/-- `defaultCallStateCacheEntries` -/
def defaultCacheEntries : Int := 4096

def applyReconf (w : World) (name : String) (f : Inst → Inst) : World × String :=
  match w.inst? name with
  | none => (w, "bad-op")
  | some inst => (w.setInst name { f inst with cache := [] }, "ok")

def apply (w : World) : Cmd → World × String
  | .inst name i => (w.setInst name { i with cache := [] }, "ok normkey=" ++ hexOfBytes (normKey i.key))
  | .setTtl name ttl => applyReconf w name fun i => { i with ttl := ttl, cacheMax := defaultCacheEntries }
  | .setCache name max => applyReconf w name fun i => { i with cacheMax := max }
  | .query a => (w, a)
  | .init iname who method limit sess now env => applyInit w iname who method limit sess now env
  | .cont iname req env => applyCont w iname req env
  | .seal iname aad session tok pt => applySeal w iname aad session tok pt
  | .sticky op iname who sess accept env => applySticky w op iname who sess accept env

/-! ## parsing -/

def parseInst (name : String) (ws : List String) : Option Cmd :=
  match fBytes ws "key", fInt ws "ttl", fInt ws "cache", fBool ws "sticky", fBytes ws "sid",
        fBool ws "rehydrate", fBool ws "hook", (field ws "methods").bind parseMethods with
  | some key, some ttl, some cache, some sticky, some sid, some rh, some hook, some ms =>
    some (.inst name ⟨key, ttl, cache, [], sticky, sid, [], rh, hook, ms⟩)
  | _, _, _, _, _, _, _, _ => none

def parseInitEnv (ws : List String) : Option InitEnv :=
  match fBytes ws "callid", fBytes ws "streamid", fBytes ws "schema", fInt ws "created", fInt ws "kcreated",
        fBytes ws "cur", fBytes ws "call" with
  | some a, some b, some c, some d, some k, some e, some f => some ⟨a, b, c, d, k, e, f⟩
  | _, _, _, _, _, _, _ => none

def parseInit (iname ident method : String) (ws : List String) : Option Cmd :=
  match parseIdent ident, fNat ws "limit", fOptBytes ws "sess", fInt ws "now" with
  | some who, some limit, some sess, some now =>
    some (.init iname who (bytesOfString method) limit sess now (parseInitEnv ws))
  | _, _, _, _ => none

def parseCont (iname ident method : String) (ws : List String) : Option Cmd :=
  match parseIdent ident, fOptBytes ws "cur", fOptBytes ws "call", fBool ws "cancel", fOptBytes ws "sess", fInt ws "now" with
  | some who, some cur, some call, some cancel, some sess, some now =>
    let env := match fBytes ws "new", fInt ws "ncreated" with
      | some t, some c => some (t, c)
      | _, _ => none
    -- externalized continuation: tokens on the pointer batch (cur/call) and on the uploaded batch (xcur/xcall)
    let ext := (fBool ws "ext").getD false
    let xcur := ((fOptBytes ws "xcur").getD none)
    let xcall := ((fOptBytes ws "xcall").getD none)
    let eff := effectiveTokens ext cancel cur call xcur xcall
    some (.cont iname ⟨who, bytesOfString method, eff.1, eff.2, cancel, sess, now, bytesOfString ((field ws "in").getD "")⟩ env)
  | _, _, _, _, _, _ => none

def parseSeal (kind iname ident : String) (ws : List String) : Option Cmd :=
  match parseIdent ident, fBytes ws "tok" with
  | some who, some tok =>
    match kind with
    | "cursor" =>
      match fInt ws "created", fBytes ws "callid", fBytes ws "method", (field ws "skind").bind parseKind,
            fNat ws "count", fNat ws "limit" with
      | some cr, some cid, some m, some k, some cnt, some lim =>
        some (.seal iname (cursorAad who) false tok (.cursor ⟨cr, cid, m, k, cnt, lim⟩))
      | _, _, _, _, _, _ => none
    | "call" =>
      match fInt ws "created", fBytes ws "callid", fBytes ws "schema", fBytes ws "streamid" with
      | some cr, some cid, some sc, some sid =>
        let ins := match field ws "insch" with | some "-" => "" | some t => t | none => ""
        some (.seal iname (callAad who) false tok (.call ⟨cr, cid, sc, sid, bytesOfString ins⟩))
      | _, _, _, _ => none
    | "session" =>
      match fBytes ws "serverid", fBytes ws "sid" with
      | some srv, some sid => some (.seal iname (cursorAad who) true tok (.session ⟨srv, sid⟩))
      | _, _ => none
    | _ => none
  | _, _ => none

def parseSticky (op : StickyOp) (iname ident : String) (ws : List String) : Option Cmd :=
  match parseIdent ident, fOptBytes ws "sess" with
  | some who, some sess =>
    let env := match fBytes ws "sid", fBytes ws "tok" with
      | some a, some b => some (a, b)
      | _, _ => none
    match op with
    | .sopen => (fBool ws "accept").map fun acc => .sticky op iname who sess acc env
    | _ => some (.sticky op iname who sess false none)
  | _, _ => none

def parse (ws : List String) : Option Cmd :=
  match ws with
  | "inst" :: name :: rest => parseInst name rest
  | ["aad", kind, ident] =>
    match parseIdent ident with
    | some who =>
      if kind == "cursor" then some (.query (hexArg (cursorAad who)))
      else if kind == "call" then some (.query (hexArg (callAad who))) else none
    | none => none
  | ["ikey", ident] => (parseIdent ident).map fun who => .query (hexArg (identKey who) ++ " " ++ hexArg (identKey who))
  | ["norm", k] => (parseHexArg k).map fun key => .query (hexArg (normKey key))
  | ["advance", n] => if n.toNat?.isSome then some (.query "ok") else none
  | ["setttl", name, t] => t.toInt?.map fun ttl => .setTtl name ttl
  | ["setcache", name, n] => n.toInt?.map fun m => .setCache name m
  | "init" :: iname :: ident :: method :: rest => parseInit iname ident method rest
  | "cont" :: iname :: ident :: method :: rest => parseCont iname ident method rest
  | "seal" :: kind :: iname :: ident :: rest => parseSeal kind iname ident rest
  | "sopen" :: iname :: ident :: rest => parseSticky .sopen iname ident rest
  | "suse" :: iname :: ident :: rest => parseSticky .suse iname ident rest
  | "sclose" :: iname :: ident :: rest => parseSticky .sclose iname ident rest
  | "sdel" :: iname :: ident :: rest => parseSticky .sdel iname ident rest
  | _ => none

/-- One driver line. -/
def step (w : World) (ws : List String) : World × String :=
  match parse ws with
  | none => (w, "bad-op")
  | some c => apply w c

/-- A history is a list of commands; `run` is what the driver computes line by line. -/
def run (w : World) (cs : List Cmd) : World := cs.foldl (fun w c => (apply w c).1) w

end Vgi.Token
