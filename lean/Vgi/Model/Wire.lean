import Vgi.Util
/-!
Abstract Arrow-IPC syntax and the wire helpers of `vgirpc/wire.go` (`ReadRequest`) and
`vgirpc/wire_intermediary.go` (`WriteRequest`, `FindStreamTokens`, `FindProtocolVersion`,
`ReadUnaryResult`, `WriteUnaryResult`), plus `writeStateTokenBatch` (`wire.go`).

arrow-go's IPC writer/reader is the trusted bridge between real bytes and this syntax: a *body*
is the list of IPC streams an `ipc.Reader` walk finds in it. The code under test never sees the
abstract form, the model never sees bytes.

Used by C01 (helpers are mutually inverse) and by C02/C03 (`Vgi.Model.PipeSession`, whose
`serveOne` starts with `readRequestStream`).
-/
namespace Vgi.Wire

/-- Custom metadata of a record batch: ordered key/value list, duplicates allowed (arrow
`Metadata` keeps both slices as written). -/
abbrev Meta := List (Bytes × Bytes)

/-- `arrow.Metadata.GetValue`: the FIRST entry with that key. -/
def Meta.get : Meta → Bytes → Option Bytes
  | [], _ => none
  | (k', v) :: r, k => if k' = k then some v else Meta.get r k

/-- Lookup in the `map[string]string` `ReadRequest` builds by assigning the entries in order:
the LAST entry with that key wins. -/
def Meta.getLast (m : Meta) (k : Bytes) : Option Bytes := Meta.get m.reverse k

structure Field where
  name : Bytes
  ty : Bytes          -- arrow type string (`DataType.String()`), e.g. "int64", "binary"
  nullable : Bool
  deriving DecidableEq, Repr

/-- `arrow.Schema` up to `Schema.Equal` (order, name, type, nullability; schema metadata ignored). -/
abbrev Schema := List Field

structure Batch where
  rows : Nat
  md : Meta
  /-- canonical rendering of row 0, one cell per column (`[]` when there is no row 0) -/
  cells : List Bytes
  deriving DecidableEq, Repr

/-- One IPC stream as an `ipc.Reader` sees it: the schema message, the record batches `Next`
yields, and whether `Err()` is non-nil once `Next` returned false (`broken`: truncated or corrupt
after these batches; a clean EOS or a clean end of input have `broken = false`). -/
structure Stream where
  schema : Schema
  batches : List Batch
  broken : Bool
  deriving DecidableEq, Repr

/-- A byte string as a walk of `ipc.NewReader` calls sees it: the streams that open, and whether
bytes that do not open as a stream remain after them (`junk`). Nothing can be said about what
follows a broken stream, so a broken stream is always the last one of a body. -/
structure Body where
  streams : List Stream
  junk : Bool
  deriving DecidableEq, Repr

/-! ### Well-known keys (`metadata.go`; `Vgi.Generated.C01` re-derives them from the source) -/

/-- `"vgi_rpc.method"` -/
def kMethod : Bytes := [0x76, 0x67, 0x69, 0x5f, 0x72, 0x70, 0x63, 0x2e, 0x6d, 0x65, 0x74, 0x68, 0x6f, 0x64]
/-- `"vgi_rpc.request_version"` -/
def kRequestVersion : Bytes := [0x76, 0x67, 0x69, 0x5f, 0x72, 0x70, 0x63, 0x2e, 0x72, 0x65, 0x71, 0x75, 0x65, 0x73, 0x74, 0x5f, 0x76, 0x65, 0x72, 0x73, 0x69, 0x6f, 0x6e]
/-- `"vgi_rpc.request_id"` -/
def kRequestId : Bytes := [0x76, 0x67, 0x69, 0x5f, 0x72, 0x70, 0x63, 0x2e, 0x72, 0x65, 0x71, 0x75, 0x65, 0x73, 0x74, 0x5f, 0x69, 0x64]
/-- `"vgi_rpc.log_level"` -/
def kLogLevel : Bytes := [0x76, 0x67, 0x69, 0x5f, 0x72, 0x70, 0x63, 0x2e, 0x6c, 0x6f, 0x67, 0x5f, 0x6c, 0x65, 0x76, 0x65, 0x6c]
/-- `"vgi_rpc.stream_state#b64"` -/
def kStreamState : Bytes := [0x76, 0x67, 0x69, 0x5f, 0x72, 0x70, 0x63, 0x2e, 0x73, 0x74, 0x72, 0x65, 0x61, 0x6d, 0x5f, 0x73, 0x74, 0x61, 0x74, 0x65, 0x23, 0x62, 0x36, 0x34]
/-- `"vgi_rpc.call_state#b64"` -/
def kCallState : Bytes := [0x76, 0x67, 0x69, 0x5f, 0x72, 0x70, 0x63, 0x2e, 0x63, 0x61, 0x6c, 0x6c, 0x5f, 0x73, 0x74, 0x61, 0x74, 0x65, 0x23, 0x62, 0x36, 0x34]
/-- `"vgi_rpc.cancel"` -/
def kCancel : Bytes := [0x76, 0x67, 0x69, 0x5f, 0x72, 0x70, 0x63, 0x2e, 0x63, 0x61, 0x6e, 0x63, 0x65, 0x6c]
/-- `"vgi_rpc.shm_offset"` -/
def kShmOffset : Bytes := [0x76, 0x67, 0x69, 0x5f, 0x72, 0x70, 0x63, 0x2e, 0x73, 0x68, 0x6d, 0x5f, 0x6f, 0x66, 0x66, 0x73, 0x65, 0x74]
/-- `"vgi_rpc.location"` -/
def kLocation : Bytes := [0x76, 0x67, 0x69, 0x5f, 0x72, 0x70, 0x63, 0x2e, 0x6c, 0x6f, 0x63, 0x61, 0x74, 0x69, 0x6f, 0x6e]
/-- `"vgi_rpc.protocol_version"` -/
def kProtocolVersion : Bytes := [0x76, 0x67, 0x69, 0x5f, 0x72, 0x70, 0x63, 0x2e, 0x70, 0x72, 0x6f, 0x74, 0x6f, 0x63, 0x6f, 0x6c, 0x5f, 0x76, 0x65, 0x72, 0x73, 0x69, 0x6f, 0x6e]
/-- `ProtocolVersion = "1"` (the request framing version) -/
def protocolVersion : Bytes := [0x31]
/-- `"EXCEPTION"` -/
def levelException : Bytes := [0x45, 0x58, 0x43, 0x45, 0x50, 0x54, 0x49, 0x4f, 0x4e]
/-- `"result"` -/
def nameResult : Bytes := [0x72, 0x65, 0x73, 0x75, 0x6c, 0x74]
/-- `"binary"` (`arrow.BinaryTypes.Binary.String()`) -/
def tyBinary : Bytes := [0x62, 0x69, 0x6e, 0x61, 0x72, 0x79]

/-! ### `unicode/utf8.ValidString` (RFC 3629: shortest form, no surrogates, ≤ U+10FFFF) -/

def isCont (b : UInt8) : Bool := 0x80 ≤ b && b ≤ 0xBF

def validUtf8 : Bytes → Bool
  | [] => true
  | b0 :: r0 =>
    if b0 < 0x80 then validUtf8 r0
    else match r0 with
      | [] => false
      | b1 :: r1 =>
        if 0xC2 ≤ b0 && b0 ≤ 0xDF then isCont b1 && validUtf8 r1
        else match r1 with
          | [] => false
          | b2 :: r2 =>
            if b0 == 0xE0 then (0xA0 ≤ b1 && b1 ≤ 0xBF) && isCont b2 && validUtf8 r2
            else if (0xE1 ≤ b0 && b0 ≤ 0xEC) || b0 == 0xEE || b0 == 0xEF then
              isCont b1 && isCont b2 && validUtf8 r2
            else if b0 == 0xED then (0x80 ≤ b1 && b1 ≤ 0x9F) && isCont b2 && validUtf8 r2
            else match r2 with
              | [] => false
              | b3 :: r3 =>
                if b0 == 0xF0 then (0x90 ≤ b1 && b1 ≤ 0xBF) && isCont b2 && isCont b3 && validUtf8 r3
                else if 0xF1 ≤ b0 && b0 ≤ 0xF3 then isCont b1 && isCont b2 && isCont b3 && validUtf8 r3
                else if b0 == 0xF4 then (0x80 ≤ b1 && b1 ≤ 0x8F) && isCont b2 && isCont b3 && validUtf8 r3
                else false

/-! ### `ReadRequest` -/

/-- `IsShmPointerBatch` (`shm.go`): zero rows, carries `vgi_rpc.shm_offset`, is not a log batch. -/
def isShmPointer (b : Batch) : Bool :=
  b.rows == 0 && (b.md.get kShmOffset).isSome && (b.md.get kLogLevel).isNone

inductive RpcTy
  | protocolError | versionError
  deriving DecidableEq, Repr

def RpcTy.name : RpcTy → String
  | .protocolError => "ProtocolError"
  | .versionError => "VersionError"

/-- What `ReadRequest` returns besides a request: `io.EOF`, a wrapped transport error, or a typed
`*RpcError`. There is no fourth outcome. -/
inductive ReadErr
  | eof | transport | rpc (ty : RpcTy)
  deriving DecidableEq, Repr

structure Request where
  method : Bytes
  version : Bytes
  requestId : Bytes
  logLevel : Bytes
  schema : Schema
  batch : Batch
  deriving DecidableEq, Repr

/-- `Request.Metadata[k]` (the map built from the batch metadata). -/
def Request.metaMap (r : Request) (k : Bytes) : Option Bytes := r.batch.md.getLast k

/-- `ReadRequest` once `ipc.NewReader` has opened the stream: first batch, drain to EOS (errors
while draining are ignored), then validate in this order: method present, method valid UTF-8,
version present, version = "1", row count (exempt: empty schema, external-location and
shared-memory pointer batches). -/
def readRequestStream (s : Stream) : Except ReadErr Request :=
  match s.batches with
  | [] => if s.broken then .error .transport else .error .eof
  | b :: _ =>
    match b.md.get kMethod with
    | none => .error (.rpc .protocolError)
    | some m =>
      if !validUtf8 m then .error (.rpc .protocolError)
      else match b.md.get kRequestVersion with
        | none => .error (.rpc .versionError)
        | some v =>
          if v ≠ protocolVersion then .error (.rpc .versionError)
          else
            let isExternal := (b.md.get kLocation).isSome
            if s.schema.length > 0 && b.rows != 1 && !isExternal && !isShmPointer b then
              .error (.rpc .protocolError)
            else
              .ok { method := m, version := v,
                    requestId := (b.md.get kRequestId).getD [],
                    logLevel := (b.md.get kLogLevel).getD [],
                    schema := s.schema, batch := b }

/-- `ReadRequest(r)` on a body: `ipc.NewReader` fails on empty or junk input (wrapped transport
error, never a bare `io.EOF`); otherwise only the first stream is read. -/
def readRequest (b : Body) : Except ReadErr Request :=
  match b.streams with
  | [] => .error .transport
  | s :: _ => readRequestStream s

/-! ### `WriteRequest` -/

/-- A parameter batch handed to `WriteRequest`; metadata already attached to it is not carried. -/
structure Params where
  schema : Schema
  rows : Nat
  cells : List Bytes
  deriving DecidableEq, Repr

def requestMeta (method pv : Bytes) : Meta :=
  [(kMethod, method), (kRequestVersion, protocolVersion)] ++
    (if pv ≠ [] then [(kProtocolVersion, pv)] else [])

def writeRequest (method : Bytes) (p : Params) (pv : Bytes) : Stream :=
  { schema := p.schema,
    batches := [{ rows := p.rows, md := requestMeta method pv, cells := p.cells }],
    broken := false }

/-! ### `FindStreamTokens`, `FindProtocolVersion` -/

/-- `writeStateTokenBatch`: the zero-row sentinel carrying the cursor and, only when non-empty,
the call token. -/
def stateTokenBatch (token callToken : Bytes) : Batch :=
  { rows := 0,
    md := [(kStreamState, token)] ++ (if callToken ≠ [] then [(kCallState, callToken)] else []),
    cells := [] }

def nonEmpty? (o : Option Bytes) : Option Bytes :=
  match o with
  | some v => if v ≠ [] then some v else none
  | none => none

/-- The batch loop of `scanStreamForTokens`: `call` is the call token found so far in this stream.
Returns `(cursor, call)`; stops at the first batch carrying a non-empty cursor. -/
def scanBatches : List Batch → Option Bytes → Option Bytes × Option Bytes
  | [], call => (none, call)
  | b :: rest, call =>
    let call' := match call with
      | some c => some c
      | none => nonEmpty? (b.md.get kCallState)
    match nonEmpty? (b.md.get kStreamState) with
    | some t => (some t, call')
    | none => scanBatches rest call'

/-- `scanStreamForTokens`: `(cursor, call, err ≠ nil)`. -/
def scanStream (s : Stream) : Option Bytes × Option Bytes × Bool :=
  match scanBatches s.batches none with
  | (some t, c) => (some t, c, false)
  | (none, c) => (none, c, s.broken)

/-- The stream walk of `FindStreamTokens` (`call` = call token kept from earlier streams). -/
def findTokensFrom : List Stream → Option Bytes → Option Bytes × Option Bytes
  | [], call => (none, call)
  | s :: rest, call =>
    match scanStream s with
    | (st, c, err) =>
      let call' := match call with
        | some x => some x
        | none => c
      match st with
      | some t => (some t, call')
      | none => if err then (none, call') else findTokensFrom rest call'

/-- `FindStreamTokens(data)`; junk after the last stream only ends the walk. -/
def findStreamTokens (b : Body) : Option Bytes × Option Bytes := findTokensFrom b.streams none

def findPvBatches : List Batch → Bytes
  | [] => []
  | b :: rest =>
    match nonEmpty? (b.md.get kProtocolVersion) with
    | some v => v
    | none => findPvBatches rest

/-- `FindProtocolVersion(data)`: first stream only, first batch carrying a non-empty value. -/
def findProtocolVersion (b : Body) : Bytes :=
  match b.streams with
  | [] => []
  | s :: _ => findPvBatches s.batches

/-! ### `ReadUnaryResult`, `WriteUnaryResult` -/

def fieldIndex (name : Bytes) : Schema → Nat → Option Nat
  | [], _ => none
  | f :: r, i => if f.name = name then some i else fieldIndex name r (i + 1)

/-- The batch loop of `ReadUnaryResult`: the first batch with rows decides (needs a `result`
column of arrow type `binary`); zero-row batches are skipped only when they carry a log level
other than EXCEPTION. -/
def readUnaryBatches (sch : Schema) : List Batch → Option (Schema × Bytes)
  | [] => none
  | b :: rest =>
    if b.rows > 0 then
      match fieldIndex nameResult sch 0 with
      | none => none
      | some i =>
        match sch[i]?, b.cells[i]? with
        | some f, some c => if f.ty = tyBinary then some (sch, c) else none
        | _, _ => none
    else
      match b.md.get kLogLevel with
      | some lvl => if lvl ≠ levelException then readUnaryBatches sch rest else none
      | none => none

def readUnaryResult (b : Body) : Option (Schema × Bytes) :=
  match b.streams with
  | [] => none
  | s :: _ => readUnaryBatches s.schema s.batches

/-- `WriteUnaryResult`'s guard: the envelope must be a single binary field. -/
def singleBinaryField (sch : Schema) : Bool :=
  match sch with
  | [f] => f.ty == tyBinary
  | _ => false

/-- `WriteUnaryResult`: `none` is its "envelope must be a single binary field" error. -/
def writeUnaryResult (sch : Schema) (result : Bytes) : Option Stream :=
  if singleBinaryField sch then
    some { schema := sch, batches := [{ rows := 1, md := [], cells := [result] }], broken := false }
  else none

end Vgi.Wire
