import Vgi.Model.Shm
namespace Vgi.Drive.C34
open Vgi Vgi.Shm

def fnv1a64 (bs : Bytes) : UInt64 :=
  bs.foldl (fun h b => (h ^^^ b.toUInt64) * 0x100000001b3) 0xcbf29ce484222325

/-- Live header bytes as hex; for large tables a checksum of the same bytes (keeps lines short). -/
def hdr (s : Seg) : String :=
  if s.table.length ≤ 64 then hexArg (encodeHeader s)
  else s!"fnv:{(fnv1a64 (encodeHeader s)).toNat}:{s.table.length}"

def fillLoop (sz : Int) : Nat → Seg → Nat → Seg × Nat
  | 0, s, ok => (s, ok)
  | n + 1, s, ok => match allocate s sz with
    | some (_, s') => fillLoop sz n s' (ok + 1)
    | none => fillLoop sz n s ok

def showTable (t : Table) : String :=
  ",".intercalate (t.map fun e => s!"{e.1}:{e.2}")

def step (st : Option Seg) (ws : List String) : Option Seg × String :=
  match st, ws with
  | _, ["new", n] => match n.toNat? with
    | some k => let s := create k; (some s, "ok " ++ hdr s)
    | none => (st, "bad-op")
  | none, _ => (none, "err:no-segment")
  | some s, ["alloc", n] => match n.toInt? with
    | some k => match allocate s k with
      | some (o, s') => (some s', s!"ok {o} {hdr s'}")
      | none => (some s, "fail " ++ hdr s)
    | none => (st, "bad-op")
  | some s, ["allocw", _rows, est, tot] => match est.toInt?, tot.toInt? with
    | some e, some t => match allocateAndWrite s e t with
      | some (o, s') => (some s', s!"ok {o} {t} {hdr s'}")
      | none => (some s, "fail " ++ hdr s)
    | _, _ => (st, "bad-op")
  | some s, ["fill", n, sz] => match n.toNat?, sz.toInt? with
    | some k, some z => let (s', ok) := fillLoop z k s 0; (some s', s!"filled {ok} {hdr s'}")
    | _, _ => (st, "bad-op")
  | some s, ["free", n] => match n.toNat? with
    | some k => match free s k with
      | some s' => (some s', "ok " ++ hdr s')
      | none => (some s, "err " ++ hdr s)
    | none => (st, "bad-op")
  | some s, ["reset"] => let s' := reset s; (some s', "ok " ++ hdr s')
  | some s, ["attachsz", d] => match d.toInt? with
    -- validateHeader: the header's data_size must equal the attacher's mapping size minus the header
    | some k => (st, s!"attach-ok={validateAttach (encodeHeader s) (Int.toNat (s.size + k))}")
    | none => (st, "bad-op")
  | some s, ["attach"] =>
    -- another process decodes the live header bytes
    match decodeHeader (encodeHeader s) with
    | some s' => (st, s!"table {showTable s'.table} valid={decide (s'.size = s.size)}")
    | none => (st, "table valid=false")
  | _, _ => (st, "bad-op")

def drive : IO Unit := driveLoop (none : Option Seg) step

end Vgi.Drive.C34

def main : IO Unit := Vgi.Drive.C34.drive
