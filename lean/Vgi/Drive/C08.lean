import Vgi.Model.Values
import Vgi.Drive.ValuesIO
/-!
Line protocol for C08 (one struct type + one value per line):

  sc <type>                    derive the schema               -> schema=<S> | err:derive
  rt <type> | <value>          serialize, then deserialize     -> schema=<S> wire=<W> back=<V>
                                                                | err:derive | schema=<S> err:encode
                                                                | schema=<S> wire=<W> err:decode
  wr <type> | <cells>          a batch with these wire cells is deserialized, the result serialized again
                                                               -> schema=<S> back=<V> wire=<W>
                                                                | … err:decode | … err:encode

Type tokens (prefix notation): i8 i16 i32 i64 int u8 u16 u32 u64 uint f32 f64 bool str time dur
bytes | ptr T | sl T | map K V | st <n> (x<vgirpc tag hex> x<arrow tag hex> T)*n.
Value tokens follow the type: nil | i:<int> | g:<f32 bits hex> | f:<f64 bits hex> | b:0|1 |
s:<hex> | y:<hex> | t:<sec>:<nsec> | d:<ns> | l:<n> v*n | m:<n> (k v)*n | r v*fields.
Cell tokens follow the derived Arrow type: N | i:<int> | g:/f:<bits> | b:0|1 | s:<hex> | y:<hex> |
l:<n> c*n | m:<n> (k c)*n | r c*children.
-/
namespace Vgi.Drive.C08
open Vgi Vgi.Values Vgi.Drive.ValuesIO

def runRt (fs : GoFields) (d : Except Err AFields) (vals : SFields) : String :=
  match d with
  | .error .unmodelled => "bad-op"
  | .error e => errStr e
  | .ok afs =>
    let sch := "schema=" ++ showAFields afs
    match encodeTop afs vals with
    | .error .unmodelled => "bad-op"
    | .error e => sch ++ " " ++ errStr e
    | .ok cells =>
      let w := sch ++ " wire=(" ++ showCFields cells ++ ")"
      match decodeTop fs cells with
      | .error .unmodelled => "bad-op"
      | .error e => w ++ " " ++ errStr e
      | .ok back => w ++ " back=(" ++ showSFields back ++ ")"

def runWr (fs : GoFields) (afs : AFields) (cells : CFields) : String :=
  let sch := "schema=" ++ showAFields afs
  match decodeTop fs cells with
  | .error .unmodelled => "bad-op"
  | .error e => sch ++ " " ++ errStr e
  | .ok back =>
    let b := sch ++ " back=(" ++ showSFields back ++ ")"
    match encodeTop afs back with
    | .error .unmodelled => "bad-op"
    | .error e => b ++ " " ++ errStr e
    | .ok cells' => b ++ " wire=(" ++ showCFields cells' ++ ")"

/-- The uncached walk for a type given by its tokens (`buildStructDesc`). -/
def buildDesc (toks : List String) : Except Err AFields :=
  match parseTy toks with
  | some (.struct fs, []) => deriveFields fs 0
  | _ => .error .unmodelled

/-- The memo table (`structDescCache`), keyed by the type's tokens; kept across the lines of a case. -/
abbrev Cache := List (List String × Except Err AFields)

partial def step (st : Cache) (ws : List String) : Cache × String :=
  match ws with
  | "sc" :: r => match parseTy r with
    | some (.struct _, []) =>
      let (st', d) := describe buildDesc st r
      match d with
      | .ok afs => (st', "schema=" ++ showAFields afs)
      | .error e => (st', errStr e)
    | _ => (st, "bad-op")
  | "rt" :: r =>
    let (tt, vt) := splitBar r
    match parseTy tt with
    | some (.struct fs, []) => match parseVal (.struct fs) vt with
      | some (.struct vals, []) =>
        let (st', d) := describe buildDesc st tt
        (st', runRt fs d vals)
      | _ => (st, "bad-op")
    | _ => (st, "bad-op")
  | "cc" :: r => step st ("rt" :: r)      -- concurrent first use: the settled result is an ordinary round trip
  | "rth" :: r => step st ("rt" :: r)     -- a member of a history: an independent round trip
  | "wrx" :: r => step st ("wr" :: r)
  | "wr" :: r =>
    let (tt, ct) := splitBar r
    match parseTy tt with
    | some (.struct fs, []) =>
      let (st', d) := describe buildDesc st tt
      match d with
      | .error e => (st', errStr e)
      | .ok afs => match parseCFields afs ct with
        | some (cells, []) => (st', runWr fs afs cells)
        | _ => (st', "bad-op")
    | _ => (st, "bad-op")
  | _ => (st, "bad-op")

def drive : IO Unit := driveLoop ([] : Cache) step

end Vgi.Drive.C08

def main : IO Unit := Vgi.Drive.C08.drive
