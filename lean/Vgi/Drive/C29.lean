import Vgi.Model.Sticky
/-!
Line-protocol driver for C29. Every script line is mapped to a sequence of `Vgi.Sticky.step`
actions (the same function the theorems are about); the driver only schedules them ("run thread t
until it has to wait") and prints what the harness can observe on the real server.

Time is abstract: one tick = 10 s of TTL/ageing, `now = aged·TICK + line counter` (the real run
of a case stays far below one tick, so orderings agree; see the harness).
-/
namespace Vgi.Drive.C29
open Vgi Vgi.Sticky

def tick : Int := 10000000000

inductive POp
  | openS (ttl : Int) (sid : Sid) (mode : Nat)   -- mode: 0 plain, 1 Close panics, 2 Close blocks until `goclose`
  | closeS | sess | block | panic
  deriving Repr

structure DThread where
  id : Nat
  prog : List POp
  obs : List String := []
  blocked : Bool := false
  panicked : Bool := false
  lost : Bool := false
  reported : Bool := false
  isSys : Bool := false          -- a reaper sweep / shutdown (not a request)
  took : List Nat := []          -- entries the sweep removed
  deriving Repr

structure DState where
  nW : Nat := 0
  wk : List WorkerCfg := []
  st : State := {}
  thrs : List DThread := []
  aged : Int := 0
  lines : Int := 0
  blocking : List Nat := []      -- entries whose state's Close blocks until released
  nSys : Nat := 0

def DState.cfg (d : DState) : Cfg :=
  { n := d.nW, worker := fun i => d.wk.getD i ⟨[], [], 0⟩ }

def DState.now (d : DState) : Int := d.aged * tick + d.lines * 1000   -- a script line takes far longer than the ±1 ns of `reapat`

def hexStr? (s : String) : Option Bytes := bytesOfHexAux s.toList

def parseIdent (s : String) : Option Ident :=
  match s.splitOn ":" with
  | ["anon"] => some ⟨false, [], []⟩
  | ["a", d, p] => do some ⟨true, ← hexStr? d, ← hexStr? p⟩
  | ["u", d, p] => do some ⟨false, ← hexStr? d, ← hexStr? p⟩
  | _ => none

def b64Min : Nat := 1 + 24 + 16

/-- Token reference → what the model's request presents. `none` = unparsable. -/
def parseTok (d : DState) (s : String) : Option (Option Presented) :=
  if s = "-" then some none
  else match s.splitOn "/" with
  | ["Gbad", _] => some (some .malformed)
  | ["Graw", h] => do
    let raw ← hexStr? h
    if raw.length = 0 then some none   -- empty header value = no token
    else if raw.length < b64Min then some (some .malformed)
    else some (some (.forged (raw.headD 0).toNat))
  | ["S", w, id, srv, sid] => do
    let w ← w.toNat?
    let i ← parseIdent id
    let srv ← hexStr? srv
    let sid ← hexStr? sid
    match encodePlain 0 srv sid 0 with
    | some p => some (some (.envelope 1 { key := (d.cfg.worker w).key, aad := aadOf i, plain := p }))
    | none => none
  | ["P", w, id, plain] => do
    let w ← w.toNat?
    let i ← parseIdent id
    let p ← hexStr? plain
    some (some (.envelope 1 { key := (d.cfg.worker w).key, aad := aadOf i, plain := p }))
  | [t] =>
    match t.splitOn "+" with
    | [base] =>
      if base.startsWith "T" then do
        let k ← (base.drop 1).toNat?
        match d.st.published[k]? with
        | some r => some (some (.envelope 1 r))
        | none => some (some .malformed)
      else none
    | [base, m] =>
      if base.startsWith "T" then do
        let k ← (base.drop 1).toNat?
        match d.st.published[k]? with
        | none => some (some .malformed)
        | some r =>
          if m = "pad" ∨ m = "ws" then some (some (.envelope 1 r))
          else if m.startsWith "ver" then do
            let v ← (m.drop 3).toNat?
            some (some (.envelope v r))
          else if m.startsWith "flip" then some (some (.forged 1))
          else if m.startsWith "trunc" then do
            let n ← (m.drop 5).toNat?
            if n = 0 then some none
            else if n < b64Min then some (some .malformed) else some (some (.forged 1))
          else none
      else none
    | _ => none
  | _ => none

def parseOp (s : String) : Option POp :=
  if s = "c" then some .closeS
  else if s = "s" then some .sess
  else if s = "b" then some .block
  else if s = "p" then some .panic
  else if s.startsWith "o" then
    match (s.drop 1).toString.splitOn "/" with
    | [ttl, sidm] => do
      let (sidS, mode) := match sidm.splitOn ":" with
        | [a, "p"] => (a, 1)
        | [a, "b"] => (a, 2)
        | [a] => (a, 0)
        | _ => ("", 9)
      if mode = 9 then none else
      let sid ← hexStr? sidS
      if sid.length = 12 then some (.openS (← ttl.toInt?) sid mode) else none
    | _ => none
  else none

def parseProg (s : String) : Option (List POp) :=
  if s = "-" then some [] else (s.splitOn ",").mapM parseOp

def apply (d : DState) (a : Act) : Option DState :=
  (step d.cfg d.st a).map fun s => { d with st := s }

def updThr (d : DState) (t : Nat) (f : DThread → DThread) : DState :=
  { d with thrs := d.thrs.map fun x => if x.id = t then f x else x }

def getThr (d : DState) (t : Nat) : Option DThread := d.thrs.find? (·.id = t)

def sidOfUid (d : DState) (u : Nat) : String :=
  match d.st.births.find? (·.entry.uid = u) with
  | some b => hexOfBytes b.entry.sid
  | none => "?"

def resStr : Res → String
  | .openOk => "ok" | .openNoAccept => "noaccept" | .openBound => "bound" | .openDraining => "draining"
  | .openSealFail => "sealfail" | .rolledBack => "sealfail"
  | .closeHit => "hit" | .closeMiss => "miss" | .closeNoSession => "miss"
  | _ => "?"

/-- Run thread `t` until it is done, waits for an entry lock, or reaches a `b` in its handler. -/
def runThread : Nat → DState → Nat → DState
  | 0, d, _ => d
  | fuel + 1, d, t =>
    let th := d.st.thr t
    let go (a : Act) (f : DThread → DThread) : DState :=
      match apply d a with
      | some d' => runThread fuel (updThr d' t f) t
      | none => d
    if th.owed ≠ [] then
      -- a state whose Close blocks keeps its closer inside Close until `goclose`
      (if d.blocking.contains (th.owed.headD 0) then d else go (.runClose t) id)
    else match th.pc with
    | .start =>
      match apply d (.resolve t d.now) with
      | some d' =>
        let lost := (d'.st.thr t).last = .lost
        runThread fuel (updThr d' t fun x => { x with lost := lost }) t
      | none => d
    | .lockWait =>
      match th.want with
      | some u => if d.st.lock u = none then go (.lock t) id else d
      | none => d
    | .rollback => go (.hRollback t) id
    | .delLocked => go (.delClose t) id
    | .respond => go (.respond t) id
    | .unlock => go (.unlock t) id
    | .handler =>
      match getThr d t with
      | none => d
      | some dt =>
        match dt.prog with
        | [] => go (.hEnd t false) id
        | .block :: _ => updThr d t fun x => { x with blocked := true }
        | .panic :: _ => go (.hEnd t true) fun x => { x with prog := [], panicked := true, obs := x.obs ++ ["p"] }
        | .sess :: rest =>
          let v := match sessionView th with
            | some u => "s" ++ sidOfUid d u
            | none => "s-"
          runThread fuel (updThr d t fun x => { x with prog := rest, obs := x.obs ++ [v] }) t
        | .closeS :: rest =>
          match apply d (.hClose t) with
          | some d' =>
            let r := resStr (d'.st.thr t).last
            runThread fuel (updThr d' t fun x => { x with prog := rest, obs := x.obs ++ ["c:" ++ r] }) t
          | none => d
        | .openS ttl sid mode :: rest =>
          match apply d (.hOpen t sid (ttl * tick) d.now 0 0) with
          | some d' =>
            let r := resStr (d'.st.thr t).last
            let born := d'.st.nextUid ≠ d.st.nextUid
            let d' := if born ∧ mode = 2 then { d' with blocking := d.st.nextUid :: d'.blocking } else d'
            runThread fuel (updThr d' t fun x => { x with prog := rest, obs := x.obs ++ ["o:" ++ r] }) t
          | none =>
            -- repeated session id inside one registry: outside the model's assumption
            updThr d t fun x => { x with prog := rest, obs := x.obs ++ ["o:dup"] }
    | _ => d

def fuel0 : Nat := 200

/-- After any change, let every thread that waits for a now-free lock proceed (lowest id first). -/
def settle : Nat → DState → DState
  | 0, d => d
  | k + 1, d =>
    match d.thrs.find? (fun x =>
        let th := d.st.thr x.id
        decide (th.pc = .lockWait) && (match th.want with | some u => (d.st.lock u).isNone | none => false)) with
    | some x => settle k (runThread fuel0 d x.id)
    | none => d

def maskTimes (p : Bytes) : Bytes :=
  if p.length < 16 then p
  else List.replicate 8 0 ++ (p.drop 8).take (p.length - 16) ++ List.replicate 8 0

def closing (d : DState) (t : Nat) : Bool :=
  match (d.st.thr t).owed with
  | u :: _ => d.blocking.contains u
  | [] => false

def statusOf (d : DState) (x : DThread) : String :=
  let th := d.st.thr x.id
  let obs := ",".intercalate x.obs
  if x.isSys then
    (if th.owed = [] then s!"y{x.id - 1000000}=done:{x.took.length}" else s!"y{x.id - 1000000}=closing")
  else
  let pre := s!"t{x.id}="
  if closing d x.id then pre ++ "closing" else
  match th.pc with
  | .lockWait => pre ++ "lock"
  | .handler => if x.blocked then pre ++ "blk:" ++ obs else pre ++ "run"
  | .done =>
    if th.isDelete then pre ++ (if th.last = .deleted then "done:204" else "done:200")
    else
      let oc := if x.lost then "lost" else if x.panicked then "panic" else "ok"
      let tok := match th.minted with
        | some r => if x.lost then "-" else hexOfBytes (maskTimes r.plain)
        | none => "-"
      pre ++ "done:" ++ oc ++ ":" ++ obs ++ ":" ++ tok
  | _ => pre ++ "run"

/-- Statuses of all threads not yet reported as done; marks the done ones reported. -/
def report (d : DState) (head : String) : DState × String :=
  let live := d.thrs.filter (fun x => ¬ x.reported)
  let live := live.filter (fun x => ¬ x.isSys) ++ live.filter (·.isSys)   -- requests first, then sweeps
  let out := " ".intercalate (head :: live.map (statusOf d))
  let d' := { d with thrs := d.thrs.map fun x =>
    if (d.st.thr x.id).pc = .done ∨ (x.isSys ∧ (d.st.thr x.id).owed = []) then { x with reported := true } else x }
  (d', out)

def sysThread : Nat := 1000000

def insertSorted (x : String) : List String → List String
  | [] => [x]
  | y :: ys => if x ≤ y then x :: y :: ys else y :: insertSorted x ys

def sortStrs (l : List String) : List String := l.foldr insertSorted []

def snapStr (d : DState) : String :=
  let ents := sortStrs (d.st.entries.map fun e =>
    s!"{e.worker}/{hexOfBytes e.sid}/{hexOfBytes e.pkey}/{if (d.st.lock e.uid).isSome then 1 else 0}")
  -- counts of sessions that an unfinished sweep took, or whose Close is in progress, are not comparable
  let pendingSweep := (d.thrs.filter fun x => x.isSys ∧ (d.st.thr x.id).owed ≠ []).flatMap (·.took)
  let inClose := d.thrs.filterMap fun x => if closing d x.id then (d.st.thr x.id).owed.head? else none
  let cls := sortStrs (d.st.births.map fun b =>
    let u := b.entry.uid
    let v := if pendingSweep.contains u ∨ inClose.contains u then "?" else toString (d.st.closeCount u)
    s!"{b.entry.worker}/{hexOfBytes b.entry.sid}={v}")
  let dr := String.join ((List.range d.nW).map fun w => if d.st.draining w then "1" else "0")
  "E[" ++ " ".intercalate ents ++ "] C[" ++ " ".intercalate cls ++ "] D[" ++ dr ++ "]"

def runSys (d : DState) (mk : Nat → Act) : DState :=
  let t := sysThread + d.nSys
  match apply d (mk t) with
  | some d' =>
    let took := (d'.st.thr t).owed
    let d2 := { d' with nSys := d'.nSys + 1, thrs := d'.thrs ++ [{ id := t, prog := [], isSys := true, took := took }] }
    runThread fuel0 d2 t
  | none => d

def step (d0 : DState) (ws : List String) : DState × String :=
  let d := { d0 with lines := d0.lines + 1 }
  match ws with
  | ["worker", w, key, srv, ttl] =>
    match w.toNat?, parseHexArg key, parseHexArg srv, ttl.toInt? with
    | some w, some key, some srv, some ttl =>
      if w = d.nW then
        let ttlEff : Int := if ttl ≤ 0 then 30 * tick else ttl * tick
        ({ d with nW := d.nW + 1, wk := d.wk ++ [⟨key, srv, ttlEff⟩] }, "ok")
      else (d0, "bad-op")
    | _, _, _, _ => (d0, "bad-op")
  | ["call", t, w, id, tok, acc, prog] =>
    match t.toNat?, w.toNat?, parseIdent id, parseTok d tok, parseProg prog with
    | some t, some w, some id, some tok, some prog =>
      if acc ≠ "0" ∧ acc ≠ "1" then (d0, "bad-op") else
      match apply d (.spawn t false w id tok (acc = "1")) with
      | some d1 =>
        let d2 := { d1 with thrs := d1.thrs ++ [{ id := t, prog := prog }] }
        report (settle fuel0 (runThread fuel0 d2 t)) "ok"
      | none => report d "noop"
    | _, _, _, _, _ => (d0, "bad-op")
  | ["xcall", t, w, id, tok, kind, prog] =>
    -- a stream turn (init / producer continuation / exchange / cancel) bearing the session: the same request
    -- thread as a unary call (resolve, lock, handler, respond, unlock); it cannot open (no Accept header)
    match t.toNat?, w.toNat?, parseIdent id, parseTok d tok, parseProg prog with
    | some t, some w, some id, some tok, some prog =>
      if ¬ ["init", "cont", "exch", "cancel"].contains kind then (d0, "bad-op") else
      match apply d (.spawn t false w id tok false) with
      | some d1 =>
        let d2 := { d1 with thrs := d1.thrs ++ [{ id := t, prog := prog }] }
        report (settle fuel0 (runThread fuel0 d2 t)) "ok"
      | none => report d "noop"
    | _, _, _, _, _ => (d0, "bad-op")
  | ["delete", t, w, id, tok] =>
    match t.toNat?, w.toNat?, parseIdent id, parseTok d tok with
    | some t, some w, some id, some tok =>
      match apply d (.spawn t true w id tok false) with
      | some d1 =>
        let d2 := { d1 with thrs := d1.thrs ++ [{ id := t, prog := [] }] }
        report (settle fuel0 (runThread fuel0 d2 t)) "ok"
      | none => report d "noop"
    | _, _, _, _ => (d0, "bad-op")
  | ["go", t] =>
    match t.toNat? with
    | some t =>
      match getThr d t with
      | some dt =>
        if dt.blocked then
          let d1 := updThr d t fun x => { x with blocked := false, prog := x.prog.drop 1 }
          report (settle fuel0 (runThread fuel0 d1 t)) "ok"
        else report d "noop"
      | none => report d "noop"
    | none => (d0, "bad-op")
  | ["age", k] =>
    match k.toNat? with
    | some k => report { d with aged := d.aged + k } "ok"
    | none => (d0, "bad-op")
  | ["reap", w] =>
    match w.toNat? with
    | some w =>
      report (settle fuel0 (runSys d fun t => .reap t w d.now)) "ok"
    | none => (d0, "bad-op")
  | ["reapat", w, sid, delta] =>
    match w.toNat?, hexStr? sid, delta.toInt? with
    | some w, some sid, some delta =>
      match findEntry d.st.entries w sid with
      | some e =>
        report (settle fuel0 (runSys d fun t => .reap t w (e.expires + delta))) "ok"
      | none => report d "none"
    | _, _, _ => (d0, "bad-op")
  | ["shutdown", w] =>
    match w.toNat? with
    | some w =>
      report (settle fuel0 (runSys d fun t => .shutdown t w)) "ok"
    | none => (d0, "bad-op")
  | ["drain", w, v] =>
    match w.toNat? with
    | some w =>
      if v ≠ "0" ∧ v ≠ "1" then (d0, "bad-op") else
      match apply d (.setDraining w (v = "1")) with
      | some d1 => report d1 "ok"
      | none => report d "noop"
    | none => (d0, "bad-op")
  | ["goclose", w, sid] =>
    match w.toNat?, hexStr? sid with
    | some w, some sid =>
      match d.st.births.find? (fun b => b.entry.worker = w ∧ b.entry.sid = sid) with
      | some b =>
        let u := b.entry.uid
        let waiting := d.thrs.filter fun x => (d.st.thr x.id).owed.head? = some u ∧ d.blocking.contains u
        let d1 := { d with blocking := d.blocking.filter (· ≠ u) }
        let d2 := waiting.foldl (fun acc x => runThread fuel0 acc x.id) d1
        report (settle fuel0 d2) (if waiting.isEmpty then "noop" else "ok")
      | none => report d "noop"
    | _, _ => (d0, "bad-op")
  | ["snap"] => report d (snapStr d)
  | ["aad", id] =>
    match parseIdent id with
    | some i => (d, hexOfBytes (aadOf i) ++ " " ++ hexOfBytes (pkeyOf i))
    | none => (d0, "bad-op")
  | ["plain", srv, sid] =>
    match parseHexArg srv, parseHexArg sid with
    | some srv, some sid =>
      match encodePlain 0 srv sid 0 with
      | some p =>
        (d, hexOfBytes p ++ " " ++ (match decodePlain p with
          | some (a, b, _) => hexOfBytes a ++ "/" ++ hexOfBytes b
          | none => "lost"))
      | none => (d, "err:too-long")
    | _, _ => (d0, "bad-op")
  | ["parse", plain] =>
    match parseHexArg plain with
    | some p =>
      (d, match decodePlain p with
        | some (a, b, _) => hexOfBytes a ++ "/" ++ hexOfBytes b
        | none => "lost")
    | none => (d0, "bad-op")
  -- concurrent searches: the determinate values the theorems give for every interleaving
  | ["stress", _, _, _] => (d, "overlap=0 closes=ok locks=free lostafter=1 drainopen=0")
  | ["realreaper", _] => (d, "evicted=1 closes=1")
  | _ => (d0, "bad-op")

def drive : IO Unit := driveLoop ({} : DState) step

end Vgi.Drive.C29

def main : IO Unit := Vgi.Drive.C29.drive
