import Vgi.Model.Describe
/-!
Line protocol for C09 (one server per case):

```
new xSERVICE xSERVERID (nopv | pv xVERSION)                     NewServer + SetServiceName/SetServerID/SetProtocolVersion
reg <api> xNAME xPARAMS xRESULT xEMPTY (xOUTPUT|-) (xHEADER|-)   one registration; schemas as IPC bytes
httpopt <k=v>…                                                   build the HttpServer with these options (no effect on the model)
setsid xID / setsvc xNAME                                        Server.SetServerID / SetServiceName after construction
describe <pipe|http>                                             the decoded __describe__ response
hash                                                             Server.ProtocolHash()
api := unary | unaryvoid | producer | producerh | exchange | exchangeh | dynamich
```
`describe` answers
`n=<rows> pname=x.. rv=.. dv=.. hash=<hex> sid=(x..|-) pv=(x..|-) rows=<row>;<row>;…` with
`row = xNAME,<type>,<ret>,<hdr>,<exch>,xPARAMS,xRESULT,(xHEADER|-)`.
-/
namespace Vgi.Drive.C09
open Vgi Vgi.Describe

structure St where
  cfg : Config
  methods : Methods

def init : Option St := none

def parseApi : String → Option Api
  | "unary" => some .unary
  | "unaryvoid" => some .unaryVoid
  | "producer" => some .producer
  | "producerh" => some .producerH
  | "exchange" => some .exchange
  | "exchangeh" => some .exchangeH
  | "dynamich" => some .dynamicH
  | _ => none

/-- `-` is a nil schema pointer. -/
def parseOpt (w : String) : Option (Option Bytes) :=
  if w = "-" then some none else (parseHexArg w).map some

def b01 (b : Bool) : String := if b then "1" else "0"

def showOptB : Option Bool → String
  | some true => "1"
  | some false => "0"
  | none => "-"

def showOpt : Option Bytes → String
  | some b => hexArg b
  | none => "-"

def showRow (r : Row) : String :=
  ",".intercalate [hexArg r.name, r.methodType, b01 r.hasReturn, b01 r.hasHeader, showOptB r.isExchange,
    hexArg r.params, hexArg r.result, showOpt r.header]

def showDescribe (d : Describe) : String :=
  s!"n={d.rows.length} pname={hexArg d.protocolName} rv={d.requestVersion} dv={d.describeVersion} " ++
  s!"hash={d.protocolHash} sid={showOpt d.serverID} pv={showOpt d.protocolVersion} " ++
  s!"rows={";".intercalate (d.rows.map showRow)}"

def step (st : Option St) (ws : List String) : Option St × String :=
  match ws with
  | ["new", svc, sid, "nopv"] =>
    match parseHexArg svc, parseHexArg sid with
    | some a, some b => (some ⟨⟨a, b, false, []⟩, []⟩, "ok")
    | _, _ => (st, "bad-op")
  | ["new", svc, sid, "pv", v] =>
    match parseHexArg svc, parseHexArg sid, parseHexArg v with
    | some a, some b, some c => (some ⟨⟨a, b, true, c⟩, []⟩, "ok")
    | _, _, _ => (st, "bad-op")
  | ["reg", api, name, params, result, empty, output, header] =>
    match st with
    | none => (st, "err:no-server")
    | some s =>
      match parseApi api, parseHexArg name, parseHexArg params, parseHexArg result, parseHexArg empty,
            parseOpt output, parseOpt header with
      | some a, some n, some p, some r, some e, some o, some h =>
        let reg : Reg := ⟨a, n, p, r, e, o, h⟩
        (some { s with methods := set s.methods reg.name reg.info }, "ok")
      | _, _, _, _, _, _, _ => (st, "bad-op")
  | ["describe", tr] =>
    if tr ≠ "pipe" ∧ tr ≠ "http" then (st, "bad-op") else
    match st with
    | none => (st, "err:no-server")
    | some s => (st, showDescribe (describe s.cfg s.methods))
  | "httpopt" :: _ =>
    -- HttpServer-level options (display name, prefix, compression, CORS, pages, sticky, caps, auth):
    -- none of them is an input of `describe`
    match st with
    | none => (st, "err:no-server")
    | some _ => (st, "ok")
  | ["setsid", sid] =>
    match st, parseHexArg sid with
    | none, _ => (st, "err:no-server")
    | some s, some b => (some { s with cfg := { s.cfg with serverID := b } }, "ok")
    | _, none => (st, "bad-op")
  | ["setsvc", svc] =>
    match st, parseHexArg svc with
    | none, _ => (st, "err:no-server")
    | some s, some b => (some { s with cfg := { s.cfg with serviceName := b } }, "ok")
    | _, none => (st, "bad-op")
  | ["hash"] =>
    match st with
    | none => (st, "err:no-server")
    | some s => (st, protocolHash s.cfg s.methods)
  | _ => (st, "bad-op")

def drive : IO Unit := driveLoop init step

end Vgi.Drive.C09

def main : IO Unit := Vgi.Drive.C09.drive
