import Vgi.Model.Params
import Vgi.Drive.ValuesIO
/-!
Line protocol for C07 (one declared parameter struct + one batch per line):

  bind <type> | <batch> [| <float defaults>]     deserializeParams on the batch
  call <type> | <batch> [| <float defaults>]     the same batch sent to a registered method through the server
        -> err:derive | decl=<S> typeerror | decl=<S> handler (<values>)

<batch>  : P <n> (x<name hex> <0|1 nullable> <atype>)*n <cell>*n      an ordinary batch (schema + row 0)
         | Z <n> (x<name hex> <0|1> <atype>)*n                         a batch with that schema and no rows
         | W -                                                        request-wrapped, bytes unreadable
         | W <batch>                                                  request-wrapped, first inner batch
<atype>  : i8 … u64 f32 f64 bool utf8 lutf8 bin lbin fsb<w> date32 ts tsutc time64 dur dec dict
         | list T | map K V | struct <n> (x<name> <0|1> T)*n | other<id>
<float defaults> : (x<default text hex> <bits64 hex|-> <bits32 hex|->)*   what strconv.ParseFloat returns
Types, values and cells as in `Vgi.Drive.ValuesIO`.
-/
namespace Vgi.Drive.C07
open Vgi Vgi.Values Vgi.Params Vgi.Drive.ValuesIO

def leafATy (tok : String) : Option ATy :=
  match tok with
  | "i8" => some (.int ⟨true, 8⟩) | "i16" => some (.int ⟨true, 16⟩) | "i32" => some (.int ⟨true, 32⟩)
  | "i64" => some (.int ⟨true, 64⟩) | "u8" => some (.int ⟨false, 8⟩) | "u16" => some (.int ⟨false, 16⟩)
  | "u32" => some (.int ⟨false, 32⟩) | "u64" => some (.int ⟨false, 64⟩)
  | "f32" => some .f32 | "f64" => some .f64 | "bool" => some .bool | "utf8" => some .utf8 | "lutf8" => some .largeUtf8
  | "bin" => some .binary | "lbin" => some .largeBinary | "date32" => some .date32 | "ts" => some (.ts false)
  | "tsutc" => some (.ts true) | "time64" => some .time64 | "dur" => some .dur | "dec" => some .dec | "dict" => some .dict
  | _ =>
    if tok.startsWith "fsb" then (tok.drop 3).toNat?.map .fixed
    else if tok.startsWith "other" then (tok.drop 5).toNat?.map .other
    else none

mutual
partial def parseATy : List String → Option (ATy × List String)
  | "list" :: r => match parseATy r with
    | some (e, r) => some (.list e, r)
    | none => none
  | "map" :: r => match parseATy r with
    | some (k, r) => match parseATy r with
      | some (v, r) => some (.map k v, r)
      | none => none
    | none => none
  | "struct" :: n :: r => match n.toNat? with
    | some k => match parseAFields k r with
      | some (fs, r) => some (.struct fs, r)
      | none => none
    | none => none
  | tok :: r => (leafATy tok).map fun a => (a, r)
  | [] => none
partial def parseAFields : Nat → List String → Option (AFields × List String)
  | 0, r => some (.nil, r)
  | k + 1, name :: nl :: r =>
    match parseBStr name, (if nl = "0" then some false else if nl = "1" then some true else none), parseATy r with
    | some n, some b, some (a, r) => match parseAFields k r with
      | some (fs, r) => some (.cons n a b fs, r)
      | none => none
    | _, _, _ => none
  | _, _ => none
end

partial def parseBatch : List String → Option (PBatch × List String)
  | "W" :: "-" :: r => some (.wrapped none, r)
  | "W" :: r => match parseBatch r with
    | some (b, r) => some (.wrapped (some b), r)
    | none => none
  | "Z" :: n :: r => match n.toNat? with
    | some k => match parseAFields k r with
      | some (schema, r) => some (.empty schema, r)
      | none => none
    | none => none
  | "P" :: n :: r => match n.toNat? with
    | some k => match parseAFields k r with
      | some (schema, r) => match parseCFields schema r with
        | some (row, r) => some (.plain schema row, r)
        | none => none
      | none => none
    | none => none
  | _ => none

def parseBits (tok : String) : Option (Option Nat) :=
  if tok = "-" then some none else (hexNat tok.toList).map some

partial def parseFloatEnv : List String → Option (List (BStr × Option Nat × Option Nat))
  | [] => some []
  | d :: a :: b :: r => match parseBStr d, parseBits a, parseBits b, parseFloatEnv r with
    | some ds, some x, some y, some rest => some ((ds, x, y) :: rest)
    | _, _, _, _ => none
  | _ => none

def mkEnv (tbl : List (BStr × Option Nat × Option Nat)) : FloatEnv :=
  { f64 := fun s => match tbl.find? (fun e => e.1 = s) with | some e => e.2.1 | none => none
    f32 := fun s => match tbl.find? (fun e => e.1 = s) with | some e => e.2.2 | none => none }

def buildDesc (toks : List String) : Except Err AFields :=
  match parseTy toks with
  | some (.struct fs, []) => deriveFields fs 0
  | _ => .error .unmodelled

abbrev Cache := List (List String × Except Err AFields)

def step (st : Cache) (ws : List String) : Cache × String :=
  match ws with
  | op :: r =>
    if op = "bind" ∨ op = "call" then
      let (tt, rest) := splitBar r
      let (bt, et) := splitBar rest
      match parseTy tt, parseBatch bt, parseFloatEnv et with
      | some (.struct fs, []), some (b, []), some tbl =>
        let (st', d) := describe buildDesc st tt
        match d with
        | .error .unmodelled => (st', "bad-op")
        | .error _ => (st', "err:derive")
        | .ok afs =>
          let pre := "decl=" ++ showAFields afs
          match bind (mkEnv tbl) fs d b with
          | .typeError => (st', pre ++ " typeerror")
          | .handler vals => (st', pre ++ " handler (" ++ showSFields vals ++ ")")
          | .unmodelled => (st', "bad-op")
      | _, _, _ => (st, "bad-op")
    else (st, "bad-op")
  | [] => (st, "bad-op")

def drive : IO Unit := driveLoop ([] : Cache) step

end Vgi.Drive.C07

def main : IO Unit := Vgi.Drive.C07.drive
