import Vgi.Model.Proof
/-!
Line protocol for C25 (one gate + one unit-level nonce cache per case):

  cfg <mode> <origin> <skew> <cap> <nocache 0|1> <inner nil|ok|fail> <kid>:<secret>...
        ProofAuthenticate(cfg, inner)            -> ok | err:config
  req <now_ns>[,<later_ns>] <hdr>*
        the returned AuthenticateFunc on a request carrying these VGI-Proxy-Proof values
                                                 -> pass calls=<n> | refuse <reason> <detail> calls=0
  cache <ttl_ns> <cap>     newNonceCache         -> ok
  add <now_ns> <nonce>     checkAndAdd           -> true|false <dump>
  verify <now_ns> <token>  VerifyProof(token, cfg, unit cache) -> ok|refused <dump>

All byte strings are `x<hex>`; <dump> is the cache content oldest first (`nonce@expires;…`).
-/
namespace Vgi.Drive.C25
open Vgi Vgi.Proof

structure St where
  gate : Option Gate := none
  ucache : Option Cache := none

def dump : Option Cache → String
  | none => "nil"
  | some c =>
    if c.order.isEmpty then "-"
    else ";".intercalate (c.order.map fun e => s!"{hexArg e.nonce}@{e.expires}")

def parseSecret (w : String) : Option (Bytes × Bytes) :=
  match w.splitOn ":" with
  | [k, s] => match parseHexArg k, parseHexArg s with
    | some kb, some sb => some (kb, sb)
    | _, _ => none
  | _ => none

def parseBool (w : String) : Option Bool :=
  if w = "0" then some false else if w = "1" then some true else none

def parseInner (w : String) : Option Bool :=
  if w = "nil" then some false else if w = "ok" ∨ w = "fail" then some true else none

/-- `t1` or `t1,t2`: `t2` is what a second clock reading inside the same request would return;
the modelled code reads the clock once, so only `t1` is used (both must parse). -/
def parseNow (w : String) : Option Nat :=
  match w.splitOn "," with
  | [a] => a.toNat?
  | [a, b] => match a.toNat?, b.toNat? with
    | some x, some _ => some x
    | _, _ => none
  | _ => none

def showDecision (d : Decision) : String :=
  if d.pass then s!"pass calls={d.innerCalls}"
  else s!"refuse {hexArg (bytesOfString d.reason)} {hexArg (bytesOfString d.detail)} calls={d.innerCalls}"

def step (st : St) (ws : List String) : St × String :=
  match ws with
  | "cfg" :: mode :: origin :: skew :: cap :: nocache :: inner :: secrets =>
    match parseHexArg mode, parseHexArg origin, skew.toInt?, cap.toInt?, parseBool nocache,
          parseInner inner, secrets.mapM parseSecret with
    | some md, some o, some sk, some cp, some nc, some inn, some secs =>
      match mkGate md o secs sk cp nc inn with
      | some g => ({ st with gate := some g }, "ok")
      | none => ({ st with gate := none }, "err:config")
    | _, _, _, _, _, _, _ => (st, "bad-op")
  | "req" :: now :: hdrs =>
    match parseNow now, hdrs.mapM parseHexArg with
    | some t, some hs =>
      match st.gate with
      | none => (st, "err:no-gate")
      | some g =>
        let r := gateStep g t hs
        ({ st with gate := some r.2 }, showDecision r.1)
    | _, _ => (st, "bad-op")
  | ["cache", ttl, cap] =>
    match ttl.toNat?, cap.toNat? with
    | some t, some c => ({ st with ucache := some ⟨t, c, []⟩ }, "ok")
    | _, _ => (st, "bad-op")
  | ["add", now, nonce] =>
    match now.toNat?, parseHexArg nonce with
    | some t, some n =>
      match st.ucache with
      | none => (st, "err:no-cache")
      | some c =>
        let r := checkAndAdd c n t
        ({ st with ucache := some r.2 }, s!"{r.1} {dump (some r.2)}")
    | _, _ => (st, "bad-op")
  | ["verify", now, token] =>
    match now.toNat?, parseHexArg token with
    | some t, some tok =>
      match st.gate with
      | none => (st, "err:no-gate")
      | some g =>
        let r := verify g.cfg st.ucache t tok
        let verdict := match r.1 with | .ok _ => "ok" | .error _ => "refused"
        ({ st with ucache := r.2 }, s!"{verdict} {dump r.2}")
    | _, _ => (st, "bad-op")
  | _ => (st, "bad-op")

def drive : IO Unit := driveLoop ({} : St) step

end Vgi.Drive.C25

def main : IO Unit := Vgi.Drive.C25.drive
