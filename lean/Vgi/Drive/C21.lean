import Vgi.Model.HttpClient
/-!
Line-protocol driver for C21 (model of `vgirpc/http_client.go`).

Lines (words separated by blanks; `R*` = zero or more responses, consumed in order by the
requests the model sends during the line):

  cfg <maxEnc> <maxDec>
  open <x|p> <hdrSchema|-> <outSchema> <inSchema|-> R*
  next R*
  ex <inputSchema> <tooBig 0|1> R*
  cancel R*
  close | cclose | st
  unary <expectedSchema|nil> R*

  R      := T | H <status> <clen> <rdErr 0|1> <elen> <ce hex> <xce hex> <dec -|n> <rpcErr 0|1>
                  <nStreams> S* <trail>
  S      := S <schema|!> <nMsgs> M* <readErr 0|1>
  M      := M <rows> <payload> <xt> <nMd> (<key> <value>)*

Values: the word `x` is the empty string, every other word is opaque.
-/
namespace Vgi.Drive.C21
open Vgi Vgi.HttpClient

def val (w : String) : String := if w = "x" then "" else w
def unval (v : String) : String := if v = "" then "x" else v

def pBool : String → Option Bool
  | "0" => some false
  | "1" => some true
  | _ => none

def strOfHexArg (w : String) : Option String :=
  match parseHexArg w with
  | some bs => String.fromUTF8? (ByteArray.mk bs.toArray)
  | none => none

def pMd : Nat → List String → Option (Md × List String)
  | 0, ws => some ([], ws)
  | n + 1, k :: v :: ws =>
    match pMd n ws with
    | some (m, r) => some ((k, val v) :: m, r)
    | none => none
  | _, _ => none

def pMsg : List String → Option (Msg × List String)
  | "M" :: rows :: payload :: xt :: nmd :: ws =>
    match rows.toNat?, nmd.toNat? with
    | some r, some n =>
      match pMd n ws with
      | some (md, rest) => some (⟨r, payload, val xt, md⟩, rest)
      | none => none
    | _, _ => none
  | _ => none

def pMsgs : Nat → List String → Option (List Msg × List String)
  | 0, ws => some ([], ws)
  | n + 1, ws =>
    match pMsg ws with
    | some (m, r) =>
      match pMsgs n r with
      | some (ms, r') => some (m :: ms, r')
      | none => none
    | none => none

def pIpc : List String → Option (Ipc × List String)
  | "S" :: schema :: nm :: ws =>
    match nm.toNat? with
    | some n =>
      match pMsgs n ws with
      | some (ms, e :: rest) =>
        match pBool e with
        | some b => some (⟨if schema = "!" then none else some schema, ms, b⟩, rest)
        | none => none
      | _ => none
    | none => none
  | _ => none

def pIpcs : Nat → List String → Option (List Ipc × List String)
  | 0, ws => some ([], ws)
  | n + 1, ws =>
    match pIpc ws with
    | some (s, r) =>
      match pIpcs n r with
      | some (ss, r') => some (s :: ss, r')
      | none => none
    | none => none

def pResp : List String → Option (Resp × List String)
  | "T" :: ws => some (.terr, ws)
  | "H" :: status :: clen :: rde :: elen :: ce :: xce :: dec :: rpc :: ns :: ws =>
    match status.toNat?, clen.toInt?, pBool rde, elen.toNat?, strOfHexArg ce, strOfHexArg xce,
          pBool rpc, ns.toNat? with
    | some st, some cl, some rd, some el, some ces, some xces, some rp, some n =>
      let decv : Option (Option Nat) :=
        if dec = "-" then some none else (dec.toNat?).map some
      match decv, pIpcs n ws with
      | some d, some (ss, t :: rest) =>
        match t.toNat? with
        | some tr => some (.http st cl rd el ces xces d rp ss tr, rest)
        | none => none
      | _, _ => none
    | _, _, _, _, _, _, _, _ => none
  | _ => none

/-- All responses on the rest of the line (fuel = number of words). -/
def pResps : Nat → List String → Option (List Resp)
  | _, [] => some []
  | 0, _ => none
  | f + 1, ws =>
    match pResp ws with
    | some (r, rest) =>
      match pResps f rest with
      | some rs => some (r :: rs)
      | none => none
    | none => none

def resps (ws : List String) : Option (List Resp) := pResps ws.length ws

/-! ### rendering (canonical, identical to the harness) -/

def srvMarker : String := "7372763a"     -- hex of "srv:"

def hexStr (s : String) : String := hexArg (bytesOfString s)

def showMd (md : Md) : String :=
  match md.mergeSort (fun a b => decide (a.1 ≤ b.1)) with
  | [] => "-"
  | l => ",".intercalate (l.map fun p => p.1 ++ "=" ++ unval p.2)

def showBatch (b : Batch) : String := s!"{b.rows} {b.payload} {showMd b.md}"

def showErr : Err → String
  | .protocol => "err:rpc:" ++ hexStr "ProtocolError"
  | .typeErr => "err:rpc:" ++ hexStr "TypeError"
  | .transport => "err:rpc:" ++ hexStr "TransportError"
  | .status n => s!"err:status:{n}"
  | .exc t m => if (m.splitOn srvMarker).length > 1 then s!"err:rpc:{t}:{m}" else s!"err:rpc:{t}"
  | .other => "err:other"

def showRes : Res → String
  | .batch b => "batch " ++ showBatch b
  | .eos => "eos"
  | .ok => "ok"
  | .opened none => "ok hdr=none"
  | .opened (some b) => s!"ok hdr={b.rows}:{b.payload}:{showMd b.md}"
  | .err e => showErr e

def showSent (ev : List Event) : String :=
  let items := ev.filterMap fun
    | .sent .init _ => some "init"
    | .sent .unary _ => some "unary"
    | .sent _ q => some s!"c={unval q.cursor};k={unval q.call};x={if q.cancel then 1 else 0}"
    | .recv _ _ => none
  "sent=[" ++ "|".intercalate items ++ "]"

def showState (w : World) : String :=
  match w.st with
  | none => "tok=- fin=-"
  | some s => s!"tok={unval s.token} fin={if s.finished then 1 else 0}"

def answer (r : World × Res × List Event) : World × String :=
  (r.1, s!"{showRes r.2.1} {showSent r.2.2} {showState r.1}")

def initWorld : World := ⟨⟨0, 0⟩, false, none⟩

def optWord (w : String) : Option String := if w = "-" then none else some w

def step (w : World) (ws : List String) : World × String :=
  match ws with
  | ["cfg", a, b] =>
    match a.toNat?, b.toNat? with
    | some ma, some mb => (⟨⟨ma, mb⟩, false, none⟩, "ok")
    | _, _ => (w, "bad-op")
  | "open" :: kind :: hdr :: out :: inp :: rest =>
    match (if kind = "x" then some true else if kind = "p" then some false else none), resps rest with
    | some ex, some rs =>
      answer (stepOp w (.open ⟨ex, optWord hdr, out, if inp = "-" then "" else inp⟩) rs)
    | _, _ => (w, "bad-op")
  | "next" :: rest =>
    match resps rest with
    | some rs => answer (stepOp w .next rs)
    | none => (w, "bad-op")
  | "ex" :: schema :: big :: rest =>
    match pBool big, resps rest with
    | some b, some rs => answer (stepOp w (.exchange ⟨schema, b⟩) rs)
    | _, _ => (w, "bad-op")
  | "cancel" :: rest =>
    match resps rest with
    | some rs => answer (stepOp w .cancel rs)
    | none => (w, "bad-op")
  | ["close"] => answer (stepOp w .close [])
  | ["cclose"] => answer (stepOp w .clientClose [])
  | ["st"] => answer (stepOp w .stat [])
  | "unary" :: exp :: rest =>
    match resps rest with
    | some rs => answer (stepOp w (.unary (if exp = "nil" then none else some exp)) rs)
    | none => (w, "bad-op")
  | _ => (w, "bad-op")

def drive : IO Unit := driveLoop initWorld step

end Vgi.Drive.C21

def main : IO Unit := Vgi.Drive.C21.drive
