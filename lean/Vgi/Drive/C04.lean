import Vgi.Model.ScriptUnary
import Vgi.Drive.StreamParse
/-!
Line-protocol driver for C04.

  call <pipe|http> <declaredSchema> <void:0|1> <lvl> <rid> <nlogs> {<lvl> <msg> <k> {<key> <val>}*k}*nlogs <outcome>
  outcome ::= ret <valueToken> | err rpc <typ> <msg> | err plain <msg> | err wrap <msg>
            | panic str <s> | panic err <m> | panic int <n>

Byte strings are `x<hex>`. Answer: `<schema> ; <batch> ; <batch> …` (see `showStream`).
-/
namespace Vgi.Drive.C04
open Vgi Vgi.Script Vgi.Drive.ScriptParse Vgi.Drive.StreamParse

def showBatch : Batch → String
  | .log l m e r => s!"log {hexArg l} {hexArg m} {showKVs e} {showRid r}"
  | .exc m r => s!"exc {hexArg m} {showRid r}"
  | .data v md => s!"data {v} {showKVs md}"
  | .void => "void"

def showStream (s : IpcStream) : String :=
  " ; ".intercalate (s.schema :: s.batches.map showBatch)

/-- For a panicking handler the wording around the panic value is the framework's own and not
part of C04: the terminal exception batch is shown as "does the message report the value". -/
def showBatchFor (o : Outcome) (last : Bool) (b : Batch) : String :=
  match o, last, b with
  | .panic p, true, .exc m r =>
    s!"exc panic-value-reported:{if isInfix p.fmtV m then "1" else "0"} {showRid r}"
  | _, _, b => showBatch b

def showResponse (o : Outcome) (s : IpcStream) : String :=
  let n := s.batches.length
  " ; ".intercalate (s.schema :: (s.batches.zipIdx.map fun (b, i) => showBatchFor o (i + 1 == n) b))

def step (st : Unit) (ws : List String) : Unit × String :=
  match parseUnaryCall ws with
  | some (t, m, lvl, rid, s) => (st, showResponse s.outcome (unaryResponse t m lvl rid s))
  | none => (st, "bad-op")

def drive : IO Unit := driveLoop () step

end Vgi.Drive.C04

def main : IO Unit := Vgi.Drive.C04.drive
