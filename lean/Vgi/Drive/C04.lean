import Vgi.Model.ScriptUnary
/-!
Line-protocol driver for C04.

  call <pipe|http> <declaredSchema> <void:0|1> <lvl> <rid> <nlogs> {<lvl> <msg> <k> {<key> <val>}*k}*nlogs <outcome>
  outcome ::= ret <valueToken> | err rpc <typ> <msg> | err plain <msg> | err wrap <msg>
            | panic str <s> | panic err <m> | panic int <n>

Byte strings are `x<hex>`. Answer: `<schema> ; <batch> ; <batch> …` (see `showStream`).
-/
namespace Vgi.Drive.C04
open Vgi Vgi.Script

def showKVs (kvs : KVs) : String :=
  if kvs.isEmpty then "-" else ",".intercalate (kvs.map fun kv => hexOfBytes kv.1 ++ "=" ++ hexOfBytes kv.2)

def showRid : Option Bytes → String
  | none => "-"
  | some r => hexArg r

def showBatch : Batch → String
  | .log l m e r => s!"log {hexArg l} {hexArg m} {showKVs e} {showRid r}"
  | .exc m r => s!"exc {hexArg m} {showRid r}"
  | .data v md => s!"data {v} {showKVs md}"
  | .void => "void"

def showStream (s : IpcStream) : String :=
  " ; ".intercalate (s.schema :: s.batches.map showBatch)

def isInfix (p : Bytes) : Bytes → Bool
  | [] => p.isEmpty
  | b :: r => p.isPrefixOf (b :: r) || isInfix p r

/-- For a panicking handler the wording around the panic value is the framework's own and not
part of C04: the terminal exception batch is shown as "does the message report the value". -/
def showBatchFor (o : Outcome) (last : Bool) (b : Batch) : String :=
  match o, last, b with
  | .panic p, true, .exc m r =>
    s!"exc panic-value-reported:{if isInfix p.fmtV m then "1" else "0"} {showRid r}"
  | _, _, b => showBatch b

def showResponse (o : Outcome) (s : IpcStream) : String :=
  let n := s.batches.length
  " ; ".intercalate (s.schema :: (s.batches.zipIdx.map fun (b, i) => showBatchFor o (i + 1 == n) b))

/-- Token-stream parsers: `some (value, rest)` or `none`. -/
def pBytes : List String → Option (Bytes × List String)
  | w :: r => (parseHexArg w).map (·, r)
  | [] => none

def pKVs : Nat → List String → Option (KVs × List String)
  | 0, ws => some ([], ws)
  | n + 1, ws => do
    let (k, ws) ← pBytes ws
    let (v, ws) ← pBytes ws
    let (r, ws) ← pKVs n ws
    pure ((k, v) :: r, ws)

def pNat : List String → Option (Nat × List String)
  | w :: r => w.toNat?.map (·, r)
  | [] => none

def pLogCall (ws : List String) : Option (LogCall × List String) := do
  let (l, ws) ← pBytes ws
  let (m, ws) ← pBytes ws
  let (k, ws) ← pNat ws
  let (e, ws) ← pKVs k ws
  pure ({ level := l, msg := m, extras := e }, ws)

def pLogCalls : Nat → List String → Option (List LogCall × List String)
  | 0, ws => some ([], ws)
  | n + 1, ws => do
    let (c, ws) ← pLogCall ws
    let (r, ws) ← pLogCalls n ws
    pure (c :: r, ws)

def pErrVal : List String → Option (ErrVal × List String)
  | "rpc" :: t :: m :: r => do
    let t ← parseHexArg t
    let m ← parseHexArg m
    pure (.rpc t m, r)
  | "plain" :: m :: r => (parseHexArg m).map fun m => (.plain m, r)
  | "wrap" :: m :: r => (parseHexArg m).map fun m => (.wrapped m, r)
  | _ => none

def pPanicVal : List String → Option (PanicVal × List String)
  | "str" :: s :: r => (parseHexArg s).map fun s => (.str s, r)
  | "err" :: s :: r => (parseHexArg s).map fun s => (.err s, r)
  | "int" :: n :: r => n.toInt?.map fun n => (.int n, r)
  | _ => none

def pOutcome : List String → Option (Outcome × List String)
  | "ret" :: v :: r => some (.ret v, r)
  | "err" :: r => (pErrVal r).map fun (e, r) => (.fail e, r)
  | "panic" :: r => (pPanicVal r).map fun (p, r) => (.panic p, r)
  | _ => none

def pTransport : String → Option Transport
  | "pipe" => some .pipe
  | "http" => some .http
  | _ => none

def pBool : String → Option Bool
  | "0" => some false
  | "1" => some true
  | _ => none

def parseCall (ws : List String) : Option (Transport × UMethod × Bytes × Bytes × UnaryScript) :=
  match ws with
  | "call" :: t :: schema :: v :: rest => do
    let t ← pTransport t
    let v ← pBool v
    let (lvl, rest) ← pBytes rest
    let (rid, rest) ← pBytes rest
    let (n, rest) ← pNat rest
    let (logs, rest) ← pLogCalls n rest
    let (o, rest) ← pOutcome rest
    if rest ≠ [] then none
    else pure (t, { resultSchema := schema, isVoid := v }, lvl, rid, { logs := logs, outcome := o })
  | _ => none

def step (st : Unit) (ws : List String) : Unit × String :=
  match parseCall ws with
  | some (t, m, lvl, rid, s) => (st, showResponse s.outcome (unaryResponse t m lvl rid s))
  | none => (st, "bad-op")

def drive : IO Unit := driveLoop () step

end Vgi.Drive.C04

def main : IO Unit := Vgi.Drive.C04.drive
