import Vgi.Model.Values
/-!
Token parsers and canonical printers for types, values, wire cells and schemas, shared by the
C08 and C07 drivers (glue only: no theorem mentions them).

Type tokens (prefix notation): i8 i16 i32 i64 int u8 u16 u32 u64 uint f32 f64 bool str time dur
bytes | ptr T | sl T | map K V | st <n> (x<vgirpc tag hex> x<arrow tag hex> T)*n.
Value tokens follow the type: nil | i:<int> | g:<f32 bits hex> | f:<f64 bits hex> | b:0|1 |
s:<hex> | y:<hex> | t:<sec>:<nsec> | d:<ns> | l:<n> v*n | m:<n> (k v)*n | r v*fields.
Cell tokens follow the Arrow type: N | i:<int> | g:/f:<bits> | b:0|1 | s:<hex> | y:<hex> |
l:<n> c*n | m:<n> (k c)*n | r c*children.
-/
namespace Vgi.Drive.ValuesIO
open Vgi Vgi.Values

def bstrOfBytes (bs : Bytes) : BStr := bs.map fun b => Char.ofNat b.toNat
def hexOfBStr (x : BStr) : String := hexOfBytes (x.map fun c => UInt8.ofNat c.toNat)

def parseBStr (tok : String) : Option BStr := (parseHexArg tok).map bstrOfBytes
def parseHexBody (body : String) : Option BStr := parseBStr ("x" ++ body)

def hexNat (cs : List Char) : Option Nat :=
  cs.foldl (fun acc c => match acc, hexVal c with
    | some a, some d => some (a * 16 + d)
    | _, _ => none) (some 0)

/-! ### parsers (glue only: no theorem mentions them) -/

def primOf (tok : String) : Option GoTy :=
  match tok with
  | "i8" => some (.prim (.int ⟨true, 8⟩))
  | "i16" => some (.prim (.int ⟨true, 16⟩))
  | "i32" => some (.prim (.int ⟨true, 32⟩))
  | "i64" => some (.prim (.int ⟨true, 64⟩))
  | "int" => some (.prim (.int ⟨true, 64⟩))
  | "u8" => some (.prim (.int ⟨false, 8⟩))
  | "u16" => some (.prim (.int ⟨false, 16⟩))
  | "u32" => some (.prim (.int ⟨false, 32⟩))
  | "u64" => some (.prim (.int ⟨false, 64⟩))
  | "uint" => some (.prim (.int ⟨false, 64⟩))
  | "f32" => some (.prim .f32)
  | "f64" => some (.prim .f64)
  | "bool" => some (.prim .bool)
  | "str" => some (.prim .str)
  -- hand-written named string types that carry methods (Stringer, error, TextMarshaler, …): their
  -- Kind is String, so for the serializer they are strings; a named int32 is described by its kind
  | "nsS" => some (.prim .str) | "nsL" => some (.prim .str) | "nsE" => some (.prim .str)
  | "nsT" => some (.prim .str) | "nsJ" => some (.prim .str) | "nsF" => some (.prim .str)
  | "niC" => some (.prim (.int ⟨true, 32⟩))
  | "time" => some (.prim .time)
  | "dur" => some (.prim .dur)
  | "bytes" => some .bytes
  | _ => none

mutual
partial def parseTy : List String → Option (GoTy × List String)
  | "ptr" :: r => match parseTy r with
    | some (t, r) => some (.ptr t, r)
    | none => none
  | "sl" :: r => match parseTy r with
    | some (.prim (.int ⟨false, 8⟩), _) => none       -- []uint8 is []byte: written `bytes`
    | some (t, r) => some (.slice t, r)
    | none => none
  | "map" :: r => match parseTy r with
    | some (k, r) => match parseTy r with
      | some (v, r) => some (.map k v, r)
      | none => none
    | none => none
  | "st" :: n :: r => match n.toNat? with
    | some k => match parseFields k r with
      | some (fs, r) => some (.struct fs, r)
      | none => none
    | none => none
  | tok :: r => match primOf tok with
    | some t => some (t, r)
    | none => none
  | [] => none
partial def parseFields : Nat → List String → Option (GoFields × List String)
  | 0, r => some (.nil, r)
  | k + 1, tag :: atag :: r => match parseBStr tag, parseBStr atag, parseTy r with
    | some tg, some atg, some (t, r) => match parseFields k r with
      | some (fs, r) => some (.cons tg atg t fs, r)
      | none => none
    | _, _, _ => none
  | _, _ => none
end

def splitColon (x : String) : List String := x.splitOn ":"

mutual
partial def parseVal : GoTy → List String → Option (Val × List String)
  | .ptr _, "nil" :: r => some (.nil, r)
  | .ptr t, r => parseVal t r
  | .slice _, "nil" :: r => some (.slice true .nil, r)
  | .slice t, tok :: r => match splitColon tok with
    | ["l", n] => match n.toNat? with
      | some k => match parseVals t k r with
        | some (vs, r) => some (.slice false vs, r)
        | none => none
      | none => none
    | _ => none
  | .map _ _, "nil" :: r => some (.map true .nil, r)
  | .map kt vt, tok :: r => match splitColon tok with
    | ["m", n] => match n.toNat? with
      | some k => match parseKVs kt vt k r with
        | some (kvs, r) => some (.map false kvs, r)
        | none => none
      | none => none
    | _ => none
  | .struct fs, "r" :: r => match parseSFields fs r with
    | some (sfs, r) => some (.struct sfs, r)
    | none => none
  | .bytes, "nil" :: r => some (.bytes [], r)     -- a nil []byte is written as an empty binary
  | _, tok :: r => match splitColon tok with
    | ["i", v] => v.toInt?.map fun x => (.int x, r)
    | ["g", h] => (hexNat h.toList).map fun x => (.f32 x, r)
    | ["f", h] => (hexNat h.toList).map fun x => (.f64 x, r)
    | ["b", "0"] => some (.bool false, r)
    | ["b", "1"] => some (.bool true, r)
    | ["s", h] => (parseHexBody h).map fun x => (.str x, r)
    | ["y", h] => (parseHexBody h).map fun x => (.bytes x, r)
    | ["t", sec, ns] => match sec.toInt?, ns.toInt? with
      | some a, some b => some (.time ⟨a, b⟩, r)
      | _, _ => none
    | ["d", ns] => ns.toInt?.map fun x => (.dur x, r)
    | _ => none
  | _, [] => none
partial def parseVals : GoTy → Nat → List String → Option (Vals × List String)
  | _, 0, r => some (.nil, r)
  | t, k + 1, r => match parseVal t r with
    | some (v, r) => match parseVals t k r with
      | some (vs, r) => some (.cons v vs, r)
      | none => none
    | none => none
partial def parseKVs : GoTy → GoTy → Nat → List String → Option (KVs × List String)
  | _, _, 0, r => some (.nil, r)
  | kt, vt, k + 1, r => match parseVal kt r with
    | some (kv, r) => match parseVal vt r with
      | some (vv, r) => match parseKVs kt vt k r with
        | some (kvs, r) => some (.cons kv vv kvs, r)
        | none => none
      | none => none
    | none => none
partial def parseSFields : GoFields → List String → Option (SFields × List String)
  | .nil, r => some (.nil, r)
  | .cons tag atag t fs, r => match parseVal t r with
    | some (v, r) => match parseSFields fs r with
      | some (sfs, r) => some (.cons tag atag v sfs, r)
      | none => none
    | none => none
end

mutual
/-- Wire cells, following the Arrow type of the column. -/
partial def parseCell : ATy → List String → Option (Cell × List String)
  | _, "N" :: r => some (.null, r)
  | .list e, tok :: r => match splitColon tok with
    | ["l", n] => match n.toNat? with
      | some k => match parseCells e k r with
        | some (cs, r) => some (.list cs, r)
        | none => none
      | none => none
    | _ => none
  | .map ka va, tok :: r => match splitColon tok with
    | ["m", n] => match n.toNat? with
      | some k => match parseCKVs ka va k r with
        | some (cs, r) => some (.map cs, r)
        | none => none
      | none => none
    | _ => none
  | .struct afs, "r" :: r => match parseCFields afs r with
    | some (cs, r) => some (.struct cs, r)
    | none => none
  | a, tok :: r => match a, splitColon tok with
    | .int t, ["i", v] => v.toInt?.map fun x => (.int t x, r)
    | .date32, ["i", v] => v.toInt?.map fun x => (.date x, r)
    | .ts _, ["i", v] => v.toInt?.map fun x => (.ts x, r)
    | .time64, ["i", v] => v.toInt?.map fun x => (.time x, r)
    | .dur, ["i", v] => v.toInt?.map fun x => (.dur x, r)
    | .dec, ["i", v] => v.toInt?.map fun x => (.dec x, r)
    | .f32, ["g", h] => (hexNat h.toList).map fun x => (.f32 x, r)
    | .f64, ["f", h] => (hexNat h.toList).map fun x => (.f64 x, r)
    | .bool, ["b", "0"] => some (.bool false, r)
    | .bool, ["b", "1"] => some (.bool true, r)
    | .utf8, ["s", h] => (parseHexBody h).map fun x => (.str false x, r)
    | .largeUtf8, ["s", h] => (parseHexBody h).map fun x => (.str true x, r)
    | .dict, ["s", h] => (parseHexBody h).map fun x => (.dict [x] 0, r)
    | .dict, ["e", i, hs] =>      -- e:<index>:<hex>,<hex>,… : the whole dictionary and the row's index
      match i.toNat?, (hs.splitOn ",").mapM parseHexBody with
      | some k, some es => some (.dict es k, r)
      | _, _ => none
    | .binary, ["y", h] => (parseHexBody h).map fun x => (.bin .normal x, r)
    | .largeBinary, ["y", h] => (parseHexBody h).map fun x => (.bin .large x, r)
    | .fixed _, ["y", h] => (parseHexBody h).map fun x => (.bin .fixed x, r)
    | _, _ => none
  | _, [] => none
partial def parseCells : ATy → Nat → List String → Option (Cells × List String)
  | _, 0, r => some (.nil, r)
  | a, k + 1, r => match parseCell a r with
    | some (c, r) => match parseCells a k r with
      | some (cs, r) => some (.cons c cs, r)
      | none => none
    | none => none
partial def parseCKVs : ATy → ATy → Nat → List String → Option (CKVs × List String)
  | _, _, 0, r => some (.nil, r)
  | ka, va, k + 1, r => match parseCell ka r with
    | some (kc, r) => match parseCell va r with
      | some (vc, r) => match parseCKVs ka va k r with
        | some (cs, r) => some (.cons kc vc cs, r)
        | none => none
      | none => none
    | none => none
partial def parseCFields : AFields → List String → Option (CFields × List String)
  | .nil, r => some (.nil, r)
  | .cons name a _ fs, r => match parseCell a r with
    | some (c, r) => match parseCFields fs r with
      | some (cs, r) => some (.cons name c cs, r)
      | none => none
    | none => none
end

/-! ### printers -/

def hexDigits (n : Nat) (width : Nat) : String :=
  let rec go : Nat → Nat → List Char → List Char
    | 0, _, acc => acc
    | w + 1, n, acc => go w (n / 16) (hexDigit (n % 16) :: acc)
  String.ofList (go width n [])

def showF32 (b : Nat) : String :=
  if b / 8388608 % 256 = 255 ∧ b % 8388608 ≠ 0 then "nan" else hexDigits b 8
def showF64 (b : Nat) : String :=
  if b / 4503599627370496 % 2048 = 2047 ∧ b % 4503599627370496 ≠ 0 then "nan" else hexDigits b 16

def showITy (t : ITy) : String := (if t.signed then "i" else "u") ++ toString t.bits

mutual
partial def showATy : ATy → String
  | .int t => showITy t
  | .f32 => "f32" | .f64 => "f64" | .bool => "bool" | .utf8 => "utf8" | .largeUtf8 => "lutf8"
  | .binary => "bin" | .largeBinary => "lbin" | .fixed w => s!"fsb{w}"
  | .date32 => "date32" | .ts false => "ts" | .ts true => "tsutc" | .time64 => "time64"
  | .dur => "dur" | .dec => "dec" | .dict => "dict"
  | .list e => "list<" ++ showATy e ++ ">"
  | .map k v => "map<" ++ showATy k ++ "," ++ showATy v ++ ">"
  | .struct fs => "struct{" ++ showAFields fs ++ "}"
  | .other n => s!"other{n}"
partial def showAFields : AFields → String
  | .nil => ""
  | .cons n a nl r =>
    "x" ++ hexOfBStr n ++ ":" ++ showATy a ++ ":" ++ (if nl then "1" else "0") ++
      (match r with | .nil => "" | _ => "," ++ showAFields r)
end

mutual
partial def showCell : Cell → String
  | .null => "N"
  | .int t v => showITy t ++ ":" ++ toString v
  | .f32 b => "f32:" ++ showF32 b
  | .f64 b => "f64:" ++ showF64 b
  | .bool b => if b then "b:1" else "b:0"
  | .str false x => "s:" ++ hexOfBStr x
  | .str true x => "ls:" ++ hexOfBStr x
  | .bin .normal b => "y:" ++ hexOfBStr b
  | .bin .large b => "ly:" ++ hexOfBStr b
  | .bin .fixed b => "fy:" ++ hexOfBStr b
  | .date d => "date:" ++ toString d
  | .ts us => "ts:" ++ toString us
  | .time us => "time:" ++ toString us
  | .dur us => "dur:" ++ toString us
  | .dec n => "dec:" ++ toString n
  | .dict es i => "dict:" ++ hexOfBStr (es.getD i [])
  | .list cs => "[" ++ showCells cs ++ "]"
  | .map kvs => "{" ++ showCKVs kvs ++ "}"
  | .struct fs => "(" ++ showCFields fs ++ ")"
partial def showCells : Cells → String
  | .nil => ""
  | .cons c .nil => showCell c
  | .cons c r => showCell c ++ "," ++ showCells r
partial def showCKVs : CKVs → String
  | .nil => ""
  | .cons k v .nil => showCell k ++ "=" ++ showCell v
  | .cons k v r => showCell k ++ "=" ++ showCell v ++ "," ++ showCKVs r
partial def showCFields : CFields → String
  | .nil => ""
  | .cons n c .nil => "x" ++ hexOfBStr n ++ "=" ++ showCell c
  | .cons n c r => "x" ++ hexOfBStr n ++ "=" ++ showCell c ++ "," ++ showCFields r
end

mutual
partial def showVal : Val → String
  | .nil => "nil"
  | .int v => "i:" ++ toString v
  | .f32 b => "g:" ++ showF32 b
  | .f64 b => "f:" ++ showF64 b
  | .bool b => if b then "b:1" else "b:0"
  | .str x => "s:" ++ hexOfBStr x
  | .bytes b => "y:" ++ hexOfBStr b
  | .time t => "t:" ++ toString t.sec ++ ":" ++ toString t.nsec
  | .dur ns => "d:" ++ toString ns
  | .slice _ vs => "[" ++ showVals vs ++ "]"
  | .map _ kvs => "{" ++ showKVs kvs ++ "}"
  | .struct fs => "(" ++ showSFields fs ++ ")"
partial def showVals : Vals → String
  | .nil => ""
  | .cons v .nil => showVal v
  | .cons v r => showVal v ++ "," ++ showVals r
partial def showKVs : KVs → String
  | .nil => ""
  | .cons k v .nil => showVal k ++ "=" ++ showVal v
  | .cons k v r => showVal k ++ "=" ++ showVal v ++ "," ++ showKVs r
partial def showSFields : SFields → String
  | .nil => ""
  | .cons _ _ v .nil => showVal v
  | .cons _ _ v r => showVal v ++ "," ++ showSFields r
end


def splitBar (ws : List String) : List String × List String :=
  (ws.takeWhile (· ≠ "|"), (ws.dropWhile (· ≠ "|")).drop 1)

def errStr : Err → String
  | .derive => "err:derive"
  | .encode => "err:encode"
  | .decode => "err:decode"
  | .unmodelled => "bad-op"

end Vgi.Drive.ValuesIO
