import Vgi.Model.Otel
/-!
Line protocol for C43 (one hook per case):

  cfg <tracing> <metrics> <recexc> <propagate>     0/1 each
  start <rec> <meta>      OnDispatchStart of the next dispatch; rec = the SDK sampler's decision
                          (0 when tracing is off); meta = nil | empty | x<key>:x<val>,...
  end <k> <stats> <err>   OnDispatchEnd of dispatch k with its own token (0/1, 0/1)
  endnil <k> <stats> <err> OnDispatchEnd with a token that is not a *spanToken

Answers: `tok=<span index|-> parent=<traceid>-<spanid>-<flags>|-` for start,
`span=<calls>/<ended>/<late>/<status>/<exc>|- cnt=<ok>/<error>` for end; `contract` when the
line would break the hook contract (unknown dispatch, second end).
-/
namespace Vgi.Drive.C43
open Vgi Vgi.Otel

structure St where
  cfg : Option Cfg := none
  sys : Sys := initSys

def parseBool (s : String) : Option Bool :=
  if s = "1" then some true else if s = "0" then some false else none

def parsePair (s : String) : Option (Bytes × Bytes) :=
  match s.splitOn ":" with
  | [a, b] =>
    match parseHexArg a, parseHexArg b with
    | some x, some y => some (x, y)
    | _, _ => none
  | _ => none

def parsePairs : List String → Option (List (Bytes × Bytes))
  | [] => some []
  | p :: ps =>
    match parsePair p, parsePairs ps with
    | some x, some r => some (x :: r)
    | _, _ => none

def parseMeta (s : String) : Option Info :=
  if s = "nil" then some { md := none }
  else if s = "empty" then some { md := some [] }
  else (parsePairs (s.splitOn ",")).map fun m => { md := some m }

def showCode : Code → String
  | .unset => "unset" | .ok => "ok" | .error => "error"

def b01 (b : Bool) : String := if b then "1" else "0"

def showParent : Option Remote → String
  | none => "-"
  | some r => s!"{hexOfBytes r.traceId}-{hexOfBytes r.spanId}-{r.flags}"

def showSpan (w : World) (t : Option Token) : String :=
  match t with
  | some { span := some i } =>
    match w.spans[i]? with
    | some sp => s!"{sp.endCalls}/{b01 sp.ended}/{sp.lateOps}/{showCode sp.status}/{sp.excEvents}"
    | none => "?"
  | _ => "-"

def showCounts (w : World) : String :=
  s!"{(w.counts.filter (fun c => !c.isError)).length}/{(w.counts.filter (fun c => c.isError)).length}"

def step (st : St) (ws : List String) : St × String :=
  match st.cfg, ws with
  | none, ["cfg", a, b, c, d] =>
    match parseBool a, parseBool b, parseBool c, parseBool d with
    | some t, some m, some r, some p =>
      ({ st with cfg := some { tracing := t, metrics := m, recordExc := r, propagate := p } }, "ok")
    | _, _, _, _ => (st, "bad-op")
  | none, _ => (st, "err:no-cfg")
  | some cfg, ["start", r, m] =>
    match parseBool r, parseMeta m with
    | some rec, some info =>
      match stepEv cfg st.sys (.start info rec) with
      | some s' =>
        let tok := s'.toks.getLast?
        let ts := match tok with | some { span := some i } => toString i | _ => "-"
        let par := match tok with
          | some { span := some i } => (match s'.w.spans[i]? with | some sp => showParent sp.parent | none => "?")
          | _ => "-"
        ({ st with sys := s' }, s!"tok={ts} parent={par}")
      | none => (st, "contract")
    | _, _ => (st, "bad-op")
  | some cfg, ["end", k, a, b] =>
    match k.toNat?, parseBool a, parseBool b with
    | some k, some hs, some err =>
      match stepEv cfg st.sys (.finish k hs err) with
      | some s' => ({ st with sys := s' }, s!"span={showSpan s'.w s'.toks[k]?} cnt={showCounts s'.w}")
      | none => (st, "contract")
    | _, _, _ => (st, "bad-op")
  | some cfg, ["endnil", k, a, b] =>
    match k.toNat?, parseBool a, parseBool b with
    | some k, some hs, some err =>
      match st.sys.toks[k]? with
      | some t =>
        let w' := onEnd cfg st.sys.w none k hs err
        ({ st with sys := { st.sys with w := w' } }, s!"span={showSpan w' (some t)} cnt={showCounts w'}")
      | none => (st, "contract")
    | _, _, _ => (st, "bad-op")
  | _, _ => (st, "bad-op")

def drive : IO Unit := driveLoop ({} : St) step

end Vgi.Drive.C43

def main : IO Unit := Vgi.Drive.C43.drive
