import Vgi.Model.Ledger
namespace Vgi.Drive.C41
open Vgi Vgi.Ledger

def dropS (s : String) (n : Nat) : String := String.ofList (s.toList.drop n)

def kv (pre s : String) : Option Nat := if s.startsWith pre then (dropS s pre.length).toNat? else none

def parseEnd (s : String) : Option End :=
  if s = "ok" then some .ok else if s = "err" then some .err else if s = "panic" then some .panic
  else if s = "fin" then some .fin else if s = "cancel" then some .cancel else none

/-- `<emits>:<end>` followed by any of `:bad`, `:brk`, `:cap` -/
def parseTurn (s : String) : Option Turn :=
  match s.splitOn ":" with
  | e :: d :: flags =>
    match e.toNat?, parseEnd d with
    | some e, some d =>
      if flags.all (fun f => ["bad", "brk", "cap", "unenc", "xok", "xerr", "both"].contains f) then
        some { emits := e, «end» := d, bad := flags.contains "bad", brk := flags.contains "brk",
               capped := flags.contains "cap", unenc := flags.contains "unenc",
               extIn := if flags.contains "xerr" then .err else if flags.contains "xok" then .ok else .none,
               both := flags.contains "both" }
      else none
    | _, _ => none
  | _ => none

def parseTurns (s : String) : Option (List Turn) := if s = "-" then some [] else (s.splitOn ";").mapM parseTurn

def parseWire (s : String) : Option Wire :=
  if s = "i64" then some .i64 else if s = "i32" then some .i32 else if s = "f64" then some .f64
  else if s = "str" then some .str else if s = "two" then some .two else none

def parseMethod (s : String) : Option UMethod :=
  if s = "echo" then some .echo else if s = "fail" then some .fail else if s = "boom" then some .boom
  else if s = "void" then some .void else if s = "badparams" then some .badparams else none

def knownTransport (s : String) : Bool :=
  ["pipe", "http", "httpcap", "pipex", "httpx", "httpxacc", "httpxpre", "httpxpost"].contains s

def parseExtMode (s : String) : Option ExtMode :=
  if s = "inline" then some .inline else if s = "uploaded" then some .uploaded
  else if s = "pre" then some .refusedPre else if s = "post" then some .refusedPost else none

def report (c : Call) : String :=
  match run [] (callEvents c) with
  | some (l, s) => s!"samples=[{",".intercalate (s.map toString)}] after={outstanding l}"
  | none => "err:release-of-unheld"

def step (_ : Unit) (ws : List String) : Unit × String :=
  match ws with
  | ["unary", tr, m, shm, r] =>
    match knownTransport tr, parseMethod m, shm.toNat?, kv "r=" r with
    | true, some m, some _, some r => ((), report (.unary m { r := r, e := 0, c := 0 }))
    | _, _, _, _ => ((), "bad-op")
  | ["unaryx", tr, mode, r, w] =>
    match knownTransport tr, parseExtMode mode, kv "r=" r, kv "w=" w with
    | true, some m, some r, some w => ((), report (.unaryExt m { r := r, e := 0, c := 0, w := w }))
    | _, _, _, _ => ((), "bad-op")
  | ["unaryin", tr, ok, r, w, x] =>
    match knownTransport tr, kv "r=" r, kv "w=" w, kv "x=" x with
    | true, some r, some w, some x =>
      if ok = "ok" then ((), report (.unaryIn true { r := r, e := 0, c := 0, w := w, x := x }))
      else if ok = "err" then ((), report (.unaryIn false { r := r, e := 0, c := 0, w := w, x := x }))
      else ((), "bad-op")
    | _, _, _, _ => ((), "bad-op")
  | ["stream", tr, k, w, shm, e, c, x, ts] =>
    match knownTransport tr, parseWire w, shm.toNat?, kv "e=" e, kv "c=" c, kv "x=" x, parseTurns ts with
    | true, some w, some _, some e, some c, some x, some ts =>
      -- over HTTP the server keeps calling Produce until the producer finishes (the scripted
      -- handler finishes once its script is used up); over a pipe the client's ticks bound it
      let ts := if (k = "prod" || k = "prodh") && !(tr = "pipe" || tr = "pipex")
        then ts ++ [{ emits := 0, «end» := .fin, bad := false }] else ts
      -- prodh: a producer with a stream header (serialized and released before the first turn)
      if k = "prod" || k = "prodh" then ((), report (.stream .prod w { r := 0, e := e, c := c, x := x } ts))
      else if k = "xch" then ((), report (.stream .xch w { r := 0, e := e, c := c, x := x } ts))
      else ((), "bad-op")
    | _, _, _, _, _, _, _ => ((), "bad-op")
  | ["castin", w, bad, e, c] =>
    match parseWire w, bad.toNat?, kv "e=" e, kv "c=" c with
    | some w, some b, some e, some c => ((), report (.castInput w (b != 0) { r := 0, e := e, c := c }))
    | _, _, _, _ => ((), "bad-op")
  | _ => ((), "bad-op")

def drive : IO Unit := driveLoop () step

end Vgi.Drive.C41

def main : IO Unit := Vgi.Drive.C41.drive
