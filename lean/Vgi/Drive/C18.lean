import Vgi.Model.ReqBody
namespace Vgi.Drive.C18
open Vgi Vgi.Compress Vgi.ReqBody

/-- server configuration + route prefix -/
structure St where
  cfg : Cfg
  pfx : Bytes

def initSt : St := { cfg := { maxBody := 67108864, maxReq := 0, maxDec := 0 }, pfx := [] }

def kv (key : String) (w : String) : Option String :=
  if w.startsWith (key ++ "=") then some (String.ofList (w.toList.drop (key.length + 1))) else none

def parseOptNat (s : String) : Option (Option Nat) :=
  if s = "-" then some none else (s.toNat?).map some

def parseBool01 (s : String) : Option Bool :=
  if s = "0" then some false else if s = "1" then some true else none

def parseFrame (s : String) : Option Frame :=
  match s.splitOn ":" with
  | [w, l] => match w.toNat?, l.toNat? with
    | some a, some b => some { window := a, len := b }
    | _, _ => none
  | _ => none

def parseFrames (s : String) : Option (List Frame) :=
  if s = "-" then some [] else (s.splitOn ";").mapM parseFrame

/-- `fcs=<n|-> init=<0|1> tail=<0|1> ewd=<0|1> frames=<w:l;w:l|->` -/
def parseFacts (a b c e d : String) : Option Facts := do
  let f ← (kv "fcs" a) >>= parseOptNat
  let i ← (kv "init" b) >>= parseBool01
  let t ← (kv "tail" c) >>= parseBool01
  let w ← (kv "ewd" e) >>= parseBool01
  let fr ← (kv "frames" d) >>= parseFrames
  pure { fcs := f, initErr := i, frames := fr, tailErr := t, errWithData := w }

/-- facts of several layers: groups of five words -/
def parseLayers : List String → Option (List Facts)
  | [] => some []
  | a :: b :: c :: e :: d :: rest => do
    let f ← parseFacts a b c e d
    let more ← parseLayers rest
    pure (f :: more)
  | _ => none

def showROut (sha : String) : ROut → String
  | .body n => s!"200 body len={n} sha={sha}"
  | .tooLarge _ => "413 too-large"
  | .valueErr => "400 bad-request"
  | .decodeErr => "400 bad-request"
  | .unsupported => "415 unsupported"

def showDOut (sha : String) : DOut → String
  | .ok n => s!"ok len={n} sha={sha}"
  | .tooLarge _ => "too-large"
  | .decodeErr => "error"
  | .unsupported => "unsupported"

def codecOf (s : String) : Option (Option Codec) :=
  if s = "zstd" then some (some .zstd) else if s = "gzip" then some (some .gzip)
  else if s = "other" then some none else none

def step (st : St) (ws : List String) : St × String :=
  match ws with
  | ["cfg", a, b, c, p] => match a.toInt?, b.toInt?, c.toInt?, parseHexArg p with
    | some x, some y, some z, some pb => ({ cfg := { maxBody := x, maxReq := y, maxDec := z }, pfx := pb }, "ok")
    | _, _, _, _ => (st, "bad-op")
  | ["exempt", p] => match parseHexArg p with
    | some pb => (st, s!"exempt={isExempt st.pfx pb}")
    | none => (st, "bad-op")
  -- hook level: readHTTPBody
  | ["read", p, n, e, sha, f1, f2, f3, f4, f5] =>
    match parseHexArg p, n.toNat?, parseHexArg e, kv "sha" sha, parseFacts f1 f2 f3 f4 f5 with
    | some pb, some rawLen, some eb, some h, some facts =>
      let r := readBody st.cfg (isExempt st.pfx pb) rawLen eb facts
      (st, s!"{showROut h r.1} raw={r.2.1}")
    | _, _, _, _, _ => (st, "bad-op")
  -- through ServeHTTP: fast path + handler
  | ["post", p, cl, n, e, sha, f1, f2, f3, f4, f5] =>
    match parseHexArg p, cl.toInt?, n.toNat?, parseHexArg e, kv "sha" sha, parseFacts f1 f2 f3 f4 f5 with
    | some pb, some c, some rawLen, some eb, some h, some facts =>
      let r := serve st.cfg (isExempt st.pfx pb) c rawLen eb facts
      (st, showROut h r.1)
    | _, _, _, _, _, _ => (st, "bad-op")
  -- any body-reading route through ServeHTTP: only the statuses the body reader owns are compared
  -- (413 / 415); everything else (delivered to the route's handler, or a 400) is "other"
  | ["route", p, cl, n, e, f1, f2, f3, f4, f5] =>
    match parseHexArg p, cl.toInt?, n.toNat?, parseHexArg e, parseFacts f1 f2 f3 f4 f5 with
    | some pb, some c, some rawLen, some eb, some facts =>
      let r := serve st.cfg (isExempt st.pfx pb) c rawLen eb facts
      (st, match status r.1 with
        | 413 => "413"
        | 415 => "415"
        | _ => "other")
    | _, _, _, _, _ => (st, "bad-op")
  | ["dec", c, m, sha, f1, f2, f3, f4, f5] =>
    match codecOf c, m.toInt?, kv "sha" sha, parseFacts f1 f2 f3 f4 f5 with
    | some codec, some mx, some h, some facts =>
      (st, showDOut h (decompressBounded codec facts mx).1)
    | _, _, _, _ => (st, "bad-op")
  | "stack" :: hdr :: m :: n :: sha :: layers =>
    match parseHexArg hdr, m.toInt?, n.toNat?, kv "sha" sha, parseLayers layers with
    | some hb, some mx, some len, some h, some ls =>
      (st, showDOut h (decodeContentEncoding len hb mx ls))
    | _, _, _, _, _ => (st, "bad-op")
  | _ => (st, "bad-op")

def drive : IO Unit := driveLoop initSt step

end Vgi.Drive.C18

def main : IO Unit := Vgi.Drive.C18.drive
