import Vgi.Model.RouteAuth
import Vgi.Generated.C22
/-!
Line-protocol driver for C22. One server configuration per case, then requests.

  cfg pfx=</a/b|-> auth=0|1 proof=0|1 pkce=0|1 upload=0|1 introspect=0|1 sticky=0|1
      describe=0|1 landing=0|1 notfound=0|1 custom=<VERB:/pat,...|->       -> ok
  req <VERB> <path> inner=<accept:NAME|anon|failure|wrapped|value|perm|unavail|rpcother|other|nilnil|ctx+<refusal>|chain:m1/m2/…>
      proof=<absent|valid|bad> ct=<arrow|other> body=<empty|garbage|valid|mismatch|count:N|tok-unknown|tok-jws|tok-down>
      sess=<absent|garbage|fresh>                                           -> gate=<denied|open|na> ev=<...|->
  fail <pkce-nometa|pkce-noclient|oauthmeta-invalid|introspect-noresolver|introspect-noprincipals>
      a setter call that fails validation, made on the live server (also `failed=a,b` on the cfg line)  -> ok
-/
namespace Vgi.Drive.C22
open Vgi Vgi.RouteAuth

def kv (w : String) : Option (String × String) :=
  match w.splitOn "=" with
  | k :: v :: rest => some (k, "=".intercalate (v :: rest))
  | _ => none

def lookup (kvs : List (String × String)) (k : String) : Option String :=
  (kvs.find? fun p => p.1 = k).map (·.2)

def bool? (s : String) : Option Bool :=
  if s = "1" then some true else if s = "0" then some false else none

def badSeg (s : String) : Bool :=
  s.isEmpty || s = "." || s = ".." || s.toList.any fun c => c = '%' || c = '{' || c = '}' || c = '?' || c = '#'

/-- "/a/b" -> (["a","b"], false); "/a/" -> (["a"], true); "/" -> ([], true) -/
def parsePath (p : String) : Option (List String × Bool) :=
  match p.splitOn "/" with
  | "" :: rest =>
    let (segs, sl) := match rest.getLast? with
      | some "" => (rest.dropLast, true)
      | _ => (rest, false)
    if segs.any badSeg then none else some (segs, sl)
  | _ => none

def parsePrefix (p : String) : Option (List String) :=
  if p = "-" then some []
  else match parsePath p with
    | some (segs, false) => if segs.isEmpty then none else some segs
    | _ => none

def parseCustomSegs : List String → Option (List CSeg × PTail)
  | [] => some ([], .exact)
  | [""] => some ([], .subtree)
  | ["{$}"] => some ([], .dollar)
  | s :: rest =>
    if s.isEmpty then none
    else
      let seg : CSeg := if s.startsWith "{" && s.endsWith "}" then .wild else .lit s
      match parseCustomSegs rest with
      | some (segs, t) => some (seg :: segs, t)
      | none => none

def parseCustom (w : String) : Option Pat :=
  match w.splitOn ":" with
  | [v, p] =>
    match p.splitOn "/" with
    | "" :: rest =>
      match parseCustomSegs rest with
      | some (segs, t) => some { verb := if v = "*" then none else some v, segs := segs, tail := t }
      | none => none
    | _ => none
  | _ => none

def parseCustoms (s : String) : Option (List Pat) :=
  if s = "-" then some [] else (s.splitOn ",").mapM parseCustom

def parseCfg (ws : List String) : Option Cfg := do
  let kvs ← ws.mapM kv
  let g := fun k => lookup kvs k
  let b := fun k => (g k).bind bool?
  some {
    pfx := ← (g "pfx").bind parsePrefix
    authenticator := ← b "auth"
    proofGate := ← b "proof"
    pkce := ← b "pkce"
    upload := ← b "upload"
    introspect := ← b "introspect"
    sticky := ← b "sticky"
    describePage := ← b "describe"
    landingPage := ← b "landing"
    notFoundPage := ← b "notfound"
    custom := ← (g "custom").bind parseCustoms
    rotated := ((g "rotate").bind bool?).getD false }

def parseInnerPlain (s : String) : Option Inner :=
  if s.startsWith "accept:" then some (.accept (s.drop 7).toString)
  else if s = "anon" then some .acceptAnon
  else if s = "failure" then some (.reject .failure)
  else if s = "wrapped" then some (.reject .failure)
  else if s = "value" then some (.reject .rpcValue)
  else if s = "perm" then some (.reject .rpcPermission)
  else if s = "unavail" then some (.reject .unavailable)
  else if s = "rpcother" then some (.reject .rpcOther)
  else if s = "other" then some (.reject .other)
  else if s = "nilnil" then some .nilNil
  else none

/-- `ctx+<kind>`: the authenticator returns a non-nil context TOGETHER with that error; only the error
counts for the gate (`authenticate` tests `err != nil`); the harness' context is the authenticated
principal `introspector`. -/
def parseInner (s : String) : Option Inner :=
  if s.startsWith "ctx+" then
    (if (s.drop 4).toString = "nilnil" then none else
      match parseInnerPlain (s.drop 4).toString with
      | some (.reject k) => some (.rejectCtx k introspector)
      | _ => none)
  else parseInnerPlain s

/-- `chain:m1/m2/…` — the authenticator is `ChainAuthenticate` over members with these behaviours -/
def parseInnerOrChain (s : String) : Option Inner :=
  if s.startsWith "chain:" then
    (((s.drop 6).toString.splitOn "/").mapM parseInner).map chainOutcome
  else parseInner s

def parseBody (s : String) : Option Body :=
  if s = "empty" then some .empty
  else if s = "garbage" then some .garbage
  else if s = "valid" then some .valid
  else if s = "mismatch" then some .mismatch
  else if s = "tok-unknown" then some .tokUnknown
  else if s = "tok-jws" then some .tokJws
  else if s = "tok-down" then some .tokDown
  else if s.startsWith "count:" then (s.drop 6).toString.toInt?.map .count
  else none

def parseReq (verb path : String) (ws : List String) : Option Req := do
  let kvs ← ws.mapM kv
  let g := fun k => lookup kvs k
  let (segs, sl) ← parsePath path
  let proof ← match ← g "proof" with
    | "absent" => some ProofKind.absent | "valid" => some .valid | "bad" => some .bad | _ => none
  let ct ← match ← g "ct" with
    | "arrow" => some true | "other" => some false | _ => none
  let sess ← match ← g "sess" with
    | "absent" => some SessKind.absent | "garbage" => some .garbage | "fresh" => some .fresh | _ => none
  if verb.isEmpty then none
  some { verb := verb, path := segs, slash := sl, ctArrow := ct, body := ← (g "body").bind parseBody,
         inner := ← (g "inner").bind parseInnerOrChain, proof := proof, sess := sess }

def showEvent : Event → String
  | .handler => "handler"
  | .describe => "describe"
  | .init => "init"
  | .state => "state"
  | .provider n => s!"provider={n}"
  | .resolver => "resolver"
  | .custom => "custom"
  | .stateClose => "stateclose"

/-- `na`: when the authenticator answers (nil, nil) the dropped request is an empty 200, which the
harness cannot tell from other empty 200s by its bytes — only the events are compared. -/
def showResp (cfg : Cfg) (q : Req) (r : Resp) : String :=
  if r.unknown then "unknown"
  else
    let g := if cfg.authenticator && outcome cfg q == .nilNil then "na"
      else match r.gate with | .denied => "denied" | .disabled => "open" | .passed => "open"
    let ev := if r.events.isEmpty then "-" else ",".intercalate (r.events.map showEvent)
    s!"gate={g} ev={ev}"

/-- setter calls the harness can make that are rejected by the setter's own validation -/
def failingCalls : List String :=
  ["pkce-nometa", "pkce-noclient", "oauthmeta-invalid", "introspect-noresolver", "introspect-noprincipals"]

def step (st : Option Cfg) (ws : List String) : Option Cfg × String :=
  match ws with
  | "cfg" :: rest =>
    match parseCfg rest with
    | some c => (some c, "ok")
    | none => (st, "bad-op")
  | ["fail", name] =>
    -- a setter call that FAILS validation (returns an error): nothing about the server changes
    match st with
    | none => (st, "err:no-cfg")
    | some _ => if failingCalls.contains name then (st, "ok") else (st, "bad-op")
  | "req" :: verb :: path :: rest =>
    match st with
    | none => (st, "err:no-cfg")
    | some cfg =>
      match parseReq verb path rest with
      | some r => (st, showResp cfg r (serve Vgi.Generated.C22.table cfg r))
      | none => (st, "bad-op")
  | _ => (st, "bad-op")

def drive : IO Unit := driveLoop (none : Option Cfg) step

end Vgi.Drive.C22

def main : IO Unit := Vgi.Drive.C22.drive
