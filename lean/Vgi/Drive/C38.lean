import Vgi.Model.AccessLog
import Vgi.Generated.C38
/-!
Line protocol for C38: one line = one dispatch end, answered with the canonical record.

  rec <debug> <ver> <proto> <method> <mtype> <server> <phash> <rid> <auth> <remote> <http>
      <rdata> <stream> <cancelled> <err> <stats> <egress> <trace> <red> <mint>

  strings x<hex>; debug/cancelled 0|1; http int
  auth    nil | a:<principal>:<domain>:<0|1>:<claims>
  claims  - | k~v;k~v…      k = x<hex>, v = s<hex> | i<int> | b0 | b1 | o<tag>
  stream  x<hex>            the dispatch's StreamID
          i<label>:x<hex>   same, and remember it as the id sealed in stream <label>'s call token
          c<label>          a continuation: what the call token of stream <label> carries
  err     nil | r:<type>:<msg> | p:<msg>
  stats   nil | a,b,c,d,e,f
  egress  nil | <requestId>,<requestBytes>,<externalized>,<responseBytes>
  trace   nil | panic | <traceId>,<spanId>
  red     default | panic | c:<claims>      (custom policy: its answer)
  mint    x<hex>            random bytes for a freshly minted stream id

Answer: the written record, keys sorted, `key=value` with values s<hex> | i<int> | b0|b1 | num |
ts | {k~v;…}.
-/
namespace Vgi.Drive.C38
open Vgi Vgi.AccessLog

def srcPattern : Pattern :=
  { words := Vgi.Generated.C38.redactWords, anchored := Vgi.Generated.C38.redactAnchored }

abbrev St := List (String × Bytes)      -- stream label ↦ id sealed in its call token

def parseBool (s : String) : Option Bool :=
  if s = "1" then some true else if s = "0" then some false else none

def parseCV (s : String) : Option CV :=
  match s.toList with
  | 's' :: r => (bytesOfHexAux r).map CV.str
  | 'i' :: r => (String.ofList r).toInt?.map CV.int
  | ['b', '0'] => some (.bool false)
  | ['b', '1'] => some (.bool true)
  | 'o' :: r => (String.ofList r).toNat?.map CV.opaque
  | _ => none

def parseClaim (s : String) : Option (Bytes × CV) :=
  match s.splitOn "~" with
  | [k, v] =>
    match parseHexArg k, parseCV v with
    | some kb, some cv => some (kb, cv)
    | _, _ => none
  | _ => none

def parseAll {α : Type} (f : String → Option α) : List String → Option (List α)
  | [] => some []
  | x :: xs =>
    match f x, parseAll f xs with
    | some a, some r => some (a :: r)
    | _, _ => none

def parseClaims (s : String) : Option (List (Bytes × CV)) :=
  if s = "-" then some [] else parseAll parseClaim (s.splitOn ";")

def parseAuth (s : String) : Option (Option Auth) :=
  if s = "nil" then some none
  else
    match s.splitOn ":" with
    | ["a", p, d, a, c] =>
      match parseHexArg p, parseHexArg d, parseBool a, parseClaims c with
      | some pb, some db, some ab, some cl =>
        some (some { principal := pb, domain := db, authenticated := ab, claims := cl })
      | _, _, _, _ => none
    | _ => none

def parseErr (s : String) : Option Err :=
  if s = "nil" then some .none
  else
    match s.splitOn ":" with
    | ["r", t, m] =>
      match parseHexArg t, parseHexArg m with
      | some tb, some mb => some (.rpc tb mb)
      | _, _ => none
    | ["p", m] => (parseHexArg m).map Err.plain
    | _ => none

def parseStats (s : String) : Option (Option Stats) :=
  if s = "nil" then some none
  else
    match parseAll (fun x => x.toInt?) (s.splitOn ",") with
    | some [a, b, c, d, e, f] =>
      some (some { inputBatches := a, outputBatches := b, inputRows := c, outputRows := d,
                   inputBytes := e, outputBytes := f })
    | _ => none

def parseEgress (s : String) : Option (Option Egress) :=
  if s = "nil" then some none
  else
    match s.splitOn "," with
    | [r, a, b, c] =>
      match parseHexArg r, a.toInt?, b.toInt?, c.toInt? with
      | some rb, some x, some y, some z =>
        some (some { requestId := rb, requestBytes := x, externalized := y, responseBytes := z })
      | _, _, _, _ => none
    | _ => none

def parseTrace (s : String) : Option TraceProv :=
  if s = "nil" then some .notInstalled
  else if s = "panic" then some .panics
  else
    match s.splitOn "," with
    | [t, p] =>
      match parseHexArg t, parseHexArg p with
      | some tb, some pb => some (.answers tb pb)
      | _, _ => none
    | _ => none

def parseRed (s : String) : Option Redactor :=
  if s = "default" then some .default
  else if s = "panic" then some .panics
  else
    match s.toList with
    | 'c' :: ':' :: r => (parseClaims (String.ofList r)).map Redactor.custom
    | _ => none

/-- (stream id of the dispatch, updated label table) -/
def parseStream (st : St) (mint : Bytes) (s : String) : Option (Bytes × St) :=
  match s.toList with
  | 'x' :: _ => (parseHexArg s).map fun b => (b, st)
  | 'i' :: r =>
    match (String.ofList r).splitOn ":" with
    | [label, v] => (parseHexArg v).map fun b => (b, (label, b) :: st.filter (·.1 ≠ label))
    | _ => none
  | 'c' :: r =>
    match st.find? (·.1 = String.ofList r) with
    | some (_, sealed) => some (contStreamId sealed mint, st)
    | none => none
  | _ => none

def showCV : CV → String
  | .str b => "s" ++ hexOfBytes b
  | .int n => s!"i{n}"
  | .bool b => if b then "b1" else "b0"
  | .opaque t => s!"o{t}"

def leStr (a b : String) : Bool := a < b || a == b

def showClaims (kvs : List (Bytes × CV)) : String :=
  let items := (kvs.map fun kv => (hexOfBytes kv.1, showCV kv.2)).mergeSort (fun a b => leStr a.1 b.1)
  "{" ++ ";".intercalate (items.map fun kv => "x" ++ kv.1 ++ "~" ++ kv.2) ++ "}"

def showJV : JV → String
  | .str b => "s" ++ hexOfBytes b
  | .int n => s!"i{n}"
  | .bool b => if b then "b1" else "b0"
  | .num => "num"
  | .ts => "ts"
  | .claims kvs => showClaims kvs

def showRecord (r : Record) : String :=
  let items := r.mergeSort (fun a b => leStr a.1 b.1)
  " ".intercalate (items.map fun kv => kv.1 ++ "=" ++ showJV kv.2)

def step (st : St) (ws : List String) : St × String :=
  match ws with
  | ["rec", dbg, ver, proto, method, mtype, server, phash, rid, auth, remote, http, rdata, stream,
     cancelled, err, stats, egress, trace, red, mint] =>
    match parseBool dbg, parseHexArg ver, parseHexArg proto, parseHexArg method, parseHexArg mtype,
          parseHexArg server, parseHexArg phash, parseHexArg rid with
    | some dbg, some ver, some proto, some method, some mtype, some server, some phash, some rid =>
      match parseAuth auth, parseHexArg remote, http.toInt?, parseHexArg rdata, parseBool cancelled,
            parseErr err, parseStats stats, parseEgress egress with
      | some auth, some remote, some http, some rdata, some cancelled, some err, some stats, some egress =>
        match parseTrace trace, parseRed red, parseHexArg mint with
        | some trace, some red, some mint =>
          match parseStream st mint stream with
          | some (sid, st') =>
            let info : Info :=
              { protocol := proto, method := method, methodType := mtype, serverId := server,
                protocolHash := phash, requestId := rid, auth := auth, remoteAddr := remote,
                httpStatus := http, requestData := rdata, streamId := sid, cancelled := cancelled }
            (st', showRecord (written srcPattern { serverVersion := ver, debug := dbg } info stats err
                egress trace red mint))
          | none => (st, "bad-op")
        | _, _, _ => (st, "bad-op")
      | _, _, _, _, _, _, _, _ => (st, "bad-op")
    | _, _, _, _, _, _, _, _ => (st, "bad-op")
  | ["http"] => ([], "ok")          -- a new server: forget the sealed stream ids
  | _ => (st, "bad-op")

def drive : IO Unit := driveLoop ([] : St) step

end Vgi.Drive.C38

def main : IO Unit := Vgi.Drive.C38.drive
