import Vgi.Model.Creds
namespace Vgi.Drive.C24
open Vgi Vgi.Creds

/-- `a,b,c` of hex args ("" = empty list). -/
def parseHexList (s : String) : Option (List Bytes) :=
  if s = "" then some []
  else (s.splitOn ",").mapM parseHexArg

def stripKey (pfx s : String) : Option String :=
  if s.startsWith pfx then some (String.ofList (s.toList.drop pfx.length)) else none

def showElem (e : Elem) : String :=
  "{hash=" ++ hexArg e.hash ++ " cert=" ++ hexArg e.cert ++ " subject=" ++ hexArg e.subject ++
  " uri=" ++ hexArg e.uri ++ " dns=" ++ "|".intercalate (e.dns.map hexArg) ++ " by=" ++ hexArg e.by_ ++ "}"

/-- The claims of the default identity: only non-empty fields. -/
def showClaims (e : Elem) : String :=
  let f (n : String) (v : Bytes) : List String := if v.isEmpty then [] else [n ++ "=" ++ hexArg v]
  let d : List String := if e.dns.isEmpty then [] else ["dns=" ++ "|".intercalate (e.dns.map hexArg)]
  ",".intercalate (f "hash" e.hash ++ f "subject" e.subject ++ f "uri" e.uri ++ d ++ f "by" e.by_)

def enumFrom (l : List Bytes) : List (Bytes × Nat) := (l.zip (List.range l.length))

def step (_ : Unit) (ws : List String) : Unit × String :=
  match ws with
  | ["bearer", t, h] =>
    match (stripKey "t=" t).bind parseHexList, (stripKey "h=" h).bind parseHexList with
    | some toks, some hdrs =>
      match authStatic (enumFrom toks) hdrs with
      | .ok i => ((), s!"ok {i}")
      | _ => ((), "reject")
    | _, _ => ((), "bad-op")
  | ["xfcc", h] =>
    match parseHexArg h with
    | some b =>
      let es := parseXfcc b
      ((), s!"n={es.length}" ++ String.join (es.map fun e => " " ++ showElem e))
    | none => ((), "bad-op")
  | ["split", t, d] =>
    match parseHexArg t, (if d = "c" then some comma else if d = "s" then some semi else none) with
    | some b, some dl => ((), "parts " ++ ",".intercalate ((splitRespectingQuotes b dl).map hexArg))
    | _, _ => ((), "bad-op")
  | ["cn", s] =>
    match parseHexArg s with
    | some b => ((), "cn " ++ hexArg (extractCN b))
    | none => ((), "bad-op")
  | ["unq", s] =>
    match parseHexArg s with
    | some b => ((), "unq " ++ hexArg (unescapeQuoted b))
    | none => ((), "bad-op")
  | ["auth", sel, h] =>
    match (if sel = "first" then some false else if sel = "last" then some true else none),
        (stripKey "h=" h).bind parseHexList with
    | some l, some hdrs =>
      match xfccAuth l hdrs with
      | .ok p e => ((), s!"ok principal={hexArg p} claims=" ++ showClaims e)
      | _ => ((), "reject")
    | _, _ => ((), "bad-op")
  | _ => ((), "bad-op")

def drive : IO Unit := driveLoop () step

end Vgi.Drive.C24

def main : IO Unit := Vgi.Drive.C24.drive
