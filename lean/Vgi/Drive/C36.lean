import Vgi.Model.ShmSession
namespace Vgi.Drive.C36
open Vgi Vgi.Shm Vgi.ShmSession

/-- `id:rows:big:est:len` -/
def parseB (s : String) : Option B :=
  match s.splitOn ":" with
  | [i, r, g, e, l] =>
    match i.toNat?, r.toNat?, g.toNat?, e.toInt?, l.toNat? with
    | some i, some r, some g, some e, some l => some { id := i, rows := r, big := g != 0, est := e, len := l }
    | _, _, _, _, _ => none
  | _ => none

def dropS (s : String) (n : Nat) : String := String.ofList (s.toList.drop n)

def parseIdx (s : String) (pre : String) : Option Nat :=
  if s.startsWith pre then (dropS s pre.length).toNat? else none

def parseVia (s : String) : Option Via :=
  if s = "i" then some .inline
  else if s = "raw" then some .raw
  else match parseIdx s "s" with
    | some k => some (.shm k)
    | none => (parseIdx s "f").map Via.force

def parseAdv (s : String) : Option Adv :=
  if s = "-" then some .none
  else if s = "x" then some .gone
  else match parseIdx s "g" with
    | some k => some (.good k)
    | none => match parseIdx s "n" with
      | some k => some (.nameOnly k)
      | none => (parseIdx s "b").map Adv.badSize

def parseOutcome (s : String) : Option Outcome :=
  if s = "fin" then some .finish
  else if s.startsWith "e=" then some (.error (dropS s 2))
  else if s.startsWith "r=" then (parseB (dropS s 2)).map Outcome.result
  else none

def parseTurn (s : String) : Option Turn :=
  match s.splitOn "/" with
  | [b, v, o] => match parseB b, parseVia v, parseOutcome o with
    | some b, some v, some o => some { input := b, via := v, outcome := o }
    | _, _, _ => none
  | _ => none

def parseTurns (s : String) : Option (List Turn) :=
  if s = "-" then some [] else (s.splitOn ";").mapM parseTurn

def parseBool (s : String) : Option Bool :=
  if s = "1" then some true else if s = "0" then some false else none

def showItem : Item → String
  | .ok id true => s!"ok:{id}:shm"
  | .ok id false => s!"ok:{id}:pipe"
  | .done => "done"
  | .err k => s!"err:{k}"

def showOptNat : Option Nat → String
  | some k => toString k
  | none => "-"

def report (w : World) (items : List Item) : String :=
  let its := if items.isEmpty then "-" else ",".intercalate (items.map showItem)
  let hdrs := if w.segs.n = 0 then "-" else ",".intercalate (w.segs.toList.map fun s => hexArg (encodeHeader s.seg))
  s!"{its} | {hdrs} | held={w.held.length}"

def init : World := { segs := Segs.empty, cached := none, held := [] }

def step (w : World) (ws : List String) : World × String :=
  match ws with
  | ["seg", k, n] => match k.toNat?, n.toNat? with
    | some k, some n =>
      if k = w.segs.n then ({ w with segs := w.segs.push (SegSt.create n) }, "ok") else (w, "bad-op")
    | _, _ => (w, "bad-op")
  | ["unary", adv, p, via, out, hold] =>
    match parseAdv adv, parseB p, parseVia via, parseOutcome out, parseBool hold with
    | some a, some p, some v, some o, some h =>
      let (w', items) := runCall w (.unary a p v o h)
      (w', report w' items)
    | _, _, _, _, _ => (w, "bad-op")
  | ["stream", adv, p, via, ie, hold, turns] =>
    match parseAdv adv, parseB p, parseVia via, parseBool hold, parseTurns turns with
    | some a, some p, some v, some h, some ts =>
      let initErr := if ie = "-" then none else some ie
      let (w', items) := runCall w (.stream a p v initErr ts h)
      (w', report w' items)
    | _, _, _, _, _ => (w, "bad-op")
  | ["release", i] => match i.toNat? with
    | some i =>
      let (w', items) := runCall w (.releaseOne i)
      (w', report w' items)
    | none => (w, "bad-op")
  | ["release"] =>
    let (w', items) := runCall w .release
    (w', report w' items)
  | _ => (w, "bad-op")

def drive : IO Unit := driveLoop init step

end Vgi.Drive.C36

def main : IO Unit := Vgi.Drive.C36.drive
