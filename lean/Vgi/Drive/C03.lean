import Vgi.Model.HttpDispatch
import Vgi.Model.PipeScript
import Vgi.Model.WireScript
/-!
Line-protocol driver for C03 (see `harness/c03.go`).

  method <name> <kind> <schema> <hasResult> <hasHeader> <inputSchema|none>     (as for C02)
  pipe  <pv on|off> {S <schema> {B <rows> <cells> <meta>}}      structured streams (C02 syntax)
  pipex <pv on|off> {S|SX <schema> {B ...}} [J]                 streams found by an independent
                                                                walk of mutated bytes (hex syntax)
        -> every response stream the serve loop writes
  http  <unary|init> <method x..> <ctOk 0|1> <encOk 0|1> <pv on|off> body {S ...}      (C02 syntax)
  httpx <unary|init> <method x..> <ctOk 0|1> <encOk 0|1> <pv on|off> body {S|SX ...} [J] (hex syntax)
        -> 415 | 404 | 400 | 200 | 200err | dispatched
-/
namespace Vgi.Drive.C03
open Vgi Vgi.Wire Vgi.Pipe Vgi.Http

def parsePv : String → Option Bool
  | "on" => some true
  | "off" => some false
  | _ => none

def renderOutcome : Outcome → String
  | .s415 => "415" | .s404 => "404" | .s400 => "400"
  | .s200 => "200" | .s200err => "200err" | .dispatched => "dispatched"

def parseRoute : String → Option Route
  | "unary" => some .unary
  | "init" => some .init
  | _ => none

def step (methods : List MethodInfo) (ws : List String) : List MethodInfo × String :=
  match ws with
  | "method" :: rest =>
    match PipeScript.parseMethod rest with
    | some m => (methods ++ [m], "ok")
    | none => (methods, "bad-op")
  | "pipe" :: pv :: rest =>
    match parsePv pv, PipeScript.parseStreams 64 rest with
    | some p, some ss => (methods, PipeScript.render (serve (PipeScript.scriptCfg methods p) ss).1)
    | _, _ => (methods, "bad-op")
  | "pipex" :: pv :: rest =>
    match parsePv pv, WireScript.parseStreams 64 rest with
    | some p, some (ss, _) => (methods, PipeScript.render (serve (PipeScript.scriptCfg methods p) ss).1)
    | _, _ => (methods, "bad-op")
  | "http" :: rt :: m :: ct :: enc :: pv :: "body" :: rest =>
    match parseRoute rt, parseHexArg m, PipeScript.parseBool ct, PipeScript.parseBool enc, parsePv pv,
          PipeScript.parseStreams 64 rest with
    | some r, some mb, some c, some e, some p, some ss =>
      (methods, renderOutcome (handle (PipeScript.scriptCfg methods p) ⟨r, mb, c, e, ⟨ss, false⟩⟩))
    | _, _, _, _, _, _ => (methods, "bad-op")
  | "httpx" :: rt :: m :: ct :: enc :: pv :: "body" :: rest =>
    match parseRoute rt, parseHexArg m, PipeScript.parseBool ct, PipeScript.parseBool enc, parsePv pv,
          WireScript.parseStreams 64 rest with
    | some r, some mb, some c, some e, some p, some (ss, junk) =>
      (methods, renderOutcome (handle (PipeScript.scriptCfg methods p) ⟨r, mb, c, e, ⟨ss, junk⟩⟩))
    | _, _, _, _, _, _ => (methods, "bad-op")
  | _ => (methods, "bad-op")

def drive : IO Unit := driveLoop ([] : List MethodInfo) step

end Vgi.Drive.C03

def main : IO Unit := Vgi.Drive.C03.drive
