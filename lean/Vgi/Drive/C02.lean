import Vgi.Model.PipeScript
/-!
Line-protocol driver for C02 (see `harness/c02.go` for the script language).

  pv on|off                              server has SetProtocolVersion("1.2.0") or not
  method <name> <kind> <schema> <hasResult> <hasHeader> <inputSchema|none>
                                         one registered method (read from the real registry)
  op <tag> S <schema> {B <rows> <cells> <meta>} [S <schema> {B ...}]
                                         one client call: request stream [+ input stream]
  end                                    the whole history is served on one connection

The handlers of the harness server are scripted by the int64 parameters (a, b, c); `scriptCfg`
below is their Lean counterpart.
-/
namespace Vgi.Drive.C02
open Vgi Vgi.Wire Vgi.Pipe Vgi.PipeScript

/-! ### driver -/

structure St where
  methods : List MethodInfo := []
  pvOn : Bool := false
  frames : List Stream := []

def step (st : St) (ws : List String) : St × String :=
  match ws with
  | ["pv", "on"] => ({ st with pvOn := true }, "ok")
  | ["pv", "off"] => ({ st with pvOn := false }, "ok")
  | "method" :: rest =>
    match parseMethod rest with
    | some m => ({ st with methods := st.methods ++ [m] }, "ok")
    | none => (st, "bad-op")
  | "op" :: _tag :: rest =>
    match parseOp rest with
    | some op =>
      let cfg := scriptCfg st.methods st.pvOn
      -- well-shaped: the answer the theorems speak about (`expected`); otherwise what the serve
      -- loop does with the call's frames alone on a connection
      let out := if decide (WellShaped cfg op) then "w " ++ render (expected cfg op)
                 else "i " ++ render (serve cfg (frames op)).1
      ({ st with frames := st.frames ++ frames op }, out)
    | none => (st, "bad-op")
  | ["end"] =>
    let cfg := scriptCfg st.methods st.pvOn
    let r := serve cfg st.frames
    (st, render r.1 ++ s!" left={r.2}")
  | _ => (st, "bad-op")

def drive : IO Unit := driveLoop ({} : St) step

end Vgi.Drive.C02

def main : IO Unit := Vgi.Drive.C02.drive
