import Vgi.Model.Script
/-!
Token parsers and renderers shared by the scripted-family drivers (C04, C06, C37).
-/
namespace Vgi.Drive.ScriptParse
open Vgi Vgi.Script

def showKVs (kvs : KVs) : String :=
  if kvs.isEmpty then "-" else ",".intercalate (kvs.map fun kv => hexOfBytes kv.1 ++ "=" ++ hexOfBytes kv.2)

def showRid : Option Bytes → String
  | none => "-"
  | some r => hexArg r

def isInfix (p : Bytes) : Bytes → Bool
  | [] => p.isEmpty
  | b :: r => p.isPrefixOf (b :: r) || isInfix p r

/-- Token-stream parsers: `some (value, rest)` or `none`. -/
def pBytes : List String → Option (Bytes × List String)
  | w :: r => (parseHexArg w).map (·, r)
  | [] => none

def pKVs : Nat → List String → Option (KVs × List String)
  | 0, ws => some ([], ws)
  | n + 1, ws => do
    let (k, ws) ← pBytes ws
    let (v, ws) ← pBytes ws
    let (r, ws) ← pKVs n ws
    pure ((k, v) :: r, ws)

def pNat : List String → Option (Nat × List String)
  | w :: r => w.toNat?.map (·, r)
  | [] => none

def pLogCall (ws : List String) : Option (LogCall × List String) := do
  let (l, ws) ← pBytes ws
  let (m, ws) ← pBytes ws
  let (k, ws) ← pNat ws
  let (e, ws) ← pKVs k ws
  pure ({ level := l, msg := m, extras := e }, ws)

def pLogCalls : Nat → List String → Option (List LogCall × List String)
  | 0, ws => some ([], ws)
  | n + 1, ws => do
    let (c, ws) ← pLogCall ws
    let (r, ws) ← pLogCalls n ws
    pure (c :: r, ws)

def pErrVal : List String → Option (ErrVal × List String)
  | "rpc" :: t :: m :: r => do
    let t ← parseHexArg t
    let m ← parseHexArg m
    pure (.rpc t m, r)
  | "rpcfull" :: t :: m :: rid :: k :: tb :: r => do
    let t ← parseHexArg t
    let m ← parseHexArg m
    let rid ← parseHexArg rid
    let k ← parseHexArg k
    let tb ← parseHexArg tb
    pure (.rpcFull t m rid k tb, r)
  | "shared" :: n :: r => n.toNat?.map fun n => (.shared n, r)
  | "plain" :: m :: r => (parseHexArg m).map fun m => (.plain m, r)
  | "wrap" :: m :: r => (parseHexArg m).map fun m => (.wrapped m, r)
  | _ => none

def pPanicVal : List String → Option (PanicVal × List String)
  | "str" :: s :: r => (parseHexArg s).map fun s => (.str s, r)
  | "err" :: s :: r => (parseHexArg s).map fun s => (.err s, r)
  | "int" :: n :: r => n.toInt?.map fun n => (.int n, r)
  | _ => none

def pBool : String → Option Bool
  | "0" => some false
  | "1" => some true
  | _ => none


end Vgi.Drive.ScriptParse
