import Vgi.Model.WwwAuth
namespace Vgi.Drive.C28
open Vgi Vgi.WwwAuth

/-- The six values a client reads, in the order rm cid flag csec dcid dcsec. -/
def showParsed (h : Bytes) : String :=
  s!"rm={hexArg (parseResourceMetadataURL h)} cid={hexArg (parseClientID h)} " ++
  s!"idtok={parseUseIDTokenAsBearer h} csec={hexArg (parseClientSecret h)} " ++
  s!"dcid={hexArg (parseDeviceCodeClientID h)} dcsec={hexArg (parseDeviceCodeClientSecret h)}"

def bytesLt : Bytes → Bytes → Bool
  | [], [] => false
  | [], _ :: _ => true
  | _ :: _, [] => false
  | a :: x, b :: y => if a < b then true else if b < a then false else bytesLt x y

def pairLe (p q : Bytes × Bytes) : Bool :=
  if p.1 = q.1 then !(bytesLt q.2 p.2) else bytesLt p.1 q.1

def insertSorted (p : Bytes × Bytes) : List (Bytes × Bytes) → List (Bytes × Bytes)
  | [] => [p]
  | q :: r => if pairLe p q then p :: q :: r else q :: insertSorted p r

def sortPairs (l : List (Bytes × Bytes)) : List (Bytes × Bytes) := l.foldr insertSorted []

/-- Canonical view of a built challenge: scheme + parameters sorted by (name, value). The order
of parameters and the exact separator bytes are deliberately not part of the observation. -/
def showChallenge (url : Bytes) (m : Meta) : String :=
  let ps := sortPairs (params url m)
  s!"scheme={hexArg bearer} params=" ++
    ",".intercalate (ps.map fun p => s!"{hexArg p.1}:{hexArg p.2}")

def showVErr : VErr → String
  | .resource => "err:resource-required"
  | .authServers => "err:auth-servers-required"
  | .clientId => "err:client-id-chars"
  | .clientSecret => "err:client-secret-chars"
  | .dcClientId => "err:dc-client-id-chars"
  | .dcClientSecret => "err:dc-client-secret-chars"

def parseBool? : String → Option Bool
  | "true" => some true
  | "false" => some false
  | _ => none

def mkMeta (res : Bytes) (nas : Nat) (cid : Bytes) (flag : Bool) (csec dcid dcsec : Bytes) : Meta :=
  { resource := res, nAuthServers := nas, clientId := cid, useIdToken := flag, clientSecret := csec,
    dcClientId := dcid, dcClientSecret := dcsec }


/-- `emits`: groups of (murl res nas cid flag csec dcid dcsec). -/
def parseCalls : List String → Option (List (Option Bytes × Meta))
  | [] => some []
  | murl :: res :: nas :: cid :: flag :: csec :: dcid :: dcsec :: rest =>
    match parseHexArg res, nas.toNat?, parseHexArg cid, parseBool? flag, parseHexArg csec,
        parseHexArg dcid, parseHexArg dcsec, parseCalls rest with
    | some r, some k, some a, some f, some b, some c, some d, some more =>
      let m := mkMeta r k a f b c d
      if murl = "-" then some ((none, m) :: more)
      else match parseHexArg murl with
        | some u => some ((some u, m) :: more)
        | none => none
    | _, _, _, _, _, _, _, _ => none
  | _ => none

def showStep (c : Option Bytes × Meta) : String :=
  match validate c.2 with
  | some e => showVErr e
  | none => match c.1 with
    | none => "err:resource-url"
    | some _ => "ok"

def step (_ : Unit) (ws : List String) : Unit × String :=
  match ws with
  | ["hdr", h] =>
    match parseHexArg h with
    | some hb => ((), "p " ++ showParsed hb)
    | none => ((), "bad-op")
  | ["param", h, n] =>
    match parseHexArg h, parseHexArg n with
    | some hb, some nb => ((), "v " ++ hexArg (parseQuoted hb nb))
    | _, _ => ((), "bad-op")
  | ["validate", res, nas, cid, flag, csec, dcid, dcsec] =>
    match parseHexArg res, nas.toNat?, parseHexArg cid, parseBool? flag, parseHexArg csec,
        parseHexArg dcid, parseHexArg dcsec with
    | some r, some k, some a, some f, some b, some c, some d =>
      match validate (mkMeta r k a f b c d) with
      | none => ((), "ok")
      | some e => ((), showVErr e)
    | _, _, _, _, _, _, _ => ((), "bad-op")
  | ["build", url, cid, flag, csec, dcid, dcsec] =>
    match parseHexArg url, parseHexArg cid, parseBool? flag, parseHexArg csec, parseHexArg dcid,
        parseHexArg dcsec with
    | some u, some a, some f, some b, some c, some d =>
      let m := mkMeta [] 0 a f b c d
      ((), s!"h {showChallenge u m} p {showParsed (build u m)}")
    | _, _, _, _, _, _ => ((), "bad-op")
  | ["emit", murl, res, nas, cid, flag, csec, dcid, dcsec] =>
    match parseHexArg res, nas.toNat?, parseHexArg cid, parseBool? flag, parseHexArg csec,
        parseHexArg dcid, parseHexArg dcsec with
    | some r, some k, some a, some f, some b, some c, some d =>
      let m := mkMeta r k a f b c d
      match validate m with
      | some e => ((), showVErr e)
      | none =>
        if murl = "-" then ((), "err:resource-url")
        else match parseHexArg murl with
          | some u => ((), s!"h {showChallenge u m} p {showParsed (build u m)}")
          | none => ((), "bad-op")
    | _, _, _, _, _, _, _ => ((), "bad-op")
  | "emits" :: k :: rest =>
    match k.toNat?, parseCalls rest with
    | some n, some calls =>
      if calls.length ≠ n then ((), "bad-op")
      else
        let steps := ",".intercalate (calls.map showStep)
        -- the harness drops SetOAuthPkce / SetPrefix / SetAuthenticate steps: they are `Setter.other`
        match (calls.map fun c => Setter.metadata c.1 c.2).foldl applySetter none with
        | none => ((), s!"steps={steps} none")
        | some c => ((), s!"steps={steps} h {showChallenge c.url c.md} p {showParsed (build c.url c.md)}")
    | _, _ => ((), "bad-op")
  | _ => ((), "bad-op")

def drive : IO Unit := driveLoop () step

end Vgi.Drive.C28

def main : IO Unit := Vgi.Drive.C28.drive
