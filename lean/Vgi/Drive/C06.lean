import Vgi.Model.ScriptStream
import Vgi.Drive.StreamParse
/-!
Line-protocol driver for C06 (pipe streams of the scripted family).

  stream <producer|exchange|dynamic> <outSchema> <regOut:0|1> <inFields|nil> <hasHeader:0|1> <hdrSchema>
         <lvl> <rid> INIT <logs> <init> TURNS <n> {turn}*n REST <turn> IN <srcFields> <n> {d <val> <lib> | c}*n
  init ::= ok <prod|exch|both|neither> <absent|ok|err|panic> <-|headerToken> <-|fields> | err … | panic … | nil
  turn ::= <nops> {log <lvl> <msg> <k> kv* | emit <val> <k> kv* <p|i> | echo <p|i> | finish <p|i>}* <ok | err … | panic …>
  fields ::= - | name:type:0|1{,name:type:0|1}      lib ::= <valueToken> | fail | -

Answer: `<stream> || <stream> ## calls=<callbacks>` where a stream is `<schema> ; <batch> ; …`.
Request ids are not shown (C06 does not speak about them). An exception batch is shown as
`exc err:<hex>` when its message is one of the script's own error messages, `exc panic` when it
contains one of the script's panic values, `exc fw` otherwise (framework wording is not compared).
-/
namespace Vgi.Drive.C06
open Vgi Vgi.Script Vgi.Drive.ScriptParse Vgi.Drive.StreamParse

/-! ### Canonical rendering -/

def endErrs : TurnEnd → List Bytes
  | .fail e => [e.message]
  | _ => []

def endPanics : TurnEnd → List Bytes
  | .panic p => [p.fmtV]
  | _ => []

/-- Error messages / panic texts the script itself can raise. -/
def scriptErrs (s : StreamScript) : List Bytes :=
  (match s.init with | .fail e => [e.message] | _ => []) ++
    (s.turns ++ [s.rest]).flatMap fun t => endErrs t.fin

def scriptPanics (s : StreamScript) : List Bytes :=
  ((match s.init with | .panic p => [p.fmtV] | _ => []) ++
    (s.turns ++ [s.rest]).flatMap fun t => endPanics t.fin).filter (· ≠ [])

def showExc (s : StreamScript) (msg : Bytes) : String :=
  if (scriptErrs s).contains msg then "exc err:" ++ hexOfBytes msg
  else if (scriptPanics s).any (fun p => isInfix p msg) then "exc panic"
  else "exc fw"

def showBatch6 (s : StreamScript) : Batch → String
  | .log l m e _ => s!"log {hexArg l} {hexArg m} {showKVs e}"
  | .exc m _ => showExc s m
  | .data v md => s!"data {v} {showKVs md}"
  | .void => "void"

/-- "init": logs of the init handler are generated with this message prefix and are not shown
(C06 speaks about turn logs only; where init logs travel is not compared). -/
def initPrefix : Bytes := [0x69, 0x6e, 0x69, 0x74]

def isInitLog : Batch → Bool
  | .log _ m _ _ => initPrefix.isPrefixOf m
  | _ => false

def showStream6 (s : StreamScript) (st : IpcStream) : String :=
  " ; ".intercalate (st.schema :: (st.batches.filter (fun b => !isInitLog b)).map (showBatch6 s))

def showCall : Callback → String
  | .produce k => s!"P{k}"
  | .exchange k v => s!"X{k}={v}"
  | .cancel => "C"

def showOut (s : StreamScript) (o : StreamOut) : String :=
  " || ".intercalate (o.streams.map (showStream6 s)) ++ " ## calls=" ++ ",".intercalate (o.calls.map showCall)

def step (st : Unit) (ws : List String) : Unit × String :=
  match ws with
  | "stream" :: rest =>
    match pCall rest with
    | some (c, []) => (st, showOut c.script (serveStream c.m c.lvl c.rid c.script c.input))
    | _ => (st, "bad-op")
  | _ => (st, "bad-op")

def drive : IO Unit := driveLoop () step

end Vgi.Drive.C06

def main : IO Unit := Vgi.Drive.C06.drive
