import Vgi.Model.Compress
namespace Vgi.Drive.C17
open Vgi Vgi.Compress

def showTok (t : Bytes) : String :=
  if t.isEmpty then "-" else String.ofList (t.map fun b => Char.ofNat b.toNat)

def known (t : Bytes) : Bool := t = tZstd || t = tGzip || t = tIdentity

def showToks (ts : List Bytes) : String :=
  if ts.isEmpty then "-" else ",".intercalate (ts.map showTok)

/-- `zstd,gzip` / `-` → producible list (plain ASCII words). -/
def parseP (s : String) : List Bytes :=
  if s = "-" then [] else (s.splitOn ",").map bytesOfString

def showHdr : Hdr → String
  | .none => "none"
  | .contentEncoding => "ce"
  | .customContentEncoding => "xce"

/-- UTF-8 encoding of a scalar value (driver-side only, for the `tables` self-description). -/
def encodeRune (r : Nat) : Bytes :=
  if r < 0x80 then [UInt8.ofNat r]
  else if r < 0x800 then [UInt8.ofNat (0xC0 + r / 64), UInt8.ofNat (0x80 + r % 64)]
  else if r < 0x10000 then
    [UInt8.ofNat (0xE0 + r / 4096), UInt8.ofNat (0x80 + r / 64 % 64), UInt8.ofNat (0x80 + r % 64)]
  else
    [UInt8.ofNat (0xF0 + r / 262144), UInt8.ofNat (0x80 + r / 4096 % 64),
     UInt8.ofNat (0x80 + r / 64 % 64), UInt8.ofNat (0x80 + r % 64)]

/-- The model's own rune tables, enumerated over every Unicode scalar value: the white-space set
and every non-ASCII rune whose lower-casing yields an ASCII byte. -/
def tables : String := Id.run do
  let mut sp : List String := []
  let mut lo : List String := []
  for r in [0:0x110000] do
    if 0xD800 ≤ r ∧ r ≤ 0xDFFF then continue
    if isSpaceRune r then sp := toString r :: sp
    if r ≥ 0x80 then
      let l := lowerTok (encodeRune r)
      if l.any (fun b => b.toNat < 0x80) then
        lo := s!"{r}:{hexOfBytes l}" :: lo
  return s!"space={",".intercalate sp.reverse} lower={",".intercalate lo.reverse}"

def step (st : Srv) (ws : List String) : Srv × String :=
  match ws with
  | ["parse", h] => match parseHexArg h with
    | some hb => (st, "toks " ++ showToks ((parseAccept hb).filter known))
    | none => (st, "bad-op")
  | ["choose", c, s, p] => match parseHexArg c, parseHexArg s with
    | some cb, some sb =>
      let r := choose cb sb (parseP p)
      (st, s!"enc={showTok r.1} custom={r.2}")
    | _, _ => (st, "bad-op")
  | ["level", n] => match n.toInt? with
    | some k =>
      let (st', ok) := setLevel st k
      (st', (if ok then "ok" else "err") ++ " adv=" ++ hexArg st'.advert)
    | none => (st, "bad-op")
  | ["resp", c, s, ct, n] => match parseHexArg c, parseHexArg s, parseHexArg ct, n.toNat? with
    | some cb, some sb, some ctb, some len =>
      let r := respond st cb sb ctb len
      (st, s!"enc={showTok r.1} hdr={showHdr r.2} adv={hexArg st.advert}")
    | _, _, _, _ => (st, "bad-op")
  | ["new", "plain"] => (initSrv, "ok adv=" ++ hexArg initSrv.advert)
  | ["new", "keyed"] => (initSrvWithKey, "ok adv=" ++ hexArg initSrvWithKey.advert)
  | ["tables"] => (st, tables)
  -- concurrent-response search family: no model involved, the specification is simply
  -- "every response is lossless" (decided by the harness oracle on the real responses)
  | "burst" :: _ => (st, "burst lossless")
  | _ => (st, "bad-op")

def drive : IO Unit := driveLoop initSrv step

end Vgi.Drive.C17

def main : IO Unit := Vgi.Drive.C17.drive
