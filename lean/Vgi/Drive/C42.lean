import Vgi.Model.Listener
/-!
Line-protocol driver for C42: every script line is a fixed sequence of `Vgi.Listener.step`
actions. Timer 0 (armed by `bind` when an idle timeout is configured) is the ≥ 60 s start-up
grace, which no script waits for; `idle` lets only a re-armed idle timer expire.
-/
namespace Vgi.Drive.C42
open Vgi Vgi.Listener

def hfun (x : Nat) : Nat := x + 1000

structure DState where
  cfg : Option Cfg := none
  st : LState := {}
  read : List (Nat × Nat) := []      -- responses already read per connection
  void : Bool := false               -- an operation fell into the timer's uncertainty window
  segs : List Nat := []              -- connections that advertised a shared-memory segment

/-- Scheduling latency allowed around a timer deadline (ms): operations that close to a deadline are
not compared (both sides print `void` from the same arithmetic on the script's own timestamps). -/
def margin : Nat := 40

def rd (d : DState) (c : Nat) : Nat := ((d.read.find? (·.1 = c)).map (·.2)).getD 0

def runActs (C : Cfg) (s : LState) : List Act → Option LState
  | [] => some s
  | a :: as => match step C s a with
    | some s' => runActs C s' as
    | none => none

def modeStr (s : LState) : String :=
  match s.file with
  | some m => s!"mode={m}"
  | none => "mode=-"

def stepU (d : DState) (ws : List String) : DState × String :=
  match d.cfg, ws with
  | none, ["listen", kind, ms] =>
    match ms.toNat? with
    | some ms =>
      if kind ≠ "unix" ∧ kind ≠ "tcp" then (d, "bad-op") else
      let C : Cfg := { idle := ms > 0, unix := kind = "unix", h := hfun, T := ms, G := max ms 60000 }
      match Listener.step C {} (.bind none) with
      | some s => ({ d with cfg := some C, st := s }, "bound " ++ modeStr s)
      | none => (d, "bad-op")
    | none => (d, "bad-op")
  | none, _ => (d, "bad-op")
  | some C, ["conn", c] =>
    match c.toNat? with
    | some c =>
      match runActs C d.st [.accept c, .count, .send c 0, .serveOne c] with
      | some s => ({ d with st := s, read := (c, 1) :: d.read }, s!"ok {hfun 0}")
      | none => (d, "refused")
    | none => (d, "bad-op")
  | some C, ["send", c, x] =>
    match c.toNat?, x.toNat? with
    | some c, some x =>
      match runActs C d.st [.send c x, .serveOne c] with
      | some s => ({ d with st := s }, "ok")
      | none => (d, "err:closed")
    | _, _ => (d, "bad-op")
  | some _, ["recv", c] =>
    match c.toNat? with
    | some c =>
      match (d.st.outbox c)[rd d c]? with
      | some v => ({ d with read := (c, rd d c + 1) :: d.read }, s!"resp {v}")
      | none => (d, "err:nothing")
    | none => (d, "bad-op")
  | some C, ["call", c, x] =>
    match c.toNat?, x.toNat? with
    | some c, some x =>
      -- a call is possible only when every earlier response has been read
      if (d.st.outbox c).length ≠ rd d c then (d, "err:pending") else
      match runActs C d.st [.send c x, .serveOne c] with
      | some s =>
        match (s.outbox c)[rd d c]? with
        | some v => ({ d with st := s, read := (c, rd d c + 1) :: d.read }, s!"resp {v}")
        | none => (d, "err:nothing")
      | none => (d, "err:closed")
    | _, _ => (d, "bad-op")
  | some C, ["close", c] =>
    match c.toNat? with
    | some c =>
      match Listener.step C d.st (.connDone c) with
      | some s => ({ d with st := s }, "ok")
      | none => (d, "err:closed")
    | none => (d, "bad-op")
  | some C, ["idle"] =>
    let s0 := d.st
    let s1 := match s0.timer with
      | some (g, true) =>
        if g = 0 then s0   -- the start-up grace (>= 60 s) does not expire within a script
        else (runActs C s0 [.tick s0.deadline, .expire g]).getD s0
      | _ => s0
    let s2 := if s1.lnClosed then (runActs C s1 [.acceptErr false, .leave]).getD s1 else s1
    let s3 := (Listener.step C s2 .ret).getD s2
    ({ d with st := s3 }, if s3.main = .returned then "returned " ++ modeStr s3 else "serving " ++ modeStr s3)
  | some _, ["stat"] =>
    (d, (if d.st.main = .returned then "closed " else "accepting ") ++ modeStr d.st)
  | some _, ["wait", n] => if n.toNat?.isSome then (d, "ok") else (d, "bad-op")
  -- the serve-start hook and the transport binding are the environment's: no model state
  | some _, ["hook", v] => if v = "ok" ∨ v = "fail" then (d, "ok") else (d, "bad-op")
  | some _, ["rebind"] => (d, "ok")
  | some C, ["connx", c] =>
    -- a connection the serve-start hook refuses: accepted, counted, and its serve loop ends at once
    match c.toNat? with
    | some c =>
      match runActs C d.st [.accept c, .count, .connDone c] with
      | some s => ({ d with st := s }, "hookrefused")
      | none => (d, "refused")
    | none => (d, "bad-op")
  | some C, ["shm", c, x] =>
    -- a call that also advertises the connection's own shared-memory segment
    match c.toNat?, x.toNat? with
    | some c, some x =>
      if (d.st.outbox c).length ≠ rd d c then (d, "err:pending") else
      match runActs C d.st [.send c x, .serveOne c] with
      | some s =>
        match (s.outbox c)[rd d c]? with
        | some v => ({ d with st := s, read := (c, rd d c + 1) :: d.read, segs := c :: d.segs }, s!"resp {v}")
        | none => (d, "err:nothing")
      | none => (d, "err:closed")
    | _, _ => (d, "bad-op")
  | some C, ["pcall", c, x] =>
    -- a call whose parameters travel as a pointer into the connection's own segment
    match c.toNat?, x.toNat? with
    | some c, some x =>
      if ¬ d.segs.contains c then (d, "err:noseg") else
      if (d.st.outbox c).length ≠ rd d c then (d, "err:pending") else
      match runActs C d.st [.send c x, .serveOne c] with
      | some s =>
        match (s.outbox c)[rd d c]? with
        | some v => ({ d with st := s, read := (c, rd d c + 1) :: d.read }, s!"resp {v}")
        | none => (d, "err:nothing")
      | none => (d, "err:closed")
    | _, _ => (d, "bad-op")
  | some _, ["storm", _, _] => (d, "ok mixed=0 lost=0")
  | _, _ => (d, "bad-op")

/-- Timed wrapper: the last word `@<ms>` is the script's clock. The clock is advanced first; an
armed idle timer whose deadline is clearly past has expired (listener shut down and returned), one
whose deadline is within `margin` makes everything from here on `void`. -/
def step (d : DState) (ws : List String) : DState × String :=
  match ws.getLast? with
  | some w =>
    if w.startsWith "@" then
      match (w.drop 1).toNat? with
      | some tau =>
        let ws' := ws.dropLast
        if d.void then (d, "void") else
        match d.cfg with
        | none => stepU d ws'
        | some C =>
          let d1 := { d with st := (Listener.step C d.st (.tick tau)).getD d.st }
          let s := d1.st
          match s.timer with
          | some (g, true) =>
            if g = 0 ∨ ws' = ["idle"] then stepU d1 ws'
            else if s.deadline + margin ≤ tau then
              let s1 := (runActs C s [.expire g]).getD s
              let s2 := if s1.lnClosed then (runActs C s1 [.acceptErr false, .leave]).getD s1 else s1
              let s3 := (Listener.step C s2 .ret).getD s2
              stepU { d1 with st := s3 } ws'
            else if s.deadline < tau + margin then ({ d1 with void := true }, "void")
            else stepU d1 ws'
          | _ => stepU d1 ws'
      | none => (d, "bad-op")
    else stepU d ws
  | none => (d, "bad-op")

def drive : IO Unit := driveLoop ({} : DState) step

end Vgi.Drive.C42

def main : IO Unit := Vgi.Drive.C42.drive
