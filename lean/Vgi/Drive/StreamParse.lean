import Vgi.Model.ScriptStream
import Vgi.Drive.ScriptParse
/-!
Parsers for unary-call and stream-call lines of the scripted family (grammar: Drive/C04, Drive/C06).
-/
namespace Vgi.Drive.StreamParse
open Vgi Vgi.Script Vgi.Drive.ScriptParse

def pOutcome : List String → Option (Outcome × List String)
  | "ret" :: v :: r => some (.ret v, r)
  | "err" :: r => (pErrVal r).map fun (e, r) => (.fail e, r)
  | "panic" :: r => (pPanicVal r).map fun (p, r) => (.panic p, r)
  | _ => none

def pTransport : String → Option Transport
  | "pipe" => some .pipe
  | "http" => some .http
  | s => if s.startsWith "httpx:" then some .http else none   -- HTTP call carrying an X-Request-ID header

def parseUnaryCall (ws : List String) : Option (Transport × UMethod × Bytes × Bytes × UnaryScript) :=
  match ws with
  | "call" :: t :: schema :: v :: rest => do
    let t ← pTransport t
    let v ← pBool v
    let (lvl, rest) ← pBytes rest
    let (rid, rest) ← pBytes rest
    let (n, rest) ← pNat rest
    let (logs, rest) ← pLogCalls n rest
    let (o, rest) ← pOutcome rest
    if rest ≠ [] then none
    else pure (t, { resultSchema := schema, isVoid := v }, lvl, rid, { logs := logs, outcome := o })
  | _ => none


abbrev P (α : Type) := List String → Option (α × List String)

def pWord : P String
  | w :: r => some (w, r)
  | [] => none

def expect (w : String) : List String → Option (List String)
  | x :: r => if x = w then some r else none
  | [] => none

def pProp : P Bool
  | "p" :: r => some (true, r)
  | "i" :: r => some (false, r)
  | _ => none

def pKVList : P KVs := fun ws => do
  let (k, ws) ← pNat ws
  pKVs k ws

def pField (s : String) : Option Field :=
  match s.splitOn ":" with
  | [n, t, "0"] => some { name := n, typ := t, nullable := false }
  | [n, t, "1"] => some { name := n, typ := t, nullable := true }
  | _ => none

def pFields (s : String) : Option Schema :=
  if s = "-" then some [] else (s.splitOn ",").mapM pField

def pOptFields (s : String) : Option (Option Schema) :=
  if s = "nil" then some none else (pFields s).map some

def pEnd : P TurnEnd
  | "ok" :: r => some (.ok, r)
  | "err" :: r => (pErrVal r).map fun (e, r) => (.fail e, r)
  | "panic" :: r => (pPanicVal r).map fun (p, r) => (.panic p, r)
  | _ => none

def pOp : P TurnOp
  | "log" :: r => (pLogCall r).map fun (lc, r) => (.log lc, r)
  | "emit" :: v :: r => do
    let (md, r) ← pKVList r
    let (p, r) ← pProp r
    pure (.emit v md p, r)
  | "echo" :: r => (pProp r).map fun (p, r) => (.echo p, r)
  | "finish" :: r => (pProp r).map fun (p, r) => (.finish p, r)
  | _ => none

def pOps : Nat → P (List TurnOp)
  | 0, ws => some ([], ws)
  | n + 1, ws => do
    let (o, ws) ← pOp ws
    let (r, ws) ← pOps n ws
    pure (o :: r, ws)

def pTurn : P Turn := fun ws => do
  let (n, ws) ← pNat ws
  let (ops, ws) ← pOps n ws
  let (e, ws) ← pEnd ws
  pure ({ ops := ops, fin := e }, ws)

def pTurns : Nat → P (List Turn)
  | 0, ws => some ([], ws)
  | n + 1, ws => do
    let (t, ws) ← pTurn ws
    let (r, ws) ← pTurns n ws
    pure (t :: r, ws)

def pStateKind : String → Option StateKind
  | "prod" => some .prod | "exch" => some .exch | "both" => some .both | "neither" => some .neither
  | _ => none

def pHook : String → Option CancelHook
  | "absent" => some .absent | "ok" => some .ok | "err" => some .err | "panic" => some .panic
  | _ => none

def pInit : P InitOutcome
  | "ok" :: st :: hk :: hdr :: insch :: r => do
    let st ← pStateKind st
    let hk ← pHook hk
    let insch ← if insch = "-" then some none else (pFields insch).map some
    pure (.ok st hk (if hdr = "-" then none else some hdr) insch, r)
  | "err" :: r => (pErrVal r).map fun (e, r) => (.fail e, r)
  | "panic" :: r => (pPanicVal r).map fun (p, r) => (.panic p, r)
  | "nil" :: r => some (.nilResult, r)
  | _ => none

def pScript : P StreamScript := fun ws => do
  let ws ← expect "INIT" ws
  let (n, ws) ← pNat ws
  let (logs, ws) ← pLogCalls n ws
  let (init, ws) ← pInit ws
  let ws ← expect "TURNS" ws
  let (n, ws) ← pNat ws
  let (turns, ws) ← pTurns n ws
  let ws ← expect "REST" ws
  let (rest, ws) ← pTurn ws
  pure ({ initLogs := logs, init := init, turns := turns, rest := rest }, ws)

def pInBatch : P InBatch
  | "c" :: r => some (.cancel, r)
  | "d" :: v :: lib :: r => some (.data v (if lib = "fail" || lib = "-" then none else some lib), r)
  | _ => none

def pInBatches : Nat → P (List InBatch)
  | 0, ws => some ([], ws)
  | n + 1, ws => do
    let (b, ws) ← pInBatch ws
    let (r, ws) ← pInBatches n ws
    pure (b :: r, ws)

def pInput : P InputStream := fun ws => do
  let ws ← expect "IN" ws
  let (f, ws) ← pWord ws
  let sc ← pFields f
  let (n, ws) ← pNat ws
  let (bs, ws) ← pInBatches n ws
  pure ({ schema := sc, batches := bs }, ws)

def pStreamType : String → Option StreamType
  | "producer" => some .producer | "exchange" => some .exchange | "dynamic" => some .dynamic
  | _ => none

def pMethod : P SMethod
  | t :: out :: reg :: inf :: hh :: hs :: r => do
    let t ← pStreamType t
    let reg ← pBool reg
    let inf ← pOptFields inf
    let hh ← pBool hh
    pure ({ typ := t, outputSchema := out, registeredOutput := reg, inputSchema := inf,
            hasHeader := hh, headerSchema := hs }, r)
  | _ => none

structure Call where
  m : SMethod
  lvl : Bytes
  rid : Bytes
  script : StreamScript
  input : InputStream

def pCall : P Call := fun ws => do
  let (m, ws) ← pMethod ws
  let (lvl, ws) ← pBytes ws
  let (rid, ws) ← pBytes ws
  let (s, ws) ← pScript ws
  let (inp, ws) ← pInput ws
  pure ({ m := m, lvl := lvl, rid := rid, script := s, input := inp }, ws)


end Vgi.Drive.StreamParse
