import Vgi.Model.ShmBatch
namespace Vgi.Drive.C35
open Vgi Vgi.Shm Vgi.ShmBatch

structure PtrRec where
  md : Meta
  stored : Bytes
  deriving Repr

structure DSt where
  st : St
  ptrs : List PtrRec

def hdr (s : DSt) : String := hexArg (encodeHeader s.st.seg)

/-- `-` or `xK:xV,xK:xV,...` -/
def parseMeta (s : String) : Option Meta :=
  if s = "-" then some []
  else (s.splitOn ",").mapM fun kv =>
    match kv.splitOn ":" with
    | [k, v] => match parseHexArg k, parseHexArg v with
      | some kb, some vb => some (kb, vb)
      | _, _ => none
    | _ => none

def showMeta (m : Meta) : String :=
  if m.isEmpty then "-" else ",".intercalate (m.map fun e => hexArg e.1 ++ ":" ++ hexArg e.2)

/-- `i64;dict8,str;list,dict8,str` (`-` = no columns) -/
def parseCols (s : String) : List ColTy :=
  if s = "-" then [] else (s.splitOn ";").map fun c => c.splitOn ","

def showKind : Kind → String
  | .plain => "plain" | .nested => "nested" | .top => "top"

def segTag : Bytes := bytesOfString "SEG"

/-- Outcome of handing the selected region to the IPC reader. `dec` is the environment's answer
(arrow-go run by the harness on the same bytes) when the model cannot know it. -/
def afterRead (lo : Nat) (md : Meta) (dec : String) (knownGood : Bool) : String :=
  let okLine := s!"ok rel={lo} {showMeta (resolveMeta md segTag)}"
  if knownGood then okLine
  else if dec = "1" then okLine
  else if dec = "0" then "err"
  else "bad-env"

def resolveLine (s : DSt) (rows : Nat) (md : Meta) (dec : String) (stored : Option Bytes) : String :=
  match resolve s.st.seg.size rows md with
  | .notPointer => "notptr"
  | .badOffset | .badLength | .oob | .panic => "err"
  | .ok lo hi =>
    let good := match stored with
      | some b => decide (headerSize ≤ lo) && Mem.read s.st.mem lo hi == b
      | none => false
    afterRead lo md dec good

/-- `count` writes of the same batch in a row (table-capacity cases): how many succeeded, first and
last offset handed out. -/
def bulkWrite (k : Kind) (est : Int) (full : Bytes) : Nat → St → Nat → Option Nat → Option Nat →
    St × Nat × Option Nat × Option Nat
  | 0, st, n, first, last => (st, n, first, last)
  | c + 1, st, n, first, last =>
    match write st k est full with
    | (st', .ok off _) => bulkWrite k est full c st' (n + 1) (first.orElse fun _ => some off) (some off)
    | (st', _) => bulkWrite k est full c st' n first last

def showOpt : Option Nat → String
  | some n => toString n
  | none => "-"

def step (st : Option DSt) (ws : List String) : Option DSt × String :=
  match st, ws with
  | _, ["new", n] => match n.toNat? with
    | some k =>
      let s : DSt := { st := St.create k, ptrs := [] }
      (some s, "ok " ++ hdr s)
    | none => (st, "bad-op")
  | _, ["skip", h] => match parseHexArg h with
    | some b => match skipOne b with
      | some n => (st, s!"ok {n}")
      | none => (st, "err")
    | none => (st, "bad-op")
  | _, ["guard"] => (st, "guard")
  | _, ["kind", c] => (st, showKind (kindOf (parseCols c)))
  | none, _ => (none, "err:no-segment")
  | some s, ["write", c, est, full] => match est.toInt?, parseHexArg full with
    | some e, some fb =>
      let k := kindOf (parseCols c)
      match write s.st k e fb with
      | (st', .ok off len) =>
        let s' := { s with st := st' }
        (some s', s!"ok {showKind k} {off} {len} {fnv (Mem.read st'.mem off (off + len))} {hdr s'}")
      | (_, .noFit) => (some s, s!"nofit {showKind k} {hdr s}")
      | (_, .failed) => (some s, s!"err {showKind k} {hdr s}")
    | _, _ => (st, "bad-op")
  -- MaybeWriteToShm declined (zero rows, below its size threshold — a policy C35 does not speak
  -- about): nothing may have been allocated
  | some s, ["mwrite-declined"] => (some s, "same " ++ hdr s)
  | some s, ["mwrite", c, est, full, m] =>
    match est.toInt?, parseHexArg full, parseMeta m with
    | some e, some fb, some md =>
        let k := kindOf (parseCols c)
        match write s.st k e fb with
        | (st', .ok off len) =>
          let pm := pointerMeta off (Int.ofNat len) md
          let region := Mem.read st'.mem off (off + len)
          let s' := { s with st := st', ptrs := s.ptrs ++ [{ md := pm, stored := region }] }
          (some s', s!"ptr {s.ptrs.length} {showMeta pm} {fnv region} {hdr s'}")
        | (_, .noFit) => (some s, "same " ++ hdr s)
        | (_, .failed) => (some s, "err " ++ hdr s)
    | _, _, _ => (st, "bad-op")
  | some s, ["resolve", k, dec] => match k.toNat? with
    | some i => match s.ptrs[i]? with
      | some p => (some s, resolveLine s 0 p.md dec (some p.stored))
      | none => (some s, "err:no-pointer")
    | none => (st, "bad-op")
  | some s, ["ptr", rows, m, dec] => match rows.toNat?, parseMeta m with
    | some r, some md => (some s, resolveLine s r md dec none)
    | _, _ => (st, "bad-op")
  | some s, ["free", n] => match n.toNat? with
    | some k => match freeAt s.st k with
      | some st' => let s' := { s with st := st' }; (some s', "ok " ++ hdr s')
      | none => (some s, "err " ++ hdr s)
    | none => (st, "bad-op")
  | some s, ["bulk", c, est, full, count] =>
    match est.toInt?, parseHexArg full, count.toNat? with
    | some e, some fb, some cnt =>
      let (st', n, first, last) := bulkWrite (kindOf (parseCols c)) e fb cnt s.st 0 none none
      let s' := { s with st := st' }
      (some s', s!"bulk ok={n} first={showOpt first} last={showOpt last} slots={st'.seg.table.length} h={fnv (encodeHeader st'.seg)}")
    | _, _, _ => (st, "bad-op")
  -- every batch still allocated reads back as stored (theorem live_regions_read_back): their number
  | some s, ["verify"] => (some s, s!"live={s.st.live.length}")
  | some s, ["reset"] => let s' := { s with st := resetAll s.st }; (some s', "ok " ++ hdr s')
  | some s, ["poke", o, h] => match o.toNat?, parseHexArg h with
    | some off, some b =>
      if headerSize ≤ off ∧ off + b.length ≤ s.st.seg.size then (some { s with st := poke s.st off b }, "ok")
      else (some s, "err")
    | _, _ => (st, "bad-op")
  | _, _ => (st, "bad-op")

def drive : IO Unit := driveLoop (none : Option DSt) step

end Vgi.Drive.C35

def main : IO Unit := Vgi.Drive.C35.drive
