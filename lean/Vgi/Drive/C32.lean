import Vgi.Model.RangeFetch
/-!
Line protocol for C32 (stateless; one line = one call of `FetchWithParallelRangeRequests`).

```
fetch res=x<hex>|gen:<len>:<a>:<b> thr=<int> cs=<int> par=<int> maxfetch=<int> hedging=<0|1> maxhedges=<int>
      head=<0|1> len=<int> ranges=<0|1> mode=<aggr|none> resp=<c:a:R,...|-> order=<c:a,...|->
      simple=<status>
  -> simple ok x<hex> | simple err | toolarge | ok x<hex> | err
```
`resp` binds an answer to the a-th request (0 = initial, 1 = hedge) for chunk c:
`R` = `p<k>` (206 with the first k bytes of the range), `w<k>` (200 with the first k bytes of the
whole resource), `f` (failure); unlisted attempts answer the full range. `order` is the order in
which the origin releases answers (entries whose attempt is not in flight are skipped); when it
is exhausted the lowest in-flight (chunk, attempt) is released until the loop ends. `mode=aggr`:
every pending chunk counts as slow and the completion-count test is the real one (>= 2
successful completions); `mode=none`: no chunk ever counts as slow.
-/
namespace Vgi.Drive.C32
open Vgi Vgi.RangeFetch

def kv (ws : List String) (k : String) : Option String :=
  match ws.find? (fun w => w.startsWith (k ++ "=")) with
  | some w => some (String.ofList (w.toList.drop (k.length + 1)))
  | none => none

def flag (s : String) : Option Bool :=
  if s = "1" then some true else if s = "0" then some false else none

def parseResp (s : String) : Option Resp :=
  match s.toList with
  | ['f'] => some .fail
  | 'p' :: r => (String.ofList r).toNat?.map .partial206
  | 'w' :: r => (String.ofList r).toNat?.map .whole200
  | _ => none

def parseRespEntry (s : String) : Option (Att × Resp) :=
  match s.splitOn ":" with
  | [c, a, r] => match c.toNat?, flag a, parseResp r with
    | some c, some h, some r => some (⟨c, h⟩, r)
    | _, _, _ => none
  | _ => none

def parseOrderEntry (s : String) : Option Att :=
  match s.splitOn ":" with
  | [c, a] => match c.toNat?, flag a with
    | some c, some h => some ⟨c, h⟩
    | _, _ => none
  | _ => none

def parseList {α : Type} (f : String → Option α) (s : String) : Option (List α) :=
  if s = "-" then some [] else (s.splitOn ",").mapM f

def respOf (tbl : List (Att × Resp)) (cs : Nat) (a : Att) : Resp :=
  match tbl.find? (fun e => e.1 == a) with
  | some e => e.2
  | none => .partial206 cs          -- the whole requested range

/-- Deliver the in-flight attempt `att` (if any) and apply the deterministic hedging policy. -/
def deliver (p : Params) (aggr : Bool) (tbl : List (Att × Resp)) (st : St × Nat) (att : Att) :
    St × Nat :=
  let (s, completions) := st
  if !running s then st
  else match s.inflight.findIdx? (· == att) with
    | none => st
    | some j =>
      let r := respOf tbl p.cs att
      let completions' := if (attemptResult p.res p.cs att.chunk r).isSome then completions + 1 else completions
      let act : Act := ⟨j, r, decide (completions' ≥ 2), if aggr then List.range p.n else []⟩
      match step p s act with
      | some s' => (s', completions')
      | none => st

def lowest (l : List Att) : Option Att :=
  l.foldl (fun acc a => match acc with
    | none => some a
    | some b => if a.chunk < b.chunk || (a.chunk == b.chunk && !a.hedge && b.hedge) then some a else some b) none

/-- After the scripted order: release the lowest in-flight attempt until the loop ends. -/
def drain (p : Params) (aggr : Bool) (tbl : List (Att × Resp)) : Nat → St × Nat → St × Nat
  | 0, st => st
  | fuel + 1, st =>
    if !running st.1 then st
    else match lowest st.1.inflight with
      | none => st
      | some a => drain p aggr tbl fuel (deliver p aggr tbl st a)

/-- `res=x<hex>` or `res=gen:<len>:<a>:<b>`: byte i of the resource is `(i / 4096) * a + b` (mod 256) —
a compact way to hand over multi-megabyte resources. -/
def parseRes (s : String) : Option Bytes :=
  match s.splitOn ":" with
  | ["gen", l, a, b] => match l.toNat?, a.toNat?, b.toNat? with
    | some l, some a, some b =>
      some (((List.range (l / 4096 + 1)).flatMap fun k => List.replicate 4096 (UInt8.ofNat (k * a + b))).take l)
    | _, _, _ => none
  | _ => parseHexArg s

/-- Short results are printed in full, long ones as length + polynomial fingerprint. -/
def showBytes (b : Bytes) : String :=
  if b.length ≤ 256 then hexArg b
  else s!"len={b.length} fp={b.foldl (fun h x => (h * 31 + x.toNat) % 1000000007) 7}"

def doFetch (ws : List String) : Option String := do
  let res ← (kv ws "res") >>= parseRes
  let thr ← (kv ws "thr") >>= String.toInt?
  let cs ← (kv ws "cs") >>= String.toInt?
  let par ← (kv ws "par") >>= String.toInt?
  let maxFetch ← (kv ws "maxfetch") >>= String.toInt?
  let hedging ← (kv ws "hedging") >>= flag
  let maxHedges ← (kv ws "maxhedges") >>= String.toInt?
  let headOk ← (kv ws "head") >>= flag
  let len ← (kv ws "len") >>= String.toInt?
  let ranges ← (kv ws "ranges") >>= flag
  let modeS ← kv ws "mode"
  let aggr ← if modeS = "aggr" then some true else if modeS = "none" then some false else none
  let tbl ← (kv ws "resp") >>= parseList parseRespEntry
  let order ← (kv ws "order") >>= parseList parseOrderEntry
  let simpleStatus ← (kv ws "simple") >>= String.toNat?
  let c : Cfg := ⟨thr, cs, par, maxFetch, hedging, maxHedges⟩
  pure <| match plan c headOk len ranges with
    | .simple => match fetchSimple maxFetch simpleStatus res with
      | some b => "simple ok " ++ showBytes b
      | none => "simple err"
    | .tooLarge => "toolarge"
    | .parallel n csz =>
      let p : Params := ⟨res, csz, n, hedging, maxHedges⟩
      let st0 : St × Nat := (init n, 0)
      let st1 := order.foldl (deliver p aggr tbl) st0
      let st2 := drain p aggr tbl (2 * n + 2) st1
      if running st2.1 then "still-running"
      else match finish st2.1 with
        | some b => "ok " ++ showBytes b
        | none => "err"

def step (st : Unit) (ws : List String) : Unit × String :=
  match ws with
  | "fetch" :: rest => (st, (doFetch rest).getD "bad-op")
  | _ => (st, "bad-op")

def drive : IO Unit := driveLoop () step

end Vgi.Drive.C32

def main : IO Unit := Vgi.Drive.C32.drive
