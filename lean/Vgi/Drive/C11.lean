import Vgi.Drive.StreamIO
import Vgi.Model.StreamParity
/-!
Line-protocol driver for C11. Script syntax: see `harness/c11.go`.
-/
namespace Vgi.Drive.C11
open Vgi Vgi.HttpStream Vgi.StreamParity Vgi.Generated.C16 Vgi.Drive.StreamIO

structure St where
  cfg : Cfg := { cacheOn := true, maxResp := 0, maxExt := 0, extOn := false, batchLimit := 0 }
  inst : Nat := 1

def parseCfg (ws : List String) : Option St :=
  ws.foldl (fun acc w => match acc with
    | none => none
    | some s =>
      match w.splitOn "=" with
      | [k, v] => match v.toNat? with
        | some n =>
          if k = "limit" then some { s with cfg := { s.cfg with batchLimit := n } }
          else if k = "cache" then some { s with cfg := { s.cfg with cacheOn := n != 0 } }
          else if k = "inst" then (if 1 ≤ n ∧ n ≤ 3 then some { s with inst := n } else none)
          else if k = "comp" then some s      -- response compression: lossless, not modelled (C17)
          else none
        | none => none
      | _ => none) (some {})

def parseInput (s : String) : Option InBatch :=
  if s = "x" then some { cancel := true } else
  let mk (k v : String) (md : List (Bytes × Bytes)) : Option InBatch :=
    match parseVals v with
    | some vs =>
      if k = "s" then some { kind := .same, vals := vs, md := md }
      else if k = "c" then some { kind := .castable, vals := vs, md := md }
      else if k = "b" then some { kind := .bad, vals := vs, md := md }
      else none
    | none => none
  match s.splitOn ":" with
  | [k, v] => mk k v []
  | [k, v, m] =>
    -- the client's own metadata: sorted, unique, none of the transport's keys
    match allSome ((m.splitOn ";").map fun kv =>
        match kv.splitOn "=" with
        | [a, b] => match hexBytes? a, hexBytes? b with
          | some ka, some vb => some (ka, vb)
          | _, _ => none
        | _ => none) with
    | some md =>
      if strictlySorted (md.map (·.1)) && md.all (fun kv => !isFramework kv.1) then mk k v md else none
    | none => none
  | _ => none

def sameKind : List InBatch → Bool
  | [] => true
  | b :: r => (r.all fun x => x.cancel || b.cancel || x.kind == b.kind) && sameKind r

def parseInputs (s : String) : Option (List InBatch) :=
  if s = "-" then some [] else
  match allSome ((s.splitOn ",").map parseInput) with
  | some l => if sameKind l then some l else none
  | none => none

def parseRoute (s : String) (inst : Nat) : Option (List Nat) :=
  match allSome (s.toList.map fun c => if '0' ≤ c ∧ c ≤ '2' then some ((c.toNat - 48) % inst) else none) with
  | some [] => none
  | r => r

def routeFn (l : List Nat) (n : Nat) : Nat := (l[n % l.length]?).getD 0

def parseOutcome (s : String) : Option InitOutcome :=
  if s = "ok" then some .ok else
  match s.toList with
  | 'f' :: r => (String.ofList r).toNat?.map InitOutcome.fail
  | 'p' :: r => (String.ofList r).toNat?.map InitOutcome.panic
  | _ => none

def showMd (md : List (Bytes × Bytes)) : String :=
  ",".intercalate (md.map fun kv => hexOfBytes kv.1 ++ "=" ++ hexOfBytes kv.2)

def showItem : VItem → String
  | .log m => s!"L{m}"
  | .data vs md => "D[" ++ showInts vs ++ "]{" ++ showMd md ++ "}"

def showTerm : Term → String
  | .finished => "fin"
  | .error e => "err:" ++ errName e
  | .cancelled => "cancel"
  | .idle => "idle"

def showView (v : View) : String :=
  "H" ++ (match v.header with | some h => toString h | none => "-") ++ " " ++ showList (v.items.map showItem) ++ " " ++
    showTerm v.term

def step (st : St) (ws : List String) : St × String :=
  match ws with
  | "cfg" :: rest =>
    match parseCfg rest with
    | some s => (s, "ok")
    | none => (st, "bad-op")
  | "run" :: method :: kind :: hdr :: ilogs :: iout :: decl :: prog :: route :: inputs :: rest =>
    -- optional ballast word (z<n> | r<n>): the size of the serialized state; behaviour must not depend on it
    let padOk := match rest with
      | [] => true
      | [p] => (match p.toList with
        | 'z' :: r => (String.ofList r).toNat?.isSome
        | 'r' :: r => (String.ofList r).toNat?.isSome
        | _ => false)
      | _ => false
    if !padOk then (st, "bad-op") else
    let methodOk := method = "ex" || method = "pr" || method = "exh" || method = "prh" || method = "dyn"
    let hdr? : Option (Option Nat) := if hdr = "-" then some none else match hdr.toNat? with
      | some n => if n > 0 then some (some n) else none
      | none => none
    match methodOk, parseKind kind, hdr?, ilogs.toNat?, parseOutcome iout, parseFlag decl, parseProg prog,
          parseRoute route st.inst, parseInputs inputs with
    | true, some pr, some h, some nl, some out, some dc, some p, some rt, some ins =>
      let dyn := method = "dyn"
      let kindOk := dyn || (pr == (method = "pr" || method = "prh"))
      if !kindOk then (st, "bad-op") else
      let rq : InitReq :=
        { st := { prog := p, pos := 0, producer := pr, cancel := .absent }, logs := List.range nl, outcome := out,
          hasHeader := method = "exh" || method = "prh" || dyn, header := h, dynamic := dyn,
          declared := if dyn then dc else true }
      let pv := pipeRun rq ins
      let hv := httpRun st.cfg (routeFn rt) (p.length + 3) World.empty rq ins
      (st, "pipe " ++ showView pv ++ " | http " ++ showView hv)
    | _, _, _, _, _, _, _, _, _ => (st, "bad-op")
  | _ => (st, "bad-op")

def drive : IO Unit := driveLoop ({} : St) step

end Vgi.Drive.C11

def main : IO Unit := Vgi.Drive.C11.drive
