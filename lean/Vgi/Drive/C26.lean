import Vgi.Model.Introspect
namespace Vgi.Drive.C26
open Vgi Vgi.Introspect

structure St where
  cfg : Option Cfg := none
  lim : Limiter := Limiter.fresh 1000000000
  now : Int := 0

def parseList (s : String) : Option (List Bytes) :=
  if s = "-" then some [] else (s.splitOn ",").mapM parseHexArg

def parseAuth (s : String) : Option Auth :=
  match s.splitOn ":" with
  | ["fail"] => some .failed
  | ["ctx", a, p] =>
    match parseHexArg p with
    | some p => if a = "1" then some (.ctx true p) else if a = "0" then some (.ctx false p) else none
    | none => none
  | _ => none

def parseRes (s : String) : Option Res :=
  match s.splitOn ":" with
  | ["unknown"] => some (.unknown [] [] 0)
  | ["no", p, n, ttl] =>       -- ok = false with an identity filled in
    match parseHexArg p, parseHexArg n, ttl.toInt? with
    | some p, some n, some ttl => some (.unknown p n ttl)
    | _, _, _ => none
  | ["id", p, n, ttl] =>
    match parseHexArg p, parseHexArg n, ttl.toInt? with
    | some p, some n, some ttl => some (.identity p n ttl)
    | _, _, _ => none
  | ["unavail", ra, e] =>
    match ra.toInt?, parseHexArg e with
    | some ra, some e => some (.unavailable (if ra = -1 then none else some ra) e)   -- -1 = a plain error
    | _, _ => none
  | _ => none

def parseJson (s : String) : Option (Option Bytes) :=
  if s = "-" then some none else (parseHexArg s).map some

def showResp : Resp → String
  | .authAnswered => "auth-answered"
  | .refusal c ra =>
    let r := match ra with | some n => toString n | none => "-"
    s!"refusal {c.status} {c.body} ra={r}"
  | .ok p n ttl => s!"ok {hexArg p} {hexArg n} {ttl}"

def showOut (o : Out) : String :=
  let calls := if o.resolverCalls.isEmpty then "-" else ",".intercalate (o.resolverCalls.map hexArg)
  -- one `d` per log record that carries the credential's digest (the only log content compared)
  let log := "".intercalate (o.log.map fun r => if r.digest.isSome then "d" else "")
  s!"{showResp o.resp} read={if o.bodyRead then 1 else 0} calls={calls} log={log}"

def step (st : St) (ws : List String) : St × String :=
  match ws with
  | ["cfg", en, ps, ttl, rate, win] =>
    match parseList ps, ttl.toInt?, rate.toInt?, win.toInt? with
    | some ps, some ttl, some rate, some win =>
      if en = "0" then ({ cfg := none, lim := Limiter.fresh win, now := 0 }, "disabled")
      else if en = "1" then
        match enable ps ttl rate with
        | some c => ({ cfg := some c, lim := Limiter.fresh win, now := 0 }, "ok")
        | none => ({ cfg := none, lim := Limiter.fresh win, now := 0 }, "err:config")
      else (st, "bad-op")
    | _, _, _, _ => (st, "bad-op")
  | ["shift", d] =>
    match d.toInt? with
    | some d => ({ st with now := st.now + d }, "ok")
    | none => (st, "bad-op")
  | ["req", auth, cl, body, json, res] =>
    match parseAuth auth, cl.toInt?, parseHexArg body, parseJson json, parseRes res with
    | some auth, some cl, some body, some json, some res =>
      let (lim', o) := handle st.cfg st.lim st.now auth cl body (fun _ => json) (fun _ => res) id
      ({ st with lim := lim' }, showOut o)
    | _, _, _, _, _ => (st, "bad-op")
  | _ => (st, "bad-op")

def drive : IO Unit := driveLoop ({} : St) step

end Vgi.Drive.C26

def main : IO Unit := Vgi.Drive.C26.drive
