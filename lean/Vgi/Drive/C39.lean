import Vgi.Model.AccessLogEmit
/-!
Line protocol for C39 (one hook per case):

  hook <rateBits|none> <thr|-> <q|sync>   construct the hook; SetSampleRate / SetAsync
  emit <id> <status> <sid> <rid> [extras] AccessLogHook.emit; field tokens: - | n | t | f | i<int> | x<hex> (everything but x… is a non-string);
                                          extras: - | x<key>:<field>,… (every other key of the record)
  prime                                   harness primer: enqueue record 0 straight into the queue
  w                                       the writer's current write returns (then it eagerly
                                          receives the next queued record, or exits if closed);
                                          honoured only when `canW` (see below), else "idle"
  drain                                   repeat `w` while `canW`
  close                                   asyncEmitter.close (flag + channel close)
  hclose                                  AccessLogHook.Close(): close, drain, async := nil

The writer goroutine is eager: whenever it holds nothing and the queue is non-empty it
receives; the driver applies `step .recv` / `step .exit` after every operation (`settle`).
-/
namespace Vgi.Drive.C39
open Vgi Vgi.AccessLogEmit

structure St where
  hook : Option Hook := none
  rateBits : Nat := 0
  seenA : Nat := 0      -- async-written records already reported
  seenD : Nat := 0      -- directly written records already reported

def parseField (s : String) : Option Field :=
  if s = "-" then some .absent
  else if s = "n" || s = "t" || s = "f" then some .other          -- number 7 / true / false
  else if s.startsWith "i" && (s.drop 1).toInt?.isSome then some .other   -- an integer
  else (parseHexArg s).map Field.str

def parseExtra (s : String) : Option (Bytes × Field) :=
  match s.splitOn ":" with
  | [k, v] =>
    match parseHexArg k, parseField v with
    | some kb, some f => some (kb, f)
    | _, _ => none
  | _ => none

def parseExtras (s : String) : Option (List (Bytes × Field)) :=
  if s = "-" then some []
  else (s.splitOn ",").foldr (fun x acc =>
    match parseExtra x, acc with
    | some e, some r => some (e :: r)
    | _, _ => none) (some [])

def settle (s : Sys) : Sys :=
  let s := (step s .recv).getD s
  (step s .exit).getD s

def showRec (bits : Nat) (r : Rec) : String :=
  s!"{r.id}:{r.dropped}:" ++
    match r.sampleRate with
    | none => "-"
    | some b => if b = bits then "r" else "bad"

def b01 (b : Bool) : String := if b then "1" else "0"

def joinOr (l : List String) : String := if l.isEmpty then "-" else ",".intercalate l

/-- State summary + the records written since the previous summary. -/
def obs (st : St) (h : Hook) : St × String :=
  let aw := match h.async with | some a => a.written | none => []
  let newA := aw.drop st.seenA
  let newD := h.direct.drop st.seenD
  let out := joinOr ((newA ++ newD).map (showRec st.rateBits))
  let st' := { st with hook := some h, seenA := st.seenA + newA.length, seenD := st.seenD + newD.length }
  match h.async with
  | some a =>
    let hand := match a.hand with | some r => toString r.id | none => "-"
    (st', s!"q={a.queue.length} p={a.pending} c={b01 a.closed} d={b01 a.done} h={hand} out={out}")
  | none => (st', s!"q=- p=- c=- d=- h=- out={out}")

def onAsync (h : Hook) (f : Sys → Sys) : Hook :=
  match h.async with
  | some a => { h with async := some (f a) }
  | none => h

/-- `w`: the current write returns. -/
def wrote (a : Sys) : Sys := settle ((step a .wrote).getD a)

/-- Scheduling discipline of the harness: while the emitter is open the writer keeps one record
in hand unless another is queued; after close it may run dry. -/
def canW (a : Sys) : Bool := a.hand.isSome && (!a.queue.isEmpty || a.closed)

def drainAll : Nat → Sys → Sys
  | 0, a => a
  | fuel + 1, a => if canW a then drainAll fuel (wrote a) else a

def primer : Rec :=
  { id := 0, status := .str [111, 107], streamId := .absent, requestId := .absent,
    sampleRate := none, dropped := 0 }

def step (st : St) (ws : List String) : St × String :=
  match st.hook, ws with
  | none, ["hook", rb, th, q] =>
    let h0 := initHook
    -- SetSampleRate
    let r1 : Option (Hook × String × Nat) :=
      if rb = "none" then some (h0, "-", 0)
      else match rb.toNat?, th.toNat? with
        | some bits, some thr =>
          (match setSampleRate h0 bits thr with
           | some h1 => some (h1, "ok", bits)
           | none => some (h0, "err", bits))
        | some bits, none =>
          if th = "-" then
            (match setSampleRate h0 bits 0 with
             | some h1 => some (h1, "ok", bits)
             | none => some (h0, "err", bits))
          else none
        | _, _ => none
    match r1 with
    | none => (st, "bad-op")
    | some (h1, rs, bits) =>
      -- SetAsync
      let r2 : Option Hook :=
        if q = "sync" then some h1
        else match q.toInt? with
          | some k => setAsync h1 k
          | none => none
      match r2 with
      | none => (st, "bad-op")
      | some h2 =>
        let cap := match h2.async with | some a => toString a.cap | none => "-"
        ({ st with hook := some h2, rateBits := bits },
          s!"ok rate={rs} sampler={b01 h2.sampler.isSome} async={cap}")
  | none, _ => (st, "err:no-hook")
  | some h, ["emit", id, stt, sid, rid] =>
    match id.toNat?, parseField stt, parseField sid, parseField rid with
    | some i, some fs, some fsid, some frid =>
      let r : Rec := { id := i, status := fs, streamId := fsid, requestId := frid,
                       sampleRate := none, dropped := 0 }
      obs st (onAsync (emit h r) settle)
    | _, _, _, _ => (st, "bad-op")
  | some h, ["emit", id, stt, sid, rid, ex] =>
    match id.toNat?, parseField stt, parseField sid, parseField rid, parseExtras ex with
    | some i, some fs, some fsid, some frid, some extras =>
      let r : Rec := { id := i, status := fs, streamId := fsid, requestId := frid,
                       sampleRate := none, dropped := 0, extra := extras }
      obs st (onAsync (emit h r) settle)
    | _, _, _, _, _ => (st, "bad-op")
  | some h, ["prime"] =>
    match h.async with
    | some a => obs st { h with async := some (settle (enqueue a primer)) }
    | none => (st, "bad-op")
  | some h, ["w"] =>
    match h.async with
    | some a => if canW a then obs st { h with async := some (wrote a) } else (st, "idle")
    | none => (st, "idle")
  | some h, ["drain"] =>
    obs st (onAsync h fun a => drainAll (a.queue.length + 2) a)
  | some h, ["close"] =>
    match h.async with
    | some a => obs st { h with async := some (settle ((AccessLogEmit.step a .close).getD a)) }
    | none => (st, "idle")
  | some h, ["hclose"] =>
    match h.async with
    | some a =>
      let a1 := settle ((AccessLogEmit.step a .close).getD a)
      let a2 := drainAll (a1.queue.length + 2) a1
      -- report what the drain wrote, then retire the emitter (h.async := nil)
      let (st1, line) := obs st { h with async := some a2 }
      ({ st1 with hook := some { h with async := none }, seenA := 0 }, line ++ " retired")
    | none => (st, "idle")
  | _, _ => (st, "bad-op")

def drive : IO Unit := driveLoop ({} : St) step

end Vgi.Drive.C39

def main : IO Unit := Vgi.Drive.C39.drive
