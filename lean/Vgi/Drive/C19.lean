import Vgi.Drive.StreamIO
/-!
Line-protocol driver for C19. Script syntax: see `harness/c19.go` (the model lines carry the
resolved caps and the measured sizes).
-/
namespace Vgi.Drive.C19
open Vgi Vgi.HttpStream Vgi.Generated.C16 Vgi.Drive.StreamIO

structure St where
  cfg : Option Cfg := none
  hdr : Bool := false   -- `cfg hdr=1`: the static methods are registered with a header type
  w : World := World.empty

def defaultCfg : Cfg := { cacheOn := true, maxResp := 0, maxExt := 0, extOn := false, batchLimit := 0 }

def parseCfg (ws : List String) : Option Cfg :=
  ws.foldl (fun acc w => match acc with
    | none => none
    | some c =>
      match w.splitOn "=" with
      | [k, v] => match v.toNat? with
        | some n =>
          if k = "cache" then some { c with cacheOn := n != 0 }
          else if k = "limit" then some { c with batchLimit := n }
          else if k = "ext" then some { c with extOn := n != 0 }
          -- `ExternalLocationConfig.threshold()`: a non-positive setting means 1 MiB
          else if k = "thr" then some { c with threshold := if n = 0 then 1048576 else n }
          else if k = "zstd" || k = "inst" || k = "hdr" then some c
          else none
        | none => none
      | _ => none) (some defaultCfg)

def parseNatList (s : String) : Option (List Nat) :=
  if s = "" then some [] else allSome ((s.splitOn ".").map String.toNat?)

def parseKVList (key : String) (s : String) : Option (List Nat) :=
  match s.splitOn "=" with
  | [k, v] => if k = key then parseNatList v else none
  | _ => none

def zipTicks : List Nat → List Nat → List TickEnv
  | b :: bs, r :: rs => { buf := b, raw := r } :: zipTicks bs rs
  | b :: bs, [] => { buf := b, raw := 0 } :: zipTicks bs []
  | [], _ => []

/-- the trailing `maxresp= maxext= wire= bufs= raws= sizes= [body0=]` words (`body0`: bytes of the
header stream already in the response buffer when a producer's /init turn starts its loop) -/
def parseEnvWords (ws : List String) : Option (Nat × Nat × Env) :=
  let core (a b c d e f : String) (b0 : Nat) : Option (Nat × Nat × Env) :=
    match parseKV "maxresp" a, parseKV "maxext" b, parseKV "wire" c, parseKVList "bufs" d,
          parseKVList "raws" e, parseKVList "sizes" f with
    | some mr, some mx, some wire, some bufs, some raws, some sizes =>
      some (mr, mx, { wire := wire, ticks := zipTicks bufs raws, body0 := b0, sizes := sizes })
    | _, _, _, _, _, _ => none
  match ws with
  | [a, b, c, d, e, f] => core a b c d e f 0
  | [a, b, c, d, e, f, g] => (parseKV "body0" g).bind (core a b c d e f)
  | _ => none

def showPos : Event → String
  | .exchange pos _ _ => s!"E{pos}"
  | .produce pos _ => s!"P{pos}"
  | .cancel => "K"

def showRespUp (w : World) (r : Resp) (evs : List Event) (up : Nat) : String :=
  toString r.status ++ (if r.rpcErr then "E" else "") ++ " " ++ showList ((r.header ++ r.batches).map (showBatch w)) ++
    " | " ++ showList (evs.map showPos) ++ s!" | up={up}"

/-- uploads of a continuation request (recomputed with the same model functions the response comes from) -/
def uploadsOf (cfg : Cfg) (w : World) (req : Req) : Nat :=
  match getFirst keyState req.md with
  | some tv => match openCursor w tv with
    | some cur =>
      if (getFirst keyCancel req.md).isSome then 0
      else if req.routeProducer != cur.st.producer then 0
      else match resolveCall cfg w req.inst cur (getFirst keyCall req.md) with
        | .error _ => 0
        | .ok _ =>
          if req.routeProducer then
            (produceLoop cfg (cur.st.prog.drop cur.st.pos) cur.st.pos none 0 0 req.env.ticks req.env.body0 req.env.sizes).uploads.length
          else if req.schemaOk then exchangeUploads cfg cur req else 0
    | none => 0
  | none => 0

def plainBatch : RBatch → String
  | .log m => s!"L{m}"
  | .exc e => "X:" ++ errName e
  | .data vals m => "D[" ++ showInts vals ++ "]{" ++ showLits m ++ "}"
  | .token m => "D[]{" ++ showLits m ++ "}"

def step (st : St) (ws : List String) : St × String :=
  let cfg0 := st.cfg.getD defaultCfg
  match ws with
  | "cfg" :: rest =>
    match st.cfg, parseCfg rest with
    | none, some c => ({ st with cfg := some c, hdr := rest.contains "hdr=1" }, "ok")
    | _, _ => (st, "bad-op")
  | ["u", logs, size, mode, a, b, c, d, e] =>
    match logs.toNat?, size.toNat?, parseKV "maxresp" a, parseKV "maxext" b, parseKV "wire" c, parseKV "buf" d, parseKV "raw" e with
    | some nl, some sz, some mr, some mx, some wire, some buf, some raw =>
      let cfg := { cfg0 with maxResp := mr, maxExt := mx }
      let out? : Option UOutcome :=
        if mode = "ok" then some (.value sz) else if mode = "fail" then some (.fail sz)
        else if mode = "panic" then some (.panic sz) else none
      match out? with
      | some o =>
        let rq : UReq := { logs := List.range nl, outcome := o, env := { wire := wire, ticks := [{ buf := buf, raw := raw }] } }
        let r := handleUnary cfg rq
        ({ st with cfg := some cfg0 },
          toString r.status ++ (if r.rpcErr then "E" else "") ++ " " ++ showList (r.batches.map (showBatch st.w)) ++
            s!" | up={unaryUploads cfg rq}")
      | none => (st, "bad-op")
    | _, _, _, _, _, _, _ => (st, "bad-op")
  | "init" :: inst :: kind :: cancel :: prog :: rest0 =>
    -- optional `H<n>`: the method returns a header value (n extra bytes: a size, known to the model as `body0`)
    let (header, rest) : Option Nat × List String := match rest0 with
      | h :: r => if h.startsWith "H" then (some 1, r) else (none, rest0)
      | [] => (none, rest0)
    match inst.toNat?, parseKind kind, parseCancel cancel, parseProg prog, parseEnvWords rest with
    | some i, some pr, some ca, some p, some (mr, mx, env) =>
      let cfg := { cfg0 with maxResp := mr, maxExt := mx }
      let rq : InitReq := { inst := i, st := { prog := p, pos := 0, producer := pr, cancel := ca }, env := env,
                            hasHeader := st.hdr, header := header }
      let (resp, w', evs) := handleInit cfg st.w rq
      let up := if pr then (produceLoop cfg p 0 none 0 0 env.ticks env.body0 env.sizes).uploads.length else 0
      ({ st with cfg := some cfg0, w := w' }, showRespUp w' resp evs up)
    | _, _, _, _, _ => (st, "bad-op")
  | "x" :: inst :: route :: schema :: vals :: rest =>
    let n := rest.length
    if n < 6 then (st, "bad-op") else
    match inst.toNat?, parseKind route, schemaOk? schema, parseVals vals, parseEnvWords (rest.drop (n - 6)),
          parseMetaWords st.w (rest.take (n - 6)) with
    | some i, some pr, some sok, some vs, some (mr, mx, env), some md =>
      let cfg := { cfg0 with maxResp := mr, maxExt := mx }
      let req : Req := { inst := i, routeProducer := pr, md := md, vals := if schema = "empty" then [] else vs,
                         schemaOk := sok, env := env }
      let (resp, w', evs) := handleExchange cfg st.w req
      ({ st with cfg := some cfg0, w := w' }, showRespUp w' resp evs (uploadsOf cfg st.w req))
    | _, _, _, _, _, _ => (st, "bad-op")
  | ["drain", tok, cap] =>
    match parseVal st.w tok, parseKV "maxresp" cap with
    | some tv, some _ =>
      match openCursor st.w tv with
      | some cur =>
        let r := fullRun (cur.st.prog.drop cur.st.pos)
        (st, (if r.2.2.isSome then "err" else "end") ++ " " ++ showList (r.1.map plainBatch))
      | none => (st, "http400 X:badToken")
    | _, _ => (st, "bad-op")
  | _ => (st, "bad-op")

def drive : IO Unit := driveLoop ({} : St) step

end Vgi.Drive.C19

def main : IO Unit := Vgi.Drive.C19.drive
