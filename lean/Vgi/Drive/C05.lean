import Vgi.Model.Errors
/-!
Line protocol for C05.

```
raise <transport> <site> <debug> <outcome…>     handler-raised error at a site (transport: pipe|http, ignored
                                                by the model: both transports share the model)
write <debug> <err…>                            writeErrorBatch on a directly constructed error value
site    := unary | init | produce | exchange
debug   := 0 | 1
outcome := ret <err> | panic <pv>
pv      := str x<hex> | int <n> | err <err> | nil
err     := rpc xTY xMSG xKIND xTRACEBACK xREQUESTID | notimpl xMETHOD xMSG | pv xMSG | lost xREASON | drain | cap xMSG
         | plain xMSG | wrap xPFX <err> | join <err> <err>
         | custom <variant> xMSG xKIND xTYPE
variant := val | ptr | kind | type | both      (harness error types: with/without ErrorKind()/ErrorType())
```
Answer: `type=x.. msg=x.. log=x.. level=EXCEPTION kind=(x..|-) tb=(0|1) frames=(0|1)`.
-/
namespace Vgi.Drive.C05
open Vgi Vgi.Errors

def hexS (s : String) : String := hexArg (bytesOfString s)

def strOfHex (w : String) : Option String :=
  match parseHexArg w with
  | some bs => String.fromUTF8? (ByteArray.mk bs.toArray)
  | none => none

/-- The harness's user-defined error types (harness/c05.go). -/
def customOf (variant msg kind ty : String) : Option GoErr :=
  match variant with
  | "val" => some (.custom "main.c05ValErr" msg none none)
  | "ptr" => some (.custom "*main.c05PtrErr" msg none none)
  | "kind" => some (.custom "*main.c05KindErr" msg (some kind) none)
  | "type" => some (.custom "main.c05TypeErr" msg none (some ty))
  | "both" => some (.custom "*main.c05BothErr" msg (some kind) (some ty))
  | _ => none

/-- Recursive-descent parser with fuel (the token count bounds the depth). -/
def parseErr : Nat → List String → Option (GoErr × List String)
  | 0, _ => none
  | fuel + 1, ws =>
    match ws with
    | "rpc" :: a :: b :: c :: d :: e :: rest =>
      match strOfHex a, strOfHex b, strOfHex c, strOfHex d, strOfHex e with
      | some ty, some msg, some kind, some tb, some rid => some (.rpc ty msg kind tb rid, rest)
      | _, _, _, _, _ => none
    | "notimpl" :: a :: b :: rest =>
      match strOfHex a, strOfHex b with
      | some m, some msg => some (.notImpl m msg, rest)
      | _, _ => none
    | "pv" :: a :: rest => (strOfHex a).map fun m => (.protoVersion m, rest)
    | "lost" :: a :: rest => (strOfHex a).map fun m => (.sessionLost m, rest)
    | "drain" :: rest => some (.draining, rest)
    | "cap" :: a :: rest => (strOfHex a).map fun m => (.extCap m, rest)
    | "plain" :: a :: rest => (strOfHex a).map fun m => (.plain m, rest)
    | "wrap" :: a :: rest =>
      match strOfHex a, parseErr fuel rest with
      | some pfx, some (inner, rest') => some (.wrapped pfx inner, rest')
      | _, _ => none
    | "join" :: rest =>
      match parseErr fuel rest with
      | some (a, rest') =>
        match parseErr fuel rest' with
        | some (b, rest'') => some (.joined a b, rest'')
        | none => none
      | none => none
    | "custom" :: v :: a :: b :: c :: rest =>
      match strOfHex a, strOfHex b, strOfHex c with
      | some msg, some kind, some ty => (customOf v msg kind ty).map fun e => (e, rest)
      | _, _, _ => none
    | _ => none

def parseOutcome (ws : List String) : Option (Outcome × List String) :=
  match ws with
  | "ret" :: rest => (parseErr (rest.length + 1) rest).map fun (e, r) => (.ret e, r)
  | "panic" :: "str" :: a :: rest => (strOfHex a).map fun s => (.panic (.str s), rest)
  | "panic" :: "int" :: n :: rest => n.toInt?.map fun k => (.panic (.int k), rest)
  | "panic" :: "nil" :: rest => some (.panic .nil, rest)
  | "panic" :: "err" :: rest => (parseErr (rest.length + 1) rest).map fun (e, r) => (.panic (.err e), r)
  | _ => none

def parseSite : String → Option Site
  | "unary" => some .unary
  | "init" => some .streamInit
  | "produce" => some .produce
  | "exchange" => some .exchange
  | _ => none

def parseDebug : String → Option Bool
  | "0" => some false
  | "1" => some true
  | _ => none

/-- The runtime always reports a non-empty stack and at least one caller; the model is
parametric in them, the driver only reports presence. -/
def someEnv : Env := { stack := "goroutine", callers := [⟨"f.go", 1, "f"⟩] }

def render (b : Envelope) : String :=
  let kind := match b.errorKind with | some k => hexS k | none => "-"
  s!"type={hexS b.extra.exceptionType} msg={hexS b.extra.exceptionMessage} log={hexS b.logMessage} " ++
  s!"level={b.level} kind={kind} tb={if b.extra.traceback ≠ "" then 1 else 0} " ++
  s!"frames={if b.extra.frames ≠ [] then 1 else 0}"

def step (st : Unit) (ws : List String) : Unit × String :=
  match ws with
  | "raise" :: tr :: site :: dbg :: rest =>
    if tr ≠ "pipe" ∧ tr ≠ "http" then (st, "bad-op") else
    match parseSite site, parseDebug dbg, parseOutcome rest with
    | some s, some d, some (o, []) => (st, render (exceptionBatch someEnv s o d))
    | _, _, _ => (st, "bad-op")
  | "write" :: dbg :: rest =>
    match parseDebug dbg, parseErr (rest.length + 1) rest with
    | some d, some (e, []) => (st, render (writeErrorBatch someEnv e d))
    | _, _ => (st, "bad-op")
  | _ => (st, "bad-op")

def drive : IO Unit := driveLoop () step

end Vgi.Drive.C05

def main : IO Unit := Vgi.Drive.C05.drive
