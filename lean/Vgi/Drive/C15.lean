import Vgi.Model.TokenScript
/-! Line-protocol driver for C15: the shared symbolic-token world (`Vgi.Token.step`). -/
namespace Vgi.Drive.C15
open Vgi Vgi.Token

def step (w : World) (ws : List String) : World × String := Vgi.Token.step w ws

def drive : IO Unit := driveLoop World.empty step

end Vgi.Drive.C15

def main : IO Unit := Vgi.Drive.C15.drive
